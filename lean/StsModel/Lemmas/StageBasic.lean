/-
  Generic machinery for invariants of the receiver model that must hold at *every crash
  point*: an invariant preserved by each primitive under a guard, plus a proof that each
  operation's primitive list satisfies the guards, holds after every cut of every operation.
-/
import StsModel.Model.StageSem

namespace Sts.Stage

/-- `Guards G s ps`: running `ps` from `s`, each primitive meets guard `G` in the state it
    is executed in. -/
def Guards (G : State → Prim → Prop) : State → List Prim → Prop
  | _, [] => True
  | s, p :: ps => G s p ∧ Guards G (applyPrim s p) ps

theorem Guards.append {G : State → Prim → Prop} {s : State} {ps qs : List Prim}
    (h1 : Guards G s ps) (h2 : Guards G (run s ps) qs) : Guards G s (ps ++ qs) := by
  induction ps generalizing s with
  | nil => simpa using h2
  | cons p ps ih => exact ⟨h1.1, ih h1.2 (by simpa using h2)⟩

theorem Guards.of_append_left {G : State → Prim → Prop} {s : State} {ps qs : List Prim}
    (h : Guards G s (ps ++ qs)) : Guards G s ps := by
  induction ps generalizing s with
  | nil => trivial
  | cons p ps ih => exact ⟨h.1, ih h.2⟩

/-- an invariant preserved by guarded primitives holds after the whole list … -/
theorem inv_run {P : State → Prop} {G : State → Prim → Prop}
    (hstep : ∀ s p, P s → G s p → P (applyPrim s p)) :
    ∀ (ps : List Prim) (s : State), P s → Guards G s ps → P (run s ps) := by
  intro ps
  induction ps with
  | nil => intro s h _; simpa using h
  | cons p ps ih => intro s h g; exact ih _ (hstep s p h g.1) g.2

/-- … and after every cut of it (every crash point inside the operation). -/
theorem inv_cut {P : State → Prop} {G : State → Prim → Prop}
    (hstep : ∀ s p, P s → G s p → P (applyPrim s p))
    (ps : List Prim) (s : State) (h : P s) (g : Guards G s ps) (k : Nat) :
    P (run s (cut k ps)) := by
  obtain ⟨qs, hq⟩ := cut_prefix k ps
  have g' : Guards G s (cut k ps ++ qs) := by rw [← hq]; exact g
  exact inv_run hstep _ s h (Guards.of_append_left g')

/-- lifting to all reachable states: `P` must survive `crash` (typically because it only
    constrains the disk, or holds for empty memory). -/
theorem inv_reachable {H : Body → String} {P : State → Prop} {G : State → Prim → Prop}
    (h0 : P init)
    (hstep : ∀ s p, P s → G s p → P (applyPrim s p))
    (hcrash : ∀ s, P s → P (crash s))
    (hops : ∀ s o, Reachable H s → P s → Guards G s (effects H s o))
    {s : State} (hr : Reachable H s) : P s := by
  refine Reachable.induction (H := H) h0 ?_ hr
  intro s e hr hp
  cases e with
  | op o => exact inv_run hstep _ s hp (hops s o hr hp)
  | cutOp k o => exact hcrash _ (inv_cut hstep _ s hp (hops s o hr hp) k)
  | crash => exact hcrash s hp

end Sts.Stage

namespace Sts.Stage

/-- a guard that never gets harder to meet as primitives run can be checked in the start
    state for the whole list. -/
theorem Guards.of_forall_mono {G : State → Prim → Prop}
    (hmono : ∀ s q p, G s p → G (applyPrim s q) p) :
    ∀ (ps : List Prim) (s : State), (∀ p ∈ ps, G s p) → Guards G s ps := by
  intro ps
  induction ps with
  | nil => intro _ _; trivial
  | cons p ps ih =>
    intro s h
    refine ⟨h p (by simp), ih _ ?_⟩
    intro q hq
    exact hmono s p q (h q (by simp [hq]))

theorem mem_run_log (s : State) (ps : List Prim) (r : LogRec) (h : r ∈ s.disk.log) :
    r ∈ (run s ps).disk.log := by
  induction ps generalizing s with
  | nil => simpa using h
  | cons p ps ih =>
    apply ih
    cases p <;> simp [applyPrim, applyDisk] <;> (try split) <;> (try split) <;> (try simp_all)

theorem log_mono_prim (s : State) (p : Prim) (r : LogRec) (h : r ∈ s.disk.log) :
    r ∈ (applyPrim s p).disk.log := mem_run_log s [p] r h

/-! ### Recover's validate loop -/

/-- one entry of Recover's validate list: the duplicate branch or the validation -/
theorem recoverValOne_cases (H : Body → String) (t : State) (now : Int) (x : Name × Cmp) :
    (recoverDup t.mem x.1 x.2 = true ∧
      recoverValOne H t now x = [Prim.rmFull x.1, Prim.rmCmp x.1, Prim.lockDel x.1]) ∨
    (recoverDup t.mem x.1 x.2 = false ∧
      recoverValOne H t now x = toCache t.mem x.1 (Entry.ofCmp x.2 .received) .received now ++
        processCore H (run t (toCache t.mem x.1 (Entry.ofCmp x.2 .received) .received now)) x.1
          { Entry.ofCmp x.2 .received with time := now } now) := by
  unfold recoverValOne
  cases h : recoverDup t.mem x.1 x.2 <;> simp

/-- a Boolean property of primitives that the duplicate branch, `toCache … received` and
    `processCore` have is a property of every entry of the validate list -/
theorem recoverValOne_all (b : Prim → Bool) (H : Body → String) (t : State) (now : Int)
    (x : Name × Cmp) (h1 : b (Prim.rmFull x.1) = true) (h2 : b (Prim.rmCmp x.1) = true)
    (h3 : b (Prim.lockDel x.1) = true)
    (h4 : (toCache t.mem x.1 (Entry.ofCmp x.2 .received) .received now).all b = true)
    (h5 : (processCore H (run t (toCache t.mem x.1 (Entry.ofCmp x.2 .received) .received now)) x.1
      { Entry.ofCmp x.2 .received with time := now } now).all b = true) :
    (recoverValOne H t now x).all b = true := by
  rcases recoverValOne_cases H t now x with ⟨_, h⟩ | ⟨_, h⟩ <;> rw [h]
  · simp [h1, h2, h3]
  · simp [h4, h5]

end Sts.Stage
