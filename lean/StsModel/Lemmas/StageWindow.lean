/-
  Invariants of the receiver model in the split semantics of the finalize handler
  (Model/StageSem.lean: `WEv` = every atomic event, plus `finhDecide` / `finhDo` / `cutFinhDo`
  with arbitrary events in the window between the handler's decision and `finalize`).

  `inv_reachableW` is `inv_reachable` for that semantics: besides the guards of every atomic
  operation one needs the guards of the decision phase and of `finalize` executed for the HELD
  item on whatever state the window left. With it: `finalized_implies_logged_W` (a file whose
  cache state is finalized or logged has a receive-log record) and `held_prev_logged` (the
  predecessor of the held item has a record: the decision saw it delivered, and the log only
  grows).
-/
import StsModel.Props.C04

namespace Sts.Stage

/-- lifting an invariant of the disk/memory state to every state of the split semantics -/
theorem inv_reachableW {H : Body → String} {P : State → Prop} {G : State → Prim → Prop}
    (h0 : P init)
    (hstep : ∀ s p, P s → G s p → P (applyPrim s p))
    (hcrash : ∀ s, P s → P (crash s))
    (hops : ∀ w o, ReachableW H w → P w.st → Guards G w.st (effects H w.st o))
    (hdec : ∀ w n now, ReachableW H w → P w.st → Guards G w.st (finhDecideEffects w.st n now))
    (hdo : ∀ w n e now, ReachableW H w → w.held = some (n, e) → P w.st →
      Guards G w.st (finhDoEffects w.st n e now))
    {w : WState} (hr : ReachableW H w) : P w.st := by
  refine ReachableW.induction (H := H) (P := fun w => P w.st) h0 ?_ hr
  intro w e hr hp
  cases e with
  | ev e =>
    cases e with
    | op o => exact inv_run hstep _ w.st hp (hops w o hr hp)
    | cutOp k o => exact hcrash _ (inv_cut hstep _ w.st hp (hops w o hr hp) k)
    | crash => exact hcrash _ hp
  | finhDecide n now =>
    simp only [wstep]
    cases w.held with
    | some _ => exact hp
    | none => exact inv_run hstep _ w.st hp (hdec w n now hr hp)
  | finhDo now =>
    simp only [wstep]
    cases hh : w.held with
    | none => exact hp
    | some x =>
      obtain ⟨n, it⟩ := x
      exact inv_run hstep _ w.st hp (hdo w n it now hr hh hp)
  | cutFinhDo k now =>
    simp only [wstep]
    cases hh : w.held with
    | none => exact hp
    | some x =>
      obtain ⟨n, it⟩ := x
      exact hcrash _ (inv_cut hstep _ w.st hp (hdo w n it now hr hh hp) k)

theorem finhDecide_mild (s : State) (n : Name) (now : Int) :
    (finhDecideEffects s n now).all mild = true := by
  unfold finhDecideEffects
  split
  · rfl
  · simp only [List.all_append, Bool.and_eq_true]
    refine ⟨by simp [mild], ?_⟩
    split
    · rfl
    · split
      · rfl
      · simp only [List.all_append, Bool.and_eq_true]
        refine ⟨⟨by simp [mild], ?_⟩, by simp [mild]⟩
        split <;> simp [mild]

/-- **finalized_implies_logged in the split semantics**: whatever runs between the finalize
    handler's decision and `finalize`, a file whose cache state is finalized or logged has a
    record in the receive log. -/
theorem finalized_implies_logged_W {H : Body → String} {w : WState} (hr : ReachableW H w) :
    LoggedInv w.st := by
  refine inv_reachableW (H := H) (P := LoggedInv) (G := LoggedG) ?_ LoggedInv_step ?_ ?_ ?_ ?_ hr
  · intro n e hc; simp [init] at hc
  · intro s _ n e hc; simp [crash] at hc
  · intro w o _ _; exact effects_guards H w.st o
  · intro w n now _ _; exact Guards_of_all_mild _ _ (finhDecide_mild w.st n now)
  · intro w n e now _ _ _; exact finalize_guards _ _ _ _ _

/-- the log only grows along an event of the atomic semantics -/
theorem mem_step_log (H : Body → String) (s : State) (e : Ev) (r : LogRec) (h : r ∈ s.disk.log) :
    r ∈ (step H s e).disk.log := by
  cases e with
  | op o => exact mem_run_log s _ r h
  | cutOp k o => exact mem_run_log s _ r h
  | crash => exact h

/-- what the decision phase established about the item it hands to `finalize` -/
theorem finhPending_ready (s : State) (n : Name) (now : Int) (e : Entry)
    (h : finhPending s n now = some e) :
    stateOf s.mem n = some .validated ∧ isFileReady s n e now = .yes ∧
      ∃ k, s.mem.fq.find? (·.1 == n) = some (k, e) := by
  unfold finhPending at h
  split at h
  · cases h
  · rename_i k e0 hq
    by_cases hst : stateOf s.mem n ≠ some .validated
    · rw [if_pos hst] at h; cases h
    · rw [if_neg hst] at h
      split at h
      · rename_i hy
        cases h
        exact ⟨by simpa using hst, hy, k, hq⟩
      · cases h

/-- the held item's real predecessor has a record in the receive log -/
def HeldPrevLogged (w : WState) : Prop :=
  ∀ n e, w.held = some (n, e) → e.prev ≠ "" → e.prev ≠ n → ∃ q ∈ w.st.disk.log, q.name = e.prev

/-- **held_prev_logged**: in every state of the split semantics the predecessor of the item the
    handler holds has a record in the receive log: the decision phase saw the predecessor
    finalized / logged (then it has a record, `finalized_implies_logged_W`) or found its record,
    and nothing that runs in the window removes a record. -/
theorem held_prev_logged {H : Body → String} {w : WState} (hr : ReachableW H w) :
    HeldPrevLogged w := by
  refine ReachableW.induction (H := H) (P := HeldPrevLogged) ?_ ?_ hr
  · intro n e h; cases h
  · intro w e hr hp
    cases e with
    | ev e =>
      cases e with
      | op o =>
        intro n it hh h1 h2
        obtain ⟨q, hq, hn⟩ := hp n it hh h1 h2
        exact ⟨q, mem_run_log _ _ q hq, hn⟩
      | cutOp k o => intro n it hh; cases hh
      | crash => intro n it hh; cases hh
    | finhDecide n now =>
      simp only [wstep]
      cases hheld : w.held with
      | some x =>
        intro m it hh h1 h2
        simp only at hh
        exact hp m it (hheld ▸ hh) h1 h2
      | none =>
        intro m it hh h1 h2
        simp only [Option.map_eq_some_iff, Prod.mk.injEq] at hh
        obtain ⟨e, he, rfl, rfl⟩ := hh
        obtain ⟨_, hy, _⟩ := finhPending_ready w.st n now e he
        have hl := finalized_implies_logged_W hr
        have hyes : (isFileReady w.st n e now).isYes = true := by rw [hy]; rfl
        have hrec : ∃ q ∈ w.st.disk.log, q.name = e.prev := by
          rcases held_until_pred w.st n e now h1 h2 hyes with h | h | ⟨_, _, h⟩
          · simp only [stateOf, Option.map_eq_some_iff] at h
            obtain ⟨e', he', hs⟩ := h
            exact hl _ e' he' (Or.inl hs)
          · simp only [stateOf, Option.map_eq_some_iff] at h
            obtain ⟨e', he', hs⟩ := h
            exact hl _ e' he' (Or.inr hs)
          · exact h
        obtain ⟨q, hq, hn⟩ := hrec
        exact ⟨q, mem_run_log _ _ q hq, hn⟩
    | finhDo now =>
      simp only [wstep]
      cases hheld : w.held with
      | none => intro m it hh h1 h2; exact hp m it (hheld ▸ hh) h1 h2
      | some x => intro m it hh; cases hh
    | cutFinhDo k now =>
      simp only [wstep]
      cases hheld : w.held with
      | none => intro m it hh h1 h2; exact hp m it (hheld ▸ hh) h1 h2
      | some x => intro m it hh; cases hh

end Sts.Stage
