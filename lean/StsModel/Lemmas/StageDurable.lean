/-
  Helper lemmas for the receiver-side clauses of C02 / C06 (Props/C02Stage.lean):

  * `validated_has_wait`: in every reachable state (operation boundaries and crash images) a
    cache entry in state *validated* has its `<n>.wait` file. Inside `finalize` there is a
    point (after the move, before the cache entry becomes *finalized*) where this is false;
    a crash there empties the cache, and without a crash the operation runs to its end. The
    invariant is therefore proved over whole events (`Reachable.induction`), with a
    per-primitive invariant `VW x` that exempts the name `x` being finalized.
  * what `Recover` does to a name whose `.wait` file matches its companion (`Restored`),
  * what `buildCache` does to a name that has a record in the visited part of the log.
-/
import StsModel.Lemmas.StageIntegrity
import StsModel.Props.C06

namespace Sts.Stage

/-! ## validated ⇒ `<n>.wait` exists -/

/-- every validated cache entry other than the exempt name `x` has its `.wait` file -/
def VW (x : Option Name) (s : State) : Prop :=
  ∀ n e, s.mem.cache n = some e → e.state = .validated → some n ≠ x → s.disk.wait n ≠ none

def VWG (x : Option Name) (s : State) : Prim → Prop
  | .cacheSet n e => e.state = .validated → some n ≠ x → s.disk.wait n ≠ none
  | .renWaitFinal m _ => some m = x ∨ ∀ e, s.mem.cache m = some e → e.state ≠ .validated
  | _ => True

/-- only `renWaitFinal n _` takes `<n>.wait` away -/
theorem wait_kept (d : Disk) (p : Prim) (n : Name) (hp : ∀ t, p ≠ .renWaitFinal n t)
    (h : d.wait n ≠ none) : (applyDisk d p).wait n ≠ none := by
  cases p with
  | renWaitFinal m t =>
    have hmn : n ≠ m := by intro e; subst e; exact hp t rfl
    simp only [applyDisk]
    split
    · simp only [upd_other _ _ _ _ hmn]; exact h
    · exact h
  | renFullWait m =>
    simp only [applyDisk]
    split
    · by_cases hmn : n = m
      · subst hmn; simp
      · simp only [upd_other _ _ _ _ hmn]; exact h
    · exact h
  | _ =>
    all_goals
      first
      | exact h
      | (simp only [applyDisk]; split <;> (try split) <;> exact h)

theorem VW_step (x : Option Name) (s : State) (p : Prim) (hi : VW x s) (hg : VWG x s p) :
    VW x (applyPrim s p) := by
  intro n e hc hst hx
  -- the generic case: the entry was there (same state), the `.wait` is not taken away
  have keep : ∀ e0, s.mem.cache n = some e0 → e0.state = e.state → (∀ t, p ≠ .renWaitFinal n t) →
      (applyPrim s p).disk.wait n ≠ none := by
    intro e0 h0 hs hp
    exact wait_kept s.disk p n hp (hi n e0 h0 (by rw [hs]; exact hst) hx)
  cases p with
  | cacheSet m e' =>
    simp only [applyPrim, applyMem] at hc
    by_cases hnm : n = m
    · subst hnm
      simp only [upd_same, Option.some.injEq] at hc
      subst hc
      exact hg (by simpa using hst) hx
    · simp only [upd_other _ _ _ _ hnm] at hc
      exact keep e hc rfl (by intro t; nofun)
  | cacheDel m =>
    simp only [applyPrim, applyMem] at hc
    by_cases hnm : n = m
    · subst hnm; simp at hc
    · simp only [upd_other _ _ _ _ hnm] at hc
      exact keep e hc rfl (by intro t; nofun)
  | nextFinalSet m =>
    simp only [applyPrim, applyMem] at hc
    split at hc
    · rename_i e0 he0
      by_cases hnm : n = m
      · subst hnm
        simp only [upd_same, Option.some.injEq] at hc
        subst hc
        exact keep e0 he0 rfl (by intro t; nofun)
      · simp only [upd_other _ _ _ _ hnm] at hc
        exact keep e hc rfl (by intro t; nofun)
    · exact keep e hc rfl (by intro t; nofun)
  | renWaitFinal m t =>
    have hc' : s.mem.cache n = some e := by simpa [applyPrim, applyMem] using hc
    by_cases hnm : n = m
    · subst hnm
      rcases hg with hg | hg
      · exact absurd hg hx
      · exact absurd hst (hg e hc')
    · exact keep e hc' rfl (by intro t' h; cases h; exact hnm rfl)
  | waitAdd a b c =>
    have hc' : s.mem.cache n = some e := by
      simp only [applyPrim, applyMem] at hc
      split at hc <;> exact hc
    exact keep e hc' rfl (by intro t; nofun)
  | _ =>
    all_goals
      (have hc' : s.mem.cache n = some e := by simpa [applyPrim, applyMem] using hc
       exact keep e hc' rfl (by intro t; nofun))

theorem easy_VWG (x : Option Name) (s : State) (p : Prim) (h : easy p = true) : VWG x s p := by
  cases p <;> simp only [VWG, easy] at h ⊢ <;> (try trivial) <;> (try cases h)
  intro hst; simp [hst] at h

theorem GuardsVW_of_all_easy (x : Option Name) (s : State) (ps : List Prim)
    (h : ps.all easy = true) : Guards (VWG x) s ps := by
  induction ps generalizing s with
  | nil => trivial
  | cons p ps ih =>
    simp only [List.all_cons, Bool.and_eq_true] at h
    exact ⟨easy_VWG x s p h.1, ih _ h.2⟩

/-- the guards of memory-only primitives depend on the disk only -/
theorem VWG_mem_disk (x : Option Name) (s s' : State) (p : Prim) (hp : p.durable = false)
    (hd : s'.disk = s.disk) (g : VWG x s p) : VWG x s' p := by
  cases p <;> simp [Prim.durable] at hp <;> simp only [VWG] at g ⊢
  rw [hd]; exact g

theorem GuardsVW_mem (x : Option Name) (s : State) (ps : List Prim)
    (hm : ps.all (fun p => !p.durable) = true) (hg : ∀ p ∈ ps, VWG x s p) :
    Guards (VWG x) s ps := by
  suffices ∀ s', s'.disk = s.disk → Guards (VWG x) s' ps from this s rfl
  induction ps with
  | nil => intro _ _; trivial
  | cons p ps ih =>
    intro s' hd
    simp only [List.all_cons, Bool.and_eq_true, Bool.not_eq_true'] at hm
    refine ⟨VWG_mem_disk x s s' p hm.1 hd (hg p (by simp)), ?_⟩
    apply ih (by simpa using hm.2) (fun q hq => hg q (by simp [hq]))
    simp [applyPrim, applyDisk_mem _ _ hm.1, hd]

theorem toCache_VWG (x : Option Name) (s : State) (m : Mem) (n : Name) (e : Entry)
    (st : FState) (now : Int) (hv : st = .validated → s.disk.wait n ≠ none) :
    Guards (VWG x) s (toCache m n e st now) := by
  apply GuardsVW_mem x s _ (toCache_mem m n e st now)
  intro p hp
  unfold toCache at hp
  simp only [List.mem_append, List.mem_singleton] at hp
  rcases hp with (hp | hp) | hp
  · split at hp <;> simp at hp
    subst hp; trivial
  · subst hp
    intro h _
    exact hv (by simpa using h)
  · split at hp <;> simp at hp
    subst hp; trivial

/-- `processCore` computed in `s`, executed in a state with the same disk: the entry cached as
    validated has just been renamed to `.wait`. -/
theorem processCore_VWG (x : Option Name) (H : Body → String) (s s' : State) (n : Name) (e : Entry)
    (now : Int) (hd : s'.disk = s.disk) : Guards (VWG x) s' (processCore H s n e now) := by
  unfold processCore
  by_cases hst : stateOf s.mem n ≠ some .received
  · rw [if_pos hst]; exact GuardsVW_of_all_easy x _ _ (by simp [easy])
  · rw [if_neg hst]
    cases hf : s.disk.full n with
    | none =>
      apply GuardsVW_of_all_easy
      simp only [List.all_append, Bool.and_eq_true]
      exact ⟨by simp [easy], by simp [easy], toCache_easy _ _ _ _ _ (by decide)⟩
    | some i =>
      simp only
      by_cases hh : H (s.disk.body i) ≠ e.hash
      · rw [if_pos hh]
        apply GuardsVW_of_all_easy
        simp only [List.all_append, Bool.and_eq_true]
        exact ⟨by simp [easy], toCache_easy _ _ _ _ _ (by decide)⟩
      · rw [if_neg hh]
        refine ⟨trivial, trivial, ?_⟩
        apply Guards.append
        · apply toCache_VWG
          intro _
          simp [applyPrim, applyDisk, hd, hf]
        · exact GuardsVW_of_all_easy x _ _ (by simp [easy])

theorem processEffects_VWG (x : Option Name) (H : Body → String) (s : State) (n : Name) (now : Int) :
    Guards (VWG x) s (processEffects H s n now) := by
  unfold processEffects
  split
  · trivial
  · exact ⟨trivial, processCore_VWG x H s _ n _ now rfl⟩

theorem VW_run (x : Option Name) (s : State) (ps : List Prim) (h : VW x s)
    (g : Guards (VWG x) s ps) : VW x (run s ps) :=
  inv_run (VW_step x) ps s h g

set_option linter.unusedSimpArgs false in
/-- after `toCache … finalized` the entry of `n` is in state finalized -/
theorem toCache_fin_state (s : State) (m : Mem) (n : Name) (e : Entry) (now : Int) :
    ∀ ce, (run s (toCache m n e .finalized now)).mem.cache n = some ce → ce.state = .finalized := by
  intro ce hce
  unfold toCache at hce
  simp only [and_true] at hce
  by_cases hp : e.prev ≠ ""
  · rw [if_pos hp] at hce
    by_cases hpn : e.prev = n
    · split at hce <;>
        simp [run_append, applyPrim, applyMem, hpn] at hce <;> (rw [← hce])
    · have hnp : n ≠ e.prev := fun h => hpn h.symm
      split at hce <;>
        · simp only [List.nil_append, List.cons_append, run_append, run_cons, run_nil, applyPrim, applyMem,
            upd_same] at hce
          split at hce
          · simp only [upd_other _ _ _ _ hnp, upd_same, Option.some.injEq] at hce
            rw [← hce]
          · simp only [upd_same, Option.some.injEq] at hce
            rw [← hce]
  · rw [if_neg hp] at hce
    split at hce <;> simp [applyPrim, applyMem] at hce <;> (rw [← hce])

theorem VW_none_of_some {n : Name} {t : State} (h : VW (some n) t)
    (hn : ∀ e, t.mem.cache n = some e → e.state ≠ .validated) : VW none t := by
  intro m e hc hst _
  by_cases hmn : m = n
  · subst hmn; exact absurd hst (hn e hc)
  · exact h m e hc hst (by simpa using hmn)

/-- `finalize` computed in `s`, run in any state where the invariant holds: it holds again
    when the operation has run to its end. -/
theorem finalize_VW (s s' : State) (n : Name) (e : Entry) (now : Int) (hv : VW none s') :
    VW none (run s' (finalizeEffects s n e now)) := by
  unfold finalizeEffects
  by_cases hcond : stateOf s.mem n ≠ some .validated ∨ (s.mem.cache n).map (·.hash) ≠ some e.hash
  · rw [if_pos hcond]
    exact VW_run none _ _ hv (GuardsVW_of_all_easy none _ _ (by simp [easy]))
  · rw [if_neg hcond]
    cases hw : s.disk.wait n with
    | none => exact VW_run none _ _ hv (GuardsVW_of_all_easy none _ _ (by simp [easy]))
    | some i =>
      simp only
      -- A = up to and including the cache update, B = the rest
      have hsplit : [Prim.lockAdd n] ++
          ([Prim.timerDel n, Prim.logAppend ⟨n, e.renamed, e.hash, e.size, now, e.prev⟩] ++
            ([Prim.renWaitFinal n (targetOf n e.renamed)] ++
              toCache s.mem n { e with logged := some now } .finalized now ++
              [Prim.rmCmpIf n e.hash, Prim.waitTake n] ++
              (s.mem.wait.filter (fun w => w.1 == n)).map (fun w => Prim.fqPush w.2.1 w.2.2))) ++
          [Prim.lockDel n] =
        ([Prim.lockAdd n, Prim.timerDel n, Prim.logAppend ⟨n, e.renamed, e.hash, e.size, now, e.prev⟩,
          Prim.renWaitFinal n (targetOf n e.renamed)] ++
          toCache s.mem n { e with logged := some now } .finalized now) ++
        ([Prim.rmCmpIf n e.hash, Prim.waitTake n] ++
          (s.mem.wait.filter (fun w => w.1 == n)).map (fun w => Prim.fqPush w.2.1 w.2.2) ++
          [Prim.lockDel n]) := by
        simp only [List.append_assoc, List.cons_append, List.nil_append]
      rw [hsplit, run_append]
      apply VW_run none
      · apply VW_none_of_some (n := n)
        · apply VW_run (some n)
          · intro m e0 hc hst _; exact hv m e0 hc hst (by simp)
          · apply Guards.append
            · exact ⟨trivial, trivial, trivial, Or.inl rfl, trivial⟩
            · exact GuardsVW_of_all_easy _ _ _ (toCache_easy _ _ _ _ _ (by decide))
        · intro ce hce hst
          rw [run_append] at hce
          have := toCache_fin_state _ _ _ _ _ ce hce
          rw [this] at hst; cases hst
      · apply GuardsVW_of_all_easy
        simp only [List.all_append, Bool.and_eq_true]
        refine ⟨⟨by simp [easy], ?_⟩, by simp [easy]⟩
        simp [List.all_eq_true, easy]

theorem finh_VW (s : State) (n : Name) (now : Int) (hv : VW none s) :
    VW none (run s (finhEffects s n now)) := by
  unfold finhEffects
  split
  · exact hv
  · rw [run_append]
    have hv1 : VW none (run s [Prim.fqDel n]) :=
      VW_run none _ _ hv (GuardsVW_of_all_easy none _ _ (by simp [easy]))
    split
    · exact hv1
    · split
      · exact finalize_VW _ _ _ _ _ hv1
      · apply VW_run none _ _ hv1
        apply GuardsVW_of_all_easy
        simp only [List.all_append, Bool.and_eq_true]
        refine ⟨⟨by simp [easy], ?_⟩, by simp [easy]⟩
        split <;> simp [easy]

theorem vw_step_pack {s : State} {l : List Prim} (hI : VW none s) (ps : List Prim)
    (hg : Guards (VWG none) s ps) :
    ∃ ps', (run s ps, l ++ ps) = (run s ps', l ++ ps') ∧ Guards (VWG none) s ps' ∧
      VW none (run s ps') :=
  ⟨ps, rfl, hg, VW_run none s ps hI hg⟩

theorem cleanWaitingStep_VWG (acc : State × List Prim) (c : Name × Entry) (hI : VW none acc.1) :
    ∃ ps, cleanWaitingStep acc c = (run acc.1 ps, acc.2 ++ ps) ∧ Guards (VWG none) acc.1 ps ∧
      VW none (run acc.1 ps) := by
  unfold cleanWaitingStep
  simp only
  split
  · exact ⟨[], by simp, trivial, hI⟩
  · split
    · exact ⟨[], by simp, trivial, hI⟩
    · apply vw_step_pack hI
      · apply GuardsVW_mem
        · simp only [List.all_append, List.all_flatMap, Bool.and_eq_true]
          refine ⟨by simp [Prim.durable], ?_⟩
          simp only [List.all_eq_true]
          intro w _
          split
          · split <;> simp [Prim.durable]
          · simp
        · intro p hp
          simp only [List.mem_append, List.mem_singleton, List.mem_flatMap] at hp
          rcases hp with hp | ⟨w, _, hp⟩
          · subst hp; trivial
          · split at hp
            · rename_i f hf
              split at hp
              · rename_i hfv
                simp only [List.mem_cons, List.not_mem_nil, or_false] at hp
                rcases hp with hp | hp | hp
                · subst hp; trivial
                · subst hp
                  intro _ _
                  exact hI _ f hf hfv (by simp)
                · subst hp; trivial
              · simp at hp
            · simp at hp

theorem cleanWaiting_VWG (s : State) (names : List Name) (hI : VW none s) :
    Guards (VWG none) s (cleanWaitingEffects s names) := by
  unfold cleanWaitingEffects
  simp only
  exact (Guards_foldl (VW none) cleanWaitingStep _
    (fun acc x _ hq => cleanWaitingStep_VWG acc x hq) s (s, []) hI rfl trivial).1

theorem recover_VWG (H : Body → String) (s : State) (now : Int) (names : List Name) :
    Guards (VWG none) s (recoverEffects H s now names) := by
  unfold recoverEffects
  extract_lets walk p1 s1 oldest p2 s2 fins vals stepF r3 stepV r4
  have hp1c : p1.all calm = true := by
    simp only [p1, List.all_append, List.all_flatMap, Bool.and_eq_true]
    refine ⟨by simp [calm], ?_⟩
    simp only [List.all_eq_true]
    intro x hx
    simp only [walk, List.mem_map] at hx
    obtain ⟨n, _, rfl⟩ := hx
    exact List.all_eq_true.mp (recoverWalk_calm H s.disk n)
  have hp2c : p2.all calm = true := buildCache_calm s1 _ now
  have hs2 : s2 = run s (p1 ++ p2) := by simp only [s2, s1, run_append]
  have hwb : s2.disk.wait = s.disk.wait := by
    rw [hs2]; exact (run_calm_wb s _ (by simp [List.all_append, hp1c, hp2c])).1
  have h12 : Guards (VWG none) s (p1 ++ p2) :=
    GuardsVW_of_all_easy none s _ (all_calm_easy _ (by simp [List.all_append, hp1c, hp2c]))
  have hfin : ∀ x ∈ fins, s.disk.wait x.1 ≠ none := by
    intro x hx
    simp only [fins, List.mem_filterMap] at hx
    obtain ⟨y, hy, hyx⟩ := hx
    simp only [walk, List.mem_map] at hy
    obtain ⟨n, _, rfl⟩ := hy
    simp only at hyx
    split at hyx
    · rename_i c hc
      simp only [Option.some.injEq] at hyx
      subst hyx
      obtain ⟨i, hi, _⟩ := recover_finalize_checked H s.disk n c hc
      simp [hi]
    · simp at hyx
  have h3 := Guards_foldl (G := VWG none) (fun t => t.disk.wait = s.disk.wait) stepF fins
    (by
      intro acc x hx hq
      refine ⟨_, rfl, ?_, ?_⟩
      · apply Guards.append
        · apply toCache_VWG
          intro _
          rw [hq]
          exact hfin x hx
        · exact GuardsVW_of_all_easy none _ _ (by simp [easy])
      · have hm : (run acc.1 (toCache acc.1.mem x.1 (Entry.ofCmp x.2 .validated) .validated now ++
            [Prim.fqPush x.1 { Entry.ofCmp x.2 .validated with time := now }])).disk = acc.1.disk :=
          run_disk_of_mem _ _ (by
            rw [List.all_append, toCache_mem]; simp [Prim.durable])
        rw [hm]; exact hq)
    s2 (s2, []) hwb rfl trivial
  have h4 := Guards_foldl (G := VWG none) (fun _ => True) stepV vals
    (by
      intro acc x _ _
      refine ⟨recoverValOne H acc.1 now x, rfl, ?_, trivial⟩
      rcases recoverValOne_cases H acc.1 now x with ⟨_, h⟩ | ⟨_, h⟩ <;> rw [h]
      · exact GuardsVW_of_all_easy none _ _ (by simp [easy])
      · apply Guards.append
        · exact GuardsVW_of_all_easy none _ _ (toCache_easy _ _ _ _ _ (by decide))
        · exact processCore_VWG none H _ _ _ _ _ rfl)
    s2 r3 trivial h3.2.1 h3.1
  have hall : Guards (VWG none) s ((p1 ++ p2) ++ r4.2 ++ [Prim.setReady true]) := by
    apply Guards.append
    · apply Guards.append h12
      rw [← hs2]; exact h4.1
    · exact GuardsVW_of_all_easy none _ _ (by simp [easy])
  simpa [List.append_assoc] using hall

/-- every operation run to its end re-establishes the invariant -/
theorem VW_effects (H : Body → String) (s : State) (o : OpEv) (hv : VW none s) :
    VW none (run s (effects H s o)) := by
  cases o with
  | finh n now => exact finh_VW s n now hv
  | prepare n size now =>
    exact VW_run none _ _ hv (GuardsVW_of_all_easy none s _ (prepare_easy s n size now))
  | recvOpen h n =>
    apply VW_run none _ _ hv
    simp only [effects]
    split <;> exact GuardsVW_of_all_easy none s _ (by simp [easy])
  | recvWrite h beg data now =>
    apply VW_run none _ _ hv
    simp only [effects]
    split
    · exact ⟨trivial, trivial, trivial⟩
    · trivial
  | record n m beg fin now =>
    exact VW_run none _ _ hv (GuardsVW_of_all_easy none s _ (record_easy s n m beg fin now))
  | process n now => exact VW_run none _ _ hv (processEffects_VWG none H s n now)
  | timer n => exact VW_run none _ _ hv (GuardsVW_of_all_easy none s _ (timer_easy s n))
  | buildCache frm now =>
    exact VW_run none _ _ hv (GuardsVW_of_all_easy none s _ (buildCache_easy s frm now))
  | receivedQ n m => exact VW_run none _ _ hv (GuardsVW_of_all_easy none s _ (received_easy s n m))
  | recover now names => exact VW_run none _ _ hv (recover_VWG H s now names)
  | cleanStrays now names =>
    exact VW_run none _ _ hv (GuardsVW_of_all_easy none s _ (cleanStrays_easy s now names))
  | cleanWaiting names => exact VW_run none _ _ hv (cleanWaiting_VWG s names hv)
  | consume t => exact VW_run none _ _ hv (GuardsVW_of_all_easy none s _ (by simp [effects, easy]))
  | corrupt n ext pos v =>
    apply VW_run none _ _ hv
    simp only [effects]
    split
    · exact ⟨trivial, trivial⟩
    · trivial

theorem VW_crash (s : State) : VW none (crash s) := by
  intro n e hc; simp [crash] at hc

/-- **validated ⇒ `.wait` exists**, in every reachable state (operation boundaries and every
    crash image). -/
theorem validated_has_wait {H : Body → String} {s : State} (hr : Reachable H s) :
    ∀ n e, s.mem.cache n = some e → e.state = .validated → ∃ i, s.disk.wait n = some i := by
  have h : VW none s := by
    refine Reachable.induction (H := H) (P := VW none) ?_ ?_ hr
    · intro n e hc; simp [init] at hc
    · intro s e _ hv
      cases e with
      | op o => exact VW_effects H s o hv
      | cutOp k o => exact VW_crash _
      | crash => exact VW_crash _
  intro n e hc hst
  have := h n e hc hst (by simp)
  cases hw : s.disk.wait n with
  | none => exact absurd hw this
  | some i => exact ⟨i, rfl⟩

end Sts.Stage

/-! Helper names below live in `Sts.Stage.Dur` (they are generic; other lemma files may want
    the short names). -/
namespace Sts.Stage.Dur

/-! ## folds of Recover -/

theorem foldl_fst_run {α : Type} (step : State × List Prim → α → State × List Prim)
    (hstep : ∀ acc x, ∃ ps, step acc x = (run acc.1 ps, acc.2 ++ ps)) (s0 : State) :
    ∀ (xs : List α) (acc : State × List Prim), acc.1 = run s0 acc.2 →
      (xs.foldl step acc).1 = run s0 (xs.foldl step acc).2 := by
  intro xs
  induction xs with
  | nil => intro acc he; exact he
  | cons x xs ih =>
    intro acc he
    simp only [List.foldl_cons]
    apply ih
    obtain ⟨ps, hs⟩ := hstep acc x
    rw [hs]; simp only; rw [run_append, ← he]

theorem foldl_keep {α : Type} (Q : State → Prop) (f : State × List Prim → α → State × List Prim) :
    ∀ (l : List α), (∀ acc x, x ∈ l → Q acc.1 → Q (f acc x).1) →
      ∀ acc, Q acc.1 → Q (l.foldl f acc).1 := by
  intro l
  induction l with
  | nil => intro _ acc h; exact h
  | cons y ys ih =>
    intro hk acc h
    simp only [List.foldl_cons]
    exact ih (fun acc x hx => hk acc x (by simp [hx])) _ (hk acc y (by simp) h)

theorem foldl_establish {α : Type} (Q : State → Prop) (f : State × List Prim → α → State × List Prim)
    (a : α) (hest : ∀ acc, Q (f acc a).1) :
    ∀ (l : List α), (∀ acc x, x ∈ l → Q acc.1 → Q (f acc x).1) →
      ∀ acc, (a ∈ l ∨ Q acc.1) → Q (l.foldl f acc).1 := by
  intro l
  induction l with
  | nil =>
    intro _ acc h
    rcases h with h | h
    · simp at h
    · exact h
  | cons y ys ih =>
    intro hk acc h
    simp only [List.foldl_cons]
    apply ih (fun acc x hx => hk acc x (by simp [hx]))
    rcases h with h | h
    · rcases List.mem_cons.mp h with h | h
      · subst h; exact Or.inr (hest acc)
      · exact Or.inl h
    · exact Or.inr (hk acc y (by simp) h)

/-! ## primitives that leave one name's cache entry, the cache start time and the queue alone -/

def quietFor (n : Name) : Prim → Bool
  | .cacheSet m _ => m != n
  | .cacheDel m => m != n
  | .nextFinalSet _ => false
  | .fqDel _ => false
  | .cacheTimeSet _ => false
  | _ => true

theorem quietFor_prim (n : Name) (t : State) (p : Prim) (h : quietFor n p = true) :
    (applyPrim t p).mem.cache n = t.mem.cache n ∧
    (applyPrim t p).mem.cacheTime = t.mem.cacheTime ∧
    (∀ x ∈ t.mem.fq, x ∈ (applyPrim t p).mem.fq) := by
  cases p with
  | cacheSet m e =>
    have hmn : n ≠ m := by intro e; subst e; simp [quietFor] at h
    simp [applyPrim, applyMem, upd_other _ _ _ _ hmn]
  | cacheDel m =>
    have hmn : n ≠ m := by intro e; subst e; simp [quietFor] at h
    simp [applyPrim, applyMem, upd_other _ _ _ _ hmn]
  | nextFinalSet m => simp [quietFor] at h
  | fqDel m => simp [quietFor] at h
  | cacheTimeSet m => simp [quietFor] at h
  | fqPush m e =>
    refine ⟨rfl, rfl, ?_⟩
    intro x hx; simp [applyPrim, applyMem, hx]
  | waitAdd a b c =>
    simp only [applyPrim, applyMem]
    split <;> exact ⟨rfl, rfl, fun x hx => hx⟩
  | _ => exact ⟨rfl, rfl, fun x hx => hx⟩

theorem quietFor_run (n : Name) (ps : List Prim) (h : ps.all (quietFor n) = true) (t : State) :
    (run t ps).mem.cache n = t.mem.cache n ∧
    (run t ps).mem.cacheTime = t.mem.cacheTime ∧
    (∀ x ∈ t.mem.fq, x ∈ (run t ps).mem.fq) := by
  induction ps generalizing t with
  | nil => exact ⟨rfl, rfl, fun x hx => hx⟩
  | cons p ps ih =>
    simp only [List.all_cons, Bool.and_eq_true] at h
    obtain ⟨a, b, c⟩ := quietFor_prim n t p h.1
    obtain ⟨a', b', c'⟩ := ih h.2 (applyPrim t p)
    rw [run_cons]
    exact ⟨a'.trans a, b'.trans b, fun x hx => c' x (c x hx)⟩

/-- `toCache` of an entry that was never logged, into a state other than finalized, is the
    single cache write -/
theorem toCache_plain (m : Mem) (x : Name) (e : Entry) (st : FState) (now : Int)
    (hl : e.logged = none) (hs : st ≠ .finalized) :
    toCache m x e st now = [Prim.cacheSet x { e with state := st, time := now }] := by
  unfold toCache
  simp [hl, hs]

theorem toCache_quietFor (n : Name) (m : Mem) (x : Name) (e : Entry) (st : FState) (now : Int)
    (hx : x ≠ n) (hl : e.logged = none) (hs : st ≠ .finalized) :
    (toCache m x e st now).all (quietFor n) = true := by
  rw [toCache_plain m x e st now hl hs]
  simp [quietFor, hx]

theorem processCore_quietFor (n : Name) (H : Body → String) (s : State) (x : Name) (e : Entry)
    (now : Int) (hx : x ≠ n) (hl : e.logged = none) :
    (processCore H s x e now).all (quietFor n) = true := by
  unfold processCore
  simp only [List.all_append, Bool.and_eq_true]
  refine ⟨by simp [quietFor], ?_⟩
  split
  · simp
  · split
    · simp only [List.all_append, Bool.and_eq_true]
      exact ⟨by simp [quietFor], toCache_quietFor n _ _ _ _ _ hx hl (by decide)⟩
    · split
      · exact toCache_quietFor n _ _ _ _ _ hx hl (by decide)
      · simp only [List.all_append, Bool.and_eq_true]
        exact ⟨⟨by simp [quietFor], toCache_quietFor n _ _ _ _ _ hx hl (by decide)⟩,
          by simp [quietFor]⟩

theorem recoverValOne_quietFor (n : Name) (H : Body → String) (t : State) (now : Int)
    (x : Name × Cmp) (hx : x.1 ≠ n) : (recoverValOne H t now x).all (quietFor n) = true :=
  recoverValOne_all (quietFor n) H t now x rfl rfl rfl
    (toCache_quietFor n _ _ _ _ _ hx rfl (by decide)) (processCore_quietFor n H _ _ _ _ hx rfl)

/-! ## Recover re-caches and re-queues a `.wait` file that matches its companion -/

/-- `n` is cached as validated with the companion's metadata and an item for it, with the same
    metadata, is in the finalize queue -/
def Restored (n : Name) (c : Cmp) (t : State) : Prop :=
  (∃ e, t.mem.cache n = some e ∧ e.state = .validated ∧ e.hash = c.hash ∧
      e.renamed = c.renamed ∧ e.prev = c.prev ∧ e.size = c.size) ∧
  (∃ q, (n, q) ∈ t.mem.fq ∧ q.state = .validated ∧ q.hash = c.hash ∧
      q.renamed = c.renamed ∧ q.prev = c.prev ∧ q.size = c.size)

theorem Restored_run (n : Name) (c : Cmp) (t : State) (ps : List Prim)
    (h : ps.all (quietFor n) = true) (hr : Restored n c t) : Restored n c (run t ps) := by
  obtain ⟨a, _, b⟩ := quietFor_run n ps h t
  obtain ⟨⟨e, he, h1⟩, ⟨q, hq, h2⟩⟩ := hr
  exact ⟨⟨e, by rw [a]; exact he, h1⟩, ⟨q, b _ hq, h2⟩⟩

/-- the decomposition of `Recover` used below: the names of the finalize list are exactly those
    the walk classifies `.finalize`, those of the validate list `.validate`. -/
theorem recover_restores (H : Body → String) (s : State) (now : Int) (names : List Name)
    (n : Name) (c : Cmp) (hn : n ∈ names) (hcls : (recoverWalk H s.disk n).2 = .finalize c) :
    Restored n c (run s (recoverEffects H s now names)) := by
  unfold recoverEffects
  extract_lets walk p1 s1 oldest p2 s2 fins vals stepF r3 stepV r4
  have hmem : (n, c) ∈ fins := by
    simp only [fins, List.mem_filterMap]
    refine ⟨(n, recoverWalk H s.disk n), ?_, ?_⟩
    · simp only [walk, List.mem_map]; exact ⟨n, hn, rfl⟩
    · simp only [hcls]
  have hfins : ∀ x ∈ fins, x.1 = n → x.2 = c := by
    intro x hx hxn
    simp only [fins, List.mem_filterMap] at hx
    obtain ⟨y, hy, hyx⟩ := hx
    simp only [walk, List.mem_map] at hy
    obtain ⟨m, _, rfl⟩ := hy
    simp only at hyx
    split at hyx
    · rename_i c' hc'
      simp only [Option.some.injEq] at hyx
      subst hyx
      simp only at hxn
      subst hxn
      rw [hcls] at hc'
      cases hc'; rfl
    · simp at hyx
  have hvals : ∀ x ∈ vals, x.1 ≠ n := by
    intro x hx hxn
    simp only [vals, List.mem_filterMap] at hx
    obtain ⟨y, hy, hyx⟩ := hx
    simp only [walk, List.mem_map] at hy
    obtain ⟨m, _, rfl⟩ := hy
    simp only at hyx
    split at hyx
    · rename_i c' hc'
      simp only [Option.some.injEq] at hyx
      subst hyx
      simp only at hxn
      subst hxn
      rw [hcls] at hc'
      cases hc'
    · simp at hyx
  have hr3 : r3.1 = run s2 r3.2 :=
    foldl_fst_run stepF (fun acc x => ⟨_, rfl⟩) s2 fins (s2, []) rfl
  have hr4 : r4.1 = run s2 r4.2 :=
    foldl_fst_run stepV (fun acc x => ⟨_, rfl⟩) s2 vals r3 hr3
  have hest : ∀ acc, Restored n c (stepF acc (n, c)).1 := by
    intro acc
    simp only [stepF]
    rw [toCache_plain _ _ _ _ _ rfl (by decide)]
    simp only [List.cons_append, List.nil_append, run_cons, run_nil, applyPrim, applyMem]
    refine ⟨⟨_, upd_same _ _ _, ?_⟩, ⟨{ Entry.ofCmp c .validated with time := now }, ?_, ?_⟩⟩
    · simp [Entry.ofCmp]
    · simp
    · simp [Entry.ofCmp]
  have hQ3 : Restored n c r3.1 := by
    refine foldl_establish (Restored n c) stepF (n, c) hest fins ?_ (s2, []) (Or.inl hmem)
    intro acc x hx hq
    by_cases hxn : x.1 = n
    · have : x = (n, c) := by
        have := hfins x hx hxn
        cases x; simp_all
      rw [this]; exact hest acc
    · simp only [stepF]
      apply Restored_run n c _ _ _ hq
      simp only [List.all_append, Bool.and_eq_true]
      exact ⟨toCache_quietFor n _ _ _ _ _ hxn rfl (by decide), by simp [quietFor]⟩
  have hQ4 : Restored n c r4.1 := by
    refine foldl_keep (Restored n c) stepV vals ?_ r3 hQ3
    intro acc x hx hq
    have hxn := hvals x hx
    simp only [stepV]
    exact Restored_run n c _ _ (recoverValOne_quietFor n H _ now x hxn) hq
  have hfinal : run s (p1 ++ p2 ++ r4.2 ++ [Prim.setReady true]) = run r4.1 [Prim.setReady true] := by
    rw [run_append, run_append, run_append, hr4]
  rw [hfinal]
  exact Restored_run n c _ _ (by simp [quietFor]) hQ4

/-! ## buildCache and names known from the receive log -/

/-- `n` is cached in state logged -/
def IsLogged (n : Name) (t : State) : Prop := ∃ e, t.mem.cache n = some e ∧ e.state = .logged

/-- `n` is not cached, or cached in state logged -/
def NL (n : Name) (t : State) : Prop := t.mem.cache n = none ∨ IsLogged n t

theorem mem_buildRecs (t : State) (frm ct : Int) (r : LogRec) :
    r ∈ buildRecs t frm ct ↔ r ∈ t.disk.log ∧ dayOf r.time ∈ visitedDays frm ct ∧ r.time ≤ ct := by
  simp only [buildRecs, List.mem_flatMap, List.mem_filter, Bool.and_eq_true, beq_iff_eq,
    Bool.not_eq_true', decide_eq_false_iff_not, Int.not_lt]
  constructor
  · rintro ⟨d, hd, hr, hday, hle⟩
    exact ⟨hr, by rw [hday]; exact hd, hle⟩
  · rintro ⟨hr, hd, hle⟩
    exact ⟨_, hd, hr, rfl, hle⟩

/-- names already cached are left alone -/
theorem buildCacheLoad_kept (now : Int) (n : Name) :
    ∀ (recs : List LogRec) (cached : Name → Bool) (t : State), cached n = true →
      (run t (buildCacheLoad recs cached now)).mem.cache n = t.mem.cache n := by
  intro recs
  induction recs with
  | nil => intro cached t _; rfl
  | cons r rs ih =>
    intro cached t hc
    unfold buildCacheLoad
    split
    · exact ih cached t hc
    · rename_i hr
      have hne : n ≠ r.name := by intro e; rw [← e] at hr; exact hr hc
      rw [run_cons, ih _ _ (by simp [hc])]
      simp [applyPrim, applyMem, upd_other _ _ _ _ hne]

/-- a list of cache writes of logged entries keeps "cached as logged" -/
theorem isLogged_run_logged (n : Name) (ps : List Prim)
    (h : ∀ p ∈ ps, ∃ m e, p = Prim.cacheSet m e ∧ e.state = .logged) (t : State)
    (hn : IsLogged n t) : IsLogged n (run t ps) := by
  induction ps generalizing t with
  | nil => exact hn
  | cons p ps ih =>
    rw [run_cons]
    apply ih (fun q hq => h q (by simp [hq]))
    obtain ⟨m, e, rfl, he⟩ := h p (by simp)
    by_cases hmn : n = m
    · subst hmn
      simp only [IsLogged, applyPrim, applyMem]
      exact ⟨_, upd_same _ _ _, he⟩
    · obtain ⟨e0, h0, h1⟩ := hn
      exact ⟨e0, by simp [applyPrim, applyMem, upd_other _ _ _ _ hmn, h0], h1⟩

/-- a name that is not cached and has a record among those read is loaded as logged -/
theorem buildCacheLoad_loads (now : Int) (n : Name) :
    ∀ (recs : List LogRec) (cached : Name → Bool) (t : State), cached n = false →
      (∃ r ∈ recs, r.name = n) → IsLogged n (run t (buildCacheLoad recs cached now)) := by
  intro recs
  induction recs with
  | nil => intro cached t _ h; obtain ⟨r, hr, _⟩ := h; simp at hr
  | cons r rs ih =>
    intro cached t hc hex
    unfold buildCacheLoad
    split
    · rename_i hr
      apply ih cached t hc
      obtain ⟨r', hr', hn⟩ := hex
      rcases List.mem_cons.mp hr' with h | h
      · subst h; rw [hn, hc] at hr; cases hr
      · exact ⟨r', h, hn⟩
    · rw [run_cons]
      by_cases hrn : r.name = n
      · apply isLogged_run_logged n _ _ _
        · subst hrn
          simp only [IsLogged, applyPrim, applyMem]
          exact ⟨_, upd_same _ _ _, rfl⟩
        · intro p hp
          obtain ⟨r', _, e, he, hst⟩ := buildCacheLoad_spec _ _ _ p hp
          exact ⟨_, e, he, hst⟩
      · apply ih _ _ hc
        obtain ⟨r', hr', hn⟩ := hex
        rcases List.mem_cons.mp hr' with h | h
        · subst h; exact absurd hn hrn
        · exact ⟨r', h, hn⟩

/-- a list of cache writes of logged entries keeps "not cached or logged" -/
theorem NL_run_logged (n : Name) (ps : List Prim)
    (h : ∀ p ∈ ps, ∃ m e, p = Prim.cacheSet m e ∧ e.state = .logged) (t : State) (hn : NL n t) :
    NL n (run t ps) := by
  induction ps generalizing t with
  | nil => exact hn
  | cons p ps ih =>
    rw [run_cons]
    apply ih (fun q hq => h q (by simp [hq]))
    obtain ⟨m, e, rfl, he⟩ := h p (by simp)
    by_cases hmn : n = m
    · subst hmn
      right
      simp only [IsLogged, applyPrim, applyMem]
      exact ⟨_, upd_same _ _ _, he⟩
    · rcases hn with hn | ⟨e0, h0, h1⟩
      · left; simp [applyPrim, applyMem, upd_other _ _ _ _ hmn, hn]
      · right; exact ⟨e0, by simp [applyPrim, applyMem, upd_other _ _ _ _ hmn, h0], h1⟩

/-- primitives that do not touch the cache map -/
def noCache : Prim → Bool
  | .cacheSet .. | .cacheDel .. | .nextFinalSet .. => false
  | _ => true

theorem run_noCache (ps : List Prim) (h : ps.all noCache = true) (t : State) :
    (run t ps).mem.cache = t.mem.cache := by
  induction ps generalizing t with
  | nil => rfl
  | cons p ps ih =>
    simp only [List.all_cons, Bool.and_eq_true] at h
    rw [run_cons, ih h.2]
    cases p <;> simp [noCache] at h <;> simp [applyPrim, applyMem]
    split <;> rfl

/-- the load of `buildCache` followed by its cache-time bookkeeping -/
theorem load_core (t : State) (recs : List LogRec) (now : Int) (tl : List Prim) (n : Name)
    (htl : tl.all noCache = true) :
    (NL n t → NL n (run t (buildCacheLoad recs (fun x => (t.mem.cache x).isSome) now ++ tl))) ∧
    (IsLogged n t → IsLogged n (run t (buildCacheLoad recs (fun x => (t.mem.cache x).isSome) now ++ tl))) ∧
    (NL n t → (∃ r ∈ recs, r.name = n) →
      IsLogged n (run t (buildCacheLoad recs (fun x => (t.mem.cache x).isSome) now ++ tl))) := by
  have hcache : (run t (buildCacheLoad recs (fun x => (t.mem.cache x).isSome) now ++ tl)).mem.cache =
      (run t (buildCacheLoad recs (fun x => (t.mem.cache x).isSome) now)).mem.cache := by
    rw [run_append, run_noCache tl htl]
  have hL : IsLogged n t →
      IsLogged n (run t (buildCacheLoad recs (fun x => (t.mem.cache x).isSome) now ++ tl)) := by
    rintro ⟨e, he, hst⟩
    refine ⟨e, ?_, hst⟩
    rw [hcache, buildCacheLoad_kept now n recs _ t (by simp [he])]
    exact he
  refine ⟨?_, hL, ?_⟩
  · intro hn
    unfold NL IsLogged
    rw [hcache]
    apply NL_run_logged n _ _ t hn
    intro p hp
    obtain ⟨r, _, e, he, hst⟩ := buildCacheLoad_spec _ _ _ p hp
    exact ⟨_, e, he, hst⟩
  · intro hn hex
    rcases hn with hn | hn
    · unfold IsLogged
      rw [hcache]
      exact buildCacheLoad_loads now n recs _ t (by simp [hn]) hex
    · exact hL hn

def bcTail (t : State) (recs : List LogRec) (frm now : Int) : List Prim :=
  (if recs.isEmpty then [] else [Prim.cacheTimesSet (t.mem.cacheTimes ++ [now])]) ++
    [Prim.cacheTimeSet (some frm)]

theorem bcTail_noCache (t : State) (recs : List LogRec) (frm now : Int) :
    (bcTail t recs frm now).all noCache = true := by
  unfold bcTail
  split <;> simp [noCache]

theorem buildCacheEffects_none (t : State) (frm now : Int) (h : t.mem.cacheTime = none) :
    buildCacheEffects t frm now =
      buildCacheLoad (buildRecs t frm now) (fun x => (t.mem.cache x).isSome) now ++
        bcTail t (buildRecs t frm now) frm now := by
  unfold buildCacheEffects
  rw [h]
  simp only [bcTail, buildRecs, List.append_assoc]
  rfl

theorem buildCacheEffects_some_le (t : State) (frm now ct : Int) (h : t.mem.cacheTime = some ct)
    (hle : ct ≤ frm) : buildCacheEffects t frm now = [] := by
  unfold buildCacheEffects
  rw [h]
  simp [hle]

theorem buildCacheEffects_some_gt (t : State) (frm now ct : Int) (h : t.mem.cacheTime = some ct)
    (hgt : ¬ ct ≤ frm) :
    buildCacheEffects t frm now =
      buildCacheLoad (buildRecs t frm ct) (fun x => (t.mem.cache x).isSome) now ++
        bcTail t (buildRecs t frm ct) frm now := by
  unfold buildCacheEffects
  rw [h]
  simp only [hgt, if_false, bcTail, buildRecs, List.append_assoc]
  rfl

theorem run_bcTail_cacheTime (t0 t : State) (recs : List LogRec) (frm now : Int) (ps : List Prim) :
    (run t (ps ++ bcTail t0 recs frm now)).mem.cacheTime = some frm := by
  unfold bcTail
  rw [← List.append_assoc, run_append]
  rfl

/-- primitives of the walk of `Recover` -/
def walkPrim : Prim → Bool
  | .setReady _ | .rmCmp _ | .renPartFull _ => true
  | _ => false

theorem run_walkPrim (ps : List Prim) (h : ps.all walkPrim = true) (t : State) :
    (run t ps).mem.cache = t.mem.cache ∧ (run t ps).mem.cacheTime = t.mem.cacheTime ∧
      (run t ps).disk.log = t.disk.log := by
  induction ps generalizing t with
  | nil => exact ⟨rfl, rfl, rfl⟩
  | cons p ps ih =>
    simp only [List.all_cons, Bool.and_eq_true] at h
    obtain ⟨a, b, c⟩ := ih h.2 (applyPrim t p)
    rw [run_cons, a, b, c]
    cases p <;> simp [walkPrim] at h <;> simp [applyPrim, applyMem, applyDisk]
    split <;> rfl

theorem buildRecs_congr (t t' : State) (frm ct : Int) (h : t'.disk.log = t.disk.log) :
    buildRecs t' frm ct = buildRecs t frm ct := by
  simp only [buildRecs, h]

/-- `Recover` on a crash image, seen from a name `n` that the walk classifies as neither to be
    finalized nor to be validated: afterwards the cache starts at `oldest companion − 1 day`,
    `n` is uncached or logged, and it is logged when the log has a record of `n` in the days
    from there to `now`. -/
theorem recover_crashed_logged (H : Body → String) (s : State) (now : Int) (names : List Name)
    (n : Name) (hcls : (recoverWalk H s.disk n).2 = .nothing) :
    (run (crash s) (recoverEffects H (crash s) now names)).mem.cacheTime =
        some (minMtime s.disk now names - 86400) ∧
    NL n (run (crash s) (recoverEffects H (crash s) now names)) ∧
    ((∃ r ∈ buildRecs s (minMtime s.disk now names - 86400) now, r.name = n) →
      IsLogged n (run (crash s) (recoverEffects H (crash s) now names))) := by
  have hd : (crash s).disk = s.disk := rfl
  unfold recoverEffects
  rw [hd]
  extract_lets walk p1 s1 oldest p2 s2 fins vals stepF r3 stepV r4
  have hp1 : p1.all walkPrim = true := by
    simp only [p1, List.all_append, List.all_flatMap, Bool.and_eq_true]
    refine ⟨by simp [walkPrim], ?_⟩
    simp only [List.all_eq_true]
    intro x hx
    simp only [walk, List.mem_map] at hx
    obtain ⟨m, _, rfl⟩ := hx
    intro p hp
    rcases recoverWalk_prims H s.disk m p hp with h | h <;> (subst h; rfl)
  obtain ⟨hc1, hct1, hlog1⟩ := run_walkPrim p1 hp1 (crash s)
  have hct1' : s1.mem.cacheTime = none := hct1
  have hNL1 : NL n s1 := Or.inl (by show s1.mem.cache n = none; rw [show s1.mem.cache = _ from hc1]; rfl)
  have hp2 : p2 = buildCacheLoad (buildRecs s1 (oldest - 86400) now) (fun x => (s1.mem.cache x).isSome) now ++
      bcTail s1 (buildRecs s1 (oldest - 86400) now) (oldest - 86400) now :=
    buildCacheEffects_none s1 _ now hct1'
  have hrecs : buildRecs s1 (oldest - 86400) now = buildRecs s (oldest - 86400) now :=
    buildRecs_congr s s1 _ _ hlog1
  obtain ⟨hA, _, hC⟩ := load_core s1 (buildRecs s1 (oldest - 86400) now) now
    (bcTail s1 (buildRecs s1 (oldest - 86400) now) (oldest - 86400) now) n (bcTail_noCache _ _ _ _)
  rw [← hp2] at hA hC
  have hct2 : s2.mem.cacheTime = some (oldest - 86400) := by
    show (run s1 p2).mem.cacheTime = _
    rw [hp2]; exact run_bcTail_cacheTime _ _ _ _ _ _
  have hfins : ∀ x ∈ fins, x.1 ≠ n := by
    intro x hx hxn
    simp only [fins, List.mem_filterMap] at hx
    obtain ⟨y, hy, hyx⟩ := hx
    simp only [walk, List.mem_map] at hy
    obtain ⟨m, _, rfl⟩ := hy
    simp only at hyx
    split at hyx
    · rename_i c' hc'
      simp only [Option.some.injEq] at hyx
      subst hyx
      simp only at hxn
      subst hxn
      rw [hcls] at hc'
      cases hc'
    · simp at hyx
  have hvals : ∀ x ∈ vals, x.1 ≠ n := by
    intro x hx hxn
    simp only [vals, List.mem_filterMap] at hx
    obtain ⟨y, hy, hyx⟩ := hx
    simp only [walk, List.mem_map] at hy
    obtain ⟨m, _, rfl⟩ := hy
    simp only at hyx
    split at hyx
    · rename_i c' hc'
      simp only [Option.some.injEq] at hyx
      subst hyx
      simp only at hxn
      subst hxn
      rw [hcls] at hc'
      cases hc'
    · simp at hyx
  have hr3 : r3.1 = run s2 r3.2 :=
    foldl_fst_run stepF (fun acc x => ⟨_, rfl⟩) s2 fins (s2, []) rfl
  have hr4 : r4.1 = run s2 r4.2 :=
    foldl_fst_run stepV (fun acc x => ⟨_, rfl⟩) s2 vals r3 hr3
  -- the two folds leave the entry of `n` and the cache start time alone
  have hQ3 : r3.1.mem.cache n = s2.mem.cache n ∧ r3.1.mem.cacheTime = s2.mem.cacheTime := by
    refine foldl_keep (fun t => t.mem.cache n = s2.mem.cache n ∧ t.mem.cacheTime = s2.mem.cacheTime)
      stepF fins ?_ (s2, []) ⟨rfl, rfl⟩
    intro acc x hx hq
    have hxn := hfins x hx
    simp only [stepF]
    obtain ⟨a, b, _⟩ := quietFor_run n
      (toCache acc.1.mem x.1 (Entry.ofCmp x.2 .validated) .validated now ++
        [Prim.fqPush x.1 { Entry.ofCmp x.2 .validated with time := now }]) (by
      simp only [List.all_append, Bool.and_eq_true]
      exact ⟨toCache_quietFor n _ _ _ _ _ hxn rfl (by decide), by simp [quietFor]⟩) acc.1
    exact ⟨a.trans hq.1, b.trans hq.2⟩
  have hQ4 : r4.1.mem.cache n = s2.mem.cache n ∧ r4.1.mem.cacheTime = s2.mem.cacheTime := by
    refine foldl_keep (fun t => t.mem.cache n = s2.mem.cache n ∧ t.mem.cacheTime = s2.mem.cacheTime)
      stepV vals ?_ r3 hQ3
    intro acc x hx hq
    have hxn := hvals x hx
    simp only [stepV]
    obtain ⟨a, b, _⟩ := quietFor_run n _ (recoverValOne_quietFor n H acc.1 now x hxn) acc.1
    exact ⟨a.trans hq.1, b.trans hq.2⟩
  have hfinal : run (crash s) (p1 ++ p2 ++ r4.2 ++ [Prim.setReady true]) =
      run r4.1 [Prim.setReady true] := by
    rw [run_append, run_append, run_append, hr4]
  rw [hfinal]
  have hcE : (run r4.1 [Prim.setReady true]).mem.cache n = s2.mem.cache n := hQ4.1
  have htE : (run r4.1 [Prim.setReady true]).mem.cacheTime = s2.mem.cacheTime := hQ4.2
  refine ⟨htE.trans hct2, ?_, ?_⟩
  · have := hA hNL1
    unfold NL IsLogged at this ⊢
    rw [hcE]; exact this
  · intro hex
    rw [← hrecs] at hex
    have := hC hNL1 hex
    unfold IsLogged at this ⊢
    rw [hcE]; exact this

/-- `buildCache` on a state whose cache starts at `ct`: a name that is uncached-or-logged is
    logged afterwards if it was logged before, or if `frm` is earlier than `ct` and the log has a
    record of it in the days from `frm` to `ct`. -/
theorem buildCache_logged (t : State) (frm now ct : Int) (n : Name)
    (hct : t.mem.cacheTime = some ct) (hNL : NL n t)
    (h : IsLogged n t ∨ (frm < ct ∧ ∃ r ∈ buildRecs t frm ct, r.name = n)) :
    IsLogged n (run t (buildCacheEffects t frm now)) := by
  by_cases hle : ct ≤ frm
  · rw [buildCacheEffects_some_le t frm now ct hct hle]
    rcases h with h | ⟨hlt, _⟩
    · exact h
    · omega
  · rw [buildCacheEffects_some_gt t frm now ct hct hle]
    obtain ⟨_, hB, hC⟩ := load_core t (buildRecs t frm ct) now (bcTail t (buildRecs t frm ct) frm now) n
      (bcTail_noCache _ _ _ _)
    rcases h with h | ⟨_, hex⟩
    · exact hB h
    · exact hC hNL hex

end Sts.Stage.Dur
