/-
  Invariants of the Pipeline model, part P: where `Start` is, which waits have returned and
  which channels are closed.
-/
import StsModel.Lemmas.PipelineInv
namespace Sts.Pipeline

def E1 (s : State) : Prop := s.earlyRet = true → s.stop = .now ∧ s.recovering = false
def E2 (s : State) : Prop := s.recovering = true → s.startPos = 0
def PLe (s : State) : Prop := s.startPos ≤ 16
def P1 (s : State) : Prop := 1 ≤ s.startPos → s.scanPc = .done
def P2 (s : State) : Prop := 2 ≤ s.startPos → s.rtDone = s.cfg.threads
def P3 (s : State) : Prop := s.clScanned = true ↔ 3 ≤ s.startPos
def P4 (s : State) : Prop := 4 ≤ s.startPos → s.qPc = .done
def P5 (s : State) : Prop := s.clQueued = true ↔ 5 ≤ s.startPos
def P6 (s : State) : Prop := 6 ≤ s.startPos → s.binPc = .done
def P7 (s : State) : Prop := s.clTransmit = true ↔ 7 ≤ s.startPos
def P8 (s : State) : Prop := 8 ≤ s.startPos → s.sdDone = s.cfg.threads
def P9 (s : State) : Prop := s.clTransmitted = true ↔ 9 ≤ s.startPos
def P10 (s : State) : Prop := 10 ≤ s.startPos → s.trPc = .done
def P11 (s : State) : Prop := s.clValidate = true ↔ 11 ≤ s.startPos
def P12 (s : State) : Prop := s.clStats = true ↔ 12 ≤ s.startPos
def P13 (s : State) : Prop := 13 ≤ s.startPos → s.stDone = true
def P14 (s : State) : Prop := 14 ≤ s.startPos → s.vaPc = .done
def P15 (s : State) : Prop := s.clRetry = true ↔ 15 ≤ s.startPos
def PScan (s : State) : Prop := s.scanPc = .done → s.stop ≠ .none

set_option maxHeartbeats 4000000 in
theorem E1_step {s : State} {a : Action}  (h : E1 s) (g : guard s a) : E1 (apply s a) := by
  unfold E1 at *; inv_step s a g
set_option maxHeartbeats 4000000 in
theorem E2_step {s : State} {a : Action}  (h : E2 s) (g : guard s a) : E2 (apply s a) := by
  unfold E2 at *; inv_step s a g
set_option maxHeartbeats 4000000 in
theorem PLe_step {s : State} {a : Action}  (h : PLe s) (g : guard s a) : PLe (apply s a) := by
  unfold PLe at *; inv_step s a g
set_option maxHeartbeats 4000000 in
theorem P1_step {s : State} {a : Action}  (h : P1 s) (g : guard s a) : P1 (apply s a) := by
  unfold P1 at *; inv_step s a g
set_option maxHeartbeats 4000000 in
theorem P2_step {s : State} {a : Action} (d0 : S1 s) (h : P2 s) (g : guard s a) : P2 (apply s a) := by
  unfold P2 S1 at *; inv_step s a g
set_option maxHeartbeats 4000000 in
theorem P3_step {s : State} {a : Action}  (h : P3 s) (g : guard s a) : P3 (apply s a) := by
  unfold P3 at *; inv_step s a g
set_option maxHeartbeats 4000000 in
theorem P4_step {s : State} {a : Action}  (h : P4 s) (g : guard s a) : P4 (apply s a) := by
  unfold P4 at *; inv_step s a g
set_option maxHeartbeats 4000000 in
theorem P5_step {s : State} {a : Action}  (h : P5 s) (g : guard s a) : P5 (apply s a) := by
  unfold P5 at *; inv_step s a g
set_option maxHeartbeats 4000000 in
theorem P6_step {s : State} {a : Action}  (h : P6 s) (g : guard s a) : P6 (apply s a) := by
  unfold P6 at *; inv_step s a g
set_option maxHeartbeats 4000000 in
theorem P7_step {s : State} {a : Action}  (h : P7 s) (g : guard s a) : P7 (apply s a) := by
  unfold P7 at *; inv_step s a g
set_option maxHeartbeats 4000000 in
theorem P8_step {s : State} {a : Action} (d0 : S2 s) (h : P8 s) (g : guard s a) : P8 (apply s a) := by
  unfold P8 S2 at *; inv_step s a g
set_option maxHeartbeats 4000000 in
theorem P9_step {s : State} {a : Action}  (h : P9 s) (g : guard s a) : P9 (apply s a) := by
  unfold P9 at *; inv_step s a g
set_option maxHeartbeats 4000000 in
theorem P10_step {s : State} {a : Action}  (h : P10 s) (g : guard s a) : P10 (apply s a) := by
  unfold P10 at *; inv_step s a g
set_option maxHeartbeats 4000000 in
theorem P11_step {s : State} {a : Action}  (h : P11 s) (g : guard s a) : P11 (apply s a) := by
  unfold P11 at *; inv_step s a g
set_option maxHeartbeats 4000000 in
theorem P12_step {s : State} {a : Action}  (h : P12 s) (g : guard s a) : P12 (apply s a) := by
  unfold P12 at *; inv_step s a g
set_option maxHeartbeats 4000000 in
theorem P13_step {s : State} {a : Action}  (h : P13 s) (g : guard s a) : P13 (apply s a) := by
  unfold P13 at *; inv_step s a g
set_option maxHeartbeats 4000000 in
theorem P14_step {s : State} {a : Action}  (h : P14 s) (g : guard s a) : P14 (apply s a) := by
  unfold P14 at *; inv_step s a g
set_option maxHeartbeats 4000000 in
theorem P15_step {s : State} {a : Action}  (h : P15 s) (g : guard s a) : P15 (apply s a) := by
  unfold P15 at *; inv_step s a g
set_option maxHeartbeats 4000000 in
theorem PScan_step {s : State} {a : Action}  (h : PScan s) (g : guard s a) : PScan (apply s a) := by
  unfold PScan at *; inv_step s a g

end Sts.Pipeline
