/-
  Invariants of the Pipeline model (Model/Pipeline.lean) used by the C16 theorems.
-/
import StsModel.Model.Pipeline
namespace Sts.Pipeline

@[simp] theorem startSequence_length : startSequence.length = 16 := rfl

theorem startStep_cases (s : State) (h : guard s .startStep) :
    running s ∧ (
    (s.startPos = 0 ∧ s.scanPc = .done ∧ apply s .startStep = { s with startPos := 1 }) ∨
    (s.startPos = 1 ∧ s.rtDone = s.cfg.threads ∧ apply s .startStep = { s with startPos := 2 }) ∨
    (s.startPos = 2 ∧ True ∧ apply s .startStep = { s with startPos := 3, clScanned := true }) ∨
    (s.startPos = 3 ∧ s.qPc = .done ∧ apply s .startStep = { s with startPos := 4 }) ∨
    (s.startPos = 4 ∧ True ∧ apply s .startStep = { s with startPos := 5, clQueued := true }) ∨
    (s.startPos = 5 ∧ s.binPc = .done ∧ apply s .startStep = { s with startPos := 6 }) ∨
    (s.startPos = 6 ∧ True ∧ apply s .startStep = { s with startPos := 7, clTransmit := true }) ∨
    (s.startPos = 7 ∧ s.sdDone = s.cfg.threads ∧ apply s .startStep = { s with startPos := 8 }) ∨
    (s.startPos = 8 ∧ True ∧ apply s .startStep = { s with startPos := 9, clTransmitted := true }) ∨
    (s.startPos = 9 ∧ s.trPc = .done ∧ apply s .startStep = { s with startPos := 10 }) ∨
    (s.startPos = 10 ∧ True ∧ apply s .startStep = { s with startPos := 11, clValidate := true }) ∨
    (s.startPos = 11 ∧ True ∧ apply s .startStep = { s with startPos := 12, clStats := true }) ∨
    (s.startPos = 12 ∧ s.stDone = true ∧ apply s .startStep = { s with startPos := 13 }) ∨
    (s.startPos = 13 ∧ s.vaPc = .done ∧ apply s .startStep = { s with startPos := 14 }) ∨
    (s.startPos = 14 ∧ True ∧ apply s .startStep = { s with startPos := 15, clRetry := true }) ∨
    (s.startPos = 15 ∧ s.rtDone = s.cfg.threads ∧ apply s .startStep = { s with startPos := 16 })) := by
  unfold guard at h
  obtain ⟨hr, hm⟩ := h
  refine ⟨hr, ?_⟩
  unfold apply
  generalize hp : s.startPos = p at hm ⊢
  rcases p with _|_|_|_|_|_|_|_|_|_|_|_|_|_|_|_|p <;>
    simp [startSequence, groupDone, closeChan] at hm ⊢ <;> try exact hm




/-! arithmetisation of the enumerations so that `omega` can close the goals. `QPc.code` is not
    injective (`sel` and `send` have the same rank), so `QPc` gets its own tag. -/
def QPc.tag : QPc → Nat | .sel => 0 | .send => 1 | .done => 2
theorem Stop.eq_iff (a b : Stop) : a = b ↔ a.code = b.code := by cases a <;> cases b <;> simp [Stop.code]
theorem ScanPc.eq_iff (a b : ScanPc) : a = b ↔ a.code = b.code := by cases a <;> cases b <;> simp [ScanPc.code]
theorem QPc.eq_iff (a b : QPc) : a = b ↔ a.tag = b.tag := by cases a <;> cases b <;> simp [QPc.tag]
theorem BinPc.eq_iff (a b : BinPc) : a = b ↔ a.code = b.code := by cases a <;> cases b <;> simp [BinPc.code]
theorem TrPc.eq_iff (a b : TrPc) : a = b ↔ a.code = b.code := by cases a <;> cases b <;> simp [TrPc.code]
theorem VaPc.eq_iff (a b : VaPc) : a = b ↔ a.code = b.code := by cases a <;> cases b <;> simp [VaPc.code]
@[simp] theorem Stop.code_none : Stop.none.code = 0 := rfl
@[simp] theorem Stop.code_graceful : Stop.graceful.code = 1 := rfl
@[simp] theorem Stop.code_now : Stop.now.code = 2 := rfl
@[simp] theorem ScanPc.code_scanning : ScanPc.scanning.code = 3 := rfl
@[simp] theorem ScanPc.code_sendBatch : ScanPc.sendBatch.code = 2 := rfl
@[simp] theorem ScanPc.code_waitDelay : ScanPc.waitDelay.code = 1 := rfl
@[simp] theorem ScanPc.code_done : ScanPc.done.code = 0 := rfl
@[simp] theorem QPc.tag_sel : QPc.sel.tag = 0 := rfl
@[simp] theorem QPc.tag_send : QPc.send.tag = 1 := rfl
@[simp] theorem QPc.tag_done : QPc.done.tag = 2 := rfl
@[simp] theorem QPc.code_sel : QPc.sel.code = 4 := rfl
@[simp] theorem QPc.code_send : QPc.send.code = 4 := rfl
@[simp] theorem QPc.code_done : QPc.done.code = 0 := rfl
@[simp] theorem BinPc.code_sel : BinPc.sel.code = 3 := rfl
@[simp] theorem BinPc.code_send : BinPc.send.code = 2 := rfl
@[simp] theorem BinPc.code_finalSend : BinPc.finalSend.code = 1 := rfl
@[simp] theorem BinPc.code_done : BinPc.done.code = 0 := rfl
@[simp] theorem TrPc.code_unpack : TrPc.unpack.code = 5 := rfl
@[simp] theorem TrPc.code_head : TrPc.head.code = 4 := rfl
@[simp] theorem TrPc.code_fwd : TrPc.fwd.code = 3 := rfl
@[simp] theorem TrPc.code_polling : TrPc.polling.code = 2 := rfl
@[simp] theorem TrPc.code_blocked : TrPc.blocked.code = 1 := rfl
@[simp] theorem TrPc.code_done : TrPc.done.code = 0 := rfl
@[simp] theorem VaPc.code_batch : VaPc.batch.code = 4 := rfl
@[simp] theorem VaPc.code_hand : VaPc.hand.code = 3 := rfl
@[simp] theorem VaPc.code_head : VaPc.head.code = 2 := rfl
@[simp] theorem VaPc.code_blocked : VaPc.blocked.code = 1 := rfl
@[simp] theorem VaPc.code_done : VaPc.done.code = 0 := rfl
theorem QPc.code_of_tag (a : QPc) : a.code = if a.tag = 2 then 0 else 4 := by cases a <;> rfl
theorem Bool.eq_true_iff_toNat (b : Bool) : b = true ↔ b.toNat = 1 := by cases b <;> simp
theorem Bool.eq_false_iff_toNat (b : Bool) : b = false ↔ b.toNat = 0 := by cases b <;> simp

/-- rewrite every equation between enumeration values / Booleans into arithmetic -/
macro "arith" : tactic =>
  `(tactic| simp only [Stop.eq_iff, ScanPc.eq_iff, QPc.eq_iff, BinPc.eq_iff, TrPc.eq_iff, VaPc.eq_iff,
      Stop.code_none, Stop.code_graceful, Stop.code_now, ScanPc.code_scanning, ScanPc.code_sendBatch,
      ScanPc.code_waitDelay, ScanPc.code_done, QPc.code_sel, QPc.code_send, QPc.code_done, BinPc.code_sel,
      BinPc.code_send, BinPc.code_finalSend, BinPc.code_done, TrPc.code_head, TrPc.code_fwd, TrPc.code_polling, TrPc.code_blocked, TrPc.code_unpack,
      TrPc.code_done, VaPc.code_head, VaPc.code_blocked, VaPc.code_batch, VaPc.code_hand, VaPc.code_done,
      QPc.tag_sel, QPc.tag_send, QPc.tag_done,
      Bool.eq_true_iff_toNat, Bool.eq_false_iff_toNat, Bool.toNat_true, Bool.toNat_false, ne_eq] at *)

/-- close one invariant goal: reduce the projections of the updated state, then either the goal
    is literally a hypothesis or it is arithmetic -/
macro "close_one" : tactic =>
  `(tactic| ((try dsimp only); first | assumption | ((try arith); first | omega | (simp_all; done) | (simp_all; omega))))

/-- all actions except `startStep`: unfold guard and effect, split the effect's `if`s, close -/
macro "stage_one" : tactic =>
  `(tactic| (
    simp only [guard, running, trAtSelect, trDrops, vaAtSelect, vaCanJudge, cap, returned, others] at *
    simp only [apply, fault]
    repeat' split
    all_goals close_one))

/-- `startStep`: one case per position of `startSequence` -/
macro "start_one" s:ident g:ident : tactic =>
  `(tactic| (
    obtain ⟨hr, hc⟩ := startStep_cases $s $g
    simp only [running, others] at *
    obtain ⟨hr1, hr2⟩ := hr
    rcases hc with ⟨hp, hg, he⟩|⟨hp, hg, he⟩|⟨hp, hg, he⟩|⟨hp, hg, he⟩|⟨hp, hg, he⟩|⟨hp, hg, he⟩|⟨hp, hg, he⟩|⟨hp, hg, he⟩|⟨hp, hg, he⟩|⟨hp, hg, he⟩|⟨hp, hg, he⟩|⟨hp, hg, he⟩|⟨hp, hg, he⟩|⟨hp, hg, he⟩|⟨hp, hg, he⟩|⟨hp, hg, he⟩ <;>
    rw [he] <;> clear he <;> close_one))

/-- preservation of one invariant (already unfolded in the context) by every action -/
macro "inv_step" s:ident a:ident g:ident : tactic =>
  `(tactic| (
    cases $a:ident
    (case startStep => start_one $s $g)
    all_goals stage_one))

/-! ### thread pools are conserved -/

def S0 (s : State) : Prop := 0 < s.cfg.threads
def S1 (s : State) : Prop := s.rtRecv + s.rtHold + s.rtDone = s.cfg.threads
def S2 (s : State) : Prop :=
  s.sdRecv + s.sdXmit + s.sdStat + s.sdOut + s.sdHStat + s.sdHOut + s.sdDone = s.cfg.threads

set_option maxHeartbeats 4000000 in
theorem S0_step {s : State} {a : Action} (h : S0 s) (g : guard s a) : S0 (apply s a) := by
  unfold S0 at *; inv_step s a g
set_option maxHeartbeats 4000000 in
theorem S1_step {s : State} {a : Action} (h : S1 s) (g : guard s a) : S1 (apply s a) := by
  unfold S1 at *; inv_step s a g
set_option maxHeartbeats 4000000 in
theorem S2_step {s : State} {a : Action} (h : S2 s) (g : guard s a) : S2 (apply s a) := by
  unfold S2 at *; inv_step s a g

end Sts.Pipeline
