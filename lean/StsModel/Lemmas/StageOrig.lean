/-
  The receiver's `Recover()` and `buildCache()` AS FOUND, for the witnesses of two repaired
  defects (nothing else uses these definitions):

  * `fix:` "Recover validated, logged and delivered again a duplicate of a version that is
    already in the receive log" — as found the validate loop gave every entry of the validate
    list the state received and validated it, whatever the cache entry loaded from the receive
    log said (`recoverValOneOrig`);
  * `fix:` "buildCache kept the oldest of several records of a name" — as found the FIRST record
    of a name read from the log won, so that after a restart the cache described the oldest
    delivered version of a name, not the latest (`buildCacheLoadOrig`).

  `recoverEffectsG dupFix cacheFix`, `effectsG`, `stepG`, `runEvsG` are the model with either
  repair switched on or off; `true true` is the model itself (`recoverEffectsG_fixed`,
  `effectsG_fixed`), `false false` the code as found.
-/
import StsModel.Model.StageSem

namespace Sts.Stage

/-- one entry of the validate list as found: toCache(received), process -/
def recoverValOneOrig (H : Body → String) (t : State) (now : Int) (x : Name × Cmp) : List Prim :=
  toCache t.mem x.1 (Entry.ofCmp x.2 .received) .received now ++
  processCore H (run t (toCache t.mem x.1 (Entry.ofCmp x.2 .received) .received now)) x.1
    { Entry.ofCmp x.2 .received with time := now } now

/-- buildCache's load as found: the first record of a name wins -/
def buildCacheLoadOrig (recs : List LogRec) (cached : Name → Bool) (now : Int) : List Prim :=
  match recs with
  | [] => []
  | r :: rs =>
    if cached r.name then buildCacheLoadOrig rs cached now
    else Prim.cacheSet r.name
           { renamed := r.renamed, prev := "", hash := r.hash, size := r.size, state := .logged,
             logged := some r.time, time := now } ::
         buildCacheLoadOrig rs (fun x => x = r.name ∨ cached x) now

/-- `buildCacheEffects` with the load switched -/
def buildCacheEffectsG (cacheFix : Bool) (s : State) (frm : Int) (now : Int) : List Prim :=
  let load := if cacheFix then buildCacheLoad else buildCacheLoadOrig
  match s.mem.cacheTime with
  | some ct => if ct ≤ frm then [] else
      let days := visitedDays frm ct
      let recs := days.flatMap (fun d => s.disk.log.filter (fun r => dayOf r.time == d && !(r.time > ct)))
      load recs (fun x => (s.mem.cache x).isSome) now ++
      (if recs.isEmpty then [] else [Prim.cacheTimesSet (s.mem.cacheTimes ++ [now])]) ++
      [Prim.cacheTimeSet (some frm)]
  | none =>
      let ct := now
      let days := visitedDays frm ct
      let recs := days.flatMap (fun d => s.disk.log.filter (fun r => dayOf r.time == d && !(r.time > ct)))
      load recs (fun x => (s.mem.cache x).isSome) now ++
      (if recs.isEmpty then [] else [Prim.cacheTimesSet (s.mem.cacheTimes ++ [now])]) ++
      [Prim.cacheTimeSet (some frm)]

/-- `recoverEffects` with the two repairs switched -/
def recoverEffectsG (dupFix cacheFix : Bool) (H : Body → String) (s : State) (now : Int)
    (names : List Name) : List Prim :=
  let walk := names.map (fun n => (n, recoverWalk H s.disk n))
  let p1 := [Prim.setReady false] ++ walk.flatMap (fun x => x.2.1)
  let s1 := run s p1
  let oldest := minMtime s.disk now names
  let p2 := buildCacheEffectsG cacheFix s1 (oldest - 86400) now
  let s2 := run s1 p2
  let fins := walk.filterMap (fun x => match x.2.2 with | .finalize c => some (x.1, c) | _ => none)
  let vals := walk.filterMap (fun x => match x.2.2 with | .validate c => some (x.1, c) | _ => none)
  let stepF := fun (acc : State × List Prim) (x : Name × Cmp) =>
    let e := Entry.ofCmp x.2 .validated
    let ps := toCache acc.1.mem x.1 e .validated now ++ [Prim.fqPush x.1 { e with time := now }]
    (run acc.1 ps, acc.2 ++ ps)
  let r3 := fins.foldl stepF (s2, [])
  let valOne := if dupFix then recoverValOne H else recoverValOneOrig H
  let stepV := fun (acc : State × List Prim) (x : Name × Cmp) =>
    (run acc.1 (valOne acc.1 now x), acc.2 ++ valOne acc.1 now x)
  let r4 := vals.foldl stepV r3
  p1 ++ p2 ++ r4.2 ++ [Prim.setReady true]

theorem buildCacheEffectsG_fixed (s : State) (frm now : Int) :
    buildCacheEffectsG true s frm now = buildCacheEffects s frm now := rfl

theorem recoverEffectsG_fixed (H : Body → String) (s : State) (now : Int) (names : List Name) :
    recoverEffectsG true true H s now names = recoverEffects H s now names := rfl

/-- the event semantics with the repairs switched -/
def effectsG (dupFix cacheFix : Bool) (H : Body → String) (s : State) : OpEv → List Prim
  | .recover now names => recoverEffectsG dupFix cacheFix H s now names
  | .buildCache frm now => buildCacheEffectsG cacheFix s frm now
  | o => effects H s o

theorem effectsG_fixed (H : Body → String) (s : State) (o : OpEv) :
    effectsG true true H s o = effects H s o := by
  cases o <;> rfl

def stepG (dupFix cacheFix : Bool) (H : Body → String) (s : State) : Ev → State
  | .op o => run s (effectsG dupFix cacheFix H s o)
  | .cutOp k o => crash (run s (cut k (effectsG dupFix cacheFix H s o)))
  | .crash => crash s

def runEvsG (dupFix cacheFix : Bool) (H : Body → String) (s : State) (evs : List Ev) : State :=
  evs.foldl (stepG dupFix cacheFix H) s

/-- the code as found -/
abbrev recoverEffectsOrig := recoverEffectsG false false
abbrev runEvsOrig := runEvsG false false

end Sts.Stage
