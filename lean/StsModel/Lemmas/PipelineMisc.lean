/-
  Small facts about runs of the Pipeline model: what never changes along a run.
-/
import StsModel.Lemmas.PipelineInvAll
namespace Sts.Pipeline

/-- a stop was requested -/
def StopReq (s : State) : Prop := s.stop ≠ .none
/-- the stop in progress is graceful -/
def StopGraceful (s : State) : Prop := s.stop = .graceful
/-- no fault can happen and none happened -/
def NoFaults (s : State) : Prop := s.budget = 0 ∧ s.faults = 0
/-- the configuration is `c` -/
def HasCfg (c : Cfg) (s : State) : Prop := s.cfg = c

set_option maxHeartbeats 4000000 in
/-- A stop request is never withdrawn. -/
theorem StopReq_step {s : State} {a : Action} (h : StopReq s) (g : guard s a) : StopReq (apply s a) := by
  unfold StopReq at *; inv_step s a g
set_option maxHeartbeats 4000000 in
/-- A graceful stop stays graceful (the stop goroutine reads `stop` once). -/
theorem StopGraceful_step {s : State} {a : Action} (h : StopGraceful s) (g : guard s a) : StopGraceful (apply s a) := by
  unfold StopGraceful at *; inv_step s a g
set_option maxHeartbeats 4000000 in
theorem NoFaults_step {s : State} {a : Action} (h : NoFaults s) (g : guard s a) : NoFaults (apply s a) := by
  unfold NoFaults at *; inv_step s a g
set_option maxHeartbeats 4000000 in
theorem HasCfg_step {c : Cfg} {s : State} {a : Action} (h : HasCfg c s) (g : guard s a) : HasCfg c (apply s a) := by
  unfold HasCfg at *; inv_step s a g

/-- lift a step-invariant to runs -/
theorem run_preserves {P : State → Prop} (hstep : ∀ {s a}, P s → guard s a → P (apply s a)) :
    ∀ (as : List Action) (x y : State), runActions x as = some y → P x → P y := by
  intro as
  induction as with
  | nil => intro x y e hx; simp [runActions] at e; exact e ▸ hx
  | cons a as ih =>
    intro x y e hx
    unfold runActions at e
    split at e
    · rename_i x1 hx1
      obtain ⟨g, rfl⟩ := step_some hx1
      exact ih _ _ e (hstep hx g)
    · cases e

end Sts.Pipeline
