/-
  Where the predecessor (`prev`) of a companion, a cache entry, a queue item, a parked entry and
  a receive-log record comes from (Model/Stage*.lean, stage/local.go).

  The history-level notion: `announced evs n h` = the `Meta.prev` values of the headers the
  receiver was GIVEN for version `h` of name `n` - the `record n m …` events (the locked region
  of Receive, complete or cut by a crash after at least one durable step) with `m.hash = h`.

  The invariant `CarriedInv Ac A s`, for relations `Ac n h p`, `A n h p` ("`p` is an admissible
  predecessor of version `h` of `n`" in a companion / in an entry or record; `Ac → A` is needed,
  because Recover builds entries from companions):
    * the companion `<n>.cmp` (and its temporary `<n>.cmp.lck`) of hash `h` carries a `p` with
      `Ac n h p`;
    * a cache entry is either loaded from the receive log (state `logged`, `prev = ""`:
      `buildCacheLoad`) or carries a `p` with `A n h p`; items of the validate queue, of the
      finalize queue and parked entries carry such a `p`;
    * every receive-log record (ghost field `LogRec.prev`: the predecessor the entry carried when
      it was finalized) carries such a `p`.
  It is preserved by every primitive that meets the state-independent guard `CG Ac A`; every
  operation's primitives meet it in a state that satisfies the invariant, provided `Ac` admits
  the header of a `record` event and `A` whatever the cleaner writes (`effects_CG`).

  The invariant takes two relations: `Ac` for companions (never blanked) and `A` for entries and
  records. The instances and the two history theorems are at the end (`RunsTo H evs s`: the
  history `evs` from the empty staging area ends in `s`):
    * `carried_or_blank`  : `Ac = A0 evs` (`p ∈ announced evs n h`),
                            `A = A1 evs` (`p = "" ∨ p ∈ announced evs n h`)     - no hypothesis;
    * `carried_spared`    : `Ac = A0 evs`, `A = A2 N evs` (`N n → p ∈ announced evs n h`) - for
      the names `N` whose entries the cleaner never wrote (`CleanerSpared`).
  The property-level statements, the composition and the witnesses are in Props/C04Carried.lean.
-/
import StsModel.Lemmas.StageFin
import StsModel.Lemmas.StageLoggedHash

namespace Sts.Stage

/-! ## the headers the receiver was given -/

/-- the header of a `record` event: the locked region of Receive ran (`.op`) or was cut by a
    crash after at least one durable step (`.cutOp (k + 1)`: the companion's temporary file was
    written; a cut before the first durable step leaves nothing of the header behind) -/
def Ev.header : Ev → Option (Name × Meta)
  | .op (.record n m _ _ _) => some (n, m)
  | .cutOp (_ + 1) (.record n m _ _ _) => some (n, m)
  | _ => none

/-- the names a cleaner event was run over (complete or cut by a crash) -/
def Ev.cleaned : Ev → Option (List Name)
  | .op (.cleanWaiting names) => some names
  | .cutOp _ (.cleanWaiting names) => some names
  | _ => none

/-- **announced**: the predecessors announced by the headers the receiver was given for
    version `h` of name `n`, in the order of the events -/
def announced (evs : List Ev) (n : Name) (h : String) : List String :=
  evs.filterMap (fun e => match e.header with
    | some (n', m) => if n' = n ∧ m.hash = h then some m.prev else none
    | none => none)

theorem mem_announced {evs : List Ev} {n : Name} {h p : String} :
    p ∈ announced evs n h ↔ ∃ e ∈ evs, ∃ m, e.header = some (n, m) ∧ m.hash = h ∧ m.prev = p := by
  simp only [announced, List.mem_filterMap]
  constructor
  · rintro ⟨e, he, hp⟩
    split at hp
    · rename_i n' m hh
      split at hp
      · rename_i hc
        obtain ⟨rfl, rfl⟩ := hc
        exact ⟨e, he, m, hh, rfl, by simpa using hp⟩
      · cases hp
    · cases hp
  · rintro ⟨e, he, m, hh, rfl, rfl⟩
    exact ⟨e, he, by simp [hh]⟩

theorem announced_append (evs evs' : List Ev) (n : Name) (h : String) :
    announced (evs ++ evs') n h = announced evs n h ++ announced evs' n h := by
  simp [announced, List.filterMap_append]

theorem announced_mono {evs : List Ev} {e : Ev} {n : Name} {h p : String}
    (hp : p ∈ announced evs n h) : p ∈ announced (evs ++ [e]) n h := by
  rw [announced_append]; exact List.mem_append_left _ hp

theorem announced_header {evs : List Ev} {e : Ev} {n : Name} {m : Meta}
    (he : e.header = some (n, m)) : m.prev ∈ announced (evs ++ [e]) n m.hash :=
  mem_announced.mpr ⟨e, by simp, m, he, rfl, rfl⟩

/-! ## runs with their event list -/

/-- `RunsTo H evs s`: the history `evs` from the empty staging area ends in `s` -/
inductive RunsTo (H : Body → String) : List Ev → State → Prop
  | init : RunsTo H [] Stage.init
  | snoc {evs : List Ev} {s : State} (e : Ev) : RunsTo H evs s → RunsTo H (evs ++ [e]) (Stage.step H s e)

theorem RunsTo.eq {H : Body → String} {evs : List Ev} {s : State} (h : RunsTo H evs s) :
    s = runEvs H Stage.init evs := by
  induction h with
  | init => rfl
  | snoc e _ ih => rw [ih]; simp [runEvs, List.foldl_append]

theorem runsTo_runEvs (H : Body → String) (evs : List Ev) : RunsTo H evs (runEvs H Stage.init evs) := by
  suffices ∀ (l pre : List Ev) (s0 : State), RunsTo H pre s0 → RunsTo H (pre ++ l) (runEvs H s0 l) from
    by simpa using this evs [] Stage.init RunsTo.init
  intro l
  induction l with
  | nil => intro pre s0 h; simpa [runEvs] using h
  | cons e l ih =>
    intro pre s0 h
    have := ih (pre ++ [e]) _ (RunsTo.snoc e h)
    simpa [runEvs] using this

theorem RunsTo.reachable {H : Body → String} {evs : List Ev} {s : State} (h : RunsTo H evs s) :
    Reachable H s := ⟨evs, h.eq⟩

theorem Reachable.runsTo {H : Body → String} {s : State} (h : Reachable H s) : ∃ evs, RunsTo H evs s := by
  obtain ⟨evs, rfl⟩ := h
  exact ⟨evs, runsTo_runEvs H evs⟩

/-! ## guard and invariant -/

/-- guard: what a primitive may put into a companion, a cache entry, a queue or the log -/
def CG (Ac A : Name → String → String → Prop) : Prim → Prop
  | .cmpTmp n c => Ac n c.hash c.prev
  | .cacheSet n e => (e.state = .logged ∧ e.prev = "") ∨ A n e.hash e.prev
  | .vqPush n e => A n e.hash e.prev
  | .fqPush n e => A n e.hash e.prev
  | .waitAdd _ n e => A n e.hash e.prev
  | .logAppend r => A r.name r.hash r.prev
  | _ => True

/-- every primitive of a list meets the guard -/
def CGs (Ac A : Name → String → String → Prop) (ps : List Prim) : Prop := ∀ p ∈ ps, CG Ac A p

theorem CGs.nil {Ac A : Name → String → String → Prop} : CGs Ac A [] := fun _ h => by cases h

theorem CGs.append {Ac A : Name → String → String → Prop} {ps qs : List Prim} (h1 : CGs Ac A ps) (h2 : CGs Ac A qs) :
    CGs Ac A (ps ++ qs) := by
  intro p hp
  rcases List.mem_append.mp hp with h | h
  · exact h1 p h
  · exact h2 p h

theorem CGs.cons {Ac A : Name → String → String → Prop} {p : Prim} {ps : List Prim} (h1 : CG Ac A p) (h2 : CGs Ac A ps) :
    CGs Ac A (p :: ps) := by
  intro q hq
  rcases List.mem_cons.mp hq with rfl | h
  · exact h1
  · exact h2 q h

structure CarriedInv (Ac A : Name → String → String → Prop) (s : State) : Prop where
  cmp : ∀ n c, s.disk.cmp n = some c → Ac n c.hash c.prev
  cmpTmp : ∀ n c, s.disk.cmpTmp n = some c → Ac n c.hash c.prev
  cache : ∀ n e, s.mem.cache n = some e → (e.state = .logged ∧ e.prev = "") ∨ A n e.hash e.prev
  vq : ∀ x ∈ s.mem.vq, A x.1 x.2.hash x.2.prev
  fq : ∀ x ∈ s.mem.fq, A x.1 x.2.hash x.2.prev
  wait : ∀ w ∈ s.mem.wait, A w.2.1 w.2.2.hash w.2.2.prev
  log : ∀ r ∈ s.disk.log, A r.name r.hash r.prev

theorem CarriedInv.mono {Ac Ac' A A' : Name → String → String → Prop}
    (hCC : ∀ n h p, Ac n h p → Ac' n h p) (hAA : ∀ n h p, A n h p → A' n h p)
    {s : State} (h : CarriedInv Ac A s) : CarriedInv Ac' A' s :=
  ⟨fun n c hc => hCC _ _ _ (h.cmp n c hc), fun n c hc => hCC _ _ _ (h.cmpTmp n c hc),
   fun n e he => (h.cache n e he).imp id (hAA _ _ _), fun x hx => hAA _ _ _ (h.vq x hx),
   fun x hx => hAA _ _ _ (h.fq x hx), fun w hw => hAA _ _ _ (h.wait w hw),
   fun r hr => hAA _ _ _ (h.log r hr)⟩

theorem CarriedInv.init (Ac A : Name → String → String → Prop) : CarriedInv Ac A Stage.init := by
  refine ⟨?_, ?_, ?_, ?_, ?_, ?_, ?_⟩ <;> intros <;> simp_all [Stage.init]

theorem CarriedInv.crash {Ac A : Name → String → String → Prop} {s : State} (h : CarriedInv Ac A s) :
    CarriedInv Ac A (Stage.crash s) := by
  refine ⟨h.cmp, h.cmpTmp, ?_, ?_, ?_, ?_, h.log⟩ <;> intros <;> simp_all [Stage.crash]

/-! ### how one primitive changes the seven places -/

theorem eraseFirst_sub {α : Type} (p : α → Bool) (l : List α) : ∀ x ∈ eraseFirst p l, x ∈ l := by
  induction l with
  | nil => intro x hx; simp [eraseFirst] at hx
  | cons y ys ih =>
    intro x hx
    unfold eraseFirst at hx
    split at hx
    · exact List.mem_cons_of_mem _ hx
    · rcases List.mem_cons.mp hx with rfl | h
      · simp
      · exact List.mem_cons_of_mem _ (ih x h)

theorem applyPrim_cmp (s : State) (p : Prim) (n : Name) (c : Cmp)
    (h : (applyPrim s p).disk.cmp n = some c) :
    s.disk.cmp n = some c ∨ s.disk.cmpTmp n = some c := by
  cases p <;> simp only [applyPrim, applyDisk] at h
  case rmCmp m =>
    by_cases hnm : n = m
    · subst hnm; simp at h
    · simp only [upd_other _ _ _ _ hnm] at h; exact Or.inl h
  case rmCmpIf m hh =>
    split at h
    · split at h
      · by_cases hnm : n = m
        · subst hnm; simp at h
        · simp only [upd_other _ _ _ _ hnm] at h; exact Or.inl h
      · exact Or.inl h
    · exact Or.inl h
  case cmpCommit m now =>
    split at h
    · rename_i c0 hc0
      by_cases hnm : n = m
      · subst hnm
        simp only [upd_same, Option.some.injEq] at h
        subst h; exact Or.inr hc0
      · simp only [upd_other _ _ _ _ hnm] at h; exact Or.inl h
    · exact Or.inl h
  all_goals first
    | exact Or.inl h
    | (split at h <;> exact Or.inl h)

theorem applyPrim_cmpTmp (s : State) (p : Prim) (n : Name) (c : Cmp)
    (h : (applyPrim s p).disk.cmpTmp n = some c) :
    s.disk.cmpTmp n = some c ∨ p = Prim.cmpTmp n c := by
  cases p <;> simp only [applyPrim, applyDisk] at h
  case cmpTmp m c0 =>
    by_cases hnm : n = m
    · subst hnm
      simp only [upd_same, Option.some.injEq] at h
      subst h; exact Or.inr rfl
    · simp only [upd_other _ _ _ _ hnm] at h; exact Or.inl h
  case cmpCommit m now =>
    split at h
    · by_cases hnm : n = m
      · subst hnm; simp at h
      · simp only [upd_other _ _ _ _ hnm] at h; exact Or.inl h
    · exact Or.inl h
  all_goals first
    | exact Or.inl h
    | (split at h <;> first | exact Or.inl h | (split at h <;> exact Or.inl h))

theorem applyPrim_cache (s : State) (p : Prim) (n : Name) (e : Entry)
    (h : (applyPrim s p).mem.cache n = some e) :
    s.mem.cache n = some e ∨ (∃ e0, p = Prim.cacheSet n e0 ∧ e = { e0 with seq := s.mem.clock }) ∨
    (∃ e0, s.mem.cache n = some e0 ∧ e = { e0 with nextFinal := true }) := by
  cases p <;> simp only [applyPrim, applyMem] at h
  case cacheSet m e0 =>
    by_cases hnm : n = m
    · subst hnm
      simp only [upd_same, Option.some.injEq] at h
      exact Or.inr (Or.inl ⟨e0, rfl, h.symm⟩)
    · simp only [upd_other _ _ _ _ hnm] at h; exact Or.inl h
  case cacheDel m =>
    by_cases hnm : n = m
    · subst hnm; simp at h
    · simp only [upd_other _ _ _ _ hnm] at h; exact Or.inl h
  case nextFinalSet m =>
    split at h
    · rename_i e0 he0
      by_cases hnm : n = m
      · subst hnm
        simp only [upd_same, Option.some.injEq] at h
        exact Or.inr (Or.inr ⟨e0, he0, h.symm⟩)
      · simp only [upd_other _ _ _ _ hnm] at h; exact Or.inl h
    · exact Or.inl h
  all_goals first
    | exact Or.inl h
    | (split at h <;> exact Or.inl h)

theorem applyPrim_vq (s : State) (p : Prim) (x : Name × Entry) (h : x ∈ (applyPrim s p).mem.vq) :
    x ∈ s.mem.vq ∨ p = Prim.vqPush x.1 x.2 := by
  cases p <;> simp only [applyPrim, applyMem] at h
  case vqPush m e0 =>
    rcases List.mem_append.mp h with h | h
    · exact Or.inl h
    · simp only [List.mem_singleton] at h; subst h; exact Or.inr rfl
  case vqDel m => exact Or.inl (eraseFirst_sub _ _ _ h)
  all_goals first
    | exact Or.inl h
    | (split at h <;> exact Or.inl h)

theorem applyPrim_fq (s : State) (p : Prim) (x : Name × Entry) (h : x ∈ (applyPrim s p).mem.fq) :
    x ∈ s.mem.fq ∨ p = Prim.fqPush x.1 x.2 := by
  cases p <;> simp only [applyPrim, applyMem] at h
  case fqPush m e0 =>
    rcases List.mem_append.mp h with h | h
    · exact Or.inl h
    · simp only [List.mem_singleton] at h; subst h; exact Or.inr rfl
  case fqDel m => exact Or.inl (eraseFirst_sub _ _ _ h)
  all_goals first
    | exact Or.inl h
    | (split at h <;> exact Or.inl h)

theorem applyPrim_wait (s : State) (p : Prim) (w : Name × Name × Entry) (h : w ∈ (applyPrim s p).mem.wait) :
    (∃ w0 ∈ s.mem.wait, w0.2.1 = w.2.1 ∧ w0.2.2.hash = w.2.2.hash ∧ w0.2.2.prev = w.2.2.prev) ∨
      p = Prim.waitAdd w.1 w.2.1 w.2.2 := by
  cases p <;> simp only [applyPrim, applyMem] at h
  case waitAdd q m e0 =>
    split at h
    · -- the listed file stays; only the window of its log search moves
      obtain ⟨w0, hw0, rfl⟩ := List.mem_map.mp h
      refine Or.inl ⟨w0, hw0, ?_⟩
      split <;> exact ⟨rfl, rfl, rfl⟩
    · rcases List.mem_append.mp h with h | h
      · exact Or.inl ⟨w, h, rfl, rfl, rfl⟩
      · simp only [List.mem_singleton] at h; subst h; exact Or.inr rfl
  case waitTake q => exact Or.inl ⟨w, (List.mem_filter.mp h).1, rfl, rfl, rfl⟩
  all_goals first
    | exact Or.inl ⟨w, h, rfl, rfl, rfl⟩
    | (split at h <;> exact Or.inl ⟨w, h, rfl, rfl, rfl⟩)

/-- the invariant is preserved by a primitive that meets the guard -/
theorem CarriedInv_step {Ac A : Name → String → String → Prop} (s : State) (p : Prim)
    (hi : CarriedInv Ac A s) (hg : CG Ac A p) : CarriedInv Ac A (applyPrim s p) := by
  refine ⟨?_, ?_, ?_, ?_, ?_, ?_, ?_⟩
  · intro n c h
    rcases applyPrim_cmp s p n c h with h | h
    · exact hi.cmp n c h
    · exact hi.cmpTmp n c h
  · intro n c h
    rcases applyPrim_cmpTmp s p n c h with h | rfl
    · exact hi.cmpTmp n c h
    · exact hg
  · intro n e h
    rcases applyPrim_cache s p n e h with h | ⟨e0, rfl, rfl⟩ | ⟨e0, h0, rfl⟩
    · exact hi.cache n e h
    · exact hg
    · exact hi.cache n e0 h0
  · intro x h
    rcases applyPrim_vq s p x h with h | rfl
    · exact hi.vq x h
    · exact hg
  · intro x h
    rcases applyPrim_fq s p x h with h | rfl
    · exact hi.fq x h
    · exact hg
  · intro w h
    rcases applyPrim_wait s p w h with ⟨w0, h0, h1, h2, h3⟩ | rfl
    · rw [← h1, ← h2, ← h3]; exact hi.wait w0 h0
    · exact hg
  · intro r h
    rw [applyPrim_log] at h
    cases p with
    | logAppend r0 =>
      rcases List.mem_append.mp h with h | h
      · exact hi.log r h
      · simp only [List.mem_singleton] at h; subst h; exact hg
    | _ => exact hi.log r h

theorem CarriedInv_run {Ac A : Name → String → String → Prop} :
    ∀ (ps : List Prim) (s : State), CarriedInv Ac A s → CGs Ac A ps → CarriedInv Ac A (run s ps) := by
  intro ps
  induction ps with
  | nil => intro s h _; simpa using h
  | cons p ps ih =>
    intro s h g
    exact ih _ (CarriedInv_step s p h (g p (by simp))) (fun q hq => g q (by simp [hq]))

theorem cut_zero (ps : List Prim) : cut 0 ps = [] := by
  cases ps <;> rfl

theorem cut_sub (k : Nat) (ps : List Prim) : ∀ p ∈ cut k ps, p ∈ ps := by
  obtain ⟨qs, hq⟩ := cut_prefix k ps
  intro p hp
  rw [hq]; exact List.mem_append_left _ hp


/-! ## the operations -/

/-- the primitive writes a companion -/
def Prim.isCmpTmp : Prim → Bool
  | .cmpTmp _ _ => true
  | _ => false

/-- what a primitive carries: (name, hash, predecessor) of the entry / record it writes -/
def Prim.carries : Prim → Option (Name × String × String)
  | .cacheSet n e => some (n, e.hash, e.prev)
  | .vqPush n e => some (n, e.hash, e.prev)
  | .fqPush n e => some (n, e.hash, e.prev)
  | .waitAdd _ n e => some (n, e.hash, e.prev)
  | .logAppend r => some (r.name, r.hash, r.prev)
  | _ => none

/-- the primitive carries nothing, or exactly version `h` of `n` with predecessor `p` -/
def only (n : Name) (h p : String) (q : Prim) : Bool :=
  !q.isCmpTmp && (match q.carries with
  | none => true
  | some x => x == (n, h, p))

/-- the primitive carries nothing -/
def plain (q : Prim) : Bool := !q.isCmpTmp && q.carries.isNone

theorem only_CG {Ac A : Name → String → String → Prop} {n : Name} {h p : String} (hA : A n h p) (q : Prim)
    (hq : only n h p q = true) : CG Ac A q := by
  cases q <;> simp only [only, Prim.carries, Prim.isCmpTmp, beq_iff_eq, Prod.mk.injEq, Bool.not_true,
    Bool.not_false, Bool.false_and, Bool.true_and, Bool.false_eq_true] at hq <;> simp only [CG]
  case cacheSet m e => obtain ⟨rfl, h1, h2⟩ := hq; rw [h1, h2]; exact Or.inr hA
  case vqPush m e => obtain ⟨rfl, h1, h2⟩ := hq; rw [h1, h2]; exact hA
  case fqPush m e => obtain ⟨rfl, h1, h2⟩ := hq; rw [h1, h2]; exact hA
  case waitAdd q m e => obtain ⟨rfl, h1, h2⟩ := hq; rw [h1, h2]; exact hA
  case logAppend r => obtain ⟨h0, h1, h2⟩ := hq; rw [h0, h1, h2]; exact hA

theorem all_only_CGs {Ac A : Name → String → String → Prop} {n : Name} {h p : String} (hA : A n h p)
    (ps : List Prim) (hps : ps.all (only n h p) = true) : CGs Ac A ps :=
  fun q hq => only_CG hA q (List.all_eq_true.mp hps q hq)

theorem plain_only (n : Name) (h p : String) (q : Prim) (hq : plain q = true) : only n h p q = true := by
  cases q <;> simp_all [plain, only, Prim.carries, Prim.isCmpTmp]

theorem plain_CG {Ac A : Name → String → String → Prop} (q : Prim) (hq : plain q = true) : CG Ac A q := by
  cases q <;> simp_all [plain, Prim.carries, Prim.isCmpTmp, CG]

theorem all_plain_CGs {Ac A : Name → String → String → Prop} (ps : List Prim) (hps : ps.all plain = true) :
    CGs Ac A ps :=
  fun q hq => plain_CG q (List.all_eq_true.mp hps q hq)

theorem toCache_only (m : Mem) (n : Name) (e : Entry) (st : FState) (now : Int) :
    (toCache m n e st now).all (only n e.hash e.prev) = true := by
  unfold toCache
  simp only [List.all_append, Bool.and_eq_true]
  refine ⟨⟨?_, ?_⟩, ?_⟩
  · split <;> simp [only, Prim.carries, Prim.isCmpTmp]
  · simp [only, Prim.carries, Prim.isCmpTmp]
  · split <;> simp [only, Prim.carries, Prim.isCmpTmp]

@[simp] theorem nextCmp_hash' (d : Disk) (n : Name) (m : Meta) (beg fin : Int) :
    (nextCmp d n m beg fin).hash = m.hash := by
  unfold nextCmp
  split
  · split <;> simp_all
  · simp

@[simp] theorem nextCmp_prev (d : Disk) (n : Name) (m : Meta) (beg fin : Int) :
    (nextCmp d n m beg fin).prev = m.prev := by
  unfold nextCmp
  split
  · split <;> simp_all
  · simp

theorem prepare_plain (s : State) (n : Name) (size now : Int) :
    (prepareEffects s n size now).all plain = true := by
  unfold prepareEffects
  split <;> (try split) <;> (try split) <;> simp [plain, Prim.carries, Prim.isCmpTmp]

/-- the rest of the locked region of Receive after the companion was written: when the part
    completes the file, the new entry is built from this header -/
def recordRest (s : State) (n : Name) (m : Meta) (beg fin now : Int) : List Prim :=
  (recordEffects s n m beg fin now).drop 3

theorem recordEffects_eq (s : State) (n : Name) (m : Meta) (beg fin now : Int) :
    recordEffects s n m beg fin now =
      [Prim.lockAdd n, Prim.cmpTmp n (nextCmp s.disk n m beg fin), Prim.cmpCommit n now] ++
        recordRest s n m beg fin now := by
  simp [recordRest, recordEffects]

theorem recordRest_only (s : State) (n : Name) (m : Meta) (beg fin now : Int) :
    (recordRest s n m beg fin now).all (only n m.hash m.prev) = true := by
  unfold recordRest recordEffects
  have hT : ∀ st, (toCache s.mem n (Entry.ofMeta m .received) st now).all (only n m.hash m.prev) = true :=
    fun st => toCache_only s.mem n (Entry.ofMeta m .received) st now
  simp only [List.cons_append, List.nil_append, List.drop_succ_cons, List.drop_zero]
  have hS : ∀ (a c : Prim) (st : FState), only n m.hash m.prev a = true → only n m.hash m.prev c = true →
      (a :: (toCache s.mem n (Entry.ofMeta m .received) st now ++ [c])).all (only n m.hash m.prev) = true := by
    intro a c st ha hc
    simp only [List.all_cons, List.all_append, List.all_nil, Bool.and_eq_true, Bool.and_true]
    exact ⟨ha, hT st, hc⟩
  split
  · split
    · split
      · simp only [List.all_cons, Bool.and_eq_true]
        refine ⟨by simp [only, Prim.carries, Prim.isCmpTmp], ?_⟩
        split <;> simp [only, Prim.carries, Prim.isCmpTmp]
      · split
        · exact hS _ _ _ (by simp [only, Prim.carries, Prim.isCmpTmp])
            (by simp [only, Prim.carries, Prim.isCmpTmp, Entry.ofMeta])
        · exact hT _
    · split
      · exact hS _ _ _ (by simp [only, Prim.carries, Prim.isCmpTmp])
          (by simp [only, Prim.carries, Prim.isCmpTmp, Entry.ofMeta])
      · exact hT _
  · simp

/-- the locked region of Receive: the companion gets the header's predecessor (whatever it had
    before); when the part completes the file, the new entry is built from this header -/
theorem record_CG {Ac A : Name → String → String → Prop} (s : State) (n : Name) (m : Meta) (beg fin now : Int)
    (hc : Ac n m.hash m.prev) (ha : A n m.hash m.prev) : CGs Ac A (recordEffects s n m beg fin now) := by
  rw [recordEffects_eq]
  refine CGs.append (CGs.cons (by simp [CG]) (CGs.cons ?_ (CGs.cons (by simp [CG]) CGs.nil)))
    (all_only_CGs ha _ (recordRest_only s n m beg fin now))
  simp only [CG, nextCmp_hash', nextCmp_prev]
  exact hc

/-- process(file): the item's predecessor goes into the cache entry and onto the finalize queue -/
theorem processCore_only (H : Body → String) (s : State) (n : Name) (e : Entry) (now : Int) :
    (processCore H s n e now).all (only n e.hash e.prev) = true := by
  unfold processCore
  simp only [List.all_append, Bool.and_eq_true]
  refine ⟨by simp [only, Prim.carries, Prim.isCmpTmp], ?_⟩
  split
  · simp
  · split
    · simp only [List.all_append, Bool.and_eq_true]
      exact ⟨by simp [only, Prim.carries, Prim.isCmpTmp], toCache_only _ _ _ _ _⟩
    · split
      · exact toCache_only _ _ _ _ _
      · simp only [List.all_append, Bool.and_eq_true]
        exact ⟨⟨by simp [only, Prim.carries, Prim.isCmpTmp], toCache_only _ _ _ _ _⟩, by simp [only, Prim.carries, Prim.isCmpTmp]⟩

theorem find_name_mem {l : List (Name × Entry)} {n k : Name} {e : Entry}
    (h : l.find? (·.1 == n) = some (k, e)) : (n, e) ∈ l := by
  have h1 := List.find?_some h
  have h2 := List.mem_of_find?_eq_some h
  simp only [beq_iff_eq] at h1
  subst h1; exact h2

theorem process_CG {Ac A : Name → String → String → Prop} (H : Body → String) (s : State) (n : Name) (now : Int)
    (hi : CarriedInv Ac A s) : CGs Ac A (processEffects H s n now) := by
  unfold processEffects
  split
  · exact CGs.nil
  · rename_i k e hf
    exact CGs.cons (by simp [CG]) (all_only_CGs (hi.vq _ (find_name_mem hf)) _ (processCore_only H s n e now))

/-- a parked entry is the queue item (with an updated `prevScanBeg`) -/
theorem isFileReady_park (s : State) (n : Name) (e : Entry) (now : Int) (t : Bool) (e' : Entry)
    (h : isFileReady s n e now = .park t e') : e'.hash = e.hash ∧ e'.prev = e.prev := by
  unfold isFileReady at h
  split at h
  · cases h
  · split at h
    · split at h
      · cases h; exact ⟨rfl, rfl⟩
      · split at h
        · cases h
        · cases h; exact ⟨rfl, rfl⟩
    all_goals first
      | (cases h; exact ⟨rfl, rfl⟩)
      | cases h

/-- finalize(file): the record, the cache entry - from the queue item; the released items - the
    parked entries -/
theorem finalize_CG {Ac A : Name → String → String → Prop} (s : State) (n : Name) (e : Entry) (now : Int)
    (he : A n e.hash e.prev) (hw : ∀ w ∈ s.mem.wait, A w.2.1 w.2.2.hash w.2.2.prev) :
    CGs Ac A (finalizeEffects s n e now) := by
  unfold finalizeEffects
  refine CGs.append (CGs.append (all_plain_CGs _ (by simp [plain, Prim.carries, Prim.isCmpTmp])) ?_)
    (all_plain_CGs _ (by simp [plain, Prim.carries, Prim.isCmpTmp]))
  split
  · exact CGs.nil
  · refine CGs.append (CGs.cons (by simp [CG]) (CGs.cons (by simpa [CG] using he) CGs.nil)) ?_
    split
    · exact CGs.nil
    · refine CGs.append (CGs.append (CGs.append (all_plain_CGs _ (by simp [plain, Prim.carries, Prim.isCmpTmp])) ?_)
        (all_plain_CGs _ (by simp [plain, Prim.carries, Prim.isCmpTmp]))) ?_
      · exact all_only_CGs (n := n) (h := e.hash) (p := e.prev) he _
          (toCache_only s.mem n { e with logged := some now } .finalized now)
      · intro p hp
        obtain ⟨w, hwm, rfl⟩ := List.mem_map.mp hp
        exact hw w (List.mem_filter.mp hwm).1

theorem finh_CG {Ac A : Name → String → String → Prop} (s : State) (n : Name) (now : Int)
    (hi : CarriedInv Ac A s) : CGs Ac A (finhEffects s n now) := by
  unfold finhEffects
  split
  · exact CGs.nil
  · rename_i k e hf
    have he : A n e.hash e.prev := hi.fq _ (find_name_mem hf)
    refine CGs.cons (by simp [CG]) ?_
    split
    · exact CGs.nil
    · split
      · exact finalize_CG s n e now he hi.wait
      · rename_i t e' hr
        obtain ⟨h1, h2⟩ := isFileReady_park s n e now t e' hr
        have hw : CG Ac A (Prim.waitAdd e'.prev n e') := by simp only [CG]; rw [h1, h2]; exact he
        intro p hp
        cases t with
        | false =>
          simp at hp
          rcases hp with rfl | rfl
          · simp [CG]
          · exact hw
        | true =>
          simp at hp
          rcases hp with rfl | rfl | rfl
          · simp [CG]
          · simp [CG]
          · exact hw

theorem timer_CG {Ac A : Name → String → String → Prop} (s : State) (n : Name) (hi : CarriedInv Ac A s) :
    CGs Ac A (timerEffects s n) := by
  unfold timerEffects
  split
  · split
    · rename_i w hf
      have h1 := List.find?_some hf
      have h2 := List.mem_of_find?_eq_some hf
      simp only [beq_iff_eq] at h1
      refine CGs.cons (by simp [CG]) (CGs.cons ?_ CGs.nil)
      simp only [CG]
      rw [← h1]; exact hi.wait w h2
    · exact all_plain_CGs _ (by simp [plain, Prim.carries, Prim.isCmpTmp])
  · exact CGs.nil

/-- entries loaded from the receive log carry no predecessor (state `logged`) -/
theorem buildCacheLoad_CG {Ac A : Name → String → String → Prop} (recs : List LogRec) (cached : Name → Bool)
    (now : Int) : CGs Ac A (buildCacheLoad recs cached now) := by
  induction recs with
  | nil => exact CGs.nil
  | cons r rs ih =>
    unfold buildCacheLoad
    split
    · exact ih
    · exact CGs.cons (by simp [CG]) ih

theorem buildCache_CG {Ac A : Name → String → String → Prop} (s : State) (frm now : Int) :
    CGs Ac A (buildCacheEffects s frm now) := by
  obtain ⟨ct, h | h⟩ := buildCacheEffects_eq s frm now <;> rw [h]
  · exact CGs.nil
  · refine CGs.append (CGs.append (buildCacheLoad_CG _ _ _) ?_) (all_plain_CGs _ (by simp [plain, Prim.carries, Prim.isCmpTmp]))
    split <;> exact all_plain_CGs _ (by simp [plain, Prim.carries, Prim.isCmpTmp])

theorem received_plain (s : State) (n : Name) (m : Meta) : (receivedEffects s n m).all plain = true := by
  unfold receivedEffects
  simp only [List.all_append, Bool.and_eq_true]
  refine ⟨by simp [plain, Prim.carries, Prim.isCmpTmp], ?_⟩
  split <;> (try split) <;> simp [plain, Prim.carries, Prim.isCmpTmp]

theorem cleanStrays_plain (s : State) (now : Int) (names : List Name) :
    (cleanStraysEffects s now names).all plain = true := by
  unfold cleanStraysEffects
  simp only [List.all_flatMap]
  rw [List.all_eq_true]
  intro n _
  unfold cleanStrayOne
  simp only [List.all_append, Bool.and_eq_true]
  constructor <;> (split <;> simp [plain, Prim.carries, Prim.isCmpTmp])

/-! ### Recover: every entry it builds takes its predecessor from the companion -/

theorem recoverWalk_plain (H : Body → String) (d : Disk) (n : Name) :
    (recoverWalk H d n).1.all plain = true := by
  unfold recoverWalk
  repeat' split
  all_goals simp [plain, Prim.carries, Prim.isCmpTmp]

theorem recoverWalk_cmp (H : Body → String) (d : Disk) (n : Name) (c : Cmp)
    (h : (recoverWalk H d n).2 = .finalize c ∨ (recoverWalk H d n).2 = .validate c) : d.cmp n = some c := by
  cases hc : d.cmp n with
  | none => rw [recoverWalk_none H d n hc] at h; rcases h with h | h <;> cases h
  | some c0 =>
    rw [recoverWalk_some H d n c0 hc] at h
    by_cases h1 : waitMatches H d n c0 = true
    · rw [if_pos h1] at h; rcases h with h | h <;> cases h; rfl
    · rw [if_neg h1] at h
      by_cases h2 : d.full n ≠ none
      · rw [if_pos h2] at h; rcases h with h | h <;> cases h; rfl
      · rw [if_neg h2] at h
        by_cases h3 : d.part n ≠ none
        · rw [if_pos h3] at h
          by_cases h4 : isComplete c0.parts c0.size = true
          · rw [if_pos h4] at h; rcases h with h | h <;> cases h; rfl
          · rw [if_neg h4] at h; rcases h with h | h <;> cases h
        · rw [if_neg h3] at h; rcases h with h | h <;> cases h

theorem foldl_snd_CGs {α : Type} {Ac A : Name → String → String → Prop} (Q : α → Prop)
    (f : State × List Prim → α → State × List Prim)
    (hf : ∀ acc x, Q x → CGs Ac A acc.2 → CGs Ac A (f acc x).2) :
    ∀ (l : List α) (acc : State × List Prim), (∀ x ∈ l, Q x) → CGs Ac A acc.2 → CGs Ac A (l.foldl f acc).2 := by
  intro l
  induction l with
  | nil => intro acc _ h; simpa using h
  | cons x xs ih =>
    intro acc hq h
    exact ih _ (fun y hy => hq y (by simp [hy])) (hf acc x (hq x (by simp)) h)

theorem recoverValOne_CG {Ac A : Name → String → String → Prop} (H : Body → String) (t : State) (now : Int)
    (x : Name × Cmp) (hx : A x.1 x.2.hash x.2.prev) : CGs Ac A (recoverValOne H t now x) := by
  rcases recoverValOne_cases H t now x with ⟨_, h⟩ | ⟨_, h⟩ <;> rw [h]
  · exact all_plain_CGs _ (by simp [plain, Prim.carries, Prim.isCmpTmp])
  · exact CGs.append
      (all_only_CGs (n := x.1) (h := x.2.hash) (p := x.2.prev) hx _
        (toCache_only t.mem x.1 (Entry.ofCmp x.2 .received) .received now))
      (all_only_CGs (n := x.1) (h := x.2.hash) (p := x.2.prev) hx _
        (processCore_only H _ x.1 { Entry.ofCmp x.2 .received with time := now } now))

theorem recover_CG {Ac A : Name → String → String → Prop} (H : Body → String) (s : State) (now : Int)
    (names : List Name) (hcmp : ∀ n c, s.disk.cmp n = some c → A n c.hash c.prev) :
    CGs Ac A (recoverEffects H s now names) := by
  unfold recoverEffects
  extract_lets walk p1 s1 oldest p2 s2 fins vals stepF r3 stepV r4
  have hQ : ∀ x, x ∈ fins ∨ x ∈ vals → A x.1 x.2.hash x.2.prev := by
    intro x hx
    apply hcmp
    apply recoverWalk_cmp H
    rcases hx with hx | hx
    · left
      simp only [fins, walk, List.mem_filterMap, List.mem_map] at hx
      obtain ⟨y, ⟨m, _, rfl⟩, hy⟩ := hx
      simp only at hy
      split at hy
      · rename_i c hc
        simp only [Option.some.injEq] at hy
        subst hy; exact hc
      · cases hy
    · right
      simp only [vals, walk, List.mem_filterMap, List.mem_map] at hx
      obtain ⟨y, ⟨m, _, rfl⟩, hy⟩ := hx
      simp only at hy
      split at hy
      · rename_i c hc
        simp only [Option.some.injEq] at hy
        subst hy; exact hc
      · cases hy
  refine CGs.append (CGs.append (CGs.append ?_ (buildCache_CG _ _ _)) ?_) (all_plain_CGs _ (by simp [plain, Prim.carries, Prim.isCmpTmp]))
  · apply all_plain_CGs
    simp only [p1, List.all_append, Bool.and_eq_true, List.all_flatMap]
    refine ⟨by simp [plain, Prim.carries, Prim.isCmpTmp], ?_⟩
    rw [List.all_eq_true]
    intro x hx
    simp only [walk, List.mem_map] at hx
    obtain ⟨n, _, rfl⟩ := hx
    exact recoverWalk_plain H s.disk n
  · have hF : ∀ acc x, A x.1 x.2.hash x.2.prev → CGs Ac A acc.2 → CGs Ac A (stepF acc x).2 := by
      intro acc x hx h
      simp only [stepF]
      refine CGs.append h (CGs.append ?_ (CGs.cons (by simpa [CG, Entry.ofCmp] using hx) CGs.nil))
      exact all_only_CGs (n := x.1) (h := x.2.hash) (p := x.2.prev) hx _
        (toCache_only acc.1.mem x.1 (Entry.ofCmp x.2 .validated) .validated now)
    have hV : ∀ acc x, A x.1 x.2.hash x.2.prev → CGs Ac A acc.2 → CGs Ac A (stepV acc x).2 := by
      intro acc x hx h
      simp only [stepV]
      exact CGs.append h (recoverValOne_CG H acc.1 now x hx)
    exact foldl_snd_CGs _ stepV hV vals r3 (fun x hx => hQ x (Or.inr hx))
      (foldl_snd_CGs _ stepF hF fins (s2, []) (fun x hx => hQ x (Or.inl hx)) CGs.nil)

/-! ### the cleaner: the only writer of a blank predecessor besides `buildCacheLoad` -/

/-- the primitive writes an entry with a blank predecessor (what `cleanWaitingStep` does) -/
def blanks : Prim → Bool
  | .cacheSet _ e => e.prev == ""
  | .fqPush _ e => e.prev == ""
  | q => plain q

theorem cleanWaitingStep_blanks (acc : State × List Prim) (c : Name × Entry)
    (h : acc.2.all blanks = true) : (cleanWaitingStep acc c).2.all blanks = true := by
  unfold cleanWaitingStep
  simp only
  split
  · exact h
  · split
    · exact h
    · simp only [List.all_append, Bool.and_eq_true, List.all_flatMap]
      refine ⟨h, by simp [blanks, plain, Prim.carries, Prim.isCmpTmp], ?_⟩
      rw [List.all_eq_true]
      intro w _
      split
      · split
        · simp [blanks, plain, Prim.carries, Prim.isCmpTmp]
        · simp
      · simp

theorem cleanWaiting_blanks (s : State) (names : List Name) :
    (cleanWaitingEffects s names).all blanks = true := by
  unfold cleanWaitingEffects
  simp only
  generalize (List.foldl (fun acc x => insertBySeq x acc) [] _) = sorted
  suffices ∀ (l : List (Name × Entry)) (acc : State × List Prim), acc.2.all blanks = true →
      (l.foldl cleanWaitingStep acc).2.all blanks = true from this sorted (s, []) (by simp)
  intro l
  induction l with
  | nil => intro acc h; simpa using h
  | cons c cs ih => intro acc h; exact ih _ (cleanWaitingStep_blanks acc c h)

theorem blanks_CG {Ac A : Name → String → String → Prop} (hA : ∀ n h, A n h "") (q : Prim)
    (hq : blanks q = true) : CG Ac A q := by
  cases q <;> simp only [blanks, beq_iff_eq] at hq <;> first
    | exact plain_CG _ hq
    | (simp only [CG]; rw [hq]; first | exact hA _ _ | exact Or.inr (hA _ _))

/-! ### all operations -/

/-- every primitive of every operation meets the guard in a state that satisfies the invariant,
    provided `A` admits the header of a `record` and what a `cleanWaiting` writes -/
theorem effects_CG {Ac A : Name → String → String → Prop} (H : Body → String) (s : State) (o : OpEv)
    (hsub : ∀ n h p, Ac n h p → A n h p) (hi : CarriedInv Ac A s)
    (hrec : ∀ n m beg fin now, o = .record n m beg fin now → Ac n m.hash m.prev)
    (hcl : ∀ names, o = .cleanWaiting names → CGs Ac A (cleanWaitingEffects s names)) :
    CGs Ac A (effects H s o) := by
  cases o with
  | prepare n size now => exact all_plain_CGs _ (prepare_plain s n size now)
  | recvOpen h n => simp only [effects]; split <;> exact all_plain_CGs _ (by simp [plain, Prim.carries, Prim.isCmpTmp])
  | recvWrite h beg data now =>
    simp only [effects]; split <;> exact all_plain_CGs _ (by simp [plain, Prim.carries, Prim.isCmpTmp])
  | record n m beg fin now =>
    exact record_CG s n m beg fin now (hrec n m beg fin now rfl) (hsub _ _ _ (hrec n m beg fin now rfl))
  | process n now => exact process_CG H s n now hi
  | finh n now => exact finh_CG s n now hi
  | timer n => exact timer_CG s n hi
  | buildCache frm now => exact buildCache_CG s frm now
  | receivedQ n m => exact all_plain_CGs _ (received_plain s n m)
  | recover now names => exact recover_CG H s now names (fun n c hc => hsub _ _ _ (hi.cmp n c hc))
  | cleanStrays now names => exact all_plain_CGs _ (cleanStrays_plain s now names)
  | cleanWaiting names => exact hcl names rfl
  | consume t => exact all_plain_CGs [Prim.rmFinal t] rfl
  | corrupt n ext pos v =>
    simp only [effects]; split <;> exact all_plain_CGs _ (by simp [plain, Prim.carries, Prim.isCmpTmp])

/-- one event: the invariant for `Ac`, `A` before it gives the invariant for weaker `Ac'`, `A'`
    after it, when `Ac'` admits the event's header and `A'` what the event's cleaner writes -/
theorem CarriedInv_ev {Ac Ac' A A' : Name → String → String → Prop}
    (hCC : ∀ n h p, Ac n h p → Ac' n h p) (hAA : ∀ n h p, A n h p → A' n h p)
    (hsub : ∀ n h p, Ac' n h p → A' n h p)
    (H : Body → String) (s : State) (e : Ev) (hi : CarriedInv Ac A s)
    (hhead : ∀ n m, e.header = some (n, m) → Ac' n m.hash m.prev)
    (hcl : ∀ names, e.cleaned = some names → CGs Ac' A' (cleanWaitingEffects s names)) :
    CarriedInv Ac' A' (Stage.step H s e) := by
  have hi' : CarriedInv Ac' A' s := hi.mono hCC hAA
  cases e with
  | op o =>
    refine CarriedInv_run _ s hi' (effects_CG H s o hsub hi' ?_ ?_)
    · intro n m beg fin now ho; subst ho; exact hhead n m rfl
    · intro names ho; subst ho; exact hcl names rfl
  | cutOp k o =>
    cases k with
    | zero =>
      simp only [Stage.step, cut_zero, run_nil]
      exact hi'.crash
    | succ k =>
      refine (CarriedInv_run _ s hi' ?_).crash
      have : CGs Ac' A' (effects H s o) := by
        refine effects_CG H s o hsub hi' ?_ ?_
        · intro n m beg fin now ho; subst ho; exact hhead n m rfl
        · intro names ho; subst ho; exact hcl names rfl
      exact fun p hp => this p (cut_sub (k + 1) _ p hp)
  | crash => exact hi'.crash

/-! ## the two history theorems -/

/-- admissible predecessors of a companion: announced by a header of that version -/
def A0 (evs : List Ev) (n : Name) (h p : String) : Prop := p ∈ announced evs n h

/-- admissible predecessors of an entry, no hypothesis: blank, or announced by a header of that
    version -/
def A1 (evs : List Ev) (n : Name) (h p : String) : Prop := p = "" ∨ p ∈ announced evs n h

/-- **carried_or_blank**: after every history, every companion of version `h` of `n` carries a
    predecessor that a header given for that version announced; every cache entry, queue item,
    parked entry and receive-log record carries such a predecessor - or none. -/
theorem carried_or_blank {H : Body → String} {evs : List Ev} {s : State} (hr : RunsTo H evs s) :
    CarriedInv (A0 evs) (A1 evs) s := by
  induction hr with
  | init => exact CarriedInv.init _ _
  | @snoc evs s e _ ih =>
    refine CarriedInv_ev (Ac := A0 evs) (A := A1 evs) (Ac' := A0 (evs ++ [e])) (A' := A1 (evs ++ [e]))
      ?_ ?_ ?_ H s e ih ?_ ?_
    · intro n h p hp; exact announced_mono hp
    · intro n h p hp; exact hp.imp id announced_mono
    · intro n h p hp; exact Or.inr hp
    · intro n m he; exact announced_header he
    · intro names _ q hq
      exact blanks_CG (fun _ _ => Or.inl rfl) q (List.all_eq_true.mp (cleanWaiting_blanks s names) q hq)

/-- admissible predecessors of the names in `N`: announced by a header of that version -/
def A2 (N : Name → Prop) (evs : List Ev) (n : Name) (h p : String) : Prop := N n → p ∈ announced evs n h

/-- the name whose entry a primitive writes -/
def Prim.entryName : Prim → Option Name
  | .cacheSet n _ => some n
  | .vqPush n _ => some n
  | .fqPush n _ => some n
  | .waitAdd _ n _ => some n
  | _ => none

/-- **CleanerSpared**: no run of the cleaner in the history (complete or cut by a crash) wrote an
    entry of a name in `N`. (`cleanWaitingStep` writes - with a blank predecessor - exactly the
    validated files parked on a file for which `detectLoop` answered true.) -/
def CleanerSpared (H : Body → String) (N : Name → Prop) (evs : List Ev) : Prop :=
  ∀ (pre : List Ev) (e : Ev) (post : List Ev) (names : List Name), evs = pre ++ e :: post →
    e.cleaned = some names →
    ∀ p ∈ cleanWaitingEffects (runEvs H Stage.init pre) names, ∀ n, p.entryName = some n → ¬ N n

theorem CleanerSpared.init {H : Body → String} {N : Name → Prop} {evs : List Ev} {e : Ev}
    (h : CleanerSpared H N (evs ++ [e])) : CleanerSpared H N evs := by
  intro pre e' post names hsplit
  exact h pre e' (post ++ [e]) names (by simp [hsplit])

theorem CleanerSpared.last {H : Body → String} {N : Name → Prop} {evs : List Ev} {e : Ev}
    (h : CleanerSpared H N (evs ++ [e])) (names : List Name) (he : e.cleaned = some names) :
    ∀ p ∈ cleanWaitingEffects (runEvs H Stage.init evs) names, ∀ n, p.entryName = some n → ¬ N n :=
  h evs e [] names rfl he

theorem spared_CG {Ac : Name → String → String → Prop} {N : Name → Prop} {evs : List Ev} (q : Prim)
    (hb : blanks q = true) (hq : ∀ n, q.entryName = some n → ¬ N n) : CG Ac (A2 N evs) q := by
  cases q <;> simp only [blanks] at hb <;> first
    | exact plain_CG _ hb
    | (simp only [CG, A2]
       first
         | exact fun hn => absurd hn (hq _ rfl)
         | exact Or.inr (fun hn => absurd hn (hq _ rfl)))

/-- **carried_spared**: after every history in which the cleaner never wrote an entry of a name
    in `N`, every queue item, parked entry and receive-log record of version `h` of a name
    `n ∈ N` carries a predecessor that a header given for that version announced; a cache entry
    does, or was loaded from the receive log (state `logged`, no predecessor). -/
theorem carried_spared {H : Body → String} {N : Name → Prop} {evs : List Ev} {s : State}
    (hr : RunsTo H evs s) (hc : CleanerSpared H N evs) : CarriedInv (A0 evs) (A2 N evs) s := by
  induction hr with
  | init => exact CarriedInv.init _ _
  | @snoc evs s e hr ih =>
    refine CarriedInv_ev (Ac := A0 evs) (A := A2 N evs) (Ac' := A0 (evs ++ [e])) (A' := A2 N (evs ++ [e]))
      ?_ ?_ ?_ H s e (ih hc.init) ?_ ?_
    · intro n h p hp; exact announced_mono hp
    · intro n h p hp hn; exact announced_mono (hp hn)
    · intro n h p hp _; exact hp
    · intro n m he; exact announced_header he
    · intro names he q hq
      have := hc.last names he
      rw [← hr.eq] at this
      exact spared_CG q (List.all_eq_true.mp (cleanWaiting_blanks s names) q hq) (this q hq)

end Sts.Stage
