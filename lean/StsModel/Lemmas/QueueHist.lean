/-
  Histories of the queue model: invariants that relate a reachable state to the operations
  and answers that led to it.
-/
import StsModel.Lemmas.QueueState

namespace Sts.Queue

/-! ## what Push does to the payloads of a group -/

theorem dropFile_payload {g : GroupSt} (name : String) : SamePayload g.nodes (g.dropFile name).nodes := by
  cases hf : ByFile.find g.byFile name with
  | none => rw [dropFile_none hf]; exact fun _ => rfl
  | some o => rw [dropFile_some hf]; exact samePayload_unlink _ _

theorem addFile_payload (g : GroupSt) (id : Nat) : SamePayload g.nodes (g.addFile id).nodes ∧
    (g.addFile id).nodes.length = g.nodes.length := by
  unfold GroupSt.addFile
  dsimp only
  split
  · exact ⟨fun _ => rfl, rfl⟩
  · split
    · exact ⟨fun _ => rfl, rfl⟩
    · dsimp only
      split
      · split
        · exact ⟨fun j => payload_insertAfter _ _ _ j, by simp [insertAfter]⟩
        · split
          · exact ⟨fun j => payload_insertBefore _ _ _ j, by simp [insertBefore]⟩
          · exact ⟨fun _ => rfl, rfl⟩
      · split
        · exact ⟨fun j => payload_insertAfter _ _ _ j, by simp [insertAfter]⟩
        · exact ⟨fun _ => rfl, rfl⟩

/-- Push adds exactly one node, carrying the pushed file with nothing allocated, and leaves
    every other payload alone -/
theorem pushFile_payload (g : GroupSt) (f : FileInfo) :
    (g.pushFile f).nodes.length = g.nodes.length + 1 ∧
    (∀ j, j < g.nodes.length → payload (g.pushFile f).nodes j = payload g.nodes j) ∧
    payload (g.pushFile f).nodes g.nodes.length = some (f, 0) := by
  have hd := dropFile_payload (g := g) f.name
  have hlen : (g.dropFile f.name).nodes.length = g.nodes.length := by
    cases hf : ByFile.find g.byFile f.name with
    | none => rw [dropFile_none hf]
    | some o => rw [dropFile_some hf]; simp
  unfold GroupSt.pushFile GroupSt.addNew
  dsimp only
  have ha := addFile_payload { g.dropFile f.name with nodes := (g.dropFile f.name).nodes ++ [({ file := f } : Node)] }
    (g.dropFile f.name).nodes.length
  refine ⟨by rw [ha.2]; simp [hlen], fun j hj => ?_, ?_⟩
  · rw [ha.1 j]
    show payload ((g.dropFile f.name).nodes ++ [_]) j = _
    rw [payload_append_old _ _ _ (by omega), hd j]
  · rw [ha.1]
    show payload ((g.dropFile f.name).nodes ++ [_]) _ = _
    rw [← hlen, payload_append_new]


/-! ## where the groups of the next state come from -/

theorem first_split_unique {nm : String} : ∀ {A A' : State} {g g' : GroupSt} {B B' : State},
    A' ++ g' :: B' = A ++ g :: B → (∀ x ∈ A, x.name ≠ nm) → (∀ x ∈ A', x.name ≠ nm) → g.name = nm → g'.name = nm →
    A = A' ∧ g = g' ∧ B = B' := by
  intro A
  induction A with
  | nil =>
    intro A' g g' B B' e h1 h2 hg hg'
    cases A' with
    | nil => simp at e; exact ⟨rfl, e.1.symm, e.2.symm⟩
    | cons a A2 =>
      simp at e
      exact absurd (by rw [e.1]; exact hg) (h2 a (by simp))
  | cons a A2 ih =>
    intro A' g g' B B' e h1 h2 hg hg'
    cases A' with
    | nil =>
      simp at e
      exact absurd (by rw [← e.1]; exact hg') (h1 a (by simp))
    | cons a' A2' =>
      simp at e
      have := ih e.2 (fun x hx => h1 x (by simp [hx])) (fun x hx => h2 x (by simp [hx])) hg hg'
      exact ⟨by rw [e.1, this.1], this.2⟩

/-- Push either changes nothing (no matching tag) or applies `pushFile` to the group of the
    file's name, which existed already or is created empty with the matching tag -/
theorem push_cases (c : Conf) (s : State) (f : FileInfo) :
    (push c s f = s ∧ hasGroup s (c.grouper f.name) = false) ∨
    ∃ A B g0, push c s f = A ++ g0.pushFile f :: B ∧ g0.name = c.grouper f.name ∧
      (s = A ++ g0 :: B ∨ (s = A ++ B ∧ ∃ t, g0 = { name := c.grouper f.name, conf := t })) := by
  unfold push; dsimp only
  split
  · rename_i hg
    obtain ⟨A, g, B, e1, e2, e3, e4⟩ := modifyGroup_spec s (c.grouper f.name) (fun g => g.pushFile f) hg
    exact Or.inr ⟨A, B, g, e4, e2, Or.inl e1⟩
  · split
    · rename_i hg _ _; exact Or.inl ⟨rfl, by simpa using hg⟩
    · rename_i hg _ t ht
      obtain ⟨A', B', e1', e2', _, _⟩ := addGroup_perm { name := c.grouper f.name, conf := t } s
      have hnew : hasGroup (addGroup { name := c.grouper f.name, conf := t } s) (c.grouper f.name) = true := by
        rw [e2']; simp [hasGroup]
      obtain ⟨A, g, B, e1, e2, e3, e4⟩ := modifyGroup_spec _ (c.grouper f.name) (fun g => g.pushFile f) hnew
      -- the first group of that name in A' ++ new :: B' is the new one
      have hA' : ∀ x ∈ A', x.name ≠ c.grouper f.name := by
        intro x hx e
        apply hg
        rw [hasGroup_iff, e1']; simp; exact Or.inl ⟨x, hx, e⟩
      have : A = A' ∧ g = { name := c.grouper f.name, conf := t } ∧ B = B' := by
        rw [e2'] at e1
        exact first_split_unique e1 e3 hA' e2 rfl
      obtain ⟨rfl, rfl, rfl⟩ := this
      exact Or.inr ⟨A, B, _, e4, rfl, Or.inr ⟨e1', t, rfl⟩⟩


theorem Rec.allocate_prev (r : Rec) (d : Int) : (r.allocate d).1.prev = r.prev := by
  unfold Rec.allocate
  split
  · rfl
  · dsimp only; split <;> rfl

theorem Node.allocate_rcv_prev (nd : Node) (d : Int) :
    (nd.allocate d).1.file.rcv.map (·.prev) = nd.file.rcv.map (·.prev) := by
  unfold Node.allocate
  split
  · rename_i r hr; simp [hr, Rec.allocate_prev]
  · rename_i hr; simp [hr]

/-- Pop's tail keeps the announced predecessor of every Recovered file -/
theorem emit_rcv_prev {g : GroupSt} (h : g.WF) {c : Nat} {rest : List Nat} (hl : g.list = c :: rest) (j : Nat) :
    (fileOf (g.emit c).1.nodes j).rcv.map (·.prev) = (fileOf g.nodes j).rcv.map (·.prev) := by
  have hem := emit_spec h hl
  by_cases hj : j = c
  · subst hj
    have hcl : j < g.nodes.length := h.valid (by simp [hl])
    obtain ⟨nd, hnd⟩ : ∃ nd, g.nodes[j]? = some nd := ⟨g.nodes[j], List.getElem?_eq_getElem hcl⟩
    have hwf1 := setNode_wf h hl hnd (nd' := (nd.allocate g.conf.chunk).1) (nd.allocate_frame _).1
      (nd.allocate_frame _).2.1 (nd.allocate_frame _).2.2.1 (nd.allocate_frame _).2.2.2.1
    have hpc : payload (g.nodes.set j (nd.allocate g.conf.chunk).1) j = _ := payload_set_eq _ _ _ hcl
    have e1 : fileOf (g.emit j).1.nodes j = (nd.allocate g.conf.chunk).1.file := by
      rw [emit_fst hnd]
      split
      · rename_i hdone
        have hal : isAllocated (g.nodes.set j (nd.allocate g.conf.chunk).1) j = true := by
          rw [isAllocated_eq_payload, hpc]; exact hdone
        obtain ⟨_, _, c3, _⟩ := complete_wf (g := { g with nodes := g.nodes.set j (nd.allocate g.conf.chunk).1 }) hwf1 hl hal
        rw [c3.fileOf, fileOf_eq_payload, hpc]
      · rw [fileOf_eq_payload, hpc]
    rw [e1, Node.allocate_rcv_prev]
    unfold fileOf; rw [hnd]
  · rw [fileOf_eq_payload, fileOf_eq_payload, hem.2.2.2.2.2.1 j hj]


/-- the operation neither pushes into the group called `nm` nor serves it -/
def Unconcerned (c : Conf) (s : State) (op : Op) (nm : String) : Prop :=
  (∀ f, op = .push f → c.grouper f.name ≠ nm) ∧ (∀ ch, (step c s op).2 = some ch → ch.group ≠ nm)

theorem name_ne_of_split {A B : State} {g x : GroupSt} (hn : ((A ++ g :: B).map (·.name)).Nodup)
    (hx : x ∈ A ∨ x ∈ B) : x.name ≠ g.name := by
  simp only [List.map_append, List.map_cons] at hn
  have := (List.nodup_cons.mp (nodup_middle_iff.mp hn)).1
  simp at this
  intro e
  rcases hx with hx | hx
  · exact this.1 x hx e
  · exact this.2 x hx e

/-- where a group of the state after one operation comes from -/
inductive Origin (c : Conf) (s : State) (op : Op) (g' : GroupSt) : Prop where
  | same : g' ∈ s → Unconcerned c s op g'.name → Origin c s op g'
  | pushed (g : GroupSt) (f : FileInfo) : op = .push f → (g ∈ s ∨ (g.nodes = [] ∧ ∀ x ∈ s, x.name ≠ g.name)) →
      g.name = c.grouper f.name → g.WF → g' = g.pushFile f → Origin c s op g'
  | scanned (g : GroupSt) (now : Int) : op = .pop now → g ∈ s → g' = g.scanned now → Unconcerned c s op g.name →
      Origin c s op g'
  | served (g : GroupSt) (now : Int) (n : Nat) (rest : List Nat) : op = .pop now → g ∈ s → g.nextFile now = some n →
      (g.scanned now).list = n :: rest → g' = ((g.scanned now).emit n).1 →
      (step c s op).2 = some ((g.scanned now).emit n).2 → Origin c s op g'

theorem step_origin (c : Conf) {s : State} (h : State.WF s) (op : Op) :
    ∀ g' ∈ (step c s op).1, Origin c s op g' := by
  intro g' hg'
  cases op with
  | push f =>
    change g' ∈ push c s f at hg'
    have hunc : ∀ x : GroupSt, x.name ≠ c.grouper f.name → Unconcerned c s (.push f) x.name :=
      fun x hx => ⟨fun f' e => (by cases e; exact fun e' => hx e'.symm), fun ch e => (by simp [step] at e)⟩
    rcases push_cases c s f with ⟨e, hno⟩ | ⟨A, B, g0, e1, e2, e3⟩
    · rw [e] at hg'
      refine .same hg' (hunc g' fun e' => ?_)
      have : hasGroup s (c.grouper f.name) = true := by
        rw [hasGroup_iff]; exact List.mem_map.mpr ⟨g', hg', e'⟩
      rw [hno] at this; cases this
    · rw [e1] at hg'
      simp at hg'
      rcases e3 with e3 | ⟨e3, t, e4⟩
      · have hne : ∀ x, x ∈ A ∨ x ∈ B → x.name ≠ c.grouper f.name := fun x hx => by
          rw [← e2]; exact name_ne_of_split (e3 ▸ h.names) hx
        rcases hg' with hg' | hg' | hg'
        · exact .same (by rw [e3]; simp [hg']) (hunc g' (hne g' (Or.inl hg')))
        · exact .pushed g0 f rfl (Or.inl (by rw [e3]; simp)) e2 (h.groups g0 (by rw [e3]; simp)) hg'
        · exact .same (by rw [e3]; simp [hg']) (hunc g' (hne g' (Or.inr hg')))
      · have hnone : ∀ x ∈ s, x.name ≠ g0.name := by
          intro x hx hn
          -- the group did not exist: push took the second branch
          have hpush := e1
          unfold push at hpush
          dsimp only at hpush
          have hhas : hasGroup s (c.grouper f.name) = true := by
            rw [hasGroup_iff]; exact List.mem_map.mpr ⟨x, hx, hn.trans e2⟩
          rw [if_pos hhas] at hpush
          -- then the result has as many groups as s, but A ++ _ :: B has one more
          have hl1 : (modifyGroup s (c.grouper f.name) (fun g => g.pushFile f)).length = s.length := by
            obtain ⟨A2, g2, B2, q1, _, _, q4⟩ := modifyGroup_spec s (c.grouper f.name) (fun g => g.pushFile f) hhas
            rw [q4, q1]; simp
          rw [hpush, e3] at hl1
          simp at hl1
        rcases hg' with hg' | hg' | hg'
        · exact .same (by rw [e3]; simp [hg']) (hunc g' (e2 ▸ hnone g' (by rw [e3]; simp [hg'])))
        · exact .pushed g0 f rfl (Or.inr ⟨by rw [e4], hnone⟩) e2 (by rw [e4]; exact emptyGroup_wf _ _) hg'
        · exact .same (by rw [e3]; simp [hg']) (hunc g' (e2 ▸ hnone g' (by rw [e3]; simp [hg'])))
  | pop now =>
    change g' ∈ (pop s now).1 at hg'
    cases hp : pop s now with
    | mk s' r =>
      rw [hp] at hg'
      cases r with
      | none =>
        have := (pop_none_spec h hp).1
        subst this
        obtain ⟨g, hg, rfl⟩ := List.mem_map.mp hg'
        exact .scanned g now rfl hg rfl ⟨fun f e => (by cases e), fun ch e => by
          have : (pop s now).2 = some ch := e
          rw [hp] at this; cases this⟩
      | some ch =>
        obtain ⟨pre, g, rest, n, e1, e2, e3, e4, e5⟩ := pop_some_spec h hp
        subst e5
        have hgw := h.groups g (by rw [e1]; simp)
        obtain ⟨rest', hl, _, _⟩ := nextFile_head hgw e3
        have hsc := scanned_spec hgw now
        have hem := emit_spec hsc.1 hl
        have hgrp : ch.group = g.name := by rw [e4, hem.2.2.2.2.2.2.2.2.2.2.1, hsc.2.2.1]
        have hunc : ∀ x, x ∈ pre ∨ x ∈ rest → Unconcerned c s (.pop now) x.name := fun x hx =>
          ⟨fun f e => (by cases e), fun ch' e => by
            have : (pop s now).2 = some ch' := e
            rw [hp] at this; cases this
            rw [hgrp]; exact fun e' => name_ne_of_split (e1 ▸ h.names) hx e'.symm⟩
        have hmem := (delayGroup_perm _ _ _).mem_iff.mp hg'
        simp at hmem
        rcases hmem with ⟨x, hx, rfl⟩ | rfl | hmem
        · exact .scanned x now rfl (by rw [e1]; simp [hx]) rfl (hunc x (Or.inl hx))
        · exact .served g now n rest' rfl (by rw [e1]; simp) e3 hl rfl (by
            show (pop s now).2 = _; rw [hp, e4])
        · exact .same (by rw [e1]; simp [hmem]) (hunc g' (Or.inr hmem))


/-! ## the history invariant -/

/-- a file handed to Push that is fully allocated already ("queued as already sent"): a
    Recovered placeholder, or a plain file of size zero -/
def FileInfo.allocatedAtPush (f : FileInfo) : Bool := ({ file := f } : Node).isAllocated

/-- the history (operations and their answers) made the file `nm` of group `grp` "done": some
    Pop emitted its last chunk, or it was pushed fully allocated -/
def DoneIn (c : Conf) (ops : List Op) (as : List (Option Chunk)) (grp nm : String) : Prop :=
  (∃ ch, some ch ∈ as ∧ ch.completed = true ∧ ch.group = grp ∧ ch.name = nm) ∨
  (∃ f, Op.push f ∈ ops ∧ f.name = nm ∧ c.grouper nm = grp ∧ f.allocatedAtPush = true)

theorem DoneIn.mono {c : Conf} {ops ops' : List Op} {as as' : List (Option Chunk)} {grp nm : String}
    (h : DoneIn c ops as grp nm) (h1 : ∀ x ∈ ops, x ∈ ops') (h2 : ∀ x ∈ as, x ∈ as') : DoneIn c ops' as' grp nm := by
  rcases h with ⟨ch, a, b⟩ | ⟨f, a, b⟩
  · exact Or.inl ⟨ch, h2 _ a, b⟩
  · exact Or.inr ⟨f, h1 _ a, b⟩

structure Hist (c : Conf) (ops : List Op) (as : List (Option Chunk)) (s : State) : Prop where
  wf : State.WF s
  done : ∀ g ∈ s, ∀ j, isAllocated g.nodes j = true → DoneIn c ops as g.name (nodeName g.nodes j)
  src : ∀ g ∈ s, ∀ j, j < g.nodes.length → ∃ f, Op.push f ∈ ops ∧ f.name = nodeName g.nodes j ∧
    c.grouper f.name = g.name ∧ f.rcv.map (·.prev) = (fileOf g.nodes j).rcv.map (·.prev)

theorem isAllocated_lt {ns : Nodes} {j : Nat} (h : isAllocated ns j = true) : j < ns.length := by
  unfold isAllocated at h
  split at h
  · rename_i n hn; exact (List.getElem?_eq_some_iff.mp hn).1
  · cases h

theorem Hist.next {c : Conf} {ops : List Op} {as : List (Option Chunk)} {s : State} (h : Hist c ops as s) (op : Op) :
    Hist c (ops ++ [op]) (as ++ [(step c s op).2]) (step c s op).1 := by
  have hm1 : ∀ x ∈ ops, x ∈ ops ++ [op] := fun x hx => by simp [hx]
  have hm2 : ∀ x ∈ as, x ∈ as ++ [(step c s op).2] := fun x hx => by simp [hx]
  refine ⟨step_wf c h.wf op, fun g' hg' j hj => ?_, fun g' hg' j hj => ?_⟩
  · cases step_origin c h.wf op g' hg' with
    | same hs _ => exact (h.done g' hs j hj).mono hm1 hm2
    | pushed g f hop hgs hgn hgw he =>
      subst he
      have hpay := pushFile_payload g f
      have hname := (pushFile_conf g f hgw).2
      rw [hname]
      have hjl := isAllocated_lt hj
      rw [hpay.1] at hjl
      by_cases hjo : j < g.nodes.length
      · have hp := hpay.2.1 j hjo
        rw [isAllocated_eq_payload, hp, ← isAllocated_eq_payload] at hj
        rw [nodeName_eq_payload, hp, ← nodeName_eq_payload]
        rcases hgs with hgs | hgs
        · exact (h.done g hgs j hj).mono hm1 hm2
        · rw [hgs.1] at hjo; simp at hjo
      · have : j = g.nodes.length := by omega
        subst this
        rw [isAllocated_eq_payload, hpay.2.2] at hj
        rw [nodeName_eq_payload, hpay.2.2]
        exact Or.inr ⟨f, by simp [hop], rfl, hgn.symm, hj⟩
    | scanned g now hop hgs he _ =>
      subst he
      have hsc := scanned_spec (h.wf.groups g hgs) now
      rw [hsc.2.2.1, hsc.2.2.2.1.nodeName]
      rw [hsc.2.2.2.1.isAllocated] at hj
      exact (h.done g hgs j hj).mono hm1 hm2
    | served g now n rest hop hgs hnf hl he hch =>
      subst he
      have hsc := scanned_spec (h.wf.groups g hgs) now
      have hem := emit_spec hsc.1 hl
      rw [hem.2.2.1, hsc.2.2.1, hem.2.2.2.2.2.2.1, hsc.2.2.2.1.nodeName]
      by_cases hjn : j = n
      · subst hjn
        rw [hem.2.2.2.2.2.2.2.2.1] at hj
        refine Or.inl ⟨((g.scanned now).emit j).2, by simp [hch], hj, ?_, ?_⟩
        · rw [hem.2.2.2.2.2.2.2.2.2.2.1, hsc.2.2.1]
        · rw [hem.2.2.2.2.2.2.2.2.2.1, hsc.2.2.2.1.nodeName]
      · rw [isAllocated_eq_payload, hem.2.2.2.2.2.1 j hjn, ← isAllocated_eq_payload, hsc.2.2.2.1.isAllocated] at hj
        exact (h.done g hgs j hj).mono hm1 hm2
  · have lift : ∀ {g : GroupSt} {j : Nat} {nm : String} {pv : Option String} {gn : String},
        (∃ f, Op.push f ∈ ops ∧ f.name = nm ∧ c.grouper f.name = gn ∧ f.rcv.map (·.prev) = pv) →
        ∃ f, Op.push f ∈ ops ++ [op] ∧ f.name = nm ∧ c.grouper f.name = gn ∧ f.rcv.map (·.prev) = pv := by
      rintro _ _ _ _ _ ⟨f, a, b⟩; exact ⟨f, hm1 _ a, b⟩
    cases step_origin c h.wf op g' hg' with
    | same hs _ => exact lift (g := g') (j := j) (h.src g' hs j hj)
    | pushed g f hop hgs hgn hgw he =>
      subst he
      have hpay := pushFile_payload g f
      have hname := (pushFile_conf g f hgw).2
      rw [hname]
      rw [hpay.1] at hj
      by_cases hjo : j < g.nodes.length
      · have hp := hpay.2.1 j hjo
        rw [nodeName_eq_payload, fileOf_eq_payload, hp, ← nodeName_eq_payload, ← fileOf_eq_payload]
        rcases hgs with hgs | hgs
        · exact lift (g := g) (j := j) (h.src g hgs j hjo)
        · rw [hgs.1] at hjo; simp at hjo
      · have : j = g.nodes.length := by omega
        subst this
        rw [nodeName_eq_payload, fileOf_eq_payload, hpay.2.2]
        exact ⟨f, by simp [hop], rfl, hgn.symm, rfl⟩
    | scanned g now hop hgs he _ =>
      subst he
      have hsc := scanned_spec (h.wf.groups g hgs) now
      rw [hsc.2.2.1, hsc.2.2.2.1.nodeName, hsc.2.2.2.1.fileOf]
      rw [hsc.2.2.2.2.1] at hj
      exact lift (g := g) (j := j) (h.src g hgs j hj)
    | served g now n rest hop hgs hnf hl he hch =>
      subst he
      have hsc := scanned_spec (h.wf.groups g hgs) now
      have hem := emit_spec hsc.1 hl
      rw [hem.2.2.1, hsc.2.2.1, hem.2.2.2.2.2.2.1, hsc.2.2.2.1.nodeName, emit_rcv_prev hsc.1 hl, hsc.2.2.2.1.fileOf]
      rw [hem.2.2.2.1, hsc.2.2.2.2.1] at hj
      exact lift (g := g) (j := j) (h.src g hgs j hj)

theorem Hist.empty (c : Conf) : Hist c [] [] [] := ⟨⟨by simp, by simp, by simp [GroupsSorted]⟩, by simp, by simp⟩

theorem Hist.runs {c : Conf} (ops2 : List Op) : ∀ {ops : List Op} {as : List (Option Chunk)} {s : State},
    Hist c ops as s → Hist c (ops ++ ops2) (as ++ (run c s ops2).2) (run c s ops2).1 := by
  induction ops2 with
  | nil => intro ops as s h; simpa [run] using h
  | cons op ops2 ih =>
    intro ops as s h
    have := ih (h.next op)
    rw [run_cons]
    simpa using this

/-- every history from the empty queue satisfies the history invariant -/
theorem hist_reachable (c : Conf) (ops : List Op) : Hist c ops (run c [] ops).2 (run c [] ops).1 := by
  have := Hist.runs ops (Hist.empty c)
  simpa using this


/-- the predecessor name Pop announces for a chunk of the first listed file `c` -/
theorem emit_prev_eq {g : GroupSt} (h : g.WF) {c : Nat} {rest : List Nat} (hl : g.list = c :: rest) :
    (g.emit c).2.prev =
      (let raw := if g.conf.order != Order.none then
          (match (fileOf g.nodes c).rcv with
           | some r => r.prev
           | none => match getPrev g.nodes c with
             | some p => nodeName g.nodes p
             | none => "")
        else ""
       if raw != "" && raw == nodeName g.nodes c then "" else raw) ∧
    (g.emit c).2.recovered = (fileOf g.nodes c).rcv.isSome := by
  have hcl : c < g.nodes.length := h.valid (by simp [hl])
  obtain ⟨nd, hnd⟩ : ∃ nd, g.nodes[c]? = some nd := ⟨g.nodes[c], List.getElem?_eq_getElem hcl⟩
  obtain ⟨f1, f2, f3, f4, f5, f6⟩ := nd.allocate_frame g.conf.chunk
  have f7 := nd.allocate_rcv_prev g.conf.chunk
  rw [emit_snd hnd]
  generalize hnd' : (nd.allocate g.conf.chunk).1 = nd' at f1 f2 f3 f4 f5 f6 f7
  dsimp only
  have hfile : fileOf g.nodes c = nd.file := by unfold fileOf; rw [hnd]
  have hname : nodeName g.nodes c = nd.file.name := by unfold nodeName; rw [hnd]
  have hprev : getPrev g.nodes c = nd.prev := by unfold getPrev; rw [hnd]; rfl
  have hget : (g.nodes.set c nd')[c]? = some nd' := by rw [List.getElem?_set]; simp [hcl]
  -- the predecessor is another node, its name is untouched
  have hpn : ∀ p, nd.prev = some p → nodeName (g.nodes.set c nd') p = nodeName g.nodes p := by
    intro p hp
    have hpc : p ≠ c := by
      obtain ⟨pre, _, hrep, _⟩ := h.chain
      rw [hl] at hrep
      intro e; subst e
      have := hrep.prev p
      rw [hprev, hp] at this
      exact predIn_ne_self hrep.nodup p this.symm
    rw [nodeName_eq_payload, nodeName_eq_payload, payload_set_ne _ _ _ _ hpc]
  have hgp : getPrevName (g.nodes.set c nd') c =
      (match nd.file.rcv with
       | some r => r.prev
       | none => match nd.prev with
         | some p => nodeName g.nodes p
         | none => "") := by
    unfold getPrevName
    rw [hget]
    dsimp only
    cases hr : nd.file.rcv with
    | some r =>
      rw [hr] at f7
      cases hr' : nd'.file.rcv with
      | none => rw [hr'] at f7; simp at f7
      | some r' => rw [hr'] at f7; simp at f7; simp [f7]
    | none =>
      rw [hr] at f7
      cases hr' : nd'.file.rcv with
      | some r' => rw [hr'] at f7; simp at f7
      | none =>
        simp only [f1]
        cases hp : nd.prev with
        | none => rfl
        | some p => simp only; exact hpn p hp
  rw [hgp, hfile, hname, hprev, f3]
  refine ⟨rfl, ?_⟩
  rw [f6]


/-! ## histories in which every name is pushed at most once -/

/-- the names handed to Push by a history -/
def pushNames (ops : List Op) : List String :=
  ops.filterMap (fun op => match op with | .push f => some f.name | .pop _ => none)

theorem mem_pushNames {ops : List Op} {f : FileInfo} (h : Op.push f ∈ ops) : f.name ∈ pushNames ops := by
  unfold pushNames
  exact List.mem_filterMap.mpr ⟨_, h, rfl⟩

theorem pushNames_snoc_push (ops : List Op) (f : FileInfo) : pushNames (ops ++ [.push f]) = pushNames ops ++ [f.name] := by
  simp [pushNames, List.filterMap_append]

theorem pushNames_snoc_pop (ops : List Op) (now : Int) : pushNames (ops ++ [.pop now]) = pushNames ops := by
  simp [pushNames, List.filterMap_append]

/-- invariants of histories in which every name is pushed at most once -/
structure Uniq (c : Conf) (ops : List Op) (as : List (Option Chunk)) (s : State) : Prop where
  hist : Hist c ops as s
  inj : ∀ g ∈ s, ∀ i j, i < g.nodes.length → j < g.nodes.length → nodeName g.nodes i = nodeName g.nodes j → i = j
  doneAlloc : ∀ g ∈ s, ∀ j, j < g.nodes.length → DoneIn c ops as g.name (nodeName g.nodes j) →
    isAllocated g.nodes j = true
  chunkNames : ∀ ch, some ch ∈ as → ch.name ∈ pushNames ops

theorem DoneIn.snoc {c : Conf} {ops : List Op} {as : List (Option Chunk)} {op : Op} {a : Option Chunk} {grp nm : String}
    (h : DoneIn c (ops ++ [op]) (as ++ [a]) grp nm) :
    DoneIn c ops as grp nm ∨
    (∃ ch, a = some ch ∧ ch.completed = true ∧ ch.group = grp ∧ ch.name = nm) ∨
    (∃ f, op = .push f ∧ f.name = nm ∧ c.grouper nm = grp ∧ f.allocatedAtPush = true) := by
  rcases h with ⟨ch, h1, h2⟩ | ⟨f, h1, h2⟩
  · simp at h1
    rcases h1 with h1 | h1
    · exact Or.inl (Or.inl ⟨ch, h1, h2⟩)
    · exact Or.inr (Or.inl ⟨ch, h1.symm, h2⟩)
  · simp at h1
    rcases h1 with h1 | h1
    · exact Or.inl (Or.inr ⟨f, h1, h2⟩)
    · exact Or.inr (Or.inr ⟨f, h1.symm, h2⟩)


theorem pushNames_mono (ops : List Op) (op : Op) : ∀ x ∈ pushNames ops, x ∈ pushNames (ops ++ [op]) := by
  intro x hx
  cases op with
  | push f => rw [pushNames_snoc_push]; simp [hx]
  | pop now => rw [pushNames_snoc_pop]; exact hx

theorem Uniq.next {c : Conf} {ops : List Op} {as : List (Option Chunk)} {s : State} (h : Uniq c ops as s) (op : Op)
    (hn : (pushNames (ops ++ [op])).Nodup) :
    Uniq c (ops ++ [op]) (as ++ [(step c s op).2]) (step c s op).1 := by
  have hh := h.hist
  have hfresh : ∀ f, op = .push f → f.name ∉ pushNames ops := by
    intro f e; subst e
    rw [pushNames_snoc_push] at hn
    have := (List.nodup_append.mp hn).2.2
    intro hm; exact this _ hm _ (by simp) rfl
  have hold : ∀ g ∈ s, ∀ j, j < g.nodes.length → nodeName g.nodes j ∈ pushNames ops := by
    intro g hg j hj
    obtain ⟨f, hf1, hf2, _⟩ := hh.src g hg j hj
    rw [← hf2]; exact mem_pushNames hf1
  have hm1 : ∀ x ∈ ops, x ∈ ops ++ [op] := fun x hx => by simp [hx]
  have hm2 : ∀ x ∈ as, x ∈ as ++ [(step c s op).2] := fun x hx => by simp [hx]
  refine ⟨hh.next op, fun g' hg' i j hi hj hij => ?_, fun g' hg' j hj hd => ?_, fun ch hch => ?_⟩
  · -- names stay distinct
    cases step_origin c hh.wf op g' hg' with
    | same hs _ => exact h.inj g' hs i j hi hj hij
    | pushed g f hop hgs hgn hgw he =>
      subst he
      have hpay := pushFile_payload g f
      rw [hpay.1] at hi hj
      have hnm : ∀ k, k < g.nodes.length → nodeName (g.pushFile f).nodes k = nodeName g.nodes k := fun k hk => by
        rw [nodeName_eq_payload, hpay.2.1 k hk, ← nodeName_eq_payload]
      have hnew : nodeName (g.pushFile f).nodes g.nodes.length = f.name := by
        rw [nodeName_eq_payload, hpay.2.2]
      have holdg : ∀ k, k < g.nodes.length → nodeName g.nodes k ≠ f.name := by
        intro k hk e
        rcases hgs with hgs | hgs
        · exact hfresh f hop (e ▸ hold g hgs k hk)
        · rw [hgs.1] at hk; simp at hk
      by_cases hio : i < g.nodes.length <;> by_cases hjo : j < g.nodes.length
      · rw [hnm i hio, hnm j hjo] at hij
        rcases hgs with hgs | hgs
        · exact h.inj g hgs i j hio hjo hij
        · rw [hgs.1] at hio; simp at hio
      · have : j = g.nodes.length := by omega
        subst this
        rw [hnm i hio, hnew] at hij; exact absurd hij (holdg i hio)
      · have : i = g.nodes.length := by omega
        subst this
        rw [hnm j hjo, hnew] at hij; exact absurd hij.symm (holdg j hjo)
      · omega
    | scanned g now hop hgs he _ =>
      subst he
      have hsc := scanned_spec (hh.wf.groups g hgs) now
      rw [hsc.2.2.2.2.1] at hi hj
      rw [hsc.2.2.2.1.nodeName, hsc.2.2.2.1.nodeName] at hij
      exact h.inj g hgs i j hi hj hij
    | served g now n rest hop hgs hnf hl he hch =>
      subst he
      have hsc := scanned_spec (hh.wf.groups g hgs) now
      have hem := emit_spec hsc.1 hl
      rw [hem.2.2.2.1, hsc.2.2.2.2.1] at hi hj
      rw [hem.2.2.2.2.2.2.1, hem.2.2.2.2.2.2.1, hsc.2.2.2.1.nodeName, hsc.2.2.2.1.nodeName] at hij
      exact h.inj g hgs i j hi hj hij
  · -- a name that is done has its node allocated
    cases step_origin c hh.wf op g' hg' with
    | same hs hunc =>
      rcases hd.snoc with hd | ⟨ch, e1, _, e3, _⟩ | ⟨f, e1, e2, e3, _⟩
      · exact h.doneAlloc g' hs j hj hd
      · exact absurd e3 (hunc.2 ch e1)
      · exact absurd (e2 ▸ e3) (hunc.1 f e1)
    | pushed g f hop hgs hgn hgw he =>
      subst he
      have hpay := pushFile_payload g f
      have hname := (pushFile_conf g f hgw).2
      rw [hpay.1] at hj
      rw [hname] at hd
      by_cases hjo : j < g.nodes.length
      · have hp := hpay.2.1 j hjo
        rw [isAllocated_eq_payload, hp, ← isAllocated_eq_payload]
        rw [nodeName_eq_payload, hp, ← nodeName_eq_payload] at hd
        rcases hgs with hgs | hgs
        · rcases hd.snoc with hd | ⟨ch, e1, _⟩ | ⟨f', e1, e2, _⟩
          · exact h.doneAlloc g hgs j hjo hd
          · subst hop; simp [step] at e1
          · subst hop; cases e1
            exact absurd (e2 ▸ hold g hgs j hjo) (hfresh _ rfl)
        · rw [hgs.1] at hjo; simp at hjo
      · have : j = g.nodes.length := by omega
        subst this
        rw [isAllocated_eq_payload, hpay.2.2]
        rw [nodeName_eq_payload, hpay.2.2] at hd
        dsimp only at hd
        rcases hd.snoc with hd | ⟨ch, e1, _⟩ | ⟨f', e1, e2, e3, e4⟩
        · exfalso
          rcases hd with ⟨ch, h1, _, _, h4⟩ | ⟨f', h1, h2, _⟩
          · exact hfresh f hop (h4 ▸ h.chunkNames ch h1)
          · exact hfresh f hop (h2 ▸ mem_pushNames h1)
        · subst hop; simp [step] at e1
        · subst hop; cases e1; exact e4
    | scanned g now hop hgs he hunc =>
      subst he
      have hsc := scanned_spec (hh.wf.groups g hgs) now
      rw [hsc.2.2.2.2.1] at hj
      rw [hsc.2.2.1, hsc.2.2.2.1.nodeName] at hd
      rw [hsc.2.2.2.1.isAllocated]
      rcases hd.snoc with hd | ⟨ch, e1, _, e3, _⟩ | ⟨f, e1, e2, e3, _⟩
      · exact h.doneAlloc g hgs j hj hd
      · exact absurd e3 (hunc.2 ch e1)
      · exact absurd (e2 ▸ e3) (hunc.1 f e1)
    | served g now n rest hop hgs hnf hl he hch =>
      subst he
      have hgw := hh.wf.groups g hgs
      have hsc := scanned_spec hgw now
      have hem := emit_spec hsc.1 hl
      obtain ⟨_, _, hna, _⟩ := nextFile_head hgw hnf
      rw [hem.2.2.2.1, hsc.2.2.2.2.1] at hj
      rw [hem.2.2.1, hsc.2.2.1, hem.2.2.2.2.2.2.1, hsc.2.2.2.1.nodeName] at hd
      have hnl : n < g.nodes.length := by
        have := hsc.1.valid (i := n) (by rw [hl]; simp); rw [hsc.2.2.2.2.1] at this; exact this
      by_cases hjn : j = n
      · subst hjn
        rw [hem.2.2.2.2.2.2.2.2.1]
        rcases hd.snoc with hd | ⟨ch, e1, e2, _⟩ | ⟨f, e1, _⟩
        · have := h.doneAlloc g hgs j hj hd
          rw [hna] at this; cases this
        · rw [hch] at e1; cases e1; exact e2
        · subst hop; cases e1
      · rw [isAllocated_eq_payload, hem.2.2.2.2.2.1 j hjn, ← isAllocated_eq_payload, hsc.2.2.2.1.isAllocated]
        rcases hd.snoc with hd | ⟨ch, e1, _, _, e4⟩ | ⟨f, e1, _⟩
        · exact h.doneAlloc g hgs j hj hd
        · rw [hch] at e1; cases e1
          rw [hem.2.2.2.2.2.2.2.2.2.1, hsc.2.2.2.1.nodeName] at e4
          exact absurd (h.inj g hgs n j hnl hj e4).symm hjn
        · subst hop; cases e1
  · -- every chunk carries a pushed name
    simp at hch
    rcases hch with hch | hch
    · exact pushNames_mono ops op _ (h.chunkNames ch hch)
    · cases op with
      | push f => simp [step] at hch
      | pop now =>
        have hp : pop s now = ((pop s now).1, some ch) := by
          have : (pop s now).2 = some ch := hch.symm
          rw [← this]
        obtain ⟨pre, g, rest, n, e1, e2, e3, e4, e5⟩ := pop_some_spec hh.wf hp
        have hgs : g ∈ s := by rw [e1]; simp
        have hgw := hh.wf.groups g hgs
        obtain ⟨rest', hl, _, _⟩ := nextFile_head hgw e3
        have hsc := scanned_spec hgw now
        have hem := emit_spec hsc.1 hl
        have hnl : n < g.nodes.length := by
          have := hsc.1.valid (i := n) (by rw [hl]; simp); rw [hsc.2.2.2.2.1] at this; exact this
        rw [e4, hem.2.2.2.2.2.2.2.2.2.1, hsc.2.2.2.1.nodeName]
        exact pushNames_mono ops _ _ (hold g hgs n hnl)


theorem pushNames_append (a b : List Op) : pushNames (a ++ b) = pushNames a ++ pushNames b := by
  simp [pushNames, List.filterMap_append]

theorem Uniq.empty (c : Conf) : Uniq c [] [] [] := ⟨Hist.empty c, by simp, by simp, by simp⟩

theorem Uniq.runs {c : Conf} (ops2 : List Op) : ∀ {ops : List Op} {as : List (Option Chunk)} {s : State},
    Uniq c ops as s → (pushNames (ops ++ ops2)).Nodup →
    Uniq c (ops ++ ops2) (as ++ (run c s ops2).2) (run c s ops2).1 := by
  induction ops2 with
  | nil => intro ops as s h _; simpa [run] using h
  | cons op ops2 ih =>
    intro ops as s h hn
    have hn1 : (pushNames (ops ++ [op])).Nodup := by
      have : pushNames (ops ++ op :: ops2) = pushNames (ops ++ [op]) ++ pushNames ops2 := by
        rw [← pushNames_append]; simp
      rw [this] at hn
      exact (List.nodup_append.mp hn).1
    have := ih (h.next op hn1) (by simpa using hn)
    rw [run_cons]
    simpa using this

/-- every history from the empty queue in which no name is pushed twice satisfies `Uniq` -/
theorem uniq_reachable (c : Conf) (ops : List Op) (hn : (pushNames ops).Nodup) :
    Uniq c ops (run c [] ops).2 (run c [] ops).1 := by
  have := Uniq.runs ops (Uniq.empty c) (by simpa using hn)
  simpa using this


end Sts.Queue
