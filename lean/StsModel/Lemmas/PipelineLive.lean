/-
  Deadlock freedom of the Pipeline model after a stop request (property C16,
  `front_token_moves`): a chain of lemmas from the sink to the source. A stage that is not
  done either has an enabled action itself, or is stuck on a full output channel — then the
  consumer of that channel is alive and has an enabled action — or waits on an empty, open
  input channel.
-/
import StsModel.Lemmas.PipelineInvAll
namespace Sts.Pipeline

/-- some action is enabled -/
def Live (s : State) : Prop := ∃ a, guard s a

/-- prove `Live s` with the given action: unfold its guard, turn everything into arithmetic -/
macro "live" a:term : tactic =>
  `(tactic| (refine ⟨$a, ?_⟩
             simp only [guard, running, trAtSelect, trDrops, vaAtSelect, vaCanJudge, cap, others] at *
             arith
             omega))

variable {s : State}

/-- `startValidate` is never stuck, except waiting on an open, empty input. -/
theorem live_val (run : running s) (hs : s.stop ≠ .none) (_s0 : S0 s) (b7 : B7 s)
    (hd : s.vaPc ≠ .done) (hb : s.vaPc = .blocked → 0 < s.chValidate ∨ s.clValidate = true) : Live s := by
  unfold S0 B7 at *
  cases hpc : s.vaPc
  case done => exact absurd hpc hd
  case batch => live .valPersist
  case hand =>
    by_cases hc : s.chRetry < cap s
    · live .valHandSend
    · live .valHandAbort
  case blocked =>
    by_cases hc : 0 < s.chValidate
    · live .valRecv
    · live .valSeeClosed
  case head =>
    by_cases hn : s.stop = .now
    · live .valExitNow
    · by_cases hp : 0 < s.poll
      · live .valPass
      · cases hi : s.vaInNil
        · live .valBlock
        · live .valExitEmpty

/-- the tracker of the repaired code, or a tracker that is in neither of the two states the
    repairs are about: a `progress` map with orphan entries (S14), the `select` without timer on
    a closed input (S14b) -/
def TrackOk (s : State) : Prop :=
  (s.cfg.dropOrphans = true ∨ s.orphan = 0) ∧ (s.cfg.trackRecheck = true ∨ ¬ (s.trPc = .blocked ∧ s.trInNil = true))

set_option maxHeartbeats 4000000 in
/-- `startTrack` is never stuck, except waiting on an open, empty input. -/
theorem live_trk (run : running s) (hs : s.stop ≠ .none) (ho : TrackOk s) (I : Inv s)
    (hd : s.trPc ≠ .done) :
    Live s ∨ (s.chTransmitted = 0 ∧ s.clTransmitted = false) := by
  have s0 := I.s0; have b6 := I.b6; have b7 := I.b7; have k1 := I.k1; have a5 := I.a5
  have p10 := I.p10; have p11 := I.p11; have kp := I.kP
  obtain ⟨ho1, ho2⟩ := ho
  unfold S0 B6 B7 K1 A5 P10 P11 KP at *
  -- chValidate is full: the validator is alive and can receive
  have val_full : cap s ≤ s.chValidate → s.stop ≠ .now → Live s := by
    intro hc hn
    apply live_val run hs s0 b7
    · intro hv
      rcases a5 hv with h | h
      · exact hn h
      · have := p10 (by have := p11.mp h; omega); exact hd this
    · intro _; left; simp only [cap] at hc; omega
  -- the receiving select: something to receive, or the input is open and empty
  have at_select : (s.trPc = .blocked ∨ s.trPc = .polling) → s.trInNil = false →
      Live s ∨ (s.chTransmitted = 0 ∧ s.clTransmitted = false) := by
    intro hp hi
    by_cases hc : 0 < s.chTransmitted
    · left; live .trackRecv
    · cases hcl : s.clTransmitted
      · right; exact ⟨by omega, rfl⟩
      · left; live .trackSeeClosed
  cases hpc : s.trPc
  case done => exact absurd hpc hd
  case unpack =>
    left
    by_cases hc : others s < s.parts
    · live .trackPart
    · live .trackUnpackDone
  case blocked =>
    cases hi : s.trInNil
    · exact at_select (Or.inl hpc) hi
    · -- only the code before the repair gets here
      rcases ho2 with h | h
      · have := b6 hpc h; simp [hi] at this
      · exact absurd ⟨hpc, hi⟩ h
  case fwd =>
    left
    by_cases hc : 0 < s.progReady ∧ s.chValidate < cap s
    · live .trackForward
    · live .trackToSelect
  case polling =>
    by_cases hn : s.stop = .now
    · left; live .trackExitNow
    · by_cases hdr : trDrops s
      · left; live .trackDropOrphans
      · by_cases hp : 0 < s.progReady
        · left
          by_cases hc : s.chValidate < cap s
          · live .trackTickForward
          · exact val_full (by omega) hn
        · -- only orphan entries: wait for the input; when it is closed the repaired code drops them
          have hor : 0 < s.orphan := by have := kp hpc; omega
          cases hi : s.trInNil
          · exact at_select (Or.inr hpc) hi
          · exfalso
            rcases ho1 with h | h
            · exact hdr ⟨h, hi, hor⟩
            · omega
  case head =>
    left
    by_cases hn : s.stop = .now
    · live .trackExitNow
    · by_cases hdr : trDrops s
      · live .trackDropOrphans
      · by_cases hp : 0 < s.progReady + s.orphan
        · live .trackCheck
        · cases hi : s.trInNil
          · live .trackBlock
          · live .trackExitEmpty

/-- `startStats` is never stuck, except waiting on an open, empty `chStats`. -/
theorem live_stats (run : running s) (hd : s.stDone = false) :
    Live s ∨ (s.chStats = 0 ∧ s.clStats = false) := by
  by_cases hc : 0 < s.chStats
  · left; live .statsRecv
  · cases hcl : s.clStats
    · right; exact ⟨by omega, rfl⟩
    · left; live .statsExit

/-- A `startSend` goroutine that holds a payload is never stuck. -/
theorem live_snd (run : running s) (hs : s.stop ≠ .none) (ho : TrackOk s) (I : Inv s)
    (hh : 0 < s.sdXmit + s.sdStat + s.sdOut + s.sdHStat + s.sdHOut) : Live s := by
  have s0 := I.s0; have s2 := I.s2; have b4 := I.b4; have p12 := I.p12; have p8 := I.p8
  have a4 := I.a4; have p9 := I.p9
  unfold S0 S2 B4 P12 P8 A4 P9 at *
  -- the stats stage is alive: it returns only after chStats was closed, which is after all senders returned
  have hst : s.stDone = false := by
    cases h : s.stDone
    · rfl
    · have := p8 (by have := p12.mp (b4 h); omega); omega
  -- the tracker is alive unless the stop is immediate
  have htr : s.stop ≠ .now → s.trPc ≠ .done := by
    intro hn hv
    rcases a4 hv with h | h
    · exact hn h
    · have := p8 (by have := p9.mp h; omega); omega
  have stats_full : cap s ≤ s.chStats → Live s := by
    intro hc
    rcases live_stats run hst with h | ⟨h, _⟩
    · exact h
    · simp only [cap] at hc; omega
  have out_full : cap s ≤ s.chTransmitted → s.stop ≠ .now → Live s := by
    intro hc hn
    rcases live_trk run hs ho I (htr hn) with h | ⟨h, _⟩
    · exact h
    · simp only [cap] at hc; omega
  by_cases h1 : 0 < s.sdXmit
  · by_cases hn : s.stop = .now
    · live .sendExitNow
    · live .xmitOk
  by_cases h2 : 0 < s.sdStat
  · by_cases hc : s.chStats < cap s
    · live .statSend
    · exact stats_full (by omega)
  by_cases h3 : 0 < s.sdHStat
  · by_cases hc : s.chStats < cap s
    · live .hStatSend
    · exact stats_full (by omega)
  by_cases h4 : 0 < s.sdOut
  · by_cases hc : s.chTransmitted < cap s
    · live .outSend
    · by_cases hn : s.stop = .now
      · live .outAbort
      · exact out_full (by omega) hn
  have h5 : 0 < s.sdHOut := by omega
  by_cases hc : s.chTransmitted < cap s
  · live .hOutSend
  · by_cases hn : s.stop = .now
    · live .hOutAbort
    · exact out_full (by omega) hn

/-- The `startSend` pool is never stuck, except with every live goroutine waiting on an open,
    empty `chTransmit`. -/
theorem live_sndpool (run : running s) (hs : s.stop ≠ .none) (ho : TrackOk s) (I : Inv s)
    (hd : s.sdDone < s.cfg.threads) :
    Live s ∨ (s.chTransmit = 0 ∧ s.clTransmit = false) := by
  have s2 := I.s2
  unfold S2 at *
  by_cases hh : 0 < s.sdXmit + s.sdStat + s.sdOut + s.sdHStat + s.sdHOut
  · left; exact live_snd run hs ho I hh
  · have hr : 0 < s.sdRecv := by omega
    by_cases hc : 0 < s.chTransmit
    · left; live .sendRecv
    · cases hcl : s.clTransmit
      · right; exact ⟨by omega, rfl⟩
      · left; live .sendSeeClosed

/-- `startBin` is never stuck, except waiting with an empty payload on an open, empty input. -/
theorem live_bin (run : running s) (hs : s.stop ≠ .none) (ho : TrackOk s) (I : Inv s)
    (hd : s.binPc ≠ .done) :
    Live s ∨ (s.chQueued = 0 ∧ s.clQueued = false) := by
  have s0 := I.s0; have a3 := I.a3; have p7 := I.p7; have p6 := I.p6
  unfold S0 A3 P7 P6 at *
  have full : cap s ≤ s.chTransmit → s.stop ≠ .now → Live s := by
    intro hc hn
    have hsd : s.sdDone < s.cfg.threads := by
      by_cases h0 : 0 < s.sdDone
      · rcases a3 h0 with h | h
        · exact absurd h hn
        · have := p6 (by have := p7.mp h; omega); exact absurd this hd
      · omega
    rcases live_sndpool run hs ho I hsd with h | ⟨h, _⟩
    · exact h
    · simp only [cap] at hc; omega
  cases hpc : s.binPc
  case done => exact absurd hpc hd
  case sel =>
    by_cases hb : 0 < s.binHold
    · left; live .binTimer
    · by_cases hc : 0 < s.chQueued
      · left
        by_cases hn : s.stop = .now
        · live .binRecvExitNow
        · live .binRecvMore
      · cases hcl : s.clQueued
        · right; exact ⟨by omega, rfl⟩
        · left; live .binSeeClosed
  case send =>
    left
    by_cases hc : s.chTransmit < cap s
    · live .binSend
    · by_cases hn : s.stop = .now
      · live .binAbort
      · exact full (by omega) hn
  case finalSend =>
    left
    by_cases hc : s.chTransmit < cap s
    · live .binSend
    · by_cases hn : s.stop = .now
      · live .binAbort
      · exact full (by omega) hn

/-- `startQueue` is never stuck, except blocked on an open, empty input. -/
theorem live_queue (run : running s) (hs : s.stop ≠ .none) (ho : TrackOk s) (I : Inv s)
    (hd : s.qPc ≠ .done) :
    Live s ∨ (s.chScanned = 0 ∧ s.clScanned = false) := by
  have s0 := I.s0; have a2 := I.a2; have p5 := I.p5; have p4 := I.p4; have b5 := I.b5
  unfold S0 A2 P5 P4 B5 at *
  cases hpc : s.qPc
  case done => exact absurd hpc hd
  case sel =>
    cases hb : s.qBlock
    · left
      by_cases hq : 0 < s.queue
      · live .queuePop
      · live .queuePopNil
    · by_cases hc : 0 < s.chScanned
      · left; live .queueRecv
      · cases hcl : s.clScanned
        · right; exact ⟨by omega, rfl⟩
        · left; live .queueSeeClosed
  case send =>
    left
    by_cases hc : s.chQueued < cap s
    · live .queueSend
    · by_cases hn : s.stop = .now
      · live .queueAbort
      · have hbin : s.binPc ≠ .done := by
          intro hv
          rcases a2 hv with h | h
          · exact hn h
          · have := p4 (by have := p5.mp h; omega); exact hd this
        rcases live_bin run hs ho I hbin with h | ⟨h, _⟩
        · exact h
        · simp only [cap] at hc; omega

/-- `startScan` is never stuck after a stop request. -/
theorem live_scan (run : running s) (hs : s.stop ≠ .none) (ho : TrackOk s) (I : Inv s)
    (hd : s.scanPc ≠ .done) : Live s := by
  have a1 := I.a1; have p3 := I.p3; have p1 := I.p1
  unfold A1 P3 P1 at *
  cases hpc : s.scanPc
  case done => exact absurd hpc hd
  case scanning => live .scanDone
  case waitDelay => live .scanExitStop
  case sendBatch =>
    by_cases hc : s.chScanned = 0
    · live .scanSend
    · by_cases hn : s.stop = .now
      · live .scanAbort
      · have hq : s.qPc ≠ .done := by
          intro hv
          rcases a1 hv with h | h
          · exact hn h
          · have := p1 (by have := p3.mp h; omega); exact hd this
        rcases live_queue run hs ho I hq with h | ⟨h, _⟩
        · exact h
        · exact absurd h hc

/-- The `startRetry` pool is never stuck after a stop request. -/
theorem live_retry (run : running s) (hs : s.stop ≠ .none) (I : Inv s)
    (hd : s.rtDone < s.cfg.threads) : Live s := by
  have s1 := I.s1
  unfold S1 at *
  by_cases hh : 0 < s.rtHold
  · live .retryDrop
  · by_cases hc : 0 < s.chRetry
    · live .retryRecv
    · live .retryExitStop

/-- `Start` can execute its next statement: a `close`, or a `Wait()` whose group is done -/
theorem live_start (run : running s) {k : Nat} (hp : s.startPos = k)
    (hk : match startSequence[k]? with
      | some (.wait g) => groupDone s g
      | some (.close _) => True
      | none => False) : Live s := by
  refine ⟨.startStep, ?_⟩
  simp only [guard]
  rw [hp]
  exact ⟨run, hk⟩

/-- No deadlock after a stop request: in every state satisfying the invariants in which a stop
    was requested and `Start` has not returned, some action is enabled — for the repaired
    tracker, or a tracker outside the two states the repairs are about (`TrackOk`). -/
theorem live_of_inv (I : Inv s) (hs : s.stop ≠ .none) (hr : ¬ returned s)
    (ho : TrackOk s) : Live s := by
  cases hrec : s.recovering
  case true => exact ⟨.recoverDone, by simp [guard, hrec]⟩
  case false =>
  have he : s.earlyRet = false := by
    cases h : s.earlyRet
    · rfl
    · exact absurd (Or.inl h) hr
  have run : running s := ⟨hrec, he⟩
  have hne : s.startPos ≠ 16 := fun h => hr (Or.inr ⟨hrec, by simpa using h⟩)
  have ple := I.pLe; have p2 := I.p2; have p3 := I.p3; have p5 := I.p5; have p7 := I.p7
  have p9 := I.p9; have p11 := I.p11; have p12 := I.p12
  unfold PLe P2 P3 P5 P7 P9 P11 P12 at *
  have hcases : s.startPos = 0 ∨ s.startPos = 1 ∨ s.startPos = 2 ∨ s.startPos = 3 ∨ s.startPos = 4 ∨
      s.startPos = 5 ∨ s.startPos = 6 ∨ s.startPos = 7 ∨ s.startPos = 8 ∨ s.startPos = 9 ∨ s.startPos = 10 ∨
      s.startPos = 11 ∨ s.startPos = 12 ∨ s.startPos = 13 ∨ s.startPos = 14 ∨ s.startPos = 15 := by omega
  rcases hcases with hp|hp|hp|hp|hp|hp|hp|hp|hp|hp|hp|hp|hp|hp|hp|hp
  · -- wgScanned.Wait()
    by_cases hd : s.scanPc = .done
    · exact live_start run hp (by simpa [startSequence, groupDone] using hd)
    · exact live_scan run hs ho I hd
  · -- wgFailed.Wait()
    by_cases hd : s.rtDone = s.cfg.threads
    · exact live_start run hp (by simpa [startSequence, groupDone] using hd)
    · have := I.s1; unfold S1 at this
      exact live_retry run hs I (by omega)
  · exact live_start run hp (by simp [startSequence])
  · -- wgQueued.Wait()
    by_cases hd : s.qPc = .done
    · exact live_start run hp (by simpa [startSequence, groupDone] using hd)
    · rcases live_queue run hs ho I hd with h | ⟨_, h⟩
      · exact h
      · have := p3.mpr (by omega); simp [h] at this
  · exact live_start run hp (by simp [startSequence])
  · -- wgTransmit.Wait()
    by_cases hd : s.binPc = .done
    · exact live_start run hp (by simpa [startSequence, groupDone] using hd)
    · rcases live_bin run hs ho I hd with h | ⟨_, h⟩
      · exact h
      · have := p5.mpr (by omega); simp [h] at this
  · exact live_start run hp (by simp [startSequence])
  · -- wgTransmitted.Wait()
    by_cases hd : s.sdDone = s.cfg.threads
    · exact live_start run hp (by simpa [startSequence, groupDone] using hd)
    · have := I.s2; unfold S2 at this
      rcases live_sndpool run hs ho I (by omega) with h | ⟨_, h⟩
      · exact h
      · have := p7.mpr (by omega); simp [h] at this
  · exact live_start run hp (by simp [startSequence])
  · -- wgValidate.Wait()
    by_cases hd : s.trPc = .done
    · exact live_start run hp (by simpa [startSequence, groupDone] using hd)
    · rcases live_trk run hs ho I hd with h | ⟨_, h⟩
      · exact h
      · have := p9.mpr (by omega); simp [h] at this
  · exact live_start run hp (by simp [startSequence])
  · exact live_start run hp (by simp [startSequence])
  · -- wgStats.Wait()
    cases hd : s.stDone
    · rcases live_stats run hd with h | ⟨_, h⟩
      · exact h
      · have := p12.mpr (by omega); simp [h] at this
    · exact live_start run hp (by simpa [startSequence, groupDone] using hd)
  · -- wgValidated.Wait()
    by_cases hd : s.vaPc = .done
    · exact live_start run hp (by simpa [startSequence, groupDone] using hd)
    · exact live_val run hs I.s0 I.b7 hd (fun _ => Or.inr (p11.mpr (by omega)))
  · exact live_start run hp (by simp [startSequence])
  · -- the second wgFailed.Wait()
    exact live_start run hp (by simpa [startSequence, groupDone] using p2 (by omega))

end Sts.Pipeline
