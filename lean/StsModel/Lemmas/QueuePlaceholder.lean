/-
  Pop's skip loop and the predecessor chain (C07 `chain continues`, C10): after the loop has
  dropped k >= 1 fully allocated placeholders from the head of a group's list, the LAST dropped
  placeholder is still linked in front of the surviving file (the loop unlinks the dropped
  file's predecessor, never the dropped file itself), so that is the name the survivor
  announces.
-/
import StsModel.Lemmas.QueueAnchor

namespace Sts.Queue

/-! ## the skip step keeps the dropped file linked in front of its successor -/

/-- after the body of the skip loop for the allocated head `a` of `a :: b :: t` the chain is
    exactly `a :: b :: t`: whatever stood in front of `a` is unlinked, `a` itself stays -/
theorem skipStep_rep {g : GroupSt} (h : g.WF) {a b : Nat} {t : List Nat} (hl : g.list = a :: b :: t) :
    Rep (g.skipStep a).nodes (a :: b :: t) := by
  obtain ⟨pre, hpl, hrep, _⟩ := h.chain
  rw [hl] at hrep
  have hnd := hrep.nodup
  have hhead : g.head = some a := by have := h.head_some (by simp [hl]); simpa [hl] using this
  have hprev : getPrev g.nodes a = pre.getLast? := by
    rw [hrep.prev, predIn_append hnd]; simp
  have hnodes : (g.skipStep a).nodes = (match pre.getLast? with
      | some p => unlink g.nodes p
      | none => g.nodes) := by
    unfold GroupSt.skipStep GroupSt.removeFile
    simp only [hprev]
    cases pre.getLast? <;> rfl
  rw [hnodes]
  match pre, hpl, hrep with
  | [], _, hrep => simpa using hrep
  | [p], _, hrep =>
    have := unlink_rep (A := []) (B := a :: b :: t) (i := p) (by simpa using hrep)
    simpa using this

/-- the skip loop stops at once at a file that is not allocated or has no successor -/
theorem skipLoop_stop (fuel : Nat) (g : GroupSt) (n adv : Nat)
    (h : isAllocated g.nodes n = false ∨ getNext g.nodes n = none) :
    (skipLoop (fuel + 1) g (some n) adv).1 = g := by
  rw [skipLoop_succ]
  rcases h with h | h
  · simp [h]
  · by_cases ha : isAllocated g.nodes n = true
    · simp [ha, h]
    · have ha' : isAllocated g.nodes n = false := by simpa using ha
      simp [ha']

/-- every file the skip loop drops is fully allocated -/
theorem skipCount_alloc (ns : Nodes) (l : List Nat) :
    ∀ i, i < skipCount ns l → ∃ q, l[i]? = some q ∧ isAllocated ns q = true := by
  induction l with
  | nil => intro i hi; simp [skipCount] at hi
  | cons a t ih =>
    cases t with
    | nil => intro i hi; simp [skipCount] at hi
    | cons b t' =>
      intro i hi
      by_cases ha : isAllocated ns a = true
      · have hsc : skipCount ns (a :: b :: t') = skipCount ns (b :: t') + 1 := by simp [skipCount, ha]
        cases i with
        | zero => exact ⟨a, by simp, ha⟩
        | succ j =>
          obtain ⟨q, hq, hqa⟩ := ih j (by omega)
          exact ⟨q, by simpa using hq, hqa⟩
      · have ha' : isAllocated ns a = false := by simpa using ha
        simp [skipCount, ha'] at hi

/-- the chain the skip loop leaves behind: the last dropped placeholder, then the rest of the list -/
theorem skipLoop_chain (fuel : Nat) : ∀ {g : GroupSt} (_ : g.WF) (_ : g.list.length < fuel) (adv : Nat),
    1 ≤ skipCount g.nodes g.list →
    ∃ p, g.list[skipCount g.nodes g.list - 1]? = some p ∧
      Rep (skipLoop fuel g g.head adv).1.nodes (p :: g.list.drop (skipCount g.nodes g.list)) := by
  induction fuel with
  | zero => intro g _ hf; omega
  | succ fuel ih =>
    intro g h hf adv hk
    match hl : g.list with
    | [] => rw [hl] at hk; simp [skipCount] at hk
    | [a] => rw [hl] at hk; simp [skipCount] at hk
    | a :: b :: t =>
      rw [hl] at hk
      have hhead : g.head = some a := by have := h.head_some (by simp [hl]); simpa [hl] using this
      by_cases ha : isAllocated g.nodes a = true
      · obtain ⟨pre, hpl, hrep, _⟩ := h.chain
        rw [hl] at hrep
        have hnx : getNext g.nodes a = some b := by
          have hnd := hrep.nodup
          have haA : a ∉ pre := (nodup_mid hnd).2.1
          rw [hrep.next, succIn_append hnd]; simp [haA, succIn]
        rw [hhead, skipLoop_succ]
        simp only [ha, Bool.not_true, Bool.false_eq_true, if_false, hnx]
        obtain ⟨hwf1, hhd1, hsp1, _, _, _⟩ := skipStep_wf h hl ha
        have hrep1 := skipStep_rep h hl
        have e1 : g.skipStep a = { ({ g.skipStep a with list := b :: t } : GroupSt) with list := (g.skipStep a).list } := rfl
        rw [e1, skipLoop_list]
        generalize hg1 : ({ g.skipStep a with list := b :: t } : GroupSt) = g1 at hwf1
        have hh1 : g1.head = some b := by rw [← hg1]; exact hhd1
        have hl1 : g1.list = b :: t := by rw [← hg1]
        have hn1 : g1.nodes = (g.skipStep a).nodes := by rw [← hg1]
        have hsc : skipCount g.nodes (a :: b :: t) = skipCount g.nodes (b :: t) + 1 := by simp [skipCount, ha]
        have hsc1 : skipCount g1.nodes (b :: t) = skipCount g.nodes (b :: t) := by
          rw [hn1]; exact skipCount_congr hsp1 _
        show ∃ p, (a :: b :: t)[skipCount g.nodes (a :: b :: t) - 1]? = some p ∧
          Rep (skipLoop fuel g1 (some b) (adv + 1)).1.nodes (p :: (a :: b :: t).drop (skipCount g.nodes (a :: b :: t)))
        rw [hsc]
        simp only [List.drop_succ_cons, Nat.add_sub_cancel]
        by_cases hk' : 1 ≤ skipCount g.nodes (b :: t)
        · have := ih hwf1 (by rw [hl1]; rw [hl] at hf; simp at hf ⊢; omega) (adv + 1) (by rw [hl1, hsc1]; exact hk')
          rw [hh1, hl1, hsc1] at this
          obtain ⟨p, hp, hr⟩ := this
          refine ⟨p, ?_, hr⟩
          obtain ⟨m, hm⟩ : ∃ m, skipCount g.nodes (b :: t) = m + 1 := ⟨_, (Nat.sub_add_cancel hk').symm⟩
          rw [hm] at hp ⊢
          simpa using hp
        · have hz : skipCount g.nodes (b :: t) = 0 := by omega
          rw [hz]
          refine ⟨a, by simp, ?_⟩
          simp only [List.drop_zero]
          obtain ⟨f, rfl⟩ : ∃ f, fuel = f + 1 := ⟨fuel - 1, by rw [hl] at hf; simp at hf; omega⟩
          have hstop : isAllocated g1.nodes b = false ∨ getNext g1.nodes b = none := by
            cases t with
            | nil =>
              right
              rw [hn1, hrep1.next]
              have hab : a ≠ b := by
                have := hrep1.nodup; simp at this; exact this
              simp [succIn, hab]
            | cons c t' =>
              left
              have : isAllocated g.nodes b = false := by
                cases hb : isAllocated g.nodes b with
                | false => rfl
                | true => simp [skipCount, hb] at hz
              rw [hn1, hsp1.isAllocated]; exact this
          rw [skipLoop_stop f g1 b (adv + 1) hstop, hn1]
          exact hrep1
      · have ha' : isAllocated g.nodes a = false := by simpa using ha
        simp [skipCount, ha'] at hk

/-- the scan changes the node store only through the skip loop -/
theorem scan_nodes (g : GroupSt) (now : Int) :
    (g.scan now).1.nodes = (skipLoop (g.nodes.length + 1) g g.head 0).1.nodes := by
  unfold GroupSt.scan
  generalize skipLoop (g.nodes.length + 1) g g.head 0 = res
  obtain ⟨g1, nx, adv⟩ := res
  dsimp only
  split
  · rfl
  · split <;> rfl

theorem GroupSt.WF.list_length_le {g : GroupSt} (h : g.WF) : g.list.length ≤ g.nodes.length := by
  obtain ⟨pre, _, hrep, _⟩ := h.chain
  have hnd : g.list.Nodup := (List.nodup_append.mp hrep.nodup).2.1
  have hsub : g.list ⊆ List.range g.nodes.length := fun x hx => List.mem_range.mpr (h.valid hx)
  have := List.Nodup.length_le_of_subset hnd hsub
  simpa using this

/-- the chain of the scanned group when the scan dropped `k >= 1` placeholders: the last of them,
    then what is left of the list -/
theorem scanned_chain {g : GroupSt} (h : g.WF) (now : Int) (hk : 1 ≤ skipCount g.nodes g.list) :
    ∃ p, g.list[skipCount g.nodes g.list - 1]? = some p ∧
      Rep (g.scanned now).nodes (p :: (g.scanned now).list) := by
  obtain ⟨p, hp, hr⟩ := skipLoop_chain (g.nodes.length + 1) h (by have := h.list_length_le; omega) 0 hk
  refine ⟨p, hp, ?_⟩
  unfold GroupSt.scanned
  rw [scan_nodes]
  have := (scanned_spec h now).2.2.2.2.2
  unfold GroupSt.scanned at this
  rw [this]; exact hr

/-- two different positions of a list whose names are duplicate-free carry different names -/
theorem names_ne_of_index {ns : Nodes} {l : List Nat} (hn : (l.map (nodeName ns)).Nodup) {i j p q : Nat}
    (hij : i ≠ j) (hp : l[i]? = some p) (hq : l[j]? = some q) : nodeName ns p ≠ nodeName ns q := by
  have hi := (List.getElem?_eq_some_iff.mp hp)
  have hj := (List.getElem?_eq_some_iff.mp hq)
  obtain ⟨hil, hie⟩ := hi
  obtain ⟨hjl, hje⟩ := hj
  have hpw := List.pairwise_iff_getElem.mp hn
  rcases Nat.lt_or_ge i j with hlt | hge
  · have := hpw i j (by simpa using hil) (by simpa using hjl) hlt
    simpa [hie, hje] using this
  · have hlt : j < i := by omega
    have := hpw j i (by simpa using hjl) (by simpa using hil) hlt
    intro e
    apply this
    simp [hie, hje, e]

/-- C07/C10, one group. The group is well-formed, its scan drops `k >= 1` placeholders and the
    file `n` survives as the file Pop would serve next. Then:
    the dropped files are the first `k` listed ones, all fully allocated, `n` is the listed
    file behind them, and the chunk that `emit` cuts from `n` in the scanned group announces
    (ordered tag, `n` not a resumed file) the name of the last dropped placeholder, which is
    never `n`'s own name. -/
theorem scan_chain_continues {g : GroupSt} (h : g.WF) (now : Int) {n : Nat}
    (hs : candidate g.nodes g.list = some n) (hk : 1 ≤ skipCount g.nodes g.list) :
    ∃ p, g.list[skipCount g.nodes g.list - 1]? = some p ∧ isAllocated g.nodes p = true ∧
      g.list[skipCount g.nodes g.list]? = some n ∧
      (∀ i, i < skipCount g.nodes g.list → ∃ q, g.list[i]? = some q ∧ isAllocated g.nodes q = true) ∧
      getPrev (g.scanned now).nodes n = some p ∧
      nodeName g.nodes p ≠ nodeName g.nodes n ∧
      (g.conf.order ≠ Order.none → (fileOf g.nodes n).rcv = none →
        ((g.scanned now).emit n).2.prev = nodeName g.nodes p) := by
  obtain ⟨p, hp, hr⟩ := scanned_chain h now hk
  obtain ⟨rest, hdr, _⟩ := candidate_head hs
  have hsc := scanned_spec h now
  have hl : (g.scanned now).list = n :: rest := by rw [hsc.2.2.2.2.2, hdr]
  rw [hl] at hr
  have hall := skipCount_alloc g.nodes g.list
  obtain ⟨q, hq, hqa⟩ := hall (skipCount g.nodes g.list - 1) (by omega)
  rw [hp] at hq; cases hq
  have hn : g.list[skipCount g.nodes g.list]? = some n := by
    have : (g.list.drop (skipCount g.nodes g.list))[0]? = some n := by rw [hdr]; rfl
    rw [List.getElem?_drop] at this; simpa using this
  have hgp : getPrev (g.scanned now).nodes n = some p := by
    rw [hr.prev]; simp [predIn]
  have hne : nodeName g.nodes p ≠ nodeName g.nodes n :=
    names_ne_of_index h.names (by omega) hp hn
  refine ⟨p, hp, hqa, hn, hall, hgp, hne, fun ho hplain => ?_⟩
  obtain ⟨hpe, _⟩ := emit_prev_eq hsc.1 hl
  rw [hpe, hsc.2.1, hsc.2.2.2.1.fileOf, hplain, hgp]
  have ho' : (g.conf.order != Order.none) = true := by simpa using ho
  simp only [ho', if_true, hsc.2.2.2.1.nodeName]
  have : (nodeName g.nodes p == nodeName g.nodes n) = false := by simpa using hne
  simp [this]

/-! ## the anchor of a group across a scan -/

theorem skipCount_lt (ns : Nodes) (l : List Nat) (hne : l ≠ []) : skipCount ns l < l.length := by
  induction l with
  | nil => exact absurd rfl hne
  | cons a t ih =>
    cases t with
    | nil => simp [skipCount]
    | cons b t' =>
      have := ih (by simp)
      simp only [skipCount]
      split <;> simp at this ⊢ <;> omega

/-- a scan that drops nothing leaves the group as it was -/
theorem skipLoop_zero {g : GroupSt} (h : g.WF) (fuel : Nat) (hf : g.list.length < fuel) (adv : Nat)
    (hz : skipCount g.nodes g.list = 0) : (skipLoop fuel g g.head adv).1 = g := by
  obtain ⟨f, rfl⟩ : ∃ f, fuel = f + 1 := ⟨fuel - 1, by omega⟩
  obtain ⟨pre, hpl, hrep, _⟩ := h.chain
  match hl : g.list with
  | [] =>
    cases hh : g.head with
    | none => rfl
    | some hd =>
      have hhd := h.head_none hl hd hh
      have hnx : getNext g.nodes hd = none := by
        rw [hl] at hrep
        have := hrep.nil_of_short (by simpa using hpl)
        rw [this.next]; rfl
      exact skipLoop_stop f g hd adv (Or.inr hnx)
  | [a] =>
    have hhead : g.head = some a := by have := h.head_some (by simp [hl]); simpa [hl] using this
    have hnx : getNext g.nodes a = none := by
      rw [hl] at hrep
      have hnd := hrep.nodup
      have haA : a ∉ pre := (nodup_mid hnd).2.1
      rw [hrep.next, succIn_append hnd]; simp [haA, succIn]
    rw [hhead]; exact skipLoop_stop f g a adv (Or.inr hnx)
  | a :: b :: t =>
    have hhead : g.head = some a := by have := h.head_some (by simp [hl]); simpa [hl] using this
    have ha : isAllocated g.nodes a = false := by
      cases hb : isAllocated g.nodes a with
      | false => rfl
      | true => rw [hl] at hz; simp [skipCount, hb] at hz
    rw [hhead]; exact skipLoop_stop f g a adv (Or.inl ha)

theorem scanned_zero {g : GroupSt} (h : g.WF) (now : Int) (hz : skipCount g.nodes g.list = 0) :
    g.scanned now = g := by
  have hf : g.list.length < g.nodes.length + 1 := by have := h.list_length_le; omega
  have h1 := skipLoop_zero h (g.nodes.length + 1) hf 0 hz
  have h2 := (skipLoop_spec (g.nodes.length + 1) h hf 0).1
  rw [hz] at h2
  have hskip : skipLoop (g.nodes.length + 1) g g.head 0 = (g, (skipLoop (g.nodes.length + 1) g g.head 0).2.1, 0) := by
    apply Prod.ext
    · exact h1
    · apply Prod.ext
      · rfl
      · simpa using h2
  unfold GroupSt.scanned GroupSt.scan
  rw [hskip]
  dsimp only
  have : ({ g with list := if 0 > 0 then List.drop 0 g.list else g.list } : GroupSt) = g := by
    cases g; simp
  split <;> (try split) <;> simp

/-- the anchor of a group (the node the first listed file announces) after a scan: the last file
    the skip loop dropped; unchanged when it dropped none -/
theorem scanned_anchor {g : GroupSt} (h : g.WF) (now : Int) :
    (g.scanned now).anchor =
      if 1 ≤ skipCount g.nodes g.list then g.list[skipCount g.nodes g.list - 1]? else g.anchor := by
  by_cases hk : 1 ≤ skipCount g.nodes g.list
  · simp only [hk, if_true]
    obtain ⟨p, hp, hr⟩ := scanned_chain h now hk
    rw [hp]
    have hne : g.list ≠ [] := by
      intro e; rw [e] at hk; simp [skipCount] at hk
    have hlt := skipCount_lt g.nodes g.list hne
    have hl := (scanned_spec h now).2.2.2.2.2
    unfold GroupSt.anchor
    cases hd : (g.scanned now).list with
    | nil =>
      rw [hd] at hl
      have := congrArg List.length hl
      simp at this; omega
    | cons a t =>
      rw [hd] at hr
      simp only
      rw [hr.prev]; simp [predIn]
  · have hz : skipCount g.nodes g.list = 0 := by omega
    simp only [hk, if_false]
    rw [scanned_zero h now hz]

end Sts.Queue
