/-
  Machinery for C05 over ALL histories (crashes, crashes inside operations, `Recover()` at any
  time): ghost counters over the event list (receive-log records, moves into the final
  directory, crashes between the record and the move of one finalization), the accounting
  identity  records = crashes-between + deliveries,  and the invariant behind "a version is
  delivered at most once":

  * `HInv A s`  — hash discipline: every log record, cache entry, companion (committed or
    temporary) and validation-queue item of a name `x` carries a hash allowed by `A x`
    (`A : Name → String → Bool`, e.g. "the one version of the name `n`, anything for other names");
  * `Cold s n`       — `n` was delivered: it is in the log, `<n>.wait` is gone, and the cache
    does not know `n` or knows it as finalized / logged.

  Both are kept by every primitive that meets a *static* Boolean condition (`okH`, `okC n`), so
  they hold after every prefix of an operation's primitive list (= at every crash point).
-/
import StsModel.Lemmas.StageClass

namespace Sts.Stage
open Dur

/-! ## ghost counters -/

/-- a receive-log record of version (n, h) -/
def Prim.isLogOf (n : Name) (h : String) : Prim → Bool
  | .logAppend r => r.name == n && r.hash == h
  | _ => false

/-- a move of `<n>.wait` into the final directory -/
def Prim.isMoveOf (n : Name) : Prim → Bool
  | .renWaitFinal m _ => m == n
  | _ => false

/-- a move of any file to the target `t` of the final directory -/
def Prim.isMoveTo (t : String) : Prim → Bool
  | .renWaitFinal _ t' => t' == t
  | _ => false

/-- the primitives an event performs: the whole list of the operation, its prefix up to the
    k-th durable step for a crash inside it, nothing for a bare crash -/
def performed (H : Body → String) (s : State) : Ev → List Prim
  | .op o => effects H s o
  | .cutOp k o => cut k (effects H s o)
  | .crash => []

/-- the primitives the operation of the event would perform if it ran to its end -/
def intended (H : Body → String) (s : State) : Ev → List Prim
  | .op o => effects H s o
  | .cutOp _ o => effects H s o
  | .crash => []

/-- the event delivers version (n, h): it performs the receive-log record of (n, h) AND the move
    of `<n>.wait` into the final directory (an operation holds at most one record and one move:
    `fins_shape`; the count is the number of moves). -/
def evDelivers (H : Body → String) (s : State) (ev : Ev) (n : Name) (h : String) : Nat :=
  if (performed H s ev).any (Prim.isLogOf n h) then (performed H s ev).countP (Prim.isMoveOf n) else 0

/-- the event is a crash between the log record and the move of a finalization of (n, h): the
    performed prefix holds the record and not the move, and the operation would have moved. -/
def evCrashBetween (H : Body → String) (s : State) (ev : Ev) (n : Name) (h : String) : Nat :=
  if (performed H s ev).any (Prim.isLogOf n h) && !(performed H s ev).any (Prim.isMoveOf n) &&
      (intended H s ev).any (Prim.isMoveOf n) then 1 else 0

/-- a move into target `t` that is not part of a delivery of (n, h) -/
def evOtherArrival (H : Body → String) (s : State) (ev : Ev) (n : Name) (h : String) (t : String) : Nat :=
  if (performed H s ev).any (Prim.isMoveTo t) && !(performed H s ev).any (Prim.isLogOf n h) then 1 else 0

/-- number of deliveries of version (n, h) in the history `evs` from state `s` -/
def deliveries (H : Body → String) : State → List Ev → Name → String → Nat
  | _, [], _, _ => 0
  | s, ev :: evs, n, h => evDelivers H s ev n h + deliveries H (step H s ev) evs n h

/-- number of crashes that fell between the log record and the move of a finalization of (n, h) -/
def crashesBetweenLogAndMove (H : Body → String) : State → List Ev → Name → String → Nat
  | _, [], _, _ => 0
  | s, ev :: evs, n, h => evCrashBetween H s ev n h + crashesBetweenLogAndMove H (step H s ev) evs n h

/-- number of events that move a file to target `t` without being a delivery of (n, h) -/
def otherArrivals (H : Body → String) : State → List Ev → Name → String → String → Nat
  | _, [], _, _, _ => 0
  | s, ev :: evs, n, h, t => evOtherArrival H s ev n h t + otherArrivals H (step H s ev) evs n h t

/-- number of receive-log records of version (n, h) -/
def logCount (d : Disk) (n : Name) (h : String) : Nat :=
  d.log.countP (fun r => r.name == n && r.hash == h)

theorem deliveries_append (H : Body → String) (a b : List Ev) (s : State) (n : Name) (h : String) :
    deliveries H s (a ++ b) n h = deliveries H s a n h + deliveries H (runEvs H s a) b n h := by
  induction a generalizing s with
  | nil => simp [deliveries, runEvs]
  | cons e a ih =>
    simp only [List.cons_append, deliveries, runEvs, List.foldl_cons]
    rw [ih]
    simp only [runEvs]
    omega

theorem crashesBetween_append (H : Body → String) (a b : List Ev) (s : State) (n : Name) (h : String) :
    crashesBetweenLogAndMove H s (a ++ b) n h =
      crashesBetweenLogAndMove H s a n h + crashesBetweenLogAndMove H (runEvs H s a) b n h := by
  induction a generalizing s with
  | nil => simp [crashesBetweenLogAndMove, runEvs]
  | cons e a ih =>
    simp only [List.cons_append, crashesBetweenLogAndMove, runEvs, List.foldl_cons]
    rw [ih]
    simp only [runEvs]
    omega

/-! ## the log only grows, by the records of the primitives run -/

theorem logCount_applyPrim (s : State) (p : Prim) (n : Name) (h : String) :
    logCount (applyPrim s p).disk n h = logCount s.disk n h + (if p.isLogOf n h then 1 else 0) := by
  unfold logCount
  rw [applyPrim_log]
  cases p <;> simp [Prim.isLogOf, List.countP_append, List.countP_cons]

theorem logCount_run (ps : List Prim) (s : State) (n : Name) (h : String) :
    logCount (run s ps).disk n h = logCount s.disk n h + ps.countP (Prim.isLogOf n h) := by
  induction ps generalizing s with
  | nil => simp
  | cons p ps ih =>
    rw [run_cons, ih, logCount_applyPrim, List.countP_cons]
    omega

theorem logCount_step (H : Body → String) (s : State) (ev : Ev) (n : Name) (h : String) :
    logCount (step H s ev).disk n h = logCount s.disk n h + (performed H s ev).countP (Prim.isLogOf n h) := by
  cases ev with
  | op o => exact logCount_run _ s n h
  | cutOp k o => exact logCount_run _ s n h
  | crash => simp [step, crash, performed]

/-! ## the shape of an operation: at most one record, then at most one move -/

/-- the log / move primitives of a list, in order -/
def fins (ps : List Prim) : List Prim := ps.filter Prim.isFin

theorem isLogOf_isFin (n : Name) (h : String) (p : Prim) (hp : p.isLogOf n h = true) : p.isFin = true := by
  cases p <;> simp_all [Prim.isLogOf, Prim.isFin]

theorem isMoveOf_isFin (n : Name) (p : Prim) (hp : p.isMoveOf n = true) : p.isFin = true := by
  cases p <;> simp_all [Prim.isMoveOf, Prim.isFin]

theorem isMoveTo_isFin (t : String) (p : Prim) (hp : p.isMoveTo t = true) : p.isFin = true := by
  cases p <;> simp_all [Prim.isMoveTo, Prim.isFin]

theorem any_fins (b : Prim → Bool) (hb : ∀ p, b p = true → p.isFin = true) (ps : List Prim) :
    (fins ps).any b = ps.any b := by
  induction ps with
  | nil => rfl
  | cons p ps ih =>
    simp only [fins, List.filter_cons, List.any_cons] at ih ⊢
    by_cases hp : p.isFin = true
    · simp [hp, ih]
    · have : b p = false := by
        cases hbp : b p with
        | true => exact absurd (hb p hbp) hp
        | false => rfl
      simp [hp, this, ih]

theorem countP_fins (b : Prim → Bool) (hb : ∀ p, b p = true → p.isFin = true) (ps : List Prim) :
    (fins ps).countP b = ps.countP b := by
  induction ps with
  | nil => rfl
  | cons p ps ih =>
    simp only [fins, List.filter_cons, List.countP_cons] at ih ⊢
    by_cases hp : p.isFin = true
    · simp [hp, ih, List.countP_cons]
    · have : b p = false := by
        cases hbp : b p with
        | true => exact absurd (hb p hbp) hp
        | false => rfl
      simp [hp, this, ih]

theorem fins_append (a b : List Prim) : fins (a ++ b) = fins a ++ fins b := by
  simp [fins, List.filter_append]

theorem fins_nil_of_notFin (ps : List Prim) (h : ∀ p ∈ ps, p.isFin = false) : fins ps = [] := by
  simp only [fins, List.filter_eq_nil_iff]
  intro p hp
  simp [h p hp]

theorem toCache_fins (m : Mem) (n : Name) (e : Entry) (st : FState) (now : Int) :
    fins (toCache m n e st now) = [] := fins_nil_of_notFin _ (toCache_notFin m n e st now)

theorem finalize_fins (s : State) (n : Name) (e : Entry) (now : Int) :
    fins (finalizeEffects s n e now) =
      if stateOf s.mem n ≠ some .validated ∨ (s.mem.cache n).map (·.hash) ≠ some e.hash then []
      else match s.disk.wait n with
        | none => [Prim.logAppend (finRec n e now)]
        | some _ => [Prim.logAppend (finRec n e now), Prim.renWaitFinal n (targetOf n e.renamed)] := by
  unfold finalizeEffects
  by_cases hc : stateOf s.mem n ≠ some .validated ∨ (s.mem.cache n).map (·.hash) ≠ some e.hash
  · rw [if_pos hc, if_pos hc]; rfl
  · rw [if_neg hc, if_neg hc]
    cases hw : s.disk.wait n with
    | none => simp [fins, Prim.isFin, finRec, List.filter_cons]
    | some i =>
      simp only [fins_append, toCache_fins]
      have : fins ((s.mem.wait.filter (fun w => w.1 == n)).map (fun w => Prim.fqPush w.2.1 w.2.2)) = [] := by
        apply fins_nil_of_notFin
        intro p hp
        simp only [List.mem_map] at hp
        obtain ⟨w, _, rfl⟩ := hp
        rfl
      rw [this]
      simp [fins, Prim.isFin, finRec, List.filter_cons]

theorem finh_fins (s : State) (n : Name) (now : Int) :
    fins (finhEffects s n now) = [] ∨
    ∃ e, stateOf s.mem n = some .validated ∧ (s.mem.cache n).map (·.hash) = some e.hash ∧
      ((s.disk.wait n = none ∧ fins (finhEffects s n now) = [Prim.logAppend (finRec n e now)]) ∨
       (s.disk.wait n ≠ none ∧ fins (finhEffects s n now) =
          [Prim.logAppend (finRec n e now), Prim.renWaitFinal n (targetOf n e.renamed)])) := by
  unfold finhEffects
  split
  · left; rfl
  · rename_i k e hfq
    rw [fins_append]
    by_cases hst : stateOf s.mem n ≠ some .validated
    · left; rw [if_pos hst]; rfl
    · rw [if_neg hst]
      split
      · rw [finalize_fins]
        by_cases hc : stateOf s.mem n ≠ some .validated ∨ (s.mem.cache n).map (·.hash) ≠ some e.hash
        · left; rw [if_pos hc]; rfl
        · right
          rw [if_neg hc]
          have hc' : stateOf s.mem n = some .validated ∧ (s.mem.cache n).map (·.hash) = some e.hash := by
            simpa [Classical.not_not, not_or] using hc
          refine ⟨e, hc'.1, hc'.2, ?_⟩
          cases hw : s.disk.wait n with
          | none => left; exact ⟨rfl, rfl⟩
          | some i => right; exact ⟨by simp, rfl⟩
      · left
        apply fins_nil_of_notFin
        intro p hp
        simp only [List.mem_append, List.mem_singleton] at hp
        rcases hp with (hp | hp) | hp
        · subst hp; rfl
        · split at hp <;> simp at hp; subst hp; rfl
        · subst hp; rfl

/-- every operation but the finalize handler has no log / move primitive -/
theorem effects_fins (H : Body → String) (s : State) (o : OpEv) (h : ∀ n now, o ≠ .finh n now) :
    fins (effects H s o) = [] :=
  fins_nil_of_notFin _ (effects_notFin H s o h)

/-- a prefix of a list: its log / move primitives are a prefix of the list's -/
theorem fins_cut (k : Nat) (ps : List Prim) : ∃ qs, fins ps = fins (cut k ps) ++ qs := by
  obtain ⟨qs, hq⟩ := cut_prefix k ps
  exact ⟨fins qs, by rw [← fins_append, ← hq]⟩

/-! ## the accounting identity: records = crashes between log and move + deliveries -/

theorem account_lists (n : Name) (h : String) (fp fi qs : List Prim) (hpre : fi = fp ++ qs)
    (hshape : fi = [] ∨ ∃ x e now t, fi = [Prim.logAppend (finRec x e now), Prim.renWaitFinal x t]) :
    fp.countP (Prim.isLogOf n h) =
      (if fp.any (Prim.isLogOf n h) && !fp.any (Prim.isMoveOf n) && fi.any (Prim.isMoveOf n) then 1 else 0) +
      (if fp.any (Prim.isLogOf n h) then fp.countP (Prim.isMoveOf n) else 0) := by
  rcases hshape with h0 | ⟨x, e, now, t, h2⟩
  · subst h0
    have : fp = [] := by
      cases fp with
      | nil => rfl
      | cons a b => simp at hpre
    subst this; simp
  · subst h2
    match fp, hpre with
    | [], _ => simp
    | [a], hpre =>
      simp only [List.cons_append, List.nil_append, List.cons.injEq] at hpre
      obtain ⟨rfl, _⟩ := hpre
      by_cases hx : x = n <;> by_cases hh : e.hash = h <;>
        simp [Prim.isLogOf, Prim.isMoveOf, finRec, hx, hh]
    | [a, b], hpre =>
      simp only [List.cons_append, List.nil_append, List.cons.injEq] at hpre
      obtain ⟨rfl, rfl, _⟩ := hpre
      by_cases hx : x = n <;> by_cases hh : e.hash = h <;>
        simp [Prim.isLogOf, Prim.isMoveOf, finRec, hx, hh]
    | a :: b :: c :: d, hpre =>
      simp at hpre

/-- the log / move primitives of any operation in a reachable state: none, or a record followed
    by the move (a validated file has its `.wait`: `validated_has_wait`) -/
theorem fins_shape {H : Body → String} {s : State} (hr : Reachable H s) (o : OpEv) :
    fins (effects H s o) = [] ∨
    ∃ x e now t, fins (effects H s o) = [Prim.logAppend (finRec x e now), Prim.renWaitFinal x t] := by
  by_cases ho : ∀ n now, o ≠ .finh n now
  · exact Or.inl (effects_fins H s o ho)
  · have : ∃ n now, o = .finh n now := by
      apply Classical.byContradiction
      intro hne
      apply ho
      intro n now heq
      exact hne ⟨n, now, heq⟩
    obtain ⟨x, now, rfl⟩ := this
    show fins (finhEffects s x now) = [] ∨ _
    rcases finh_fins s x now with h | ⟨e, hv, _, ⟨hw, _⟩ | ⟨_, h⟩⟩
    · exact Or.inl h
    · exfalso
      simp only [stateOf, Option.map_eq_some_iff] at hv
      obtain ⟨ce, hce, hst⟩ := hv
      obtain ⟨i, hi⟩ := validated_has_wait hr x ce hce hst
      rw [hw] at hi; cases hi
    · exact Or.inr ⟨x, e, now, _, h⟩

theorem fins_performed {H : Body → String} {s : State} (hr : Reachable H s) (ev : Ev) :
    (∃ qs, fins (intended H s ev) = fins (performed H s ev) ++ qs) ∧
    (fins (intended H s ev) = [] ∨
     ∃ x e now t, fins (intended H s ev) = [Prim.logAppend (finRec x e now), Prim.renWaitFinal x t]) := by
  cases ev with
  | op o => exact ⟨⟨[], by simp [intended, performed]⟩, fins_shape hr o⟩
  | cutOp k o => exact ⟨fins_cut k _, fins_shape hr o⟩
  | crash => exact ⟨⟨[], rfl⟩, Or.inl rfl⟩

/-- one event: the records of (n, h) it appends = (1 if it is a crash between the record and the
    move) + (the deliveries it makes) -/
theorem ev_account {H : Body → String} {s : State} (hr : Reachable H s) (ev : Ev) (n : Name)
    (h : String) :
    (performed H s ev).countP (Prim.isLogOf n h) = evCrashBetween H s ev n h + evDelivers H s ev n h := by
  obtain ⟨⟨qs, hq⟩, hshape⟩ := fins_performed hr ev
  have := account_lists n h _ _ qs hq hshape
  unfold evCrashBetween evDelivers
  rw [countP_fins _ (isLogOf_isFin n h), any_fins _ (isLogOf_isFin n h), any_fins _ (isMoveOf_isFin n),
    countP_fins _ (isMoveOf_isFin n), any_fins _ (isMoveOf_isFin n)] at this
  exact this

/-- **accounting identity** (every history, no hypothesis): the number of receive-log records of
    version (n, h) grows by exactly the crashes between log and move plus the deliveries. -/
theorem log_account {H : Body → String} (evs : List Ev) {s : State} (hr : Reachable H s) (n : Name)
    (h : String) :
    logCount (runEvs H s evs).disk n h =
      logCount s.disk n h + crashesBetweenLogAndMove H s evs n h + deliveries H s evs n h := by
  induction evs generalizing s with
  | nil => simp [runEvs, crashesBetweenLogAndMove, deliveries]
  | cons ev evs ih =>
    simp only [runEvs, List.foldl_cons, crashesBetweenLogAndMove, deliveries]
    have := ih (hr.step ev)
    simp only [runEvs] at this
    rw [this, logCount_step, ev_account hr]
    omega

/-- one event delivers a version at most once -/
theorem evDelivers_le_one {H : Body → String} {s : State} (hr : Reachable H s) (ev : Ev) (n : Name)
    (h : String) : evDelivers H s ev n h ≤ 1 := by
  obtain ⟨⟨qs, hq⟩, hshape⟩ := fins_performed hr ev
  unfold evDelivers
  split
  · rw [← countP_fins _ (isMoveOf_isFin n)]
    rcases hshape with h0 | ⟨x, e, now, t, h2⟩
    · rw [h0] at hq
      have : fins (performed H s ev) = [] := by
        cases hf : fins (performed H s ev) with
        | nil => rfl
        | cons a b => rw [hf] at hq; simp at hq
      rw [this]; simp
    · have hle : (fins (performed H s ev)).countP (Prim.isMoveOf n) ≤
          (fins (intended H s ev)).countP (Prim.isMoveOf n) := by
        rw [hq, List.countP_append]; omega
      rw [h2] at hle
      have h3 : [Prim.logAppend (finRec x e now), Prim.renWaitFinal x t].countP (Prim.isMoveOf n) ≤ 1 := by
        by_cases hx : x = n <;> simp [Prim.isMoveOf, hx]
      omega
  · omega

/-! ## hash discipline -/

/-- every log record, cache entry, companion (committed or temporary) and validation-queue item
    of a name `x` carries a hash that `A x` allows -/
structure HInv (A : Name → String → Bool) (s : State) : Prop where
  logh : ∀ r ∈ s.disk.log, A r.name r.hash = true
  cacheh : ∀ x e, s.mem.cache x = some e → A x e.hash = true
  cmph : ∀ x c, s.disk.cmp x = some c → A x c.hash = true
  tmph : ∀ x c, s.disk.cmpTmp x = some c → A x c.hash = true
  vqh : ∀ q ∈ s.mem.vq, A q.1 q.2.hash = true

/-- primitives that keep the hash discipline (a static condition) -/
def okH (A : Name → String → Bool) : Prim → Bool
  | .cacheSet x e => A x e.hash
  | .cmpTmp x c => A x c.hash
  | .logAppend r => A r.name r.hash
  | .vqPush x e => A x e.hash
  | _ => true

theorem applyPrim_wait_eq (s : State) (p : Prim) :
    (applyPrim s p).disk.wait =
      (match p with
       | .renFullWait y => (match s.disk.full y with | some i => upd s.disk.wait y (some i) | none => s.disk.wait)
       | .renWaitFinal y _ => (match s.disk.wait y with | some _ => upd s.disk.wait y none | none => s.disk.wait)
       | _ => s.disk.wait) := by
  cases p with
  | renFullWait y => simp only [applyPrim, applyDisk]; cases s.disk.full y <;> rfl
  | renWaitFinal y t => simp only [applyPrim, applyDisk]; cases s.disk.wait y <;> rfl
  | _ => simp only [applyPrim, applyDisk] <;> first | rfl | (split <;> first | rfl | (split <;> rfl))

theorem applyPrim_cmp_eq (s : State) (p : Prim) :
    (applyPrim s p).disk.cmp =
      (match p with
       | .rmCmp y => upd s.disk.cmp y none
       | .rmCmpIf y h => (match s.disk.cmp y with
          | some c => if c.hash = h then upd s.disk.cmp y none else s.disk.cmp
          | none => s.disk.cmp)
       | .cmpCommit y _ => (match s.disk.cmpTmp y with | some c => upd s.disk.cmp y (some c) | none => s.disk.cmp)
       | _ => s.disk.cmp) := by
  cases p with
  | rmCmpIf y h =>
    simp only [applyPrim, applyDisk]
    cases s.disk.cmp y with
    | none => rfl
    | some c => simp only []; split <;> rfl
  | cmpCommit y t => simp only [applyPrim, applyDisk]; cases s.disk.cmpTmp y <;> rfl
  | _ => simp only [applyPrim, applyDisk] <;> first | rfl | (split <;> first | rfl | (split <;> rfl))

theorem applyPrim_cmpTmp_eq (s : State) (p : Prim) :
    (applyPrim s p).disk.cmpTmp =
      (match p with
       | .cmpTmp y c => upd s.disk.cmpTmp y (some c)
       | .cmpCommit y _ => (match s.disk.cmpTmp y with | some _ => upd s.disk.cmpTmp y none | none => s.disk.cmpTmp)
       | _ => s.disk.cmpTmp) := by
  cases p with
  | cmpCommit y t => simp only [applyPrim, applyDisk]; cases s.disk.cmpTmp y <;> rfl
  | _ => simp only [applyPrim, applyDisk] <;> first | rfl | (split <;> first | rfl | (split <;> rfl))

theorem applyPrim_cache_eq (s : State) (p : Prim) :
    (applyPrim s p).mem.cache =
      (match p with
       | .cacheSet y e => upd s.mem.cache y (some { e with seq := s.mem.clock })
       | .cacheDel y => upd s.mem.cache y none
       | .nextFinalSet y => (match s.mem.cache y with
          | some e => upd s.mem.cache y (some { e with nextFinal := true })
          | none => s.mem.cache)
       | _ => s.mem.cache) := by
  cases p with
  | nextFinalSet y => simp only [applyPrim, applyMem]; cases s.mem.cache y <;> rfl
  | _ => simp only [applyPrim, applyMem] <;> first | rfl | (split <;> first | rfl | (split <;> rfl))

theorem applyPrim_vq_eq (s : State) (p : Prim) :
    (applyPrim s p).mem.vq =
      (match p with
       | .vqPush y e => s.mem.vq ++ [(y, e)]
       | .vqDel y => eraseFirst (fun x => x.1 == y) s.mem.vq
       | _ => s.mem.vq) := by
  cases p <;> simp only [applyPrim, applyMem] <;> first | rfl | (split <;> first | rfl | (split <;> rfl))
theorem HInv_prim {A : Name → String → Bool} {s : State} (hi : HInv A s) (p : Prim)
    (hp : okH A p = true) : HInv A (applyPrim s p) where
  logh := by
    intro r hr
    rw [applyPrim_log] at hr
    cases p with
    | logAppend r' =>
      simp only [List.mem_append, List.mem_singleton] at hr
      rcases hr with hr | hr
      · exact hi.logh r hr
      · subst hr; simpa [okH] using hp
    | _ => exact hi.logh r hr
  cacheh := by
    intro x e he
    rw [applyPrim_cache_eq] at he
    cases p with
    | cacheSet y e' =>
      simp only at he
      by_cases hxy : x = y
      · subst hxy
        simp only [upd_same, Option.some.injEq] at he
        subst he
        simpa [okH] using hp
      · rw [upd_other _ _ _ _ hxy] at he; exact hi.cacheh x e he
    | cacheDel y =>
      simp only at he
      by_cases hxy : x = y
      · subst hxy; simp at he
      · rw [upd_other _ _ _ _ hxy] at he; exact hi.cacheh x e he
    | nextFinalSet y =>
      simp only at he
      cases hy : s.mem.cache y with
      | none => rw [hy] at he; exact hi.cacheh x e he
      | some e0 =>
        rw [hy] at he
        simp only at he
        by_cases hxy : x = y
        · subst hxy
          simp only [upd_same, Option.some.injEq] at he
          subst he
          exact hi.cacheh x e0 hy
        · rw [upd_other _ _ _ _ hxy] at he; exact hi.cacheh x e he
    | _ => exact hi.cacheh x e he
  cmph := by
    intro x c hc
    rw [applyPrim_cmp_eq] at hc
    cases p with
    | rmCmp y =>
      simp only at hc
      by_cases hxy : x = y
      · subst hxy; simp at hc
      · rw [upd_other _ _ _ _ hxy] at hc; exact hi.cmph x c hc
    | rmCmpIf y h =>
      simp only at hc
      cases hy : s.disk.cmp y with
      | none => rw [hy] at hc; exact hi.cmph x c hc
      | some c0 =>
        rw [hy] at hc
        simp only at hc
        split at hc
        · by_cases hxy : x = y
          · subst hxy; simp at hc
          · rw [upd_other _ _ _ _ hxy] at hc; exact hi.cmph x c hc
        · exact hi.cmph x c hc
    | cmpCommit y t =>
      simp only at hc
      cases hy : s.disk.cmpTmp y with
      | none => rw [hy] at hc; exact hi.cmph x c hc
      | some c0 =>
        rw [hy] at hc
        simp only at hc
        by_cases hxy : x = y
        · subst hxy
          simp only [upd_same, Option.some.injEq] at hc
          subst hc
          exact hi.tmph x c0 hy
        · rw [upd_other _ _ _ _ hxy] at hc; exact hi.cmph x c hc
    | _ => exact hi.cmph x c hc
  tmph := by
    intro x c hc
    rw [applyPrim_cmpTmp_eq] at hc
    cases p with
    | cmpTmp y c' =>
      simp only at hc
      by_cases hxy : x = y
      · subst hxy
        simp only [upd_same, Option.some.injEq] at hc
        subst hc
        simpa [okH] using hp
      · rw [upd_other _ _ _ _ hxy] at hc; exact hi.tmph x c hc
    | cmpCommit y t =>
      simp only at hc
      cases hy : s.disk.cmpTmp y with
      | none => rw [hy] at hc; exact hi.tmph x c hc
      | some c0 =>
        rw [hy] at hc
        simp only at hc
        by_cases hxy : x = y
        · subst hxy; simp at hc
        · rw [upd_other _ _ _ _ hxy] at hc; exact hi.tmph x c hc
    | _ => exact hi.tmph x c hc
  vqh := by
    intro q hq
    rw [applyPrim_vq_eq] at hq
    cases p with
    | vqPush y e =>
      simp only [List.mem_append, List.mem_singleton] at hq
      rcases hq with hq | hq
      · exact hi.vqh q hq
      · subst hq; simpa [okH] using hp
    | vqDel y => exact hi.vqh q (mem_eraseFirst _ _ _ hq)
    | _ => exact hi.vqh q hq

theorem HInv_run {A : Name → String → Bool} (ps : List Prim) {s : State} (hi : HInv A s)
    (hp : ps.all (okH A) = true) : HInv A (run s ps) := by
  induction ps generalizing s with
  | nil => simpa using hi
  | cons p ps ih =>
    simp only [List.all_cons, Bool.and_eq_true] at hp
    exact ih (HInv_prim hi p hp.1) hp.2

theorem HInv_crash {A : Name → String → Bool} {s : State} (hi : HInv A s) : HInv A (crash s) :=
  ⟨hi.logh, by intro x e he; simp [crash] at he, hi.cmph, hi.tmph, by intro q hq; simp [crash] at hq⟩

theorem all_of_prefix {α : Type} (b : α → Bool) (ps pre qs : List α) (h : ps = pre ++ qs)
    (hall : ps.all b = true) : pre.all b = true := by
  subst h
  simp only [List.all_append, Bool.and_eq_true] at hall
  exact hall.1

/-! ## a delivered name stays put -/

/-- `n` was delivered: it is in the receive log, `<n>.wait` is gone, the cache does not know `n`
    or knows it as finalized / logged -/
structure Cold (s : State) (n : Name) : Prop where
  nowait : s.disk.wait n = none
  st : ∀ e, s.mem.cache n = some e → e.state = .finalized ∨ e.state = .logged
  lg : ∃ r ∈ s.disk.log, r.name = n

/-- primitives that keep `Cold · n` (a static condition) -/
def okC (n : Name) : Prim → Bool
  | .cacheSet x e => x != n || e.state == .finalized || e.state == .logged
  | .cacheDel x => x != n
  | .renFullWait x => x != n
  | _ => true

theorem applyPrim_wait_none (s : State) (p : Prim) (n : Name) (h : s.disk.wait n = none)
    (hp : ∀ x, p = Prim.renFullWait x → x ≠ n) : (applyPrim s p).disk.wait n = none := by
  rw [applyPrim_wait_eq]
  cases p with
  | renFullWait x =>
    simp only
    cases s.disk.full x with
    | none => exact h
    | some i =>
      simp only
      rw [upd_other _ _ _ _ (fun e => hp x rfl e.symm)]; exact h
  | renWaitFinal x t =>
    simp only
    cases s.disk.wait x with
    | none => exact h
    | some i =>
      simp only
      by_cases hx : n = x
      · subst hx; simp
      · rw [upd_other _ _ _ _ hx]; exact h
  | _ => exact h

theorem Cold_prim {s : State} {n : Name} (hc : Cold s n) (p : Prim) (hp : okC n p = true) :
    Cold (applyPrim s p) n where
  nowait := by
    apply applyPrim_wait_none s p n hc.nowait
    intro x hx
    subst hx
    simpa [okC] using hp
  st := by
    intro e he
    rw [applyPrim_cache_eq] at he
    cases p with
    | cacheSet y e' =>
      simp only at he
      by_cases hxy : n = y
      · subst hxy
        simp only [upd_same, Option.some.injEq] at he
        subst he
        simpa [okC] using hp
      · rw [upd_other _ _ _ _ hxy] at he; exact hc.st e he
    | cacheDel y =>
      simp only at he
      by_cases hxy : n = y
      · subst hxy; simp at he
      · rw [upd_other _ _ _ _ hxy] at he; exact hc.st e he
    | nextFinalSet y =>
      simp only at he
      cases hy : s.mem.cache y with
      | none => rw [hy] at he; exact hc.st e he
      | some e0 =>
        rw [hy] at he
        simp only at he
        by_cases hxy : n = y
        · subst hxy
          simp only [upd_same, Option.some.injEq] at he
          subst he
          exact hc.st e0 hy
        · rw [upd_other _ _ _ _ hxy] at he; exact hc.st e he
    | _ => exact hc.st e he
  lg := by
    obtain ⟨r, hr, hn⟩ := hc.lg
    exact ⟨r, log_mono_prim s p r hr, hn⟩

theorem Cold_run {n : Name} (ps : List Prim) {s : State} (hc : Cold s n)
    (hp : ps.all (okC n) = true) : Cold (run s ps) n := by
  induction ps generalizing s with
  | nil => simpa using hc
  | cons p ps ih =>
    simp only [List.all_cons, Bool.and_eq_true] at hp
    exact ih (Cold_prim hc p hp.1) hp.2

theorem Cold_crash {s : State} {n : Name} (hc : Cold s n) : Cold (crash s) n :=
  ⟨hc.nowait, by intro e he; simp [crash] at he, hc.lg⟩

/-- after a list of primitives that never renames `<n>.full` to `<n>.wait`, `<n>.wait` is gone
    if it was gone before or the list moves it into the final directory -/
theorem wait_none_after_move (n : Name) (ps : List Prim) (s : State)
    (hall : ps.all (okC n) = true)
    (h : s.disk.wait n = none ∨ ps.any (Prim.isMoveOf n) = true) : (run s ps).disk.wait n = none := by
  induction ps generalizing s with
  | nil =>
    rcases h with h | h
    · simpa using h
    · simp at h
  | cons p ps ih =>
    simp only [List.all_cons, Bool.and_eq_true] at hall
    rw [run_cons]
    apply ih _ hall.2
    by_cases hm : p.isMoveOf n = true
    · left
      cases p <;> simp [Prim.isMoveOf] at hm
      subst hm
      simp only [applyPrim, applyDisk]
      split <;> simp_all
    · rcases h with h | h
      · left
        apply applyPrim_wait_none s p n h
        intro x hx; subst hx; simpa [okC] using hall.1
      · right
        simpa [hm] using h

theorem log_mem_of_run (ps : List Prim) (s : State) (r : LogRec) (h : Prim.logAppend r ∈ ps) :
    r ∈ (run s ps).disk.log := by
  induction ps generalizing s with
  | nil => cases h
  | cons p ps ih =>
    rw [run_cons]
    rcases List.mem_cons.mp h with h | h
    · subst h
      apply mem_run_log
      simp [applyPrim, applyDisk]
    · exact ih _ h

/-- the cache keeps knowing `n` -/
theorem cache_some_prim (s : State) (p : Prim) (n : Name) (h : s.mem.cache n ≠ none)
    (hp : okC n p = true) : (applyPrim s p).mem.cache n ≠ none := by
  rw [applyPrim_cache_eq]
  cases p with
  | cacheSet y e =>
    simp only
    by_cases hxy : n = y
    · subst hxy; simp
    · rw [upd_other _ _ _ _ hxy]; exact h
  | cacheDel y =>
    simp only
    have : n ≠ y := by
      intro e; subst e; simp [okC] at hp
    rw [upd_other _ _ _ _ this]; exact h
  | nextFinalSet y =>
    simp only
    cases hy : s.mem.cache y with
    | none => exact h
    | some e0 =>
      simp only
      by_cases hxy : n = y
      · subst hxy; simp
      · rw [upd_other _ _ _ _ hxy]; exact h
  | _ => exact h

theorem cache_some_run (n : Name) (ps : List Prim) (s : State) (h : s.mem.cache n ≠ none)
    (hp : ps.all (okC n) = true) : (run s ps).mem.cache n ≠ none := by
  induction ps generalizing s with
  | nil => simpa using h
  | cons p ps ih =>
    simp only [List.all_cons, Bool.and_eq_true] at hp
    exact ih _ (cache_some_prim s p n h hp.1) hp.2

/-! ## the combined invariant and condition -/

/-- hash discipline, and `Cold · n` for the name (if any) that is already delivered -/
def PInv (A : Name → String → Bool) (cold : Option Name) (s : State) : Prop :=
  HInv A s ∧ ∀ n, cold = some n → Cold s n

def okP (A : Name → String → Bool) (cold : Option Name) (p : Prim) : Bool :=
  okH A p && (match cold with | some n => okC n p | none => true)

theorem ok_iff (A : Name → String → Bool) (cold : Option Name) (p : Prim) :
    okP A cold p = true ↔ okH A p = true ∧ ∀ n, cold = some n → okC n p = true := by
  unfold okP
  cases cold <;> simp

theorem all_ok_iff (A : Name → String → Bool) (cold : Option Name) (ps : List Prim) :
    ps.all (okP A cold) = true ↔
      ps.all (okH A) = true ∧ ∀ n, cold = some n → ps.all (okC n) = true := by
  simp only [List.all_eq_true, ok_iff]
  constructor
  · intro h
    exact ⟨fun p hp => (h p hp).1, fun n hn p hp => (h p hp).2 n hn⟩
  · intro h p hp
    exact ⟨h.1 p hp, fun n hn => h.2 n hn p hp⟩

theorem PInv_run {A : Name → String → Bool} {cold : Option Name} (ps : List Prim) {s : State}
    (hi : PInv A cold s) (hp : ps.all (okP A cold) = true) : PInv A cold (run s ps) := by
  rw [all_ok_iff] at hp
  exact ⟨HInv_run ps hi.1 hp.1, fun n hn => Cold_run ps (hi.2 n hn) (hp.2 n hn)⟩

theorem PInv_crash {A : Name → String → Bool} {cold : Option Name} {s : State}
    (hi : PInv A cold s) : PInv A cold (crash s) :=
  ⟨HInv_crash hi.1, fun n hn => Cold_crash (hi.2 n hn)⟩

/-- primitives that touch nothing the two invariants look at -/
def inertP : Prim → Bool
  | .cacheSet .. | .cacheDel .. | .cmpTmp .. | .logAppend .. | .vqPush .. | .renFullWait .. => false
  | _ => true

theorem inertP_ok (A : Name → String → Bool) (cold : Option Name) (p : Prim) (h : inertP p = true) :
    okP A cold p = true := by
  rw [ok_iff]
  constructor
  · cases p <;> simp_all [inertP, okH]
  · intro n _
    cases p <;> simp_all [inertP, okC]

theorem all_inertP_ok (A : Name → String → Bool) (cold : Option Name) (ps : List Prim)
    (h : ps.all inertP = true) : ps.all (okP A cold) = true := by
  rw [List.all_eq_true] at h ⊢
  exact fun p hp => inertP_ok A cold p (h p hp)

/-- `toCache` writes one cache entry, of the given name, hash and state -/
theorem toCache_ok (A : Name → String → Bool) (cold : Option Name) (m : Mem) (x : Name) (e : Entry)
    (st : FState) (now : Int) (hh : A x e.hash = true)
    (hc : ∀ n, cold = some n → x ≠ n ∨ st = .finalized ∨ st = .logged) :
    (toCache m x e st now).all (okP A cold) = true := by
  have hset : okP A cold (Prim.cacheSet x { e with state := st, time := now }) = true := by
    rw [ok_iff]
    refine ⟨by simp [okH, hh], ?_⟩
    intro n hn
    rcases hc n hn with h | h | h <;> simp [okC, h]
  unfold toCache
  simp only [List.all_append, Bool.and_eq_true]
  refine ⟨⟨?_, by simp [hset]⟩, ?_⟩
  · apply all_inertP_ok; split <;> simp [inertP]
  · apply all_inertP_ok; split <;> simp [inertP]

/-! ## the operations, one by one -/

theorem prepare_inertP (s : State) (n : Name) (size now : Int) :
    (prepareEffects s n size now).all inertP = true := by
  unfold prepareEffects
  split <;> (try split) <;> (try split) <;> simp [inertP]

theorem timer_inertP (s : State) (n : Name) : (timerEffects s n).all inertP = true := by
  unfold timerEffects
  split <;> (try split) <;> simp [inertP]

theorem received_inertP (s : State) (n : Name) (m : Meta) :
    (receivedEffects s n m).all inertP = true := by
  unfold receivedEffects
  simp only [List.all_append, Bool.and_eq_true]
  refine ⟨by simp [inertP], ?_⟩
  split <;> (try split) <;> simp [inertP]

theorem cleanStrays_inertP (s : State) (now : Int) (names : List Name) :
    (cleanStraysEffects s now names).all inertP = true := by
  unfold cleanStraysEffects
  simp only [List.all_flatMap]
  rw [List.all_eq_true]
  intro n _
  unfold cleanStrayOne
  simp only [List.all_append, Bool.and_eq_true]
  constructor <;> (split <;> simp [inertP])

/-- the part being recorded completes the file -/
def recordCompletes (s : State) (n : Name) (m : Meta) (beg fin : Int) : Prop :=
  isComplete (nextCmp s.disk n m beg fin).parts (nextCmp s.disk n m beg fin).size = true

/-- Receive's locked region: the companion write, then either nothing that matters, or — for a
    completion that the cache does not know as a non-failed file of the same hash — the start
    of a validation -/
theorem record_cases2 (s : State) (n : Name) (m : Meta) (beg fin now : Int) :
    ∃ tail, recordEffects s n m beg fin now =
        [Prim.lockAdd n, Prim.cmpTmp n (nextCmp s.disk n m beg fin), Prim.cmpCommit n now] ++ tail ∧
      (tail.all inertP = true ∨
       (recordCompletes s n m beg fin ∧
        (∀ ex, s.mem.cache n = some ex → ¬(ex.state ≠ .failed ∧ ex.hash = m.hash)) ∧
        tail = recordNew s n m now)) := by
  unfold recordEffects recordNew recordCompletes
  simp only
  refine ⟨_, rfl, ?_⟩
  split
  · rename_i hcomp
    split
    · rename_i ex hex
      split
      · left
        simp only [List.all_append, Bool.and_eq_true]
        refine ⟨by simp [inertP], ?_⟩
        split <;> simp [inertP]
      · rename_i hc
        right
        refine ⟨hcomp, ?_, rfl⟩
        intro ex' hex'
        rw [hex] at hex'
        cases hex'
        exact hc
    · rename_i hnone
      right
      exact ⟨hcomp, fun ex hex => (by rw [hnone] at hex; cases hex), rfl⟩
  · left; simp

theorem recordNew_ok (A : Name → String → Bool) (cold : Option Name) (s : State) (x : Name) (m : Meta)
    (now : Int) (hm : A x m.hash = true) (hx : ∀ n, cold = some n → x ≠ n) :
    (recordNew s x m now).all (okP A cold) = true := by
  unfold recordNew
  have htc : ∀ st, (toCache s.mem x (Entry.ofMeta m .received) st now).all (okP A cold) = true :=
    fun st => toCache_ok A cold _ _ _ _ _ hm (fun n hn => Or.inl (hx n hn))
  split
  · simp only [List.all_append, Bool.and_eq_true]
    refine ⟨⟨all_inertP_ok _ _ _ (by simp [inertP]), htc _⟩, ?_⟩
    simp only [List.all_cons, List.all_nil, Bool.and_true]
    rw [ok_iff]
    exact ⟨by simp [okH, Entry.ofMeta, hm], fun n _ => by simp [okC]⟩
  · exact htc _

/-- Receive's locked region is fine when the metadata carries the name's hash and — if the name
    is already delivered — the completion is recognised as a duplicate -/
theorem record_ok (A : Name → String → Bool) (cold : Option Name) (s : State) (x : Name) (m : Meta)
    (beg fin now : Int) (hm : A x m.hash = true)
    (hdup : ∀ n, cold = some n → x = n → recordCompletes s x m beg fin →
      ∃ ex, s.mem.cache x = some ex ∧ ex.state ≠ .failed ∧ ex.hash = m.hash) :
    (recordEffects s x m beg fin now).all (okP A cold) = true := by
  obtain ⟨tail, heq, htail⟩ := record_cases2 s x m beg fin now
  rw [heq]
  simp only [List.all_append, Bool.and_eq_true]
  constructor
  · simp only [List.all_cons, List.all_nil, Bool.and_true, Bool.and_eq_true]
    refine ⟨inertP_ok _ _ _ rfl, ?_, inertP_ok _ _ _ rfl⟩
    rw [ok_iff]
    exact ⟨by simp [okH, nextCmp_hash, hm], fun n _ => by simp [okC]⟩
  · rcases htail with h | ⟨hcomp, hnew, rfl⟩
    · exact all_inertP_ok _ _ _ h
    · apply recordNew_ok A cold s x m now hm
      intro n hn hxn
      obtain ⟨ex, hex, h1, h2⟩ := hdup n hn hxn hcomp
      exact hnew ex hex ⟨h1, h2⟩

theorem processCore_ok (A : Name → String → Bool) (cold : Option Name) (H : Body → String) (s : State)
    (x : Name) (e : Entry) (now : Int) (he : A x e.hash = true)
    (hx : ∀ n, cold = some n → x = n → stateOf s.mem x ≠ some .received) :
    (processCore H s x e now).all (okP A cold) = true := by
  unfold processCore
  simp only [List.all_append, Bool.and_eq_true]
  refine ⟨all_inertP_ok _ _ _ (by simp [inertP]), ?_⟩
  by_cases hst : stateOf s.mem x ≠ some .received
  · rw [if_pos hst]; rfl
  · rw [if_neg hst]
    have hne : ∀ n, cold = some n → x ≠ n := fun n hn hxn => hx n hn hxn (by simpa using hst) |>.elim
    have htc : ∀ st, (toCache s.mem x e st now).all (okP A cold) = true :=
      fun st => toCache_ok A cold _ _ _ _ _ he (fun n hn => Or.inl (hne n hn))
    split
    · simp only [List.all_append, Bool.and_eq_true]
      exact ⟨all_inertP_ok _ _ _ (by simp [inertP]), htc _⟩
    · split
      · exact htc _
      · simp only [List.all_append, Bool.and_eq_true]
        refine ⟨⟨?_, htc _⟩, all_inertP_ok _ _ _ (by simp [inertP])⟩
        simp only [List.all_cons, List.all_nil, Bool.and_true]
        rw [ok_iff]
        exact ⟨rfl, fun n hn => by simp [okC, hne n hn]⟩

theorem Cold.not_received {s : State} {n : Name} (hc : Cold s n) :
    stateOf s.mem n ≠ some .received := by
  intro h
  simp only [stateOf, Option.map_eq_some_iff] at h
  obtain ⟨e, he, hst⟩ := h
  rcases hc.st e he with h' | h' <;> rw [hst] at h' <;> cases h'

theorem Cold.not_validated {s : State} {n : Name} (hc : Cold s n) :
    stateOf s.mem n ≠ some .validated := by
  intro h
  simp only [stateOf, Option.map_eq_some_iff] at h
  obtain ⟨e, he, hst⟩ := h
  rcases hc.st e he with h' | h' <;> rw [hst] at h' <;> cases h'

theorem process_ok {A : Name → String → Bool} {cold : Option Name} {s : State}
    (hi : PInv A cold s) (H : Body → String) (x : Name) (now : Int) :
    (processEffects H s x now).all (okP A cold) = true := by
  unfold processEffects
  split
  · rfl
  · rename_i k e hfind
    have hk : k = x := by simpa using List.find?_some hfind
    have he : A x e.hash = true := by
      have := hi.1.vqh (k, e) (List.mem_of_find?_eq_some hfind)
      rw [hk] at this; exact this
    simp only [List.all_append, Bool.and_eq_true]
    refine ⟨all_inertP_ok _ _ _ (by simp [inertP]), processCore_ok A cold H s x e now he ?_⟩
    intro n hn hxn
    subst hxn
    exact (hi.2 x hn).not_received

theorem finalize_ok {A : Name → String → Bool} {s : State} (hi : HInv A s) (cold : Option Name)
    (x : Name) (e : Entry) (now : Int) : (finalizeEffects s x e now).all (okP A cold) = true := by
  unfold finalizeEffects
  simp only [List.all_append, Bool.and_eq_true]
  refine ⟨⟨all_inertP_ok _ _ _ (by simp [inertP]), ?_⟩, all_inertP_ok _ _ _ (by simp [inertP])⟩
  by_cases hc : stateOf s.mem x ≠ some .validated ∨ (s.mem.cache x).map (·.hash) ≠ some e.hash
  · rw [if_pos hc]; rfl
  · rw [if_neg hc]
    have hh : A x e.hash = true := by
      have : (s.mem.cache x).map (·.hash) = some e.hash := by
        simpa [Classical.not_not, not_or] using (not_or.mp hc).2
      simp only [Option.map_eq_some_iff] at this
      obtain ⟨ce, hce, hceh⟩ := this
      rw [← hceh]; exact hi.cacheh x ce hce
    simp only [List.all_append, Bool.and_eq_true]
    constructor
    · simp only [List.all_cons, List.all_nil, Bool.and_true, Bool.and_eq_true]
      refine ⟨inertP_ok _ _ _ rfl, ?_⟩
      rw [ok_iff]
      exact ⟨by simp [okH, hh], fun n _ => by simp [okC]⟩
    · split
      · rfl
      · simp only [List.all_append, Bool.and_eq_true]
        refine ⟨⟨⟨all_inertP_ok _ _ _ (by simp [inertP]), ?_⟩, all_inertP_ok _ _ _ (by simp [inertP])⟩, ?_⟩
        · exact toCache_ok A cold _ _ _ _ _ hh (fun n _ => Or.inr (Or.inl rfl))
        · apply all_inertP_ok
          simp [List.all_map, inertP]

theorem finh_ok {A : Name → String → Bool} {s : State} (hi : HInv A s) (cold : Option Name)
    (x : Name) (now : Int) : (finhEffects s x now).all (okP A cold) = true := by
  unfold finhEffects
  split
  · rfl
  · simp only [List.all_append, Bool.and_eq_true]
    refine ⟨all_inertP_ok _ _ _ (by simp [inertP]), ?_⟩
    split
    · rfl
    · split
      · exact finalize_ok hi cold x _ now
      · apply all_inertP_ok
        simp only [List.all_append, Bool.and_eq_true]
        refine ⟨⟨by simp [inertP], ?_⟩, by simp [inertP]⟩
        split <;> simp [inertP]

theorem buildCache_ok {A : Name → String → Bool} {s : State} (hi : HInv A s) (cold : Option Name)
    (frm now : Int) : (buildCacheEffects s frm now).all (okP A cold) = true := by
  obtain ⟨ct, he | he⟩ := buildCacheEffects_eq s frm now
  · rw [he]; rfl
  · rw [he]
    simp only [List.all_append, Bool.and_eq_true]
    refine ⟨⟨?_, ?_⟩, all_inertP_ok _ _ _ (by simp [inertP])⟩
    · rw [List.all_eq_true]
      intro p hp
      obtain ⟨r, hr, rfl⟩ := buildCacheLoad_mem _ _ _ p hp
      rw [ok_iff]
      refine ⟨?_, fun n _ => by simp [okC]⟩
      simp [okH, hi.logh r (buildRecs_sub s frm ct r hr)]
    · apply all_inertP_ok; split <;> simp [inertP]

/-- folds that thread a state and collect primitives (Recover, cleanWaiting) -/
theorem fold_all_inv {α : Type} (J : State → Prop) (b : Prim → Bool)
    (f : State × List Prim → α → State × List Prim) :
    ∀ (l : List α),
      (∀ acc x, x ∈ l → J acc.1 → ∃ ps, f acc x = (run acc.1 ps, acc.2 ++ ps) ∧ ps.all b = true ∧
        J (run acc.1 ps)) →
      ∀ acc, J acc.1 → acc.2.all b = true →
        J (l.foldl f acc).1 ∧ (l.foldl f acc).2.all b = true := by
  intro l
  induction l with
  | nil => intro _ acc h1 h2; exact ⟨h1, h2⟩
  | cons x xs ih =>
    intro hf acc h1 h2
    obtain ⟨ps, heq, hb, hj⟩ := hf acc x (by simp) h1
    simp only [List.foldl_cons]
    apply ih (fun acc y hy => hf acc y (by simp [hy]))
    · rw [heq]; exact hj
    · rw [heq]; simp [h2, hb]

theorem cleanWaiting_ok {A : Name → String → Bool} {cold : Option Name} {s : State}
    (hi : PInv A cold s) (names : List Name) :
    (cleanWaitingEffects s names).all (okP A cold) = true := by
  unfold cleanWaitingEffects
  simp only
  refine (fold_all_inv (PInv A cold) (okP A cold) cleanWaitingStep _ ?_ (s, []) hi rfl).2
  intro acc c _ hj
  unfold cleanWaitingStep
  simp only
  split
  · exact ⟨[], by simp, rfl, by simpa using hj⟩
  · split
    · exact ⟨[], by simp, rfl, by simpa using hj⟩
    · refine ⟨_, rfl, ?_, ?_⟩
      · simp only [List.all_append, Bool.and_eq_true, List.all_flatMap]
        refine ⟨all_inertP_ok _ _ _ (by simp [inertP]), ?_⟩
        rw [List.all_eq_true]
        intro w _
        split
        · rename_i f hf
          split
          · rename_i hv
            simp only [List.all_cons, List.all_nil, Bool.and_true, Bool.and_eq_true]
            refine ⟨inertP_ok _ _ _ rfl, ?_, inertP_ok _ _ _ rfl⟩
            rw [ok_iff]
            refine ⟨by simp [okH, hj.1.cacheh _ f hf], ?_⟩
            intro n hn
            have : w.2.1 ≠ n := by
              intro e
              rw [e] at hf
              rcases (hj.2 n hn).st f hf with h | h <;> rw [hv] at h <;> cases h
            simp [okC, this]
          · rfl
        · rfl
      · apply PInv_run _ hj
        simp only [List.all_append, Bool.and_eq_true, List.all_flatMap]
        refine ⟨all_inertP_ok _ _ _ (by simp [inertP]), ?_⟩
        rw [List.all_eq_true]
        intro w _
        split
        · rename_i f hf
          split
          · rename_i hv
            simp only [List.all_cons, List.all_nil, Bool.and_true, Bool.and_eq_true]
            refine ⟨inertP_ok _ _ _ rfl, ?_, inertP_ok _ _ _ rfl⟩
            rw [ok_iff]
            refine ⟨by simp [okH, hj.1.cacheh _ f hf], ?_⟩
            intro n hn
            have : w.2.1 ≠ n := by
              intro e
              rw [e] at hf
              rcases (hj.2 n hn).st f hf with h | h <;> rw [hv] at h <;> cases h
            simp [okC, this]
          · rfl
        · rfl

/-! ### Recover -/

theorem recoverWalk_inertP (H : Body → String) (d : Disk) (n : Name) :
    (recoverWalk H d n).1.all inertP = true := by
  rw [List.all_eq_true]
  intro p hp
  rcases recoverWalk_prims H d n p hp with h | h <;> (subst h; rfl)

/-- the invariant threaded through Recover's two loops: `PInv`, and the cache still knows the
    delivered name if that name is on the validate list -/
def RecJ (A : Name → String → Bool) (cold : Option Name) (vals : List (Name × Cmp)) (t : State) : Prop :=
  PInv A cold t ∧ ∀ n, cold = some n → (∃ x ∈ vals, x.1 = n) → t.mem.cache n ≠ none

theorem RecJ_run {A : Name → String → Bool} {cold : Option Name} {vals : List (Name × Cmp)} {t : State}
    (hj : RecJ A cold vals t) (ps : List Prim) (hp : ps.all (okP A cold) = true) :
    RecJ A cold vals (run t ps) :=
  ⟨PInv_run ps hj.1 hp, fun n hn hx =>
    cache_some_run n ps t (hj.2 n hn hx) (((all_ok_iff A cold ps).mp hp).2 n hn)⟩

/-- **Recover keeps the invariants at every crash point**, provided its cache build remembers
    the delivered name when a complete copy of it is staged (`hrem`) -/
theorem recover_ok {A : Name → String → Bool} {cold : Option Name} {s : State}
    (hi : PInv A cold s) (hu : ∀ n, cold = some n → ∀ a b, A n a = true → A n b = true → a = b)
    (H : Body → String) (now : Int) (names : List Name)
    (hrem : ∀ n, cold = some n → (∃ x ∈ recVals H s.disk names, x.1 = n) →
      (recS2 H s now names).mem.cache n ≠ none) :
    (recoverEffects H s now names).all (okP A cold) = true := by
  have hfins : ∀ x ∈ recFins H s.disk names, A x.1 x.2.hash = true ∧ ∀ n, cold = some n → x.1 ≠ n := by
    intro x hx
    obtain ⟨hc, i, hw, _⟩ := (recover_finalize_iff H s.disk x.1 x.2).mp (mem_recFins H s.disk names x hx).2
    refine ⟨hi.1.cmph x.1 x.2 hc, ?_⟩
    intro n hn hxn
    rw [hxn, (hi.2 n hn).nowait] at hw
    cases hw
  have hvals : ∀ x ∈ recVals H s.disk names, A x.1 x.2.hash = true := by
    intro x hx
    obtain ⟨hc, _⟩ := (recover_validate_iff H s.disk x.1 x.2).mp (mem_recVals H s.disk names x hx).2
    exact hi.1.cmph x.1 x.2 hc
  have hp1 : (recP1 H s.disk names).all (okP A cold) = true := by
    apply all_inertP_ok
    simp only [recP1, List.all_append, Bool.and_eq_true, List.all_flatMap]
    refine ⟨by simp [inertP], ?_⟩
    rw [List.all_eq_true]
    intro x hx
    simp only [List.mem_map] at hx
    obtain ⟨n, _, rfl⟩ := hx
    exact recoverWalk_inertP H s.disk n
  have hi1 : PInv A cold (run s (recP1 H s.disk names)) := PInv_run _ hi hp1
  have hp2 := buildCache_ok hi1.1 cold (minMtime s.disk now names - 86400) now
  have hj2 : RecJ A cold (recVals H s.disk names) (recS2 H s now names) :=
    ⟨PInv_run _ hi1 hp2, hrem⟩
  unfold recoverEffects
  extract_lets walk p1 s1 oldest p2 s2 fins vals stepF r3 stepV r4
  have e1 : p1 = recP1 H s.disk names := rfl
  have e2 : s2 = recS2 H s now names := rfl
  have e3 : fins = recFins H s.disk names := rfl
  have e4 : vals = recVals H s.disk names := rfl
  have e5 : p2 = buildCacheEffects (run s (recP1 H s.disk names)) (minMtime s.disk now names - 86400) now := rfl
  have h3 : RecJ A cold vals r3.1 ∧ r3.2.all (okP A cold) = true := by
    refine fold_all_inv (RecJ A cold vals) (okP A cold) stepF fins ?_ (s2, [])
      (by rw [e2, e4]; exact hj2) rfl
    intro acc x hx hj
    rw [e3] at hx
    obtain ⟨hh, hne⟩ := hfins x hx
    refine ⟨_, rfl, ?_, ?_⟩
    · simp only [List.all_append, Bool.and_eq_true]
      exact ⟨toCache_ok A cold _ _ _ _ _ hh (fun n hn => Or.inl (hne n hn)),
        all_inertP_ok _ _ _ (by simp [inertP])⟩
    · apply RecJ_run hj
      simp only [List.all_append, Bool.and_eq_true]
      exact ⟨toCache_ok A cold _ _ _ _ _ hh (fun n hn => Or.inl (hne n hn)),
        all_inertP_ok _ _ _ (by simp [inertP])⟩
  have h4 : RecJ A cold vals r4.1 ∧ r4.2.all (okP A cold) = true := by
    refine fold_all_inv (RecJ A cold vals) (okP A cold) stepV vals ?_ r3 h3.1 h3.2
    intro acc x hx hj
    have hall : (recoverValOne H acc.1 now x).all (okP A cold) = true := by
      have hh := hvals x (by rw [← e4]; exact hx)
      rcases recoverValOne_cases H acc.1 now x with ⟨_, heq⟩ | ⟨hnd, heq⟩ <;> rw [heq]
      · exact all_inertP_ok _ _ _ (by simp [inertP])
      · have hne : ∀ n, cold = some n → x.1 ≠ n := by
          intro n hn hxn
          have hcn := hj.2 n hn ⟨x, hx, hxn⟩
          cases hce : acc.1.mem.cache n with
          | none => exact hcn hce
          | some ex =>
            have hst := (hj.1.2 n hn).st ex hce
            have hxh := hj.1.1.cacheh n ex hce
            rw [hxn] at hnd hh
            unfold recoverDup at hnd
            rw [hce] at hnd
            have : ex.state.num ≥ 3 ∧ ex.hash = x.2.hash := by
              refine ⟨?_, hu n hn _ _ hxh hh⟩
              rcases hst with h | h <;> rw [h] <;> decide
            simp [this] at hnd
        simp only [List.all_append, Bool.and_eq_true]
        exact ⟨toCache_ok A cold _ _ _ _ _ hh (fun n hn => Or.inl (hne n hn)),
          processCore_ok A cold H _ x.1 _ now hh (fun n hn hxn => absurd hxn (hne n hn))⟩
    exact ⟨_, rfl, hall, RecJ_run hj _ hall⟩
  simp only [List.all_append, Bool.and_eq_true]
  refine ⟨⟨⟨?_, ?_⟩, h4.2⟩, all_inertP_ok _ _ _ (by simp [inertP])⟩
  · rw [e1]; exact hp1
  · rw [e5]; exact hp2

/-! ## the hypotheses on a history -/

/-- the receive log has a record of the name -/
def isLoggedName (d : Disk) (n : Name) : Prop := ∃ r ∈ d.log, r.name = n

/-- the operation of an event (none for a bare crash) -/
def evOp : Ev → Option OpEv
  | .op o => some o
  | .cutOp _ o => some o
  | .crash => none

/-- the version hypothesis on one operation: a completion record of `n` announces a hash that
    `A n` allows (`A := fun x h => h == hashOf x`: one version per name; `A := fun x h => x != n ||
    h == hh`: one version of the name `n`, other names unconstrained) -/
def OneHashOp (A : Name → String → Bool) : OpEv → Prop
  | .record n m _ _ _ => A n m.hash = true
  | _ => True

/-- `Remembered` for the name `n` and one operation started in state `s` (cache ageing, S8, is
    outside the events):
    * `Receive` completing the file `n` while `n` is in the receive log finds `n` in the cache
      (the sender's `Received` / `GetFileStatus` poll, or `Recover`, has loaded the record);
    * `Recover`'s own cache build (from the oldest companion's time minus a day) loads `n` if `n`
      is in the receive log and a complete copy of it is staged (`n` is on the validate list). -/
def RememberedOp (H : Body → String) (n : Name) (s : State) : OpEv → Prop
  | .record x m beg fin _ =>
    x = n → recordCompletes s x m beg fin → isLoggedName s.disk x → s.mem.cache x ≠ none
  | .recover now names =>
    ∀ x ∈ recVals H s.disk names, x.1 = n → isLoggedName s.disk x.1 →
      (recS2 H s now names).mem.cache x.1 ≠ none
  | _ => True

def OneHashEv (A : Name → String → Bool) (ev : Ev) : Prop :=
  match evOp ev with
  | some o => OneHashOp A o
  | none => True

/-- hypothesis "one version per name" on a history -/
def OneHash (A : Name → String → Bool) (evs : List Ev) : Prop := ∀ ev ∈ evs, OneHashEv A ev

def RememberedEv (H : Body → String) (n : Name) (s : State) (ev : Ev) : Prop :=
  match evOp ev with
  | some o => RememberedOp H n s o
  | none => True

/-- hypothesis `Remembered` for the name `n` on a history started in `s`: at every `Receive`
    completion and every `Recover` (whole or cut by a crash) of the run -/
def RememberedRun (H : Body → String) (n : Name) : State → List Ev → Prop
  | _, [] => True
  | s, ev :: evs => RememberedEv H n s ev ∧ RememberedRun H n (step H s ev) evs

theorem OneHashEv.op {A : Name → String → Bool} {ev : Ev} (h : OneHashEv A ev) {o : OpEv}
    (ho : evOp ev = some o) : OneHashOp A o := by
  unfold OneHashEv at h; rw [ho] at h; exact h

theorem RememberedEv.op {H : Body → String} {n : Name} {s : State} {ev : Ev}
    (h : RememberedEv H n s ev) {o : OpEv} (ho : evOp ev = some o) : RememberedOp H n s o := by
  unfold RememberedEv at h; rw [ho] at h; exact h

theorem RememberedRun_append (H : Body → String) (n : Name) (a b : List Ev) (s : State) :
    RememberedRun H n s (a ++ b) ↔ RememberedRun H n s a ∧ RememberedRun H n (runEvs H s a) b := by
  induction a generalizing s with
  | nil => simp [RememberedRun, runEvs]
  | cons e a ih =>
    simp only [List.cons_append, RememberedRun, runEvs, List.foldl_cons, ih, and_assoc]

instance (d : Disk) (n : Name) : Decidable (isLoggedName d n) := by
  unfold isLoggedName; infer_instance

instance (s : State) (n : Name) (m : Meta) (beg fin : Int) : Decidable (recordCompletes s n m beg fin) := by
  unfold recordCompletes; infer_instance

instance (A : Name → String → Bool) (o : OpEv) : Decidable (OneHashOp A o) := by
  cases o <;> unfold OneHashOp <;> infer_instance

instance (H : Body → String) (n : Name) (s : State) (o : OpEv) : Decidable (RememberedOp H n s o) := by
  cases o <;> unfold RememberedOp <;> infer_instance

instance (A : Name → String → Bool) (ev : Ev) : Decidable (OneHashEv A ev) := by
  unfold OneHashEv; split <;> infer_instance

instance (A : Name → String → Bool) (evs : List Ev) : Decidable (OneHash A evs) := by
  unfold OneHash; infer_instance

instance (H : Body → String) (n : Name) (s : State) (ev : Ev) : Decidable (RememberedEv H n s ev) := by
  unfold RememberedEv; split <;> infer_instance

instance decRememberedRun (H : Body → String) (n : Name) :
    (s : State) → (evs : List Ev) → Decidable (RememberedRun H n s evs)
  | _, [] => isTrue trivial
  | s, ev :: evs =>
    have := decRememberedRun H n (step H s ev) evs
    by unfold RememberedRun; infer_instance

/-! ## every operation keeps the invariants at every crash point -/

theorem effects_ok {A : Name → String → Bool} {cold : Option Name} {s : State}
    (hi : PInv A cold s) (hu : ∀ n, cold = some n → ∀ a b, A n a = true → A n b = true → a = b)
    (H : Body → String) (o : OpEv) (h1 : OneHashOp A o)
    (h2 : ∀ n, cold = some n → RememberedOp H n s o) : (effects H s o).all (okP A cold) = true := by
  cases o with
  | prepare n size now => exact all_inertP_ok _ _ _ (prepare_inertP s n size now)
  | recvOpen h n => apply all_inertP_ok; simp only [effects]; split <;> simp [inertP]
  | recvWrite h beg data now => apply all_inertP_ok; simp only [effects]; split <;> simp [inertP]
  | record x m beg fin now =>
    refine record_ok A cold s x m beg fin now h1 ?_
    intro n hn hxn hcomp
    subst hxn
    have hc := hi.2 x hn
    have hne := h2 x hn rfl hcomp hc.lg
    cases hce : s.mem.cache x with
    | none => exact absurd hce hne
    | some ex =>
      refine ⟨ex, rfl, ?_, ?_⟩
      · rcases hc.st ex hce with h | h <;> rw [h] <;> decide
      · exact hu x hn _ _ (hi.1.cacheh x ex hce) h1
  | process n now => exact process_ok hi H n now
  | finh n now => exact finh_ok hi.1 cold n now
  | timer n => exact all_inertP_ok _ _ _ (timer_inertP s n)
  | buildCache frm now => exact buildCache_ok hi.1 cold frm now
  | receivedQ n m => exact all_inertP_ok _ _ _ (received_inertP s n m)
  | recover now names =>
    refine recover_ok hi hu H now names ?_
    intro n hn ⟨x, hx, hxn⟩
    have := h2 n hn x hx hxn (by rw [hxn]; exact (hi.2 n hn).lg)
    rw [hxn] at this
    exact this
  | cleanStrays now names => exact all_inertP_ok _ _ _ (cleanStrays_inertP s now names)
  | cleanWaiting names => exact cleanWaiting_ok hi names
  | consume t => apply all_inertP_ok; simp [effects, inertP]
  | corrupt n ext pos v => apply all_inertP_ok; simp only [effects]; split <;> simp [inertP]

theorem step_PInv {A : Name → String → Bool} {cold : Option Name} {s : State}
    (hi : PInv A cold s) (hu : ∀ n, cold = some n → ∀ a b, A n a = true → A n b = true → a = b)
    (H : Body → String) (ev : Ev)
    (h1 : ∀ o, evOp ev = some o → OneHashOp A o)
    (h2 : ∀ n, cold = some n → ∀ o, evOp ev = some o → RememberedOp H n s o) :
    PInv A cold (step H s ev) := by
  cases ev with
  | op o => exact PInv_run _ hi (effects_ok hi hu H o (h1 o rfl) (fun n hn => h2 n hn o rfl))
  | cutOp k o =>
    exact PInv_crash (PInv_run _ hi (all_cut _ k _ (effects_ok hi hu H o (h1 o rfl) (fun n hn => h2 n hn o rfl))))
  | crash => exact PInv_crash hi

/-! ## deliveries -/

theorem mem_cut (k : Nat) (ps : List Prim) (p : Prim) (h : p ∈ cut k ps) : p ∈ ps := by
  obtain ⟨qs, hq⟩ := cut_prefix k ps
  rw [hq]; exact List.mem_append_left _ h

theorem mem_performed (H : Body → String) (s : State) (ev : Ev) (p : Prim)
    (h : p ∈ performed H s ev) : ∃ o, evOp ev = some o ∧ p ∈ effects H s o := by
  cases ev with
  | op o => exact ⟨o, rfl, h⟩
  | cutOp k o => exact ⟨o, rfl, mem_cut k _ p h⟩
  | crash => cases h

/-- a record of (n, h) is written only by the finalize handler of `n`, for a validated file -/
theorem log_only_finh (H : Body → String) (s : State) (o : OpEv) (p : Prim) (n : Name) (h : String)
    (hp : p ∈ effects H s o) (hl : p.isLogOf n h = true) :
    ∃ now k e, o = .finh n now ∧ s.mem.fq.find? (·.1 == n) = some (k, e) ∧
      stateOf s.mem n = some .validated ∧ (s.mem.cache n).map (·.hash) = some e.hash ∧
      isFileReady s n e now = .yes := by
  have hfin := isLogOf_isFin n h p hl
  by_cases ho : ∀ x now, o ≠ .finh x now
  · rw [effects_notFin H s o ho p hp] at hfin; cases hfin
  · have : ∃ x now, o = .finh x now := by
      apply Classical.byContradiction
      intro hne
      exact ho (fun x now heq => hne ⟨x, now, heq⟩)
    obtain ⟨x, now, rfl⟩ := this
    obtain ⟨k, e, h1, h2, h3, h4, h5⟩ := finh_fin_spec s x now p hp hfin
    have hx : x = n := by
      rcases h5 with h5 | h5 <;> subst h5
      · simp only [Prim.isLogOf, finRec, Bool.and_eq_true, beq_iff_eq] at hl
        exact hl.1
      · simp [Prim.isLogOf] at hl
    subst hx
    exact ⟨now, k, e, rfl, h1, h2, h3, h4⟩

/-- once a name is delivered no event delivers it again -/
theorem cold_evDelivers_zero (H : Body → String) {s : State} {n : Name} (hc : Cold s n) (ev : Ev)
    (h : String) : evDelivers H s ev n h = 0 := by
  unfold evDelivers
  split
  · rename_i hany
    rw [List.any_eq_true] at hany
    obtain ⟨p, hp, hl⟩ := hany
    obtain ⟨o, _, hpo⟩ := mem_performed H s ev p hp
    obtain ⟨_, _, _, _, _, hv, _⟩ := log_only_finh H s o p n h hpo hl
    exact absurd hv hc.not_validated
  · rfl

theorem finh_eq_finalize (s : State) (n : Name) (now : Int) (k : Name) (e : Entry)
    (hfq : s.mem.fq.find? (·.1 == n) = some (k, e)) (hv : stateOf s.mem n = some .validated)
    (hr : isFileReady s n e now = .yes) :
    finhEffects s n now = [Prim.fqDel n] ++ finalizeEffects s n e now := by
  unfold finhEffects
  rw [hfq]
  simp only
  rw [if_neg (by simp [hv]), hr]

/-- an event that delivers (n, h) leaves `n` delivered: in the log, `<n>.wait` gone, cache entry
    finalized (or lost with the crash) -/
theorem deliver_makes_cold {H : Body → String} {s : State} (hr : Reachable H s) (ev : Ev) (n : Name)
    (h : String) (hd : evDelivers H s ev n h ≥ 1) : Cold (step H s ev) n := by
  unfold evDelivers at hd
  split at hd
  · rename_i hany
    have hmove : (performed H s ev).any (Prim.isMoveOf n) = true := by
      rw [List.any_eq_true]
      have : 0 < (performed H s ev).countP (Prim.isMoveOf n) := by omega
      obtain ⟨a, ha, hb⟩ := List.countP_pos_iff.mp this
      exact ⟨a, ha, hb⟩
    rw [List.any_eq_true] at hany
    obtain ⟨p, hp, hl⟩ := hany
    obtain ⟨o, hev, hpo⟩ := mem_performed H s ev p hp
    obtain ⟨now, k, e, rfl, hfq, hv, hh, hready⟩ := log_only_finh H s o p n h hpo hl
    have hokc : (finhEffects s n now).all (okC n) = true := by
      have hall : (finhEffects s n now).all (fun q => okC n q) = true := by
        unfold finhEffects
        rw [hfq]
        simp only
        rw [if_neg (by simp [hv]), hready]
        unfold finalizeEffects
        rw [if_neg (by simp [hv, hh])]
        simp only [List.all_append, Bool.and_eq_true]
        refine ⟨by simp [okC], ⟨by simp [okC], by simp [okC], ?_⟩, by simp [okC]⟩
        split
        · rfl
        · simp only [List.all_append, Bool.and_eq_true]
          refine ⟨⟨⟨by simp [okC], ?_⟩, by simp [okC]⟩, by simp [List.all_map, okC]⟩
          unfold toCache
          simp only [List.all_append, Bool.and_eq_true]
          refine ⟨⟨?_, by simp [okC]⟩, ?_⟩
          · split <;> simp [okC]
          · split <;> simp [okC]
      exact hall
    have hrn : ∃ r, p = Prim.logAppend r ∧ r.name = n := by
      cases p <;> simp [Prim.isLogOf] at hl
      exact ⟨_, rfl, hl.1⟩
    obtain ⟨r, rfl, hrn⟩ := hrn
    cases ev with
    | crash => cases hev
    | cutOp kk o' =>
      simp only [evOp, Option.some.injEq] at hev
      subst hev
      have hdisk : (step H s (.cutOp kk (.finh n now))).disk =
          (run s (cut kk (finhEffects s n now))).disk := rfl
      refine ⟨?_, by intro e' he'; simp [step, crash] at he', ?_⟩
      · rw [hdisk]
        exact wait_none_after_move n _ s (all_cut _ kk _ hokc) (Or.inr hmove)
      · rw [hdisk]
        exact ⟨r, log_mem_of_run _ s r hp, hrn⟩
    | op o' =>
      simp only [evOp, Option.some.injEq] at hev
      subst hev
      have hstep : step H s (.op (.finh n now)) = run s (finhEffects s n now) := rfl
      rw [hstep]
      refine ⟨wait_none_after_move n _ s hokc (Or.inr hmove), ?_, ⟨r, log_mem_of_run _ s r hp, hrn⟩⟩
      obtain ⟨ce, hce, hcst⟩ : ∃ ce, s.mem.cache n = some ce ∧ ce.state = .validated := by
        simpa [stateOf, Option.map_eq_some_iff] using hv
      obtain ⟨i, hi⟩ := validated_has_wait hr n ce hce hcst
      rw [finh_eq_finalize s n now k e hfq hv hready, run_append]
      have hrel := finalize_rel (fun _ => "") (run s [Prim.fqDel n]) s n e now i hv hh hi
      intro e' he'
      have hsig := hrel.sig n
      simp only [if_true] at hsig
      rw [sig_of_cache he'] at hsig
      simp only [Option.some.injEq, Prod.mk.injEq] at hsig
      exact Or.inl hsig.1
  · omega

/-- after a delivery of `n`, nothing in the rest of the history delivers `n` again -/
theorem cold_no_delivery {A : Name → String → Bool} (H : Body → String) (n : Name) (h : String)
    (hu : ∀ a b, A n a = true → A n b = true → a = b) :
    ∀ (evs : List Ev) (s : State), HInv A s → Cold s n → OneHash A evs →
      RememberedRun H n s evs → deliveries H s evs n h = 0 := by
  intro evs
  induction evs with
  | nil => intros; rfl
  | cons ev evs ih =>
    intro s hi hc h1 h2
    simp only [deliveries]
    rw [cold_evDelivers_zero H hc ev h]
    have hp : PInv A (some n) s := ⟨hi, fun m hm => by cases hm; exact hc⟩
    have hp' := step_PInv hp (fun m hm => by cases hm; exact hu) H ev
      (fun o ho => (h1 ev (by simp)).op ho) (fun m hm o ho => by cases hm; exact h2.1.op ho)
    rw [ih _ hp'.1 (hp'.2 n rfl) (fun e he => h1 e (by simp [he])) h2.2]

/-- **a version is delivered at most once** (hypotheses: one hash per name, `Remembered`) -/
theorem deliver_once {A : Name → String → Bool} (H : Body → String) (n : Name) (h : String)
    (hu : ∀ a b, A n a = true → A n b = true → a = b) :
    ∀ (evs : List Ev) (s : State), Reachable H s → HInv A s → OneHash A evs →
      RememberedRun H n s evs → deliveries H s evs n h ≤ 1 := by
  intro evs
  induction evs with
  | nil => intros; simp [deliveries]
  | cons ev evs ih =>
    intro s hr hi h1 h2
    simp only [deliveries]
    have hle := evDelivers_le_one hr ev n h
    have hp : PInv A none s := ⟨hi, fun m hm => by cases hm⟩
    have hp' := step_PInv hp (fun m hm => by cases hm) H ev
      (fun o ho => (h1 ev (by simp)).op ho) (fun m hm => by cases hm)
    have h1' : OneHash A evs := fun e he => h1 e (by simp [he])
    by_cases hz : evDelivers H s ev n h = 0
    · have := ih _ (hr.step ev) hp'.1 h1' h2.2
      omega
    · have hc := deliver_makes_cold hr ev n h (by omega)
      have := cold_no_delivery H n h hu evs _ hp'.1 hc h1' h2.2
      omega

theorem HInv_init (A : Name → String → Bool) : HInv A init :=
  ⟨by intro r hr; simp [init] at hr, by intro x e he; simp [init] at he,
   by intro x c hc; simp [init] at hc, by intro x c hc; simp [init] at hc,
   by intro q hq; simp [init] at hq⟩

theorem HInv_runEvs {A : Name → String → Bool} (H : Body → String) :
    ∀ (evs : List Ev) (s : State), HInv A s → OneHash A evs → HInv A (runEvs H s evs) := by
  intro evs
  induction evs with
  | nil => intro s hi _; exact hi
  | cons ev evs ih =>
    intro s hi h1
    simp only [runEvs, List.foldl_cons]
    have hp : PInv A none s := ⟨hi, fun m hm => by cases hm⟩
    have hp' := step_PInv hp (fun m hm => by cases hm) H ev
      (fun o ho => (h1 ev (by simp)).op ho) (fun m hm => by cases hm)
    exact ih _ hp'.1 (fun e he => h1 e (by simp [he]))

/-! ## the final directory -/

theorem applyPrim_final_none (s : State) (p : Prim) (t : String) (h : s.disk.final t = none)
    (hp : p.isMoveTo t = false) : (applyPrim s p).disk.final t = none := by
  cases p with
  | renWaitFinal x t' =>
    simp only [applyPrim, applyDisk]
    cases s.disk.wait x with
    | none => exact h
    | some i =>
      simp only
      have : t ≠ t' := by
        intro e; subst e; simp [Prim.isMoveTo] at hp
      rw [upd_other _ _ _ _ this]; exact h
  | rmFinal t' =>
    simp only [applyPrim, applyDisk]
    by_cases ht : t = t'
    · subst ht; simp
    · rw [upd_other _ _ _ _ ht]; exact h
  | _ => simp only [applyPrim, applyDisk] <;> first | exact h | (split <;> first | exact h | (split <;> exact h))

theorem final_none_run (t : String) (ps : List Prim) (s : State) (h : s.disk.final t = none)
    (hp : ps.any (Prim.isMoveTo t) = false) : (run s ps).disk.final t = none := by
  induction ps generalizing s with
  | nil => simpa using h
  | cons p ps ih =>
    simp only [List.any_cons, Bool.or_eq_false_iff] at hp
    exact ih _ (applyPrim_final_none s p t h hp.1) hp.2

/-- an event that neither delivers (n, h) nor moves another version to `t` leaves an empty
    target `t` empty -/
theorem ev_final_none {H : Body → String} {s : State} (hr : Reachable H s) (ev : Ev) (n : Name)
    (h t : String) (hf : s.disk.final t = none) (hd : evDelivers H s ev n h = 0)
    (ho : evOtherArrival H s ev n h t = 0) : (step H s ev).disk.final t = none := by
  have hno : (performed H s ev).any (Prim.isMoveTo t) = false := by
    cases hany : (performed H s ev).any (Prim.isMoveTo t) with
    | false => rfl
    | true =>
      exfalso
      unfold evOtherArrival at ho
      rw [hany] at ho
      have hlog : (performed H s ev).any (Prim.isLogOf n h) = true := by
        cases hl : (performed H s ev).any (Prim.isLogOf n h) with
        | true => rfl
        | false => rw [hl] at ho; simp at ho
      unfold evDelivers at hd
      rw [if_pos hlog] at hd
      obtain ⟨⟨qs, hq⟩, hshape⟩ := fins_performed hr ev
      rw [← any_fins _ (isMoveTo_isFin t)] at hany
      rw [← any_fins _ (isLogOf_isFin n h)] at hlog
      rw [← countP_fins _ (isMoveOf_isFin n)] at hd
      rcases hshape with h0 | ⟨x, e, now, t', h2⟩
      · rw [h0] at hq
        have : fins (performed H s ev) = [] := by
          cases hf' : fins (performed H s ev) with
          | nil => rfl
          | cons a b => rw [hf'] at hq; simp at hq
        rw [this] at hany; simp at hany
      · rw [h2] at hq
        match hfp : fins (performed H s ev), hq with
        | [], _ => rw [hfp] at hany; simp at hany
        | [a], hq' =>
          simp only [List.cons_append, List.nil_append, List.cons.injEq] at hq'
          obtain ⟨rfl, _⟩ := hq'
          rw [hfp] at hany; simp [Prim.isMoveTo] at hany
        | [a, b], hq' =>
          simp only [List.cons_append, List.nil_append, List.cons.injEq] at hq'
          obtain ⟨rfl, rfl, _⟩ := hq'
          rw [hfp] at hlog hd
          simp only [List.any_cons, List.any_nil, Prim.isLogOf, finRec, Bool.or_false, Bool.and_eq_true,
            beq_iff_eq] at hlog
          simp [Prim.isMoveOf, hlog.1] at hd
        | a :: b :: c :: d, hq' => simp at hq'
  cases ev with
  | op o => exact final_none_run t _ s hf hno
  | cutOp k o => exact final_none_run t _ s hf hno
  | crash => exact hf

theorem final_none_runEvs {H : Body → String} (n : Name) (h t : String) :
    ∀ (evs : List Ev) (s : State), Reachable H s → s.disk.final t = none →
      deliveries H s evs n h = 0 → otherArrivals H s evs n h t = 0 →
      (runEvs H s evs).disk.final t = none := by
  intro evs
  induction evs with
  | nil => intro s _ hf _ _; exact hf
  | cons ev evs ih =>
    intro s hr hf hd ho
    simp only [deliveries, otherArrivals] at hd ho
    simp only [runEvs, List.foldl_cons]
    exact ih _ (hr.step ev) (ev_final_none hr ev n h t hf (by omega) (by omega)) (by omega) (by omega)

end Sts.Stage
