/-
  Invariants behind C09 (state-machine part): inode bookkeeping of the staging area and
  "a companion's ranges were written into the file it describes".
-/
import StsModel.Lemmas.StageLoggedHash
import StsModel.Lemmas.StageIntegrity
import StsModel.Props.C09

namespace Sts.Stage

/-! ### inodes: every staged inode belongs to one name and is older than `nextIno` -/

/-- inode `i` is staged under name `n` (as `.part`, `.full` or `.wait`) -/
def Held (d : Disk) (n : Name) (i : Nat) : Prop :=
  d.part n = some i ∨ d.full n = some i ∨ d.wait n = some i

def InoInv (d : Disk) : Prop :=
  (∀ n i, Held d n i → i < d.nextIno) ∧ (∀ n m i, Held d n i → Held d m i → n = m)

theorem nextIno_mono (d : Disk) (p : Prim) : d.nextIno ≤ (applyDisk d p).nextIno := by
  cases p <;> simp only [applyDisk] <;> (try split) <;> (try split) <;> simp

/-- a primitive moves inodes only between the extensions of one name; the only new inode is
    the one `createPart` allocates. -/
theorem held_applyDisk (d : Disk) (p : Prim) (n : Name) (i : Nat)
    (h : Held (applyDisk d p) n i) :
    Held d n i ∨ (∃ now, p = Prim.createPart n now ∧ i = d.nextIno ∧ d.part n = none) := by
  cases p with
  | createPart m now =>
    simp only [applyDisk] at h
    split at h
    · exact Or.inl h
    · rename_i hm
      by_cases hnm : n = m
      · subst hnm
        simp only [Held, upd_same, Option.some.injEq] at h
        rcases h with h | h
        · exact Or.inr ⟨now, rfl, h.symm, hm⟩
        · exact Or.inl (Or.inr h)
      · simp only [Held, upd_other _ _ _ _ hnm] at h
        exact Or.inl h
  | _ =>
    simp only [applyDisk] at h <;> (try split at h) <;>
      simp only [Held, upd] at h ⊢ <;> grind

theorem InoInv_step (d : Disk) (p : Prim) (h : InoInv d) : InoInv (applyDisk d p) := by
  refine ⟨?_, ?_⟩
  · intro n i hh
    have hm := nextIno_mono d p
    rcases held_applyDisk d p n i hh with h1 | ⟨now, rfl, rfl, hp⟩
    · have := h.1 n i h1; omega
    · simp [applyDisk, hp]
  · intro n m i hn hm
    rcases held_applyDisk d p n i hn with h1 | ⟨now, hp1, hi1, _⟩
    · rcases held_applyDisk d p m i hm with h2 | ⟨_, _, hi2, _⟩
      · exact h.2 n m i h1 h2
      · have := h.1 n i h1; omega
    · rcases held_applyDisk d p m i hm with h2 | ⟨now2, hp2, _, _⟩
      · have := h.1 m i h2; omega
      · rw [hp1] at hp2
        injection hp2

theorem InoInv_init : InoInv init.disk := by
  refine ⟨?_, ?_⟩ <;> intro n <;> simp [Held, init]

theorem InoInv_run (s : State) (ps : List Prim) (h : InoInv s.disk) : InoInv (run s ps).disk := by
  induction ps generalizing s with
  | nil => simpa using h
  | cons p ps ih => exact ih _ (InoInv_step s.disk p h)

/-- every reachable staging area has its inodes in order -/
theorem InoInv_reachable {H : Body → String} {s : State} (hr : Reachable H s) : InoInv s.disk := by
  refine Reachable.induction (H := H) (P := fun s => InoInv s.disk) InoInv_init ?_ hr
  intro s e _ hp
  cases e with
  | op o => exact InoInv_run s _ hp
  | cutOp k o => exact InoInv_run s _ hp
  | crash => exact hp

/-! ### the companion describes the current staged file -/

/-- the staged file of `n` a companion speaks about: the partial if there is one, else the
    complete file awaiting validation, else the validated file awaiting delivery -/
def Cur (d : Disk) (n : Name) : Option Nat :=
  match d.part n with
  | some i => some i
  | none => match d.full n with
    | some i => some i
    | none => d.wait n

theorem Cur_held (d : Disk) (n : Name) (i : Nat) (h : Cur d n = some i) : Held d n i := by
  unfold Cur at h
  split at h
  · rename_i j hj; cases h; exact Or.inl hj
  · split at h
    · rename_i j hj; cases h; exact Or.inr (Or.inl hj)
    · exact Or.inr (Or.inr h)

theorem Cur_congr (d d' : Disk) (n : Name) (hp : d'.part n = d.part n) (hf : d'.full n = d.full n)
    (hw : d'.wait n = d.wait n) : Cur d' n = Cur d n := by
  simp only [Cur, hp, hf, hw]

/-- every range of the companion was written into the current staged file of `n` -/
def Sound (d : Disk) (n : Name) (c : Cmp) : Prop :=
  ∃ i, Cur d n = some i ∧ ∀ r ∈ c.parts, r ∈ d.written i

/-- … or the companion is a left-over of a version that is already in the receive log -/
def RecOk (d : Disk) (n : Name) (c : Cmp) : Prop := Sound d n c ∨ LoggedV d n c.hash

def RecInv (s : State) : Prop := ∀ n c, s.disk.cmp n = some c → RecOk s.disk n c

theorem RecOk_frame (d d' : Disk) (n : Name) (c : Cmp)
    (hcur : ∀ i, Cur d n = some i → Cur d' n = some i ∧ ∀ r, r ∈ d.written i → r ∈ d'.written i)
    (hlog : ∀ r ∈ d.log, r ∈ d'.log) (h : RecOk d n c) : RecOk d' n c := by
  rcases h with ⟨i, hi, hr⟩ | ⟨r, hr, hn⟩
  · obtain ⟨h1, h2⟩ := hcur i hi
    exact Or.inl ⟨i, h1, fun r hr' => h2 r (hr r hr')⟩
  · exact Or.inr ⟨r, hlog r hr, hn⟩

/-- guard under which a primitive keeps `RecInv` -/
def RecGd (d : Disk) : Prim → Prop
  | .createPart n _ => ∀ c, d.cmp n = some c → LoggedV d n c.hash
  | .cmpCommit n _ => ∀ c, d.cmpTmp n = some c → RecOk d n c
  | .rmPart n => ∀ c, d.cmp n = some c → LoggedV d n c.hash ∨ d.part n = none
  | .rmFull n => ∀ c, d.cmp n = some c → LoggedV d n c.hash ∨ d.full n = none
  | .renWaitFinal n _ => ∀ c, d.cmp n = some c →
      LoggedV d n c.hash ∨ d.part n ≠ none ∨ d.full n ≠ none
  | _ => True

def RecG (s : State) (p : Prim) : Prop := RecGd s.disk p

/-- primitives that need no guard -/
def recFree : Prim → Bool
  | .createPart .. | .cmpCommit .. | .rmPart .. | .rmFull .. | .renWaitFinal .. => false
  | _ => true

theorem recFree_RecG (s : State) (p : Prim) (h : recFree p = true) : RecG s p := by
  unfold RecG
  cases p <;> simp [recFree] at h <;> trivial

theorem RecInv_same (d d' : Disk) (hi : ∀ n c, d.cmp n = some c → RecOk d n c)
    (hcmp : ∀ n c, d'.cmp n = some c → d.cmp n = some c)
    (hp : d'.part = d.part) (hf : d'.full = d.full) (hw : d'.wait = d.wait)
    (hwr : ∀ i r, r ∈ d.written i → r ∈ d'.written i)
    (hlog : ∀ r ∈ d.log, r ∈ d'.log) : ∀ n c, d'.cmp n = some c → RecOk d' n c := by
  intro n c hc
  refine RecOk_frame d d' n c ?_ hlog (hi n c (hcmp n c hc))
  intro i hcur
  refine ⟨?_, hwr i⟩
  rw [Cur_congr d d' n (by rw [hp]) (by rw [hf]) (by rw [hw])]
  exact hcur

theorem RecInv_step (s : State) (p : Prim) (hino : InoInv s.disk) (hi : RecInv s)
    (hg : RecG s p) : RecInv (applyPrim s p) := by
  show ∀ n c, (applyDisk s.disk p).cmp n = some c → RecOk (applyDisk s.disk p) n c
  have hi' : ∀ n c, s.disk.cmp n = some c → RecOk s.disk n c := hi
  replace hg : RecGd s.disk p := hg
  generalize s.disk = d at *
  cases p with
  | rmCmp m =>
    apply RecInv_same d _ hi' <;> try (intros; first | rfl | assumption)
    intro n c hc
    simp only [applyDisk] at hc
    by_cases hnm : n = m
    · subst hnm; simp at hc
    · simpa [upd_other _ _ _ _ hnm] using hc
  | rmCmpIf m h0 =>
    -- the companion either goes (as with `rmCmp`) or everything stays as it is
    have key : applyDisk d (.rmCmpIf m h0) = d ∨ applyDisk d (.rmCmpIf m h0) = applyDisk d (.rmCmp m) := by
      simp only [applyDisk]
      split
      · split
        · exact Or.inr rfl
        · exact Or.inl rfl
      · exact Or.inl rfl
    rcases key with key | key
    · rw [key]; exact hi'
    · rw [key]
      apply RecInv_same d _ hi' <;> try (intros; first | rfl | assumption)
      intro n c hc
      simp only [applyDisk] at hc
      by_cases hnm : n = m
      · subst hnm; simp at hc
      · simpa [upd_other _ _ _ _ hnm] using hc
  | createPart m now =>
    intro n c hc
    have hc0 : d.cmp n = some c := by
      simp only [applyDisk] at hc; split at hc <;> exact hc
    by_cases hnm : n = m
    · subst hnm
      obtain ⟨r, hr, hn⟩ := hg c hc0
      refine Or.inr ⟨r, ?_, hn⟩
      simp only [applyDisk]; split <;> exact hr
    · refine RecOk_frame d _ n c ?_ ?_ (hi' n c hc0)
      · intro j hj
        have hheld := Cur_held d n j hj
        simp only [applyDisk]
        split
        · rename_i i hmi
          have hji : j ≠ i := by
            intro h; subst h
            exact hnm (hino.2 n m j hheld (Or.inl hmi))
          refine ⟨by rw [← hj]; exact Cur_congr _ _ _ rfl rfl rfl, ?_⟩
          intro r hr; simpa [upd_other _ _ _ _ hji] using hr
        · have hji : j ≠ d.nextIno := by
            have := hino.1 n j hheld; omega
          refine ⟨?_, ?_⟩
          · rw [← hj]; exact Cur_congr _ _ _ (by simp [upd_other _ _ _ _ hnm]) rfl rfl
          · intro r hr; simpa [upd_other _ _ _ _ hji] using hr
      · intro r hr; simp only [applyDisk]; split <;> exact hr
  | truncPart m size =>
    apply RecInv_same d _ hi' <;>
      (simp only [applyDisk]; split) <;> (intros; first | rfl | assumption)
  | writeIno i beg data now =>
    apply RecInv_same d _ hi' <;> try (intros; first | rfl | assumption)
    intro j r hr
    simp only [applyDisk]
    by_cases hji : j = i
    · subst hji; simp [hr]
    · simpa [upd_other _ _ _ _ hji] using hr
  | cmpTmp m c0 =>
    apply RecInv_same d _ hi' <;> (intros; first | rfl | assumption)
  | cmpCommit m now =>
    intro n c hc
    cases htmp : d.cmpTmp m with
    | none =>
      simp only [applyDisk, htmp] at hc ⊢
      exact hi' n c hc
    | some c0 =>
      simp only [applyDisk, htmp] at hc ⊢
      by_cases hnm : n = m
      · subst hnm
        simp only [upd_same, Option.some.injEq] at hc
        subst hc
        exact RecOk_frame d _ n c0 (fun i hi => ⟨hi, fun _ h => h⟩) (fun _ h => h) (hg c0 htmp)
      · simp only [upd_other _ _ _ _ hnm] at hc
        exact RecOk_frame d _ n c (fun i hi => ⟨hi, fun _ h => h⟩) (fun _ h => h) (hi' n c hc)
  | rmPart m =>
    intro n c hc
    have hc0 : d.cmp n = some c := hc
    by_cases hnm : n = m
    · subst hnm
      rcases hg c hc0 with hl | hpn
      · exact Or.inr hl
      · refine RecOk_frame d _ n c ?_ (fun _ h => h) (hi' n c hc0)
        intro i hcur
        refine ⟨?_, fun _ h => h⟩
        rw [← hcur]
        exact Cur_congr _ _ _ (by simp [applyDisk, hpn]) rfl rfl
    · refine RecOk_frame d _ n c ?_ (fun _ h => h) (hi' n c hc0)
      intro i hcur
      refine ⟨?_, fun _ h => h⟩
      rw [← hcur]
      exact Cur_congr _ _ _ (by simp [applyDisk, upd_other _ _ _ _ hnm]) rfl rfl
  | rmFull m =>
    intro n c hc
    have hc0 : d.cmp n = some c := hc
    by_cases hnm : n = m
    · subst hnm
      rcases hg c hc0 with hl | hpn
      · exact Or.inr hl
      · refine RecOk_frame d _ n c ?_ (fun _ h => h) (hi' n c hc0)
        intro i hcur
        refine ⟨?_, fun _ h => h⟩
        rw [← hcur]
        exact Cur_congr _ _ _ rfl (by simp [applyDisk, hpn]) rfl
    · refine RecOk_frame d _ n c ?_ (fun _ h => h) (hi' n c hc0)
      intro i hcur
      refine ⟨?_, fun _ h => h⟩
      rw [← hcur]
      exact Cur_congr _ _ _ rfl (by simp [applyDisk, upd_other _ _ _ _ hnm]) rfl
  | renPartFull m =>
    intro n c hc
    have hc0 : d.cmp n = some c := by
      simp only [applyDisk] at hc; split at hc <;> exact hc
    refine RecOk_frame d _ n c ?_ ?_ (hi' n c hc0)
    · intro i hcur
      simp only [applyDisk]
      split
      · rename_i j hj
        refine ⟨?_, fun _ h => h⟩
        by_cases hnm : n = m
        · subst hnm
          simp only [Cur, hj, Option.some.injEq] at hcur
          simp [Cur, hcur]
        · rw [← hcur]
          exact Cur_congr _ _ _ (by simp [upd_other _ _ _ _ hnm]) (by simp [upd_other _ _ _ _ hnm]) rfl
      · exact ⟨hcur, fun _ h => h⟩
    · intro r hr; simp only [applyDisk]; split <;> exact hr
  | renFullWait m =>
    intro n c hc
    have hc0 : d.cmp n = some c := by
      simp only [applyDisk] at hc; split at hc <;> exact hc
    refine RecOk_frame d _ n c ?_ ?_ (hi' n c hc0)
    · intro i hcur
      simp only [applyDisk]
      split
      · rename_i j hj
        refine ⟨?_, fun _ h => h⟩
        by_cases hnm : n = m
        · subst hnm
          simp only [Cur, hj] at hcur
          simp only [Cur, upd_same]
          split at hcur
          · exact hcur
          · exact hcur
        · rw [← hcur]
          exact Cur_congr _ _ _ rfl (by simp [upd_other _ _ _ _ hnm]) (by simp [upd_other _ _ _ _ hnm])
      · exact ⟨hcur, fun _ h => h⟩
    · intro r hr; simp only [applyDisk]; split <;> exact hr
  | logAppend r0 =>
    apply RecInv_same d _ hi' <;> try (intros; first | rfl | assumption)
    intro r hr; simp [applyDisk, hr]
  | renWaitFinal m t =>
    intro n c hc
    have hc0 : d.cmp n = some c := by
      simp only [applyDisk] at hc; split at hc <;> exact hc
    by_cases hnm : n = m
    · subst hnm
      rcases hg c hc0 with hl | hpf
      · refine Or.inr ?_
        obtain ⟨r, hr, hn⟩ := hl
        refine ⟨r, ?_, hn⟩
        simp only [applyDisk]; split <;> exact hr
      · refine RecOk_frame d _ n c ?_ ?_ (hi' n c hc0)
        · intro i hcur
          simp only [applyDisk]
          split
          · refine ⟨?_, fun _ h => h⟩
            simp only [Cur, upd_same] at hcur ⊢
            split at hcur
            · exact hcur
            · split at hcur
              · exact hcur
              · rename_i h1 _ h2
                rcases hpf with h | h
                · exact absurd h1 h
                · exact absurd h2 h
          · exact ⟨hcur, fun _ h => h⟩
        · intro r hr; simp only [applyDisk]; split <;> exact hr
    · refine RecOk_frame d _ n c ?_ ?_ (hi' n c hc0)
      · intro i hcur
        simp only [applyDisk]
        split
        · refine ⟨?_, fun _ h => h⟩
          rw [← hcur]
          exact Cur_congr _ _ _ rfl rfl (by simp [upd_other _ _ _ _ hnm])
        · exact ⟨hcur, fun _ h => h⟩
      · intro r hr; simp only [applyDisk]; split <;> exact hr
  | _ =>
    apply RecInv_same d _ hi' <;> (intros; first | rfl | assumption)

/-! ### guards of the operations -/

/-- a list whose guards hold from whatever state it is started in -/
def FreeList (ps : List Prim) : Prop := ∀ s0, Guards RecG s0 ps

theorem FreeList.nil : FreeList [] := fun _ => trivial

theorem FreeList.append {a b : List Prim} (ha : FreeList a) (hb : FreeList b) : FreeList (a ++ b) :=
  fun s0 => Guards.append (ha s0) (hb _)

theorem FreeList.of_all {ps : List Prim} (h : ps.all recFree = true) : FreeList ps := by
  induction ps with
  | nil => exact FreeList.nil
  | cons p ps ih =>
    simp only [List.all_cons, Bool.and_eq_true] at h
    intro s0
    exact ⟨recFree_RecG s0 p h.1, ih h.2 _⟩

/-- a fold whose steps append lists with property `P` yields a list with `P` -/
theorem fold_listP {α : Type} (P : List Prim → Prop) (happ : ∀ a b, P a → P b → P (a ++ b))
    (f : State × List Prim → α → State × List Prim)
    (hf : ∀ acc x, ∃ ps, P ps ∧ (f acc x).2 = acc.2 ++ ps) :
    ∀ (l : List α) (acc : State × List Prim), P acc.2 → P (l.foldl f acc).2 := by
  intro l
  induction l with
  | nil => intro acc h; simpa using h
  | cons x xs ih =>
    intro acc h
    obtain ⟨ps1, hb1, h1⟩ := hf acc x
    simp only [List.foldl_cons]
    apply ih
    rw [h1]
    exact happ _ _ h hb1

theorem toCache_free (m : Mem) (n : Name) (e : Entry) (st : FState) (now : Int) :
    (toCache m n e st now).all recFree = true := by
  unfold toCache
  simp only [List.all_append, Bool.and_eq_true]
  refine ⟨⟨?_, by simp [recFree]⟩, ?_⟩ <;> split <;> simp [recFree]

theorem timer_free (s : State) (n : Name) : (timerEffects s n).all recFree = true := by
  unfold timerEffects
  split <;> (try split) <;> simp [recFree]

theorem received_free (s : State) (n : Name) (m : Meta) :
    (receivedEffects s n m).all recFree = true := by
  unfold receivedEffects
  simp only [List.all_append, Bool.and_eq_true]
  refine ⟨by simp [recFree], ?_⟩
  split <;> (try split) <;> simp [recFree]

theorem buildCacheLoad_free (recs : List LogRec) (cached : Name → Bool) (now : Int) :
    (buildCacheLoad recs cached now).all recFree = true := by
  simp only [List.all_eq_true]
  intro p hp
  obtain ⟨r, _, rfl⟩ := buildCacheLoad_mem recs cached now p hp
  rfl

theorem buildCache_free (s : State) (frm now : Int) :
    (buildCacheEffects s frm now).all recFree = true := by
  unfold buildCacheEffects
  split
  · split
    · simp
    · simp only [List.all_append, Bool.and_eq_true]
      refine ⟨⟨buildCacheLoad_free _ _ _, ?_⟩, by simp [recFree]⟩
      split <;> simp [recFree]
  · simp only [List.all_append, Bool.and_eq_true]
    refine ⟨⟨buildCacheLoad_free _ _ _, ?_⟩, by simp [recFree]⟩
    split <;> simp [recFree]

theorem cleanWaiting_free (s : State) (names : List Name) :
    (cleanWaitingEffects s names).all recFree = true := by
  unfold cleanWaitingEffects
  simp only
  apply fold_listP (fun ps => ps.all recFree = true)
  · intro a b ha hb; simp [ha, hb]
  · intro acc c
    unfold cleanWaitingStep
    simp only
    split
    · exact ⟨[], rfl, by simp⟩
    · split
      · exact ⟨[], rfl, by simp⟩
      · refine ⟨_, ?_, rfl⟩
        simp only [List.all_append, Bool.and_eq_true, List.all_flatMap]
        refine ⟨by simp [recFree], ?_⟩
        simp only [List.all_eq_true]
        intro w _
        split
        · split <;> simp [recFree]
        · simp
  · rfl

/-- process(file): the only guarded primitive, `rmFull`, runs right after `rmCmp` -/
theorem processCore_freeList (H : Body → String) (s : State) (n : Name) (e : Entry) (now : Int) :
    FreeList (processCore H s n e now) := by
  unfold processCore
  apply FreeList.append (FreeList.of_all (by simp [recFree]))
  split
  · exact FreeList.nil
  · split
    · apply FreeList.append _ (FreeList.of_all (toCache_free _ _ _ _ _))
      intro s0
      refine ⟨trivial, ?_, trivial⟩
      intro c hc
      simp [applyPrim, applyDisk] at hc
    · split
      · exact FreeList.of_all (toCache_free _ _ _ _ _)
      · apply FreeList.of_all
        simp only [List.all_append, Bool.and_eq_true]
        exact ⟨⟨by simp [recFree], toCache_free _ _ _ _ _⟩, by simp [recFree]⟩

theorem process_freeList (H : Body → String) (s : State) (n : Name) (now : Int) :
    FreeList (processEffects H s n now) := by
  unfold processEffects
  split
  · exact FreeList.nil
  · exact FreeList.append (FreeList.of_all (by simp [recFree])) (processCore_freeList _ _ _ _ _)

/-- no primitive but the companion's rename creates a companion -/
def keepsCmp : Prim → Bool
  | .cmpCommit .. => false
  | _ => true

theorem keepsCmp_prim (d : Disk) (p : Prim) (h : keepsCmp p = true) :
    ∀ n c, (applyDisk d p).cmp n = some c → d.cmp n = some c := by
  intro n c hc
  cases p with
  | cmpCommit m now => simp [keepsCmp] at h
  | rmCmp m =>
    simp only [applyDisk] at hc
    by_cases hnm : n = m
    · subst hnm; simp at hc
    · simpa [upd_other _ _ _ _ hnm] using hc
  | rmCmpIf m h0 =>
    simp only [applyDisk] at hc
    split at hc
    · split at hc
      · by_cases hnm : n = m
        · subst hnm; simp at hc
        · simpa [upd_other _ _ _ _ hnm] using hc
      · exact hc
    · exact hc
  | _ => simp only [applyDisk] at hc <;> (try split at hc) <;> exact hc

theorem keepsCmp_run (ps : List Prim) (h : ps.all keepsCmp = true) (t : State) :
    ∀ n c, (run t ps).disk.cmp n = some c → t.disk.cmp n = some c := by
  induction ps generalizing t with
  | nil => intro n c hc; exact hc
  | cons p ps ih =>
    simp only [List.all_cons, Bool.and_eq_true] at h
    intro n c hc
    exact keepsCmp_prim t.disk p h.1 n c (ih h.2 _ n c hc)

theorem recFree_keepsCmp (ps : List Prim) (h : ps.all recFree = true) : ps.all keepsCmp = true := by
  simp only [List.all_eq_true] at h ⊢
  intro p hp
  have := h p hp
  cases p <;> simp_all [recFree, keepsCmp]

/-- a name on Recover's validate list has the companion the list carries -/
theorem recoverWalk_validate_cmp (H : Body → String) (d : Disk) (n : Name) (c : Cmp)
    (h : (recoverWalk H d n).2 = .validate c) : d.cmp n = some c := by
  cases hc : d.cmp n with
  | none => rw [recoverWalk_none H d n hc] at h; cases h
  | some c0 =>
    rw [recoverWalk_some H d n c0 hc] at h
    by_cases h1 : waitMatches H d n c0 = true
    · rw [if_pos h1] at h; cases h
    · rw [if_neg h1] at h
      by_cases h2 : d.full n ≠ none
      · rw [if_pos h2] at h; cases h; rfl
      · rw [if_neg h2] at h
        by_cases h3 : d.part n ≠ none
        · rw [if_pos h3] at h
          by_cases h4 : isComplete c0.parts c0.size = true
          · rw [if_pos h4] at h; cases h; rfl
          · rw [if_neg h4] at h; cases h
        · rw [if_neg h3] at h; cases h

/-- the duplicate test of Recover's validate loop answers yes only for a version that is in the
    receive log (in states where finalized / logged cache entries are backed by the log) -/
theorem recoverDup_logged (t : State) (n : Name) (c : Cmp) (hl : LoggedHashInv t)
    (h : recoverDup t.mem n c = true) : LoggedV t.disk n c.hash := by
  unfold recoverDup at h
  split at h
  · rename_i ex hex
    simp only [decide_eq_true_eq] at h
    have hst : ex.state = .finalized ∨ ex.state = .logged := by
      cases hs : ex.state <;> simp [hs, FState.num] at h ⊢
    rw [← h.2]
    exact hl n ex hex hst
  · cases h

/-- the fold invariant of Recover for `RecG`: finalized / logged entries are backed by the log,
    and no companion is there that was not there when Recover started -/
def RecQ (s t : State) : Prop :=
  LoggedHashInv t ∧ ∀ n c, t.disk.cmp n = some c → s.disk.cmp n = some c

theorem RecQ_run (s t : State) (ps : List Prim) (hq : RecQ s t) (hb : ps.all benign = true)
    (hk : ps.all keepsCmp = true) : RecQ s (run t ps) :=
  ⟨inv_run LoggedHashInv_step ps t hq.1 (GuardsH_of_all_benign t ps hb),
   fun n c hc => hq.2 n c (keepsCmp_run ps hk t n c hc)⟩

/-- Recover: the walk, the cache build and the finalize list need no guard; in the validate
    loop the duplicate branch removes `<n>.full` only for a version that is in the receive log
    (file first, companion second). -/
theorem recover_GuardsR (H : Body → String) (s : State) (now : Int) (names : List Name)
    (hl : LoggedHashInv s) : Guards RecG s (recoverEffects H s now names) := by
  unfold recoverEffects
  extract_lets walk p1 s1 oldest p2 s2 fins vals stepF r3 stepV r4
  have hp1f : p1.all recFree = true := by
    simp only [p1, List.all_append, Bool.and_eq_true, List.all_flatMap]
    refine ⟨by simp [recFree], ?_⟩
    simp only [List.all_eq_true]
    intro x hx
    simp only [walk, List.mem_map] at hx
    obtain ⟨n, _, rfl⟩ := hx
    intro p hp
    rcases recoverWalk_prims H s.disk n p hp with h | h <;> (subst h; rfl)
  have hp1b : p1.all benign = true := by
    simp only [p1, List.all_append, Bool.and_eq_true, List.all_flatMap]
    refine ⟨by simp [benign], ?_⟩
    simp only [List.all_eq_true]
    intro x hx
    simp only [walk, List.mem_map] at hx
    obtain ⟨n, _, rfl⟩ := hx
    exact List.all_eq_true.mp (recoverWalk_benign H s.disk n)
  have hp2f : p2.all recFree = true := buildCache_free s1 _ now
  have hQ1 : RecQ s s1 := RecQ_run s s p1 ⟨hl, fun _ _ h => h⟩ hp1b (recFree_keepsCmp _ hp1f)
  have hQ2 : RecQ s s2 :=
    ⟨inv_run LoggedHashInv_step p2 s1 hQ1.1 (GuardsH_of_forall _ _ (buildCache_forall _ _ _)),
     fun n c hc => hQ1.2 n c (keepsCmp_run p2 (recFree_keepsCmp _ hp2f) s1 n c hc)⟩
  have hs2 : s2 = run s (p1 ++ p2) := by simp only [s2, s1, run_append]
  have h12 : Guards RecG s (p1 ++ p2) :=
    FreeList.of_all (by simp [List.all_append, hp1f, hp2f]) s
  have h3 := Guards_foldl (G := RecG) (RecQ s) stepF fins
    (by
      intro acc x _ hq
      have hfree : (toCache acc.1.mem x.1 (Entry.ofCmp x.2 .validated) .validated now ++
          [Prim.fqPush x.1 { Entry.ofCmp x.2 .validated with time := now }]).all recFree = true := by
        simp only [List.all_append, Bool.and_eq_true]
        exact ⟨toCache_free _ _ _ _ _, by simp [recFree]⟩
      refine ⟨_, rfl, FreeList.of_all hfree _, RecQ_run s _ _ hq ?_ (recFree_keepsCmp _ hfree)⟩
      simp only [List.all_append, Bool.and_eq_true]
      exact ⟨toCache_benign _ _ _ _ _ (by decide) (by decide), by simp [benign]⟩)
    s2 (s2, []) hQ2 rfl trivial
  have h4 := Guards_foldl (G := RecG) (RecQ s) stepV vals
    (by
      intro acc x hx hq
      refine ⟨recoverValOne H acc.1 now x, rfl, ?_, ?_⟩
      · rcases recoverValOne_cases H acc.1 now x with ⟨hdup, h⟩ | ⟨_, h⟩ <;> rw [h]
        · refine ⟨?_, trivial, trivial, trivial⟩
          intro c hc
          have hxc : s.disk.cmp x.1 = some x.2 := by
            simp only [vals, List.mem_filterMap] at hx
            obtain ⟨y, hy, hyx⟩ := hx
            simp only [walk, List.mem_map] at hy
            obtain ⟨m, _, rfl⟩ := hy
            simp only at hyx
            split at hyx
            · rename_i c' hc'
              simp only [Option.some.injEq] at hyx
              subst hyx
              exact recoverWalk_validate_cmp H s.disk m c' hc'
            · simp at hyx
          have : c = x.2 := by
            have := hq.2 x.1 c hc
            rw [hxc] at this; cases this; rfl
          subst this
          exact Or.inl (recoverDup_logged acc.1 x.1 x.2 hq.1 hdup)
        · exact FreeList.append (FreeList.of_all (toCache_free _ _ _ _ _))
            (processCore_freeList _ _ _ _ _) _
      · apply RecQ_run s _ _ hq
        · exact recoverValOne_all benign H _ now x rfl rfl rfl
            (toCache_benign _ _ _ _ _ (by decide) (by decide)) (processCore_benign _ _ _ _ _)
        · refine recoverValOne_all keepsCmp H _ now x rfl rfl rfl
            (recFree_keepsCmp _ (toCache_free _ _ _ _ _)) ?_
          unfold processCore
          simp only [List.all_append, Bool.and_eq_true]
          refine ⟨by simp [keepsCmp], ?_⟩
          split
          · simp
          · split
            · simp only [List.all_append, Bool.and_eq_true]
              exact ⟨by simp [keepsCmp], recFree_keepsCmp _ (toCache_free _ _ _ _ _)⟩
            · split
              · exact recFree_keepsCmp _ (toCache_free _ _ _ _ _)
              · simp only [List.all_append, Bool.and_eq_true]
                exact ⟨⟨by simp [keepsCmp], recFree_keepsCmp _ (toCache_free _ _ _ _ _)⟩,
                  by simp [keepsCmp]⟩)
    s2 r3 h3.2.2 h3.2.1 h3.1
  have hall : Guards RecG s ((p1 ++ p2) ++ r4.2 ++ [Prim.setReady true]) := by
    apply Guards.append
    · apply Guards.append h12
      rw [← hs2]; exact h4.1
    · exact ⟨trivial, trivial⟩
  simpa [List.append_assoc] using hall

/-! ### newLocalCompanion + addCompanionPart -/

theorem nextCmp_hash (d : Disk) (n : Name) (m : Meta) (beg fin : Int) :
    (nextCmp d n m beg fin).hash = m.hash := by
  unfold nextCmp
  simp only
  split
  · split <;> simp_all
  · rfl

/-- every range of the updated companion is the new one or was on record for the same hash -/
theorem nextCmp_parts_mem (d : Disk) (n : Name) (m : Meta) (beg fin : Int) (r : Rng)
    (hr : r ∈ (nextCmp d n m beg fin).parts) :
    r = ⟨beg, fin⟩ ∨ ∃ c, d.cmp n = some c ∧ c.hash = m.hash ∧ r ∈ c.parts := by
  unfold nextCmp at hr
  simp only at hr
  split at hr
  · rename_i c hc
    split at hr
    · rename_i hh
      rcases addPart_mem _ _ _ r hr with h | h
      · exact Or.inr ⟨c, hc, hh, h⟩
      · exact Or.inl h
    · rcases addPart_mem _ _ _ r hr with h | h
      · simp at h
      · exact Or.inl h
  · rcases addPart_mem _ _ _ r hr with h | h
    · simp at h
    · exact Or.inl h

/-- the updated companion is sound if the old one was and the new range was written -/
theorem nextCmp_ok (d : Disk) (n : Name) (m : Meta) (beg fin : Int)
    (hi : ∀ c, d.cmp n = some c → RecOk d n c)
    (hw : ∃ i, Cur d n = some i ∧ (⟨beg, fin⟩ : Rng) ∈ d.written i) :
    RecOk d n (nextCmp d n m beg fin) := by
  obtain ⟨i, hcur, hnew⟩ := hw
  by_cases hold : ∃ c, d.cmp n = some c ∧ c.hash = m.hash
  · obtain ⟨c, hc, hh⟩ := hold
    rcases hi c hc with ⟨j, hj, hparts⟩ | hl
    · left
      have : j = i := by rw [hj] at hcur; cases hcur; rfl
      subst this
      refine ⟨j, hj, ?_⟩
      intro r hr
      rcases nextCmp_parts_mem d n m beg fin r hr with h | ⟨c', hc', _, hr'⟩
      · subst h; exact hnew
      · rw [hc] at hc'; cases hc'; exact hparts r hr'
    · right
      rw [nextCmp_hash, ← hh]; exact hl
  · left
    refine ⟨i, hcur, ?_⟩
    intro r hr
    rcases nextCmp_parts_mem d n m beg fin r hr with h | ⟨c', hc', hh', _⟩
    · subst h; exact hnew
    · exact absurd ⟨c', hc', hh'⟩ hold

/-! ### guarded operations -/

/-- Prepare (initStageFile): the hypothesis says that a `.part` is not (re)created under a
    companion that survives — unless that companion's version is already logged. -/
def PrepareOk (s : State) (n : Name) (size : Int) : Prop :=
  (∃ i, s.disk.part n = some i ∧ ((s.disk.body i).length : Int) = size) ∨
  stateOf s.mem n = none ∨ stateOf s.mem n = some .failed ∨
  ∀ c, s.disk.cmp n = some c → LoggedV s.disk n c.hash

theorem prepCreate_Guards (s1 : State) (n : Name) (now : Int) (sz : Nat) (b : Prop) [Decidable b]
    (h : ¬ b → ∀ c, s1.disk.cmp n = some c → LoggedV s1.disk n c.hash) :
    Guards RecG s1 ((if b then [Prim.rmCmp n] else []) ++ [Prim.createPart n now, Prim.truncPart n sz]) := by
  by_cases hb : b
  · simp only [hb, if_true]
    refine ⟨trivial, ?_, trivial, trivial⟩
    intro c hc
    simp [applyPrim, applyDisk] at hc
  · simp only [hb, if_false]
    exact ⟨h hb, trivial, trivial⟩

theorem prepare_Guards (s : State) (n : Name) (size now : Int) (hok : PrepareOk s n size) :
    Guards RecG s (prepareEffects s n size now) := by
  unfold prepareEffects
  refine Guards.append (ps := [Prim.lockAdd n]) ⟨trivial, trivial⟩ ?_
  have key : (¬ (s.disk.cmp n ≠ none ∧ (stateOf s.mem n = none ∨ stateOf s.mem n = some .failed))) →
      (¬ ∃ i, s.disk.part n = some i ∧ ((s.disk.body i).length : Int) = size) →
      ∀ c, s.disk.cmp n = some c → LoggedV s.disk n c.hash := by
    intro hb hno c hc
    rcases hok with h | h | h | h
    · exact absurd h hno
    · exact absurd ⟨by simp [hc], Or.inl h⟩ hb
    · exact absurd ⟨by simp [hc], Or.inr h⟩ hb
    · exact h c hc
  split
  · rename_i i hi
    split
    · trivial
    · rename_i hne
      apply prepCreate_Guards
      intro hb
      exact key hb (by
        rintro ⟨j, hj, hl⟩
        rw [hi] at hj; cases hj; exact hne hl)
  · rename_i hnone
    apply prepCreate_Guards
    intro hb
    exact key hb (by
      rintro ⟨j, hj, _⟩
      rw [hnone] at hj; cases hj)

/-- the locked region of Receive. (1) the range being recorded was written into the current
    staged file of `n` (Receive wrote through the handle it opened on `<n>.part`); (2) the
    "ignoring duplicate" branch does not drop a partial while the state is received or
    validated (the companion would stay behind describing the removed partial). -/
def RecordOk (s : State) (n : Name) (m : Meta) (beg fin : Int) : Prop :=
  (∃ i, Cur s.disk n = some i ∧ (⟨beg, fin⟩ : Rng) ∈ s.disk.written i) ∧
  (isComplete (nextCmp s.disk n m beg fin).parts (nextCmp s.disk n m beg fin).size = true →
    ∀ ex, s.mem.cache n = some ex → ex.state ≠ .failed → ex.hash = m.hash → ex.state.num < 3 →
      s.disk.part n = none)

theorem record_Guards (s : State) (n : Name) (m : Meta) (beg fin now : Int)
    (hi : RecInv s) (hl : LoggedHashInv s) (hok : RecordOk s n m beg fin) :
    Guards RecG s (recordEffects s n m beg fin now) := by
  unfold recordEffects
  simp only
  have hc : RecOk s.disk n (nextCmp s.disk n m beg fin) := nextCmp_ok s.disk n m beg fin (hi n) hok.1
  refine Guards.append (ps := [Prim.lockAdd n, Prim.cmpTmp n _, Prim.cmpCommit n now]) ?_ ?_
  · refine ⟨trivial, trivial, ?_, trivial⟩
    intro c' hc'
    simp only [applyPrim, applyDisk, upd_same, Option.some.injEq] at hc'
    subst hc'
    exact RecOk_frame s.disk _ n _ (fun i h => ⟨h, fun _ h => h⟩) (fun _ h => h) hc
  · split
    · rename_i hcomplete
      have free2 : ∀ s0, Guards RecG s0
          (match s.disk.part n with
           | some _ => [Prim.renPartFull n] ++ toCache s.mem n (Entry.ofMeta m .received) .received now ++
               [Prim.vqPush n { Entry.ofMeta m .received with time := now }]
           | none => toCache s.mem n (Entry.ofMeta m .received) .failed now) := by
        intro s0
        split
        · apply FreeList.of_all
          simp only [List.all_append, Bool.and_eq_true]
          exact ⟨⟨by simp [recFree], toCache_free _ _ _ _ _⟩, by simp [recFree]⟩
        · exact FreeList.of_all (toCache_free _ _ _ _ _) s0
      split
      · rename_i ex hex
        split
        · rename_i hdup
          refine Guards.append (ps := [Prim.rmPart n]) ⟨?_, trivial⟩ ?_
          · intro c' hc'
            simp only [run, List.foldl, applyPrim, applyDisk, upd_same, Option.some.injEq] at hc' ⊢
            subst hc'
            by_cases h3 : ex.state.num < 3
            · exact Or.inr (hok.2 hcomplete ex hex hdup.1 hdup.2 h3)
            · left
              have hst : ex.state = .finalized ∨ ex.state = .logged := by
                cases hs : ex.state <;> simp [hs, FState.num] at h3 ⊢
              obtain ⟨r, hr, hn, hh⟩ := hl n ex hex hst
              exact ⟨r, hr, hn, by rw [nextCmp_hash, ← hdup.2]; exact hh⟩
          · apply FreeList.of_all
            split <;> simp [recFree]
        · exact free2 _
      · exact free2 _
    · trivial

/-- the finalize handler: when neither a `.part` nor a `.full` is staged, the companion it
    leaves behind at the move (until `rmCmpIf` removes it — which it does only for the version
    being put away) is the one of the version it delivers. -/
def FinhOk (s : State) (n : Name) : Prop :=
  ∀ x, s.mem.fq.find? (·.1 == n) = some x → ∀ c, s.disk.cmp n = some c →
    s.disk.part n = none → s.disk.full n = none → c.hash = x.2.hash

theorem finalize_GuardsR (s0 s : State) (hd : s0.disk = s.disk) (n : Name) (e : Entry) (now : Int)
    (hok : ∀ c, s.disk.cmp n = some c → s.disk.part n = none → s.disk.full n = none →
      c.hash = e.hash) :
    Guards RecG s0 (finalizeEffects s n e now) := by
  unfold finalizeEffects
  rw [List.append_assoc]
  refine Guards.append (ps := [Prim.lockAdd n]) ⟨trivial, trivial⟩ ?_
  refine Guards.append ?_ ⟨trivial, trivial⟩
  split
  · trivial
  · rw [List.append_assoc]
    refine Guards.append (ps := [Prim.timerDel n, Prim.logAppend ⟨n, e.renamed, e.hash, e.size, now, e.prev⟩])
      ⟨trivial, trivial, trivial⟩ ?_
    split
    · trivial
    · simp only [List.append_assoc]
      refine Guards.append (ps := [Prim.renWaitFinal n _]) ⟨?_, trivial⟩ ?_
      · intro c hc
        simp only [run, List.foldl, applyPrim, applyDisk, hd] at hc ⊢
        by_cases hp : s.disk.part n = none
        · by_cases hf : s.disk.full n = none
          · left
            exact ⟨⟨n, e.renamed, e.hash, e.size, now, e.prev⟩, by simp, rfl, (hok c hc hp hf).symm⟩
          · exact Or.inr (Or.inr hf)
        · exact Or.inr (Or.inl hp)
      · apply FreeList.of_all
        simp only [List.all_append, Bool.and_eq_true, List.all_map]
        refine ⟨toCache_free _ _ _ _ _, by simp [recFree], ?_⟩
        simp only [List.all_eq_true]
        intro w _; rfl

theorem finh_Guards (s : State) (n : Name) (now : Int) (hok : FinhOk s n) :
    Guards RecG s (finhEffects s n now) := by
  unfold finhEffects
  split
  · trivial
  · rename_i n' e hfind
    refine Guards.append (ps := [Prim.fqDel n]) ⟨trivial, trivial⟩ ?_
    split
    · trivial
    · split
      · exact finalize_GuardsR (run s [Prim.fqDel n]) s rfl n e now (fun c hc hp hf => hok _ hfind c hc hp hf)
      · apply FreeList.of_all
        simp only [List.all_append, Bool.and_eq_true]
        refine ⟨⟨by simp [recFree], ?_⟩, by simp [recFree]⟩
        split <;> simp [recFree]

/-- cleanStrays: a partial is removed only if its companion's version is in the receive log
    (the companion may then stay behind, or be removed a moment later). -/
def CleanOk (s : State) (now : Int) (names : List Name) : Prop :=
  ∀ n ∈ names, (cleanDecision s now n).1 = true → ∀ c, s.disk.cmp n = some c →
    LoggedV s.disk n c.hash

theorem rmOnly_Guards (s : State) (ps : List Prim)
    (h : ∀ p ∈ ps, ∃ n, p = Prim.rmCmp n ∨
      (p = Prim.rmPart n ∧ ∀ c, s.disk.cmp n = some c → LoggedV s.disk n c.hash)) :
    ∀ s' : State, (∀ n c, s'.disk.cmp n = some c → s.disk.cmp n = some c) →
      (∀ r ∈ s.disk.log, r ∈ s'.disk.log) → Guards RecG s' ps := by
  induction ps with
  | nil => intro _ _ _; trivial
  | cons p ps ih =>
    intro s' hcmp hlog
    have ih' := ih (fun q hq => h q (by simp [hq]))
    obtain ⟨n, hp | ⟨hp, hl⟩⟩ := h p (by simp) <;> subst hp
    · refine ⟨trivial, ih' _ ?_ ?_⟩
      · intro m c hc
        apply hcmp
        simp only [applyPrim, applyDisk] at hc
        by_cases hmn : m = n
        · subst hmn; simp at hc
        · simpa [upd_other _ _ _ _ hmn] using hc
      · intro r hr; exact hlog r hr
    · refine ⟨?_, ih' _ ?_ ?_⟩
      · intro c hc
        obtain ⟨r, hr, hn⟩ := hl c (hcmp n c hc)
        exact Or.inl ⟨r, hlog r hr, hn⟩
      · intro m c hc; exact hcmp m c hc
      · intro r hr; exact hlog r hr

theorem cleanStrays_Guards (s : State) (now : Int) (names : List Name) (hok : CleanOk s now names) :
    Guards RecG s (cleanStraysEffects s now names) := by
  apply rmOnly_Guards s _ _ s (fun _ _ h => h) (fun _ h => h)
  intro p hp
  simp only [cleanStraysEffects, List.mem_flatMap] at hp
  obtain ⟨n, hn, hp⟩ := hp
  refine ⟨n, ?_⟩
  simp only [cleanStrayOne, List.mem_append] at hp
  rcases hp with hp | hp
  · split at hp
    · rename_i hdec
      simp at hp
      exact Or.inr ⟨hp, hok n hn hdec⟩
    · simp at hp
  · split at hp <;> simp at hp
    exact Or.inl hp

end Sts.Stage
