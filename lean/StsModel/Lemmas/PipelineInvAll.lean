/-
  All invariants of the Pipeline model bundled: they hold initially, every action preserves
  them, hence they hold in every reachable state.
-/
import StsModel.Lemmas.PipelineInvK
import StsModel.Lemmas.PipelineInvG
namespace Sts.Pipeline

/-- the invariants of parts S, P, B, K (see the single definitions for their meaning) -/
structure Inv (s : State) : Prop where
  s0 : S0 s
  s1 : S1 s
  s2 : S2 s
  e1 : E1 s
  e2 : E2 s
  pLe : PLe s
  p1 : P1 s
  p2 : P2 s
  p3 : P3 s
  p4 : P4 s
  p5 : P5 s
  p6 : P6 s
  p7 : P7 s
  p8 : P8 s
  p9 : P9 s
  p10 : P10 s
  p11 : P11 s
  p12 : P12 s
  p13 : P13 s
  p14 : P14 s
  p15 : P15 s
  pScan : PScan s
  b1 : B1 s
  b2 : B2 s
  b3 : B3 s
  b4 : B4 s
  b5 : B5 s
  b6 : B6 s
  b7 : B7 s
  b8 : B8 s
  a1 : A1 s
  a2 : A2 s
  a3 : A3 s
  a4 : A4 s
  a5 : A5 s
  kQ : KQ s
  kV : KV s
  kP : KP s
  kT : KT s
  k1 : K1 s
  k2 : K2 s
  k3 : K3 s
  k4 : K4 s
  k5 : K5 s
  k7 : K7 s
  g1 : G1 s
  g2 : G2 s
  g3a : G3a s
  g3b : G3b s
  g4a : G4a s
  g4b : G4b s
  g5 : G5 s
  g6a : G6a s
  g6b : G6b s
  g7a : G7a s
  g7b : G7b s
  d1 : D1 s
  f1 : F1 s

theorem inv_init (c : Cfg) (files budget : Nat) (h : 0 < c.threads) : Inv (init c files budget) := by
  constructor <;> simp [init, others, cap, h, S0, S1, S2, E1, E2, PLe, P1, P2, P3, P4, P5, P6, P7, P8, P9, P10, P11, P12, P13, P14, P15, PScan, B1, B2, B3, B4, B5, B6, B7, B8, A1, A2, A3, A4, A5, KQ, KV, KP, KT, K1, K2, K3, K4, K5, K7, G1, G2, G3a, G3b, G4a, G4b, G5, G6a, G6b, G7a, G7b, D1, F1]

theorem inv_step {s : State} {a : Action} (h : Inv s) (g : guard s a) : Inv (apply s a) where
  s0 := S0_step  h.s0 g
  s1 := S1_step  h.s1 g
  s2 := S2_step  h.s2 g
  e1 := E1_step  h.e1 g
  e2 := E2_step  h.e2 g
  pLe := PLe_step  h.pLe g
  p1 := P1_step  h.p1 g
  p2 := P2_step h.s1 h.p2 g
  p3 := P3_step  h.p3 g
  p4 := P4_step  h.p4 g
  p5 := P5_step  h.p5 g
  p6 := P6_step  h.p6 g
  p7 := P7_step  h.p7 g
  p8 := P8_step h.s2 h.p8 g
  p9 := P9_step  h.p9 g
  p10 := P10_step  h.p10 g
  p11 := P11_step  h.p11 g
  p12 := P12_step  h.p12 g
  p13 := P13_step  h.p13 g
  p14 := P14_step  h.p14 g
  p15 := P15_step  h.p15 g
  pScan := PScan_step  h.pScan g
  b1 := B1_step  h.b1 g
  b2 := B2_step  h.b2 g
  b3 := B3_step  h.b3 g
  b4 := B4_step  h.b4 g
  b5 := B5_step  h.b5 g
  b6 := B6_step  h.b6 g
  b7 := B7_step  h.b7 g
  b8 := B8_step  h.b8 g
  a1 := A1_step h.b1 h.a1 g
  a2 := A2_step h.b8 h.a2 g
  a3 := A3_step  h.a3 g
  a4 := A4_step h.b2 h.a4 g
  a5 := A5_step h.b3 h.a5 g
  kQ := KQ_step  h.kQ g
  kV := KV_step  h.kV g
  kP := KP_step  h.kP g
  kT := KT_step  h.kT g
  k1 := K1_step h.kT h.k3 h.k1 g
  k2 := K2_step  h.k2 g
  k3 := K3_step  h.k3 g
  k4 := K4_step  h.k4 g
  k5 := K5_step h.kQ h.kV h.k5 g
  k7 := K7_step  h.k7 g
  g1 := G1_step  h.g1 g
  g2 := G2_step  h.g2 g
  g3a := G3a_step h.b1 h.p3 h.p1 h.p2 h.s1 h.e2 h.g3a g
  g3b := G3b_step  h.g3b g
  g4a := G4a_step h.b8 h.p5 h.p4 h.g4a g
  g4b := G4b_step h.a2 h.p5 h.p4 h.g4a h.g4b g
  g5 := G5_step h.a3 h.p7 h.p6 h.g5 g
  g6a := G6a_step h.b2 h.p9 h.p8 h.s2 h.g6a g
  g6b := G6b_step h.a4 h.p9 h.p8 h.s2 h.g6b g
  g7a := G7a_step h.b3 h.p11 h.p10 h.g7a g
  g7b := G7b_step  h.g7b g
  d1 := D1_step  h.d1 g
  f1 := F1_step h.kV h.f1 g

theorem step_some {s s' : State} {a : Action} (h : step s a = some s') : guard s a ∧ s' = apply s a := by
  unfold step at h
  split at h
  · exact ⟨by assumption, by simpa using h.symm⟩
  · cases h

theorem inv_of_reachable {s : State} (h : Reachable s) : Inv s := by
  induction h with
  | init c f b ht => exact inv_init c f b ht
  | step _ hs ih =>
    obtain ⟨g, rfl⟩ := step_some hs
    exact inv_step ih g

end Sts.Pipeline
