/-
  Helper lemmas for the sender's release model (Model/Release.lean): the generic loop,
  cache and store operations, canDelete.
-/
import StsModel.Model.Release

namespace Sts.Release

/-! ### runLoop -/

theorem runLoop_nil {σ α : Type} (body : σ → α → σ × List Eff) (s : σ) :
    runLoop body s [] = (s, []) := rfl

theorem runLoop_cons {σ α : Type} (body : σ → α → σ × List Eff) (s : σ) (x : α) (xs : List α) :
    runLoop body s (x :: xs) =
      ((runLoop body (body s x).1 xs).1, (body s x).2 ++ (runLoop body (body s x).1 xs).2) := rfl

/-- an invariant of the loop body is an invariant of the loop. -/
theorem runLoop_inv {σ α : Type} (body : σ → α → σ × List Eff) (I : σ → Prop)
    (xs : List α) (hI : ∀ s x, x ∈ xs → I s → I (body s x).1) :
    ∀ s, I s → I (runLoop body s xs).1 := by
  induction xs with
  | nil => intro s h; exact h
  | cons x xs ih =>
    intro s h
    rw [runLoop_cons]
    exact ih (fun s y hy => hI s y (by simp [hy])) _ (hI s x (by simp) h)

/-- every effect of the loop is an effect of one body execution, from a state that
    satisfies the invariant. -/
theorem runLoop_mem {σ α : Type} (body : σ → α → σ × List Eff) (I : σ → Prop)
    (xs : List α) (hI : ∀ s x, x ∈ xs → I s → I (body s x).1) :
    ∀ s, I s → ∀ e ∈ (runLoop body s xs).2, ∃ s' x, I s' ∧ x ∈ xs ∧ e ∈ (body s' x).2 := by
  induction xs with
  | nil => intro s _ e he; simp [runLoop] at he
  | cons x xs ih =>
    intro s h e he
    rw [runLoop_cons] at he
    simp only [List.mem_append] at he
    rcases he with he | he
    · exact ⟨s, x, h, by simp, he⟩
    · obtain ⟨s', y, h1, h2, h3⟩ :=
        ih (fun s y hy => hI s y (by simp [hy])) _ (hI s x (by simp) h) e he
      exact ⟨s', y, h1, by simp [h2], h3⟩

/-- the converse: an effect of a body execution along the loop is in the trace. We only
    need the special case of a body whose effects do not depend on the state. -/
theorem runLoop_mem_of {σ α : Type} (body : σ → α → σ × List Eff) (f : α → List Eff)
    (hf : ∀ s x, (body s x).2 = f x) (xs : List α) :
    ∀ s, (runLoop body s xs).2 = (xs.map f).flatten := by
  induction xs with
  | nil => intro s; rfl
  | cons x xs ih => intro s; rw [runLoop_cons]; simp [hf, ih]


/-! ### cache, store, answers -/

theorem cget_some {c : Cache} {n : Name} {e : CEntry} (h : cget c n = some e) : e ∈ c ∧ e.name = n := by
  unfold cget at h
  exact ⟨List.mem_of_find?_eq_some h, by simpa using List.find?_some h⟩

theorem cget_none {c : Cache} {n : Name} (h : cget c n = none) : ∀ e ∈ c, e.name ≠ n := by
  unfold cget at h
  intro e he
  have := List.find?_eq_none.mp h e he
  simpa using this

theorem sfind_some {s : Store} {n : Name} {f : SFile} (h : sfind s n = some f) : f ∈ s ∧ f.name = n := by
  unfold sfind at h
  exact ⟨List.mem_of_find?_eq_some h, by simpa using List.find?_some h⟩

/-- takeAnswers only answers files that were asked. -/
theorem takeAnswers_mem {α : Type} (nameOf : α → Name) (l : List α) :
    ∀ (as : List (Name × List Verdict)) (x : α) (v : Verdict),
      (x, v) ∈ (takeAnswers nameOf as l).1 → x ∈ l ∧ v ≠ .omit := by
  induction l with
  | nil => intro as x v h; simp [takeAnswers] at h
  | cons y ys ih =>
    intro as x v h
    simp only [takeAnswers] at h
    split at h
    · have := ih _ x v h
      exact ⟨by simp [this.1], this.2⟩
    · rename_i hne
      simp only [List.mem_cons, Prod.mk.injEq] at h
      rcases h with ⟨h1, h2⟩ | h
      · subst h1 h2
        exact ⟨by simp, hne⟩
      · have := ih _ x v h
        exact ⟨by simp [this.1], this.2⟩

theorem answerEffs_mem {α : Type} (nameOf : α → Name) (l : List (α × Verdict)) (x : α) (v : Verdict)
    (h : (x, v) ∈ l) : Eff.answer (nameOf x) v ∈ answerEffs nameOf l := by
  unfold answerEffs
  exact List.mem_map.mpr ⟨(x, v), h, rfl⟩


/-- version of a cache entry: everything but the done mark. -/
def SameVer (a b : CEntry) : Prop := a.name = b.name ∧ a.size = b.size ∧ a.time = b.time ∧ a.hash = b.hash

/-- every entry of `c'` is an entry of `c` with the same version; done marks are only added. -/
def VerSub (c c' : Cache) : Prop :=
  ∀ e' ∈ c', ∃ e ∈ c, SameVer e e' ∧ (e.done = true → e'.done = true)

theorem VerSub.refl (c : Cache) : VerSub c c := fun e he => ⟨e, he, ⟨rfl, rfl, rfl, rfl⟩, id⟩

theorem VerSub.trans {a b c : Cache} (h1 : VerSub a b) (h2 : VerSub b c) : VerSub a c := by
  intro e he
  obtain ⟨f, hf, ⟨a1, a2, a3, a4⟩, hd⟩ := h2 e he
  obtain ⟨g, hg, ⟨b1, b2, b3, b4⟩, hd'⟩ := h1 f hf
  exact ⟨g, hg, ⟨b1.trans a1, b2.trans a2, b3.trans a3, b4.trans a4⟩, fun h => hd (hd' h)⟩

theorem verSub_cmark (c : Cache) (n : Name) : VerSub c (cmark c n) := by
  intro e' he'
  unfold cmark at he'
  obtain ⟨e, he, rfl⟩ := List.mem_map.mp he'
  refine ⟨e, he, ?_, ?_⟩
  · split <;> exact ⟨rfl, rfl, rfl, rfl⟩
  · intro h; split <;> simp [h]

theorem verSub_cremove (c : Cache) (n : Name) : VerSub c (cremove c n) := by
  intro e' he'
  unfold cremove at he'
  exact ⟨e', (List.mem_filter.mp he').1, ⟨rfl, rfl, rfl, rfl⟩, id⟩

/-- entries marked done are justified by `Conf` (a predicate on versions). -/
def DoneOK (Conf : CEntry → Prop) (c : Cache) : Prop := ∀ e ∈ c, e.done = true → Conf e

/-- `Conf` talks about versions only. -/
def VerPred (Conf : CEntry → Prop) : Prop := ∀ a b, SameVer a b → Conf a → Conf b

theorem doneOK_cmark {Conf : CEntry → Prop} (hv : VerPred Conf) (c : Cache) (n : Name)
    (h : DoneOK Conf c) (hn : ∀ e ∈ c, e.name = n → Conf e) : DoneOK Conf (cmark c n) := by
  intro e' he' hd
  unfold cmark at he'
  obtain ⟨e, he, rfl⟩ := List.mem_map.mp he'
  by_cases hname : e.name = n
  · simp only [hname, if_true] at hd ⊢
    exact hv e _ ⟨by simp [hname], rfl, rfl, rfl⟩ (hn e he hname)
  · simp only [hname, if_false] at hd ⊢
    exact h e he hd

theorem doneOK_cremove {Conf : CEntry → Prop} (c : Cache) (n : Name)
    (h : DoneOK Conf c) : DoneOK Conf (cremove c n) := by
  intro e he hd
  exact h e (List.mem_filter.mp he).1 hd




theorem runLoop_append {σ α : Type} (body : σ → α → σ × List Eff) (xs ys : List α) :
    ∀ s, runLoop body s (xs ++ ys) =
      ((runLoop body (runLoop body s xs).1 ys).1, (runLoop body s xs).2 ++ (runLoop body (runLoop body s xs).1 ys).2) := by
  induction xs with
  | nil => intro s; simp [runLoop]
  | cons x xs ih => intro s; simp [runLoop_cons, ih]

/-- an effect of the loop comes from the body run on one element, in the state the loop
    has reached after the elements before it. -/
theorem runLoop_split {σ α : Type} (body : σ → α → σ × List Eff) (xs : List α) :
    ∀ s, ∀ e ∈ (runLoop body s xs).2, ∃ pre x post, xs = pre ++ x :: post ∧
      e ∈ (body (runLoop body s pre).1 x).2 := by
  induction xs with
  | nil => intro s e he; simp [runLoop] at he
  | cons x xs ih =>
    intro s e he
    rw [runLoop_cons] at he
    simp only [List.mem_append] at he
    rcases he with he | he
    · exact ⟨[], x, xs, rfl, by simpa [runLoop] using he⟩
    · obtain ⟨pre, y, post, h1, h2⟩ := ih _ e he
      refine ⟨x :: pre, y, post, by simp [h1], ?_⟩
      simpa [runLoop_cons] using h2

/-- frame: what the body does not touch for keys other than its element's, the loop does
    not touch for keys of no element. -/
theorem runLoop_frame {σ α β : Type} (body : σ → α → σ × List Eff) (key : α → Name) (get : σ → Name → β)
    (hb : ∀ s x n, n ≠ key x → get (body s x).1 n = get s n) (xs : List α) :
    ∀ s n, n ∉ xs.map key → get (runLoop body s xs).1 n = get s n := by
  induction xs with
  | nil => intro s n _; rfl
  | cons x xs ih =>
    intro s n hn
    simp only [List.map_cons, List.mem_cons, not_or] at hn
    rw [runLoop_cons]
    simp only
    rw [ih _ n hn.2, hb s x n hn.1]

theorem cget_cmark_ne (c : Cache) (n m : Name) (h : m ≠ n) : cget (cmark c n) m = cget c m := by
  unfold cget cmark
  induction c with
  | nil => rfl
  | cons x xs ih =>
    simp only [List.map_cons, List.find?_cons]
    by_cases hx : x.name = n
    · have : x.name ≠ m := by rw [hx]; exact fun h' => h h'.symm
      simp [hx, ih, Ne.symm h]
    · simp [hx, ih]

theorem cget_cremove_ne (c : Cache) (n m : Name) (h : m ≠ n) : cget (cremove c n) m = cget c m := by
  unfold cget cremove
  rw [List.find?_filter]
  congr 1
  funext a
  by_cases ha : a.name = m
  · simp [ha, h]
  · simp [ha]

theorem sfind_sremove_ne (s : Store) (n m : Name) (h : m ≠ n) : sfind (sremove s n) m = sfind s m := by
  unfold sfind sremove
  rw [List.find?_filter]
  congr 1
  funext a
  by_cases ha : a.name = m
  · simp [ha, h]
  · simp [ha]

theorem sfind_sremove_self (s : Store) (n : Name) : sfind (sremove s n) n = none := by
  unfold sfind sremove
  simp [List.find?_eq_none]


end Sts.Release
