/-
  Invariant (every reachable state, every crash point): a file whose cache state is
  `finalized` or `logged` has a record *of that name and hash* in the receive log
  ("log before move, state after move"; log-derived cache entries copy the record's hash).
  Strengthens `LoggedInv` of Lemmas/StageLogged (name only).
-/
import StsModel.Lemmas.StageLogged

namespace Sts.Stage

/-- the receive log has a record of version (name, hash) -/
def LoggedV (d : Disk) (n : Name) (h : String) : Prop := ∃ r ∈ d.log, r.name = n ∧ r.hash = h

def LoggedHashInv (s : State) : Prop :=
  ∀ n e, s.mem.cache n = some e → (e.state = .finalized ∨ e.state = .logged) →
    LoggedV s.disk n e.hash

def LoggedHG (s : State) : Prim → Prop
  | .cacheSet n e => (e.state = .finalized ∨ e.state = .logged) → LoggedV s.disk n e.hash
  | _ => True

theorem LoggedV_mono_prim (s : State) (q : Prim) (n : Name) (h : String)
    (hl : LoggedV s.disk n h) : LoggedV (applyPrim s q).disk n h := by
  obtain ⟨r, hr, hn⟩ := hl
  exact ⟨r, log_mono_prim s q r hr, hn⟩

theorem LoggedV_mono_run (s : State) (ps : List Prim) (n : Name) (h : String)
    (hl : LoggedV s.disk n h) : LoggedV (run s ps).disk n h := by
  obtain ⟨r, hr, hn⟩ := hl
  exact ⟨r, mem_run_log s ps r hr, hn⟩

theorem LoggedHG_mono (s : State) (q p : Prim) (h : LoggedHG s p) : LoggedHG (applyPrim s q) p := by
  cases p <;> simp only [LoggedHG] at h ⊢
  intro hst
  exact LoggedV_mono_prim s q _ _ (h hst)

theorem LoggedHashInv_step (s : State) (p : Prim) (hi : LoggedHashInv s) (hg : LoggedHG s p) :
    LoggedHashInv (applyPrim s p) := by
  intro n e hc hst
  have keep : ∀ e0, s.mem.cache n = some e0 → e0.hash = e.hash → e0.state = e.state →
      LoggedV (applyPrim s p).disk n e.hash := by
    intro e0 h0 hh hs
    have := hi n e0 h0 (by rw [hs]; exact hst)
    rw [hh] at this
    exact LoggedV_mono_prim s p _ _ this
  cases p with
  | cacheSet m e' =>
    simp only [applyPrim, applyMem] at hc
    by_cases hnm : n = m
    · subst hnm
      simp only [upd_same, Option.some.injEq] at hc
      subst hc
      exact LoggedV_mono_prim s _ _ _ (hg (by simpa using hst))
    · simp only [upd_other _ _ _ _ hnm] at hc
      exact keep e hc rfl rfl
  | cacheDel m =>
    simp only [applyPrim, applyMem] at hc
    by_cases hnm : n = m
    · subst hnm; simp at hc
    · simp only [upd_other _ _ _ _ hnm] at hc
      exact keep e hc rfl rfl
  | nextFinalSet m =>
    simp only [applyPrim, applyMem] at hc
    split at hc
    · rename_i e0 he0
      by_cases hnm : n = m
      · subst hnm
        simp only [upd_same, Option.some.injEq] at hc
        subst hc
        exact keep e0 he0 rfl rfl
      · simp only [upd_other _ _ _ _ hnm] at hc
        exact keep e hc rfl rfl
    · exact keep e hc rfl rfl
  | _ =>
    all_goals
      first
      | (have hc' : s.mem.cache n = some e := by
           simpa [applyPrim, applyMem] using hc
         exact keep e hc' rfl rfl)
      | (simp only [applyPrim, applyMem] at hc
         split at hc <;> exact keep e hc rfl rfl)

theorem benign_LoggedHG (s : State) (p : Prim) (h : benign p = true) : LoggedHG s p := by
  cases p <;> simp only [LoggedHG, benign] at h ⊢
  intro hst
  rcases hst with h' | h' <;> simp [h'] at h

theorem GuardsH_of_forall (s : State) (ps : List Prim) (h : ∀ p ∈ ps, LoggedHG s p) :
    Guards LoggedHG s ps := Guards.of_forall_mono LoggedHG_mono ps s h

theorem GuardsH_of_all_benign (s : State) (ps : List Prim) (h : ps.all benign = true) :
    Guards LoggedHG s ps :=
  GuardsH_of_forall s ps (fun p hp => benign_LoggedHG s p (List.all_eq_true.mp h p hp))

/-! ### finalize -/

theorem toCache_LoggedHG (s : State) (m : Mem) (n : Name) (e : Entry) (st : FState) (now : Int)
    (hl : LoggedV s.disk n e.hash) : ∀ p ∈ toCache m n e st now, LoggedHG s p := by
  intro p hp
  unfold toCache at hp
  simp only [List.mem_append, List.mem_singleton] at hp
  rcases hp with (hp | hp) | hp
  · split at hp <;> simp at hp
    subst hp; trivial
  · subst hp; intro _; exact hl
  · split at hp <;> simp at hp
    subst hp; trivial

theorem finalize_GuardsH (s : State) (n : Name) (e : Entry) (now : Int) :
    Guards LoggedHG s (finalizeEffects s n e now) := by
  unfold finalizeEffects
  rw [List.append_assoc]
  refine Guards.append (ps := [Prim.lockAdd n]) ⟨trivial, trivial⟩ ?_
  refine Guards.append ?_ ⟨trivial, trivial⟩
  split
  · trivial
  · rw [List.append_assoc]
    apply Guards.append (ps := [Prim.timerDel n, Prim.logAppend ⟨n, e.renamed, e.hash, e.size, now, e.prev⟩])
    · exact ⟨trivial, trivial, trivial⟩
    · have hl : LoggedV (run (run s [Prim.lockAdd n])
          [Prim.timerDel n, Prim.logAppend ⟨n, e.renamed, e.hash, e.size, now, e.prev⟩]).disk n e.hash :=
        ⟨⟨n, e.renamed, e.hash, e.size, now, e.prev⟩, by simp [applyPrim, applyDisk], rfl, rfl⟩
      apply GuardsH_of_forall
      intro p hp
      split at hp
      · simp at hp
      · simp only [List.mem_append, List.mem_cons, List.mem_map, List.not_mem_nil, or_false] at hp
        rcases hp with (hp | hp) | (hp | hp) | hp
        · subst hp; trivial
        · exact toCache_LoggedHG _ _ _ { e with logged := some now } _ _ hl p hp
        · subst hp; trivial
        · subst hp; trivial
        · obtain ⟨w, _, hw⟩ := hp
          subst hw; trivial

theorem finh_GuardsH (s : State) (n : Name) (now : Int) :
    Guards LoggedHG s (finhEffects s n now) := by
  unfold finhEffects
  split
  · trivial
  · apply Guards.append (by exact ⟨trivial, trivial⟩)
    split
    · trivial
    · split
      · exact finalize_GuardsH _ _ _ _
      · apply GuardsH_of_all_benign
        simp only [List.all_append, Bool.and_eq_true]
        refine ⟨⟨by simp [benign], ?_⟩, by simp [benign]⟩
        split <;> simp [benign]

/-! ### buildCache -/

theorem buildCacheLoad_mem (recs : List LogRec) (cached : Name → Bool) (now : Int) :
    ∀ p ∈ buildCacheLoad recs cached now, ∃ r ∈ recs, p = Prim.cacheSet r.name
      { renamed := r.renamed, prev := "", hash := r.hash, size := r.size, state := .logged,
        logged := some r.time, time := now } := by
  induction recs generalizing cached with
  | nil => intro p hp; simp [buildCacheLoad] at hp
  | cons r rs ih =>
    intro p hp
    unfold buildCacheLoad at hp
    split at hp
    · obtain ⟨r', hr', h⟩ := ih _ p hp
      exact ⟨r', by simp [hr'], h⟩
    · simp only [List.mem_cons] at hp
      rcases hp with hp | hp
      · exact ⟨r, by simp, hp⟩
      · obtain ⟨r', hr', h⟩ := ih _ p hp
        exact ⟨r', by simp [hr'], h⟩

theorem buildCache_forall (s : State) (frm now : Int) :
    ∀ p ∈ buildCacheEffects s frm now, LoggedHG s p := by
  have key : ∀ (days : List Int) (f : Int → LogRec → Bool) (cached : Name → Bool) (tl : List Prim),
      (∀ p ∈ tl, benign p = true) →
      ∀ p ∈ buildCacheLoad (days.flatMap (fun d => s.disk.log.filter (f d))) cached now ++ tl,
        LoggedHG s p := by
    intro days f cached tl htl p hp
    simp only [List.mem_append] at hp
    rcases hp with hp | hp
    · obtain ⟨r, hr, rfl⟩ := buildCacheLoad_mem _ _ _ p hp
      simp only [List.mem_flatMap, List.mem_filter] at hr
      obtain ⟨_, _, hr, _⟩ := hr
      intro _
      exact ⟨r, hr, rfl, rfl⟩
    · exact benign_LoggedHG s p (htl p hp)
  unfold buildCacheEffects
  split
  · split
    · intro p hp; simp at hp
    · intro p hp
      rw [List.append_assoc] at hp
      refine key _ (fun d r => dayOf r.time == d && !(r.time > _)) _ _ ?_ p hp
      intro q hq
      simp only [List.mem_append, List.mem_singleton] at hq
      rcases hq with hq | hq
      · split at hq <;> simp at hq
        subst hq; rfl
      · subst hq; rfl
  · intro p hp
    rw [List.append_assoc] at hp
    refine key _ (fun d r => dayOf r.time == d && !(r.time > _)) _ _ ?_ p hp
    intro q hq
    simp only [List.mem_append, List.mem_singleton] at hq
    rcases hq with hq | hq
    · split at hq <;> simp at hq
      subst hq; rfl
    · subst hq; rfl

/-! ### folds whose steps only append benign primitives -/

theorem fold_benign {α : Type} (f : State × List Prim → α → State × List Prim)
    (hf : ∀ acc x, ∃ ps, ps.all benign = true ∧ (f acc x).2 = acc.2 ++ ps) :
    ∀ (l : List α) (acc : State × List Prim), acc.2.all benign = true →
      (l.foldl f acc).2.all benign = true := by
  intro l
  induction l with
  | nil => intro acc h; simpa using h
  | cons x xs ih =>
    intro acc h
    obtain ⟨ps1, hb1, h1⟩ := hf acc x
    simp only [List.foldl_cons]
    apply ih
    rw [h1]
    simp [h, hb1]

theorem cleanWaiting_benign (s : State) (names : List Name) :
    (cleanWaitingEffects s names).all benign = true := by
  unfold cleanWaitingEffects
  simp only
  apply fold_benign
  · intro acc c
    unfold cleanWaitingStep
    simp only
    split
    · exact ⟨[], rfl, by simp⟩
    · split
      · exact ⟨[], rfl, by simp⟩
      · refine ⟨_, ?_, rfl⟩
        simp only [List.all_append, Bool.and_eq_true, List.all_flatMap]
        refine ⟨by simp [benign], ?_⟩
        simp only [List.all_eq_true]
        intro w _
        split
        · split
          · rename_i f _ hv
            simp [benign, hv]
          · simp
        · simp
  · rfl

/-- Recover's test "a `.wait` file exists and its hash is the companion's" -/
def waitMatches (H : Body → String) (d : Disk) (n : Name) (c : Cmp) : Bool :=
  match d.wait n with | some i => H (d.body i) == c.hash | none => false

theorem recoverWalk_some (H : Body → String) (d : Disk) (n : Name) (c : Cmp)
    (hc : d.cmp n = some c) :
    recoverWalk H d n =
      if waitMatches H d n c then ([], .finalize c)
      else if d.full n ≠ none then ([], .validate c)
      else if d.part n ≠ none then
        (if isComplete c.parts c.size then ([Prim.renPartFull n], .validate c) else ([], .nothing))
      else ([Prim.rmCmp n], .nothing) := by
  unfold recoverWalk waitMatches
  rw [hc]
  rfl

theorem recoverWalk_none (H : Body → String) (d : Disk) (n : Name) (hc : d.cmp n = none) :
    recoverWalk H d n = ([], .nothing) := by
  unfold recoverWalk
  rw [hc]

/-- the walk of Recover touches the disk only by removing an orphan companion or renaming
    a complete partial -/
theorem recoverWalk_prims (H : Body → String) (d : Disk) (n : Name) :
    ∀ p ∈ (recoverWalk H d n).1, p = Prim.rmCmp n ∨ p = Prim.renPartFull n := by
  intro p hp
  cases hc : d.cmp n with
  | none => simp [recoverWalk_none H d n hc] at hp
  | some c =>
    rw [recoverWalk_some H d n c hc] at hp
    by_cases h1 : waitMatches H d n c = true
    · rw [if_pos h1] at hp; simp at hp
    · rw [if_neg h1] at hp
      by_cases h2 : d.full n ≠ none
      · rw [if_pos h2] at hp; simp at hp
      · rw [if_neg h2] at hp
        by_cases h3 : d.part n ≠ none
        · rw [if_pos h3] at hp
          by_cases h4 : isComplete c.parts c.size = true
          · rw [if_pos h4] at hp; simp at hp; exact Or.inr hp
          · rw [if_neg h4] at hp; simp at hp
        · rw [if_neg h3] at hp; simp at hp; exact Or.inl hp

theorem recoverWalk_benign (H : Body → String) (d : Disk) (n : Name) :
    (recoverWalk H d n).1.all benign = true := by
  simp only [List.all_eq_true]
  intro p hp
  rcases recoverWalk_prims H d n p hp with h | h <;> (subst h; rfl)

theorem recover_GuardsH (H : Body → String) (s : State) (now : Int) (names : List Name) :
    Guards LoggedHG s (recoverEffects H s now names) := by
  unfold recoverEffects
  simp only
  rw [List.append_assoc, List.append_assoc]
  apply Guards.append
  · apply GuardsH_of_all_benign
    simp only [List.all_append, Bool.and_eq_true, List.all_flatMap, List.all_map]
    refine ⟨by simp [benign], ?_⟩
    simp only [List.all_eq_true]
    intro n _
    exact recoverWalk_benign H s.disk n
  · apply Guards.append
    · exact GuardsH_of_forall _ _ (buildCache_forall _ _ _)
    · apply GuardsH_of_all_benign
      simp only [List.all_append, Bool.and_eq_true]
      refine ⟨?_, by simp [benign]⟩
      apply fold_benign
      · intro acc x
        exact ⟨_, recoverValOne_all benign H _ now x rfl rfl rfl
          (toCache_benign _ _ _ _ _ (by decide) (by decide)) (processCore_benign _ _ _ _ _), rfl⟩
      · apply fold_benign
        · intro acc x
          refine ⟨_, ?_, rfl⟩
          simp only [List.all_append, Bool.and_eq_true]
          exact ⟨toCache_benign _ _ _ _ _ (by decide) (by decide), by simp [benign]⟩
        · rfl

/-! ### all operations -/

theorem effects_GuardsH (H : Body → String) (s : State) (o : OpEv) :
    Guards LoggedHG s (effects H s o) := by
  cases o with
  | prepare n size now => exact GuardsH_of_all_benign _ _ (prepare_benign _ _ _ _)
  | recvOpen h n =>
    apply GuardsH_of_all_benign; simp only [effects]; split <;> simp [benign]
  | recvWrite h beg data now =>
    apply GuardsH_of_all_benign; simp only [effects]; split <;> simp [benign]
  | record n m beg fin now => exact GuardsH_of_all_benign _ _ (record_benign _ _ _ _ _ _)
  | process n now => exact GuardsH_of_all_benign _ _ (process_benign _ _ _ _)
  | finh n now => exact finh_GuardsH _ _ _
  | timer n => exact GuardsH_of_all_benign _ _ (timer_benign _ _)
  | buildCache frm now => exact GuardsH_of_forall _ _ (buildCache_forall _ _ _)
  | receivedQ n m => exact GuardsH_of_all_benign _ _ (received_benign _ _ _)
  | recover now names => exact recover_GuardsH _ _ _ _
  | cleanStrays now names => exact GuardsH_of_all_benign _ _ (cleanStrays_benign _ _ _)
  | cleanWaiting names => exact GuardsH_of_all_benign _ _ (cleanWaiting_benign _ _)
  | consume t => apply GuardsH_of_all_benign; simp [effects, benign]
  | corrupt n ext pos v =>
    apply GuardsH_of_all_benign; simp only [effects]; split <;> simp [benign]

/-- `finalized_implies_logged_hash`: in every reachable state (every crash point included)
    a cache entry in state finalized / logged has a log record of its name and hash. -/
theorem finalized_implies_logged_hash {H : Body → String} {s : State} (hr : Reachable H s) :
    LoggedHashInv s := by
  refine inv_reachable (H := H) (P := LoggedHashInv) (G := LoggedHG) ?_ LoggedHashInv_step ?_ ?_ hr
  · intro n e hc; simp [init] at hc
  · intro s _ n e hc; simp [crash] at hc
  · intro s o _ _; exact effects_GuardsH H s o

end Sts.Stage
