/-
  Lemmas behind Props/C06Class.lean: what `Recover` (stage/local.go) does to ONE name `n`, seen
  from the disk at the crash point.

  * `recover_state`: Recover as a composition of state transformers (walk, cache build, one
    step per entry of the finalize list, one step per entry of the validate list);
  * `Same n t t'`: everything `Recover` can see or change about `n` (its four staged files, the
    bodies, the log, the final directory, its queue items, the parked entries) is the same in
    `t` and `t'`; the steps of Recover that belong to other names are `Same n`;
  * the three outcomes for `n`: `Unlisted` (nothing cached but a log record, nothing queued),
    `Refused` (revalidated, hash mismatch: failed, `.full` kept), `OutHeld` (validated, `.wait`
    whose hash is the companion's, queued for finalising or parked);
  * what the finalize handler does to a `OutHeld` name (`held_finh`).
-/
import StsModel.Props.C02Stage
import StsModel.Props.C09Stage
import StsModel.Lemmas.StageOnce

namespace Sts.Stage
open Dur

/-! ## Recover as a composition of state transformers -/

/-- the primitives of the walk -/
def recP1 (H : Body → String) (d : Disk) (names : List Name) : List Prim :=
  [Prim.setReady false] ++ (names.map (fun n => (n, recoverWalk H d n))).flatMap (fun x => x.2.1)

/-- the finalize list of Recover -/
def recFins (H : Body → String) (d : Disk) (names : List Name) : List (Name × Cmp) :=
  (names.map (fun n => (n, recoverWalk H d n))).filterMap
    (fun x => match x.2.2 with | .finalize c => some (x.1, c) | _ => none)

/-- the validate list of Recover -/
def recVals (H : Body → String) (d : Disk) (names : List Name) : List (Name × Cmp) :=
  (names.map (fun n => (n, recoverWalk H d n))).filterMap
    (fun x => match x.2.2 with | .validate c => some (x.1, c) | _ => none)

/-- the state after the walk and the cache build -/
def recS2 (H : Body → String) (s : State) (now : Int) (names : List Name) : State :=
  run (run s (recP1 H s.disk names))
    (buildCacheEffects (run s (recP1 H s.disk names)) (minMtime s.disk now names - 86400) now)

/-- one entry of the finalize list: toCache(validated), finalizeQueue -/
def stF (now : Int) (t : State) (x : Name × Cmp) : State :=
  run t (toCache t.mem x.1 (Entry.ofCmp x.2 .validated) .validated now ++
    [Prim.fqPush x.1 { Entry.ofCmp x.2 .validated with time := now }])

/-- one entry of the validate list: the duplicate branch, or toCache(received) and process -/
def stV (H : Body → String) (now : Int) (t : State) (x : Name × Cmp) : State :=
  run t (recoverValOne H t now x)

theorem recover_state (H : Body → String) (s : State) (now : Int) (names : List Name) :
    run s (recoverEffects H s now names) =
      run ((recVals H s.disk names).foldl (stV H now)
        ((recFins H s.disk names).foldl (stF now) (recS2 H s now names))) [Prim.setReady true] := by
  unfold recoverEffects
  extract_lets walk p1 s1 oldest p2 s2 fins vals stepF r3 stepV r4
  have hr3 : r3.1 = run s2 r3.2 :=
    foldl_fst_run stepF (fun acc x => ⟨_, rfl⟩) s2 fins (s2, []) rfl
  have hr4 : r4.1 = run s2 r4.2 :=
    foldl_fst_run stepV (fun acc x => ⟨_, rfl⟩) s2 vals r3 hr3
  have hF : ∀ (xs : List (Name × Cmp)) (acc : State × List Prim),
      (xs.foldl stepF acc).1 = xs.foldl (stF now) acc.1 := by
    intro xs
    induction xs with
    | nil => intro acc; rfl
    | cons x xs ih => intro acc; simp only [List.foldl_cons]; rw [ih]; rfl
  have hV : ∀ (xs : List (Name × Cmp)) (acc : State × List Prim),
      (xs.foldl stepV acc).1 = xs.foldl (stV H now) acc.1 := by
    intro xs
    induction xs with
    | nil => intro acc; rfl
    | cons x xs ih => intro acc; simp only [List.foldl_cons]; rw [ih]; rfl
  rw [run_append, run_append, run_append]
  have e1 : run (run s p1) p2 = s2 := rfl
  rw [e1, ← hr4]
  have e2 : r4.1 = vals.foldl (stV H now) (fins.foldl (stF now) s2) := by
    show (vals.foldl stepV r3).1 = _
    rw [hV]
    show vals.foldl (stV H now) (fins.foldl stepF (s2, [])).1 = _
    rw [hF]
  rw [e2]
  rfl

/-! ## what Recover can see or change about one name -/

/-- everything about `n` that Recover looks at or changes, except its cache entry: the four
    staged files, bodies, log, final directory, written ranges, its items in the finalize queue,
    the validate queue and the parked entries. -/
structure Same (n : Name) (t t' : State) : Prop where
  part : t'.disk.part n = t.disk.part n
  full : t'.disk.full n = t.disk.full n
  wait : t'.disk.wait n = t.disk.wait n
  cmp : t'.disk.cmp n = t.disk.cmp n
  body : t'.disk.body = t.disk.body
  log : t'.disk.log = t.disk.log
  final : t'.disk.final = t.disk.final
  written : t'.disk.written = t.disk.written
  fq : ∀ q, (n, q) ∈ t'.mem.fq ↔ (n, q) ∈ t.mem.fq
  vq : t'.mem.vq = t.mem.vq
  waitL : t'.mem.wait = t.mem.wait

theorem Same.refl (n : Name) (t : State) : Same n t t :=
  ⟨rfl, rfl, rfl, rfl, rfl, rfl, rfl, rfl, fun _ => Iff.rfl, rfl, rfl⟩

theorem Same.trans {n : Name} {a b c : State} (h1 : Same n a b) (h2 : Same n b c) : Same n a c :=
  ⟨h2.part.trans h1.part, h2.full.trans h1.full, h2.wait.trans h1.wait, h2.cmp.trans h1.cmp,
   h2.body.trans h1.body, h2.log.trans h1.log, h2.final.trans h1.final,
   h2.written.trans h1.written, fun q => (h2.fq q).trans (h1.fq q), h2.vq.trans h1.vq,
   h2.waitL.trans h1.waitL⟩

/-- primitives of Recover that are `Same n` -/
def dq (n : Name) : Prim → Bool
  | .rmCmp m | .renPartFull m | .rmFull m | .renFullWait m | .fqPush m _ => m != n
  | .cacheSet .. | .lockAdd .. | .lockDel .. | .setReady .. | .cacheTimeSet .. | .cacheTimesSet .. => true
  | _ => false

theorem dq_prim (n : Name) (t : State) (p : Prim) (h : dq n p = true) : Same n t (applyPrim t p) := by
  cases p with
  | rmCmp m =>
    have hmn : n ≠ m := by intro e; subst e; simp [dq] at h
    constructor <;> simp [applyPrim, applyDisk, applyMem, upd_other _ _ _ _ hmn]
  | renPartFull m =>
    have hmn : n ≠ m := by intro e; subst e; simp [dq] at h
    constructor <;> simp only [applyPrim, applyDisk, applyMem] <;> (try split) <;>
      simp [upd_other _ _ _ _ hmn]
  | rmFull m =>
    have hmn : n ≠ m := by intro e; subst e; simp [dq] at h
    constructor <;> simp [applyPrim, applyDisk, applyMem, upd_other _ _ _ _ hmn]
  | renFullWait m =>
    have hmn : n ≠ m := by intro e; subst e; simp [dq] at h
    constructor <;> simp only [applyPrim, applyDisk, applyMem] <;> (try split) <;>
      simp [upd_other _ _ _ _ hmn]
  | fqPush m e =>
    have hmn : n ≠ m := by intro e; subst e; simp [dq] at h
    constructor <;> simp [applyPrim, applyDisk, applyMem, hmn]
  | cacheSet m e => constructor <;> simp [applyPrim, applyDisk, applyMem]
  | lockAdd m => constructor <;> simp [applyPrim, applyDisk, applyMem]
  | lockDel m => constructor <;> simp [applyPrim, applyDisk, applyMem]
  | setReady b => constructor <;> simp [applyPrim, applyDisk, applyMem]
  | cacheTimeSet b => constructor <;> simp [applyPrim, applyDisk, applyMem]
  | cacheTimesSet b => constructor <;> simp [applyPrim, applyDisk, applyMem]
  | _ => simp [dq] at h

theorem dq_run (n : Name) (ps : List Prim) (h : ps.all (dq n) = true) (t : State) :
    Same n t (run t ps) := by
  induction ps generalizing t with
  | nil => exact Same.refl n t
  | cons p ps ih =>
    simp only [List.all_cons, Bool.and_eq_true] at h
    rw [run_cons]
    exact (dq_prim n t p h.1).trans (ih h.2 _)

/-- `Same` and the cache entry of `n` -/
def SameC (n : Name) (t t' : State) : Prop := Same n t t' ∧ t'.mem.cache n = t.mem.cache n

theorem SameC.refl (n : Name) (t : State) : SameC n t t := ⟨Same.refl n t, rfl⟩

theorem SameC.trans {n : Name} {a b c : State} (h1 : SameC n a b) (h2 : SameC n b c) : SameC n a c :=
  ⟨h1.1.trans h2.1, h2.2.trans h1.2⟩

theorem sameC_run (n : Name) (ps : List Prim) (h1 : ps.all (dq n) = true)
    (h2 : ps.all (quietFor n) = true) (t : State) : SameC n t (run t ps) :=
  ⟨dq_run n ps h1 t, (quietFor_run n ps h2 t).1⟩

theorem toCache_dq (n : Name) (m : Mem) (x : Name) (e : Entry) (st : FState) (now : Int)
    (hl : e.logged = none) (hs : st ≠ .finalized) : (toCache m x e st now).all (dq n) = true := by
  rw [toCache_plain m x e st now hl hs]
  simp [dq]

theorem processCore_dq (n : Name) (H : Body → String) (s : State) (x : Name) (e : Entry)
    (now : Int) (hx : x ≠ n) (hl : e.logged = none) :
    (processCore H s x e now).all (dq n) = true := by
  unfold processCore
  simp only [List.all_append, Bool.and_eq_true]
  refine ⟨by simp [dq], ?_⟩
  split
  · simp
  · split
    · simp only [List.all_append, Bool.and_eq_true]
      exact ⟨by simp [dq, hx], toCache_dq n _ _ _ _ _ hl (by decide)⟩
    · split
      · exact toCache_dq n _ _ _ _ _ hl (by decide)
      · simp only [List.all_append, Bool.and_eq_true]
        exact ⟨⟨by simp [dq, hx], toCache_dq n _ _ _ _ _ hl (by decide)⟩, by simp [dq, hx]⟩

theorem stF_other (n : Name) (now : Int) (t : State) (x : Name × Cmp) (hx : x.1 ≠ n) :
    SameC n t (stF now t x) := by
  unfold stF
  apply sameC_run
  · simp only [List.all_append, Bool.and_eq_true]
    exact ⟨toCache_dq n _ _ _ _ _ rfl (by decide), by simp [dq, hx]⟩
  · simp only [List.all_append, Bool.and_eq_true]
    exact ⟨toCache_quietFor n _ _ _ _ _ hx rfl (by decide), by simp [quietFor]⟩

theorem stV_other (n : Name) (H : Body → String) (now : Int) (t : State) (x : Name × Cmp)
    (hx : x.1 ≠ n) : SameC n t (stV H now t x) := by
  unfold stV
  apply sameC_run
  · exact recoverValOne_all (dq n) H t now x (by simp [dq, hx]) (by simp [dq, hx]) rfl
      (toCache_dq n _ _ _ _ _ rfl (by decide)) (processCore_dq n H _ _ _ _ hx rfl)
  · exact recoverValOne_quietFor n H t now x hx

theorem foldl_sameC {α : Type} (n : Name) (f : State → α → State) (xs : List α)
    (h : ∀ t x, x ∈ xs → SameC n t (f t x)) (t : State) : SameC n t (xs.foldl f t) := by
  induction xs generalizing t with
  | nil => exact SameC.refl n t
  | cons x xs ih =>
    simp only [List.foldl_cons]
    exact (h t x (by simp)).trans (ih (fun t y hy => h t y (by simp [hy])) _)

/-! ## the three outcomes of Recover for one name -/

/-- nothing is cached for `n` but (possibly) its log record; it is in no queue and not parked -/
def Unlisted (t : State) (n : Name) : Prop :=
  (t.mem.cache n = none ∨ IsLogged n t) ∧ (∀ q, (n, q) ∉ t.mem.fq) ∧ (∀ q, (n, q) ∉ t.mem.vq) ∧
  isWaitingName t.mem n = false

/-- validated again and refused: cached as failed with the companion's hash, the complete file
    is still `<n>.full` and its bytes do not hash to the companion's hash; in no queue -/
def Refused (H : Body → String) (t : State) (n : Name) (c : Cmp) : Prop :=
  (∃ e, t.mem.cache n = some e ∧ e.state = .failed ∧ e.hash = c.hash) ∧
  (∃ i, t.disk.full n = some i ∧ H (t.disk.body i) ≠ c.hash) ∧
  t.disk.cmp n = some c ∧ (∀ q, (n, q) ∉ t.mem.fq) ∧ (∀ q, (n, q) ∉ t.mem.vq) ∧
  isWaitingName t.mem n = false

/-- validated and held: cached as validated with the companion's hash, `<n>.wait` exists and its
    bytes hash to the companion's hash, the companion is there, and `n` is queued for finalising
    or parked behind its predecessor; every queue item of `n` carries the companion's metadata -/
def OutHeld (H : Body → String) (t : State) (n : Name) (c : Cmp) : Prop :=
  (∃ e, t.mem.cache n = some e ∧ e.state = .validated ∧ e.hash = c.hash) ∧
  (∃ i, t.disk.wait n = some i ∧ H (t.disk.body i) = c.hash) ∧
  t.disk.cmp n = some c ∧
  ((∃ q, (n, q) ∈ t.mem.fq) ∨ isWaitingName t.mem n = true) ∧
  (∀ q, (n, q) ∈ t.mem.fq → q.hash = c.hash ∧ q.renamed = c.renamed ∧ q.prev = c.prev ∧
    q.size = c.size)

theorem Unlisted.same {n : Name} {t t' : State} (hs : SameC n t t') (h : Unlisted t n) :
    Unlisted t' n := by
  obtain ⟨h1, h2, h3, h4⟩ := h
  refine ⟨?_, ?_, ?_, ?_⟩
  · unfold IsLogged at h1 ⊢; rw [hs.2]; exact h1
  · intro q hq; exact h2 q ((hs.1.fq q).mp hq)
  · intro q hq; rw [hs.1.vq] at hq; exact h3 q hq
  · simp only [isWaitingName, hs.1.waitL] at h4 ⊢; exact h4

theorem Refused.same {H : Body → String} {n : Name} {c : Cmp} {t t' : State} (hs : SameC n t t')
    (h : Refused H t n c) : Refused H t' n c := by
  obtain ⟨h1, h2, h3, h4, h5, h6⟩ := h
  refine ⟨?_, ?_, ?_, ?_, ?_, ?_⟩
  · rw [hs.2]; exact h1
  · rw [hs.1.full, hs.1.body]; exact h2
  · rw [hs.1.cmp]; exact h3
  · intro q hq; exact h4 q ((hs.1.fq q).mp hq)
  · intro q hq; rw [hs.1.vq] at hq; exact h5 q hq
  · simp only [isWaitingName, hs.1.waitL] at h6 ⊢; exact h6

theorem OutHeld.same {H : Body → String} {n : Name} {c : Cmp} {t t' : State} (hs : SameC n t t')
    (h : OutHeld H t n c) : OutHeld H t' n c := by
  obtain ⟨h1, h2, h3, h4, h5⟩ := h
  refine ⟨?_, ?_, ?_, ?_, ?_⟩
  · rw [hs.2]; exact h1
  · rw [hs.1.wait, hs.1.body]; exact h2
  · rw [hs.1.cmp]; exact h3
  · rcases h4 with ⟨q, hq⟩ | h4
    · exact Or.inl ⟨q, (hs.1.fq q).mpr hq⟩
    · right; simp only [isWaitingName, hs.1.waitL] at h4 ⊢; exact h4
  · intro q hq; exact h5 q ((hs.1.fq q).mp hq)

/-- the three outcomes exclude each other (the cache entry tells them apart) -/
theorem outcomes_exclusive (H : Body → String) (t : State) (n : Name) (c c' : Cmp) :
    ¬ (Unlisted t n ∧ Refused H t n c) ∧ ¬ (Unlisted t n ∧ OutHeld H t n c) ∧
    ¬ (Refused H t n c ∧ OutHeld H t n c') := by
  refine ⟨?_, ?_, ?_⟩
  · rintro ⟨⟨h1, _⟩, ⟨⟨e, he, hst, _⟩, _⟩⟩
    rcases h1 with h1 | ⟨e', he', hst'⟩
    · rw [h1] at he; cases he
    · rw [he'] at he; cases he; rw [hst] at hst'; cases hst'
  · rintro ⟨⟨h1, _⟩, ⟨⟨e, he, hst, _⟩, _⟩⟩
    rcases h1 with h1 | ⟨e', he', hst'⟩
    · rw [h1] at he; cases he
    · rw [he'] at he; cases he; rw [hst] at hst'; cases hst'
  · rintro ⟨⟨⟨e, he, hst, _⟩, _⟩, ⟨⟨e', he', hst', _⟩, _⟩⟩
    rw [he] at he'; cases he'; rw [hst] at hst'; cases hst'

/-! ## the steps of Recover that belong to `n` itself -/

theorem stF_own (H : Body → String) (now : Int) (t : State) (n : Name) (c : Cmp) (i : Nat)
    (hw : t.disk.wait n = some i) (hh : H (t.disk.body i) = c.hash) (hc : t.disk.cmp n = some c)
    (hfq : ∀ q, (n, q) ∉ t.mem.fq) :
    OutHeld H (stF now t (n, c)) n c ∧ (stF now t (n, c)).disk = t.disk := by
  unfold stF
  rw [toCache_plain _ _ _ _ _ rfl (by decide)]
  simp only [List.cons_append, List.nil_append, run_cons, run_nil, applyPrim, applyMem, applyDisk]
  refine ⟨⟨⟨_, upd_same _ _ _, by simp [Entry.ofCmp]⟩, ⟨i, hw, hh⟩, hc,
    Or.inl ⟨_, List.mem_append_right _ (List.mem_singleton_self _)⟩, ?_⟩, trivial⟩
  intro q hq
  simp only [List.mem_append, List.mem_singleton, Prod.mk.injEq, true_and] at hq
  rcases hq with hq | hq
  · exact absurd hq (hfq q)
  · subst hq; simp [Entry.ofCmp]

/-- the entry Recover caches before it validates `n` again -/
def recvEntry (c : Cmp) (now : Int) : Entry :=
  { renamed := c.renamed, prev := c.prev, hash := c.hash, size := c.size, state := .received, time := now }

theorem stV_dup (H : Body → String) (now : Int) (t : State) (n : Name) (c : Cmp)
    (hd : recoverDup t.mem n c = true) :
    stV H now t (n, c) = run t [Prim.rmFull n, Prim.rmCmp n, Prim.lockDel n] := by
  unfold stV
  rcases recoverValOne_cases H t now (n, c) with ⟨_, h⟩ | ⟨h0, _⟩
  · rw [h]
  · rw [hd] at h0; cases h0

theorem stV_pass (H : Body → String) (now : Int) (t : State) (n : Name) (c : Cmp) (i : Nat)
    (hd : recoverDup t.mem n c = false)
    (hf : t.disk.full n = some i) (hh : H (t.disk.body i) = c.hash) :
    stV H now t (n, c) = run t [Prim.cacheSet n (recvEntry c now), Prim.lockAdd n, Prim.renFullWait n,
      Prim.cacheSet n { recvEntry c now with state := .validated },
      Prim.fqPush n { recvEntry c now with state := .validated }] := by
  unfold stV
  rcases recoverValOne_cases H t now (n, c) with ⟨h0, _⟩ | ⟨_, h⟩
  · rw [hd] at h0; cases h0
  rw [h, run_append]
  simp only
  rw [toCache_plain _ _ _ _ _ rfl (by decide)]
  unfold processCore
  have hst : stateOf (run t [Prim.cacheSet n { Entry.ofCmp c .received with state := .received, time := now }]).mem n
      = some .received := by
    simp [stateOf, applyPrim, applyMem]
  have hfull : (run t [Prim.cacheSet n { Entry.ofCmp c .received with state := .received, time := now }]).disk.full n
      = some i := by
    simpa [applyPrim, applyDisk] using hf
  have hb : (run t [Prim.cacheSet n { Entry.ofCmp c .received with state := .received, time := now }]).disk.body
      = t.disk.body := by
    simp [applyPrim, applyDisk]
  simp only [hst, ne_eq, not_true_eq_false, if_false, hfull]
  rw [if_neg (by rw [hb]; simp [Entry.ofCmp, hh])]
  rw [toCache_plain _ _ _ _ _ rfl (by decide)]
  rw [← run_append]
  rfl

theorem stV_fail (H : Body → String) (now : Int) (t : State) (n : Name) (c : Cmp) (i : Nat)
    (hd : recoverDup t.mem n c = false)
    (hf : t.disk.full n = some i) (hh : H (t.disk.body i) ≠ c.hash) :
    stV H now t (n, c) = run t [Prim.cacheSet n (recvEntry c now), Prim.lockAdd n,
      Prim.cacheSet n { recvEntry c now with state := .failed }] := by
  unfold stV
  rcases recoverValOne_cases H t now (n, c) with ⟨h0, _⟩ | ⟨_, h⟩
  · rw [hd] at h0; cases h0
  rw [h, run_append]
  simp only
  rw [toCache_plain _ _ _ _ _ rfl (by decide)]
  unfold processCore
  have hst : stateOf (run t [Prim.cacheSet n { Entry.ofCmp c .received with state := .received, time := now }]).mem n
      = some .received := by
    simp [stateOf, applyPrim, applyMem]
  have hfull : (run t [Prim.cacheSet n { Entry.ofCmp c .received with state := .received, time := now }]).disk.full n
      = some i := by
    simpa [applyPrim, applyDisk] using hf
  have hb : (run t [Prim.cacheSet n { Entry.ofCmp c .received with state := .received, time := now }]).disk.body
      = t.disk.body := by
    simp [applyPrim, applyDisk]
  simp only [hst, ne_eq, not_true_eq_false, if_false, hfull]
  rw [if_pos (by rw [hb]; simpa [Entry.ofCmp] using hh)]
  rw [toCache_plain _ _ _ _ _ rfl (by decide)]
  rw [← run_append]
  rfl

/-- the duplicate test says yes for an entry that is not cached or logged only if it is logged -/
theorem recoverDup_isLogged (t : State) (n : Name) (c : Cmp) (hNL : NL n t)
    (hd : recoverDup t.mem n c = true) :
    ∃ e, t.mem.cache n = some e ∧ e.state = .logged ∧ e.hash = c.hash := by
  unfold recoverDup at hd
  rcases hNL with h | ⟨e, he, hst⟩
  · rw [h] at hd; cases hd
  · rw [he] at hd
    simp only [decide_eq_true_eq] at hd
    exact ⟨e, he, hst, hd.2⟩

theorem stV_own (H : Body → String) (now : Int) (t : State) (n : Name) (c : Cmp) (i : Nat)
    (hf : t.disk.full n = some i) (hc : t.disk.cmp n = some c)
    (hfq : ∀ q, (n, q) ∉ t.mem.fq) (hvq : ∀ q, (n, q) ∉ t.mem.vq)
    (hwl : isWaitingName t.mem n = false) (hNL : NL n t) :
    (recoverDup t.mem n c = true →
      Unlisted (stV H now t (n, c)) n ∧ (stV H now t (n, c)).disk.full n = none ∧
      (stV H now t (n, c)).disk.cmp n = none ∧
      (stV H now t (n, c)).disk.wait n = t.disk.wait n ∧
      (stV H now t (n, c)).disk.part n = t.disk.part n ∧
      (stV H now t (n, c)).disk.body = t.disk.body ∧
      ∃ e, (stV H now t (n, c)).mem.cache n = some e ∧ e.state = .logged ∧ e.hash = c.hash) ∧
    (recoverDup t.mem n c = false → H (t.disk.body i) = c.hash →
      OutHeld H (stV H now t (n, c)) n c ∧
      (stV H now t (n, c)).disk.wait n = some i ∧ (stV H now t (n, c)).disk.full n = none ∧
      (stV H now t (n, c)).disk.part n = t.disk.part n) ∧
    (recoverDup t.mem n c = false → H (t.disk.body i) ≠ c.hash →
      Refused H (stV H now t (n, c)) n c ∧ (stV H now t (n, c)).disk = t.disk) := by
  refine ⟨?_, ?_, ?_⟩
  · intro hd
    obtain ⟨e, he, hst, hh⟩ := recoverDup_isLogged t n c hNL hd
    rw [stV_dup H now t n c hd]
    simp only [run_cons, run_nil, applyPrim, applyMem, applyDisk]
    refine ⟨⟨Or.inr ⟨e, he, hst⟩, hfq, hvq, hwl⟩, upd_same _ _ _, upd_same _ _ _, trivial, trivial,
      trivial, e, he, hst, hh⟩
  · intro hd hh
    rw [stV_pass H now t n c i hd hf hh]
    simp only [run_cons, run_nil, applyPrim, applyMem, applyDisk, hf]
    refine ⟨⟨⟨_, upd_same _ _ _, rfl, rfl⟩, ⟨i, upd_same _ _ _, hh⟩, hc,
      Or.inl ⟨_, List.mem_append_right _ (List.mem_singleton_self _)⟩, ?_⟩,
      upd_same _ _ _, upd_same _ _ _, trivial⟩
    intro q hq
    simp only [List.mem_append, List.mem_singleton, Prod.mk.injEq, true_and] at hq
    rcases hq with hq | hq
    · exact absurd hq (hfq q)
    · subst hq; simp [recvEntry]
  · intro hd hh
    rw [stV_fail H now t n c i hd hf hh]
    simp only [run_cons, run_nil, applyPrim, applyMem, applyDisk]
    exact ⟨⟨⟨_, upd_same _ _ _, rfl, rfl⟩, ⟨i, hf, hh⟩, hc, hfq, hvq, hwl⟩, trivial⟩

/-! ## the skeleton of Recover around one name that is walked once -/

def walkPs (H : Body → String) (d : Disk) (ns : List Name) : List Prim :=
  (ns.map (fun n => (n, recoverWalk H d n))).flatMap (fun x => x.2.1)

theorem recP1_split (H : Body → String) (d : Disk) (ns1 ns2 : List Name) (n : Name) :
    recP1 H d (ns1 ++ n :: ns2) =
      ([Prim.setReady false] ++ walkPs H d ns1) ++ (recoverWalk H d n).1 ++ walkPs H d ns2 := by
  simp [recP1, walkPs, List.map_append, List.flatMap_append]

theorem walkPs_other (H : Body → String) (d : Disk) (ns : List Name) (n : Name) (hn : n ∉ ns) :
    (walkPs H d ns).all (dq n) = true ∧ (walkPs H d ns).all (quietFor n) = true := by
  have : ∀ p ∈ walkPs H d ns, dq n p = true ∧ quietFor n p = true := by
    intro p hp
    simp only [walkPs, List.mem_flatMap, List.mem_map] at hp
    obtain ⟨x, ⟨m, hm, rfl⟩, hp⟩ := hp
    have hmn : m ≠ n := by intro e; subst e; exact hn hm
    rcases recoverWalk_prims H d m p hp with h | h <;> subst h <;> simp [dq, quietFor, hmn]
  exact ⟨List.all_eq_true.mpr (fun p hp => (this p hp).1), List.all_eq_true.mpr (fun p hp => (this p hp).2)⟩

/-- the step of the finalize list that belongs to `n` (if any) -/
def ownF (H : Body → String) (d : Disk) (now : Int) (n : Name) (t : State) : State :=
  match (recoverWalk H d n).2 with
  | .finalize c => stF now t (n, c)
  | _ => t

/-- the step of the validate list that belongs to `n` (if any) -/
def ownV (H : Body → String) (d : Disk) (now : Int) (n : Name) (t : State) : State :=
  match (recoverWalk H d n).2 with
  | .validate c => stV H now t (n, c)
  | _ => t

theorem recFins_fold_split (H : Body → String) (d : Disk) (now : Int) (ns1 ns2 : List Name) (n : Name)
    (t : State) :
    (recFins H d (ns1 ++ n :: ns2)).foldl (stF now) t =
      (recFins H d ns2).foldl (stF now) (ownF H d now n ((recFins H d ns1).foldl (stF now) t)) := by
  simp only [recFins, List.map_append, List.map_cons, List.filterMap_append, List.filterMap_cons,
    List.foldl_append, ownF]
  cases h : (recoverWalk H d n).2 <;> simp

theorem recVals_fold_split (H : Body → String) (d : Disk) (now : Int) (ns1 ns2 : List Name) (n : Name)
    (t : State) :
    (recVals H d (ns1 ++ n :: ns2)).foldl (stV H now) t =
      (recVals H d ns2).foldl (stV H now) (ownV H d now n ((recVals H d ns1).foldl (stV H now) t)) := by
  simp only [recVals, List.map_append, List.map_cons, List.filterMap_append, List.filterMap_cons,
    List.foldl_append, ownV]
  cases h : (recoverWalk H d n).2 <;> simp

theorem mem_recFins (H : Body → String) (d : Disk) (ns : List Name) (x : Name × Cmp)
    (h : x ∈ recFins H d ns) : x.1 ∈ ns ∧ (recoverWalk H d x.1).2 = .finalize x.2 := by
  simp only [recFins, List.mem_filterMap, List.mem_map] at h
  obtain ⟨y, ⟨m, hm, rfl⟩, hy⟩ := h
  simp only at hy
  split at hy
  · rename_i c hc
    simp only [Option.some.injEq] at hy
    subst hy
    exact ⟨hm, hc⟩
  · cases hy

theorem mem_recVals (H : Body → String) (d : Disk) (ns : List Name) (x : Name × Cmp)
    (h : x ∈ recVals H d ns) : x.1 ∈ ns ∧ (recoverWalk H d x.1).2 = .validate x.2 := by
  simp only [recVals, List.mem_filterMap, List.mem_map] at h
  obtain ⟨y, ⟨m, hm, rfl⟩, hy⟩ := h
  simp only at hy
  split at hy
  · rename_i c hc
    simp only [Option.some.injEq] at hy
    subst hy
    exact ⟨hm, hc⟩
  · cases hy

theorem recFins_foldl_same (H : Body → String) (d : Disk) (now : Int) (ns : List Name) (n : Name)
    (hn : n ∉ ns) (t : State) : SameC n t ((recFins H d ns).foldl (stF now) t) :=
  foldl_sameC n (stF now) _ (fun t x hx => stF_other n now t x (by
    intro e; exact hn (e ▸ (mem_recFins H d ns x hx).1))) t

theorem recVals_foldl_same (H : Body → String) (d : Disk) (now : Int) (ns : List Name) (n : Name)
    (hn : n ∉ ns) (t : State) : SameC n t ((recVals H d ns).foldl (stV H now) t) :=
  foldl_sameC n (stV H now) _ (fun t x hx => stV_other n H now t x (by
    intro e; exact hn (e ▸ (mem_recVals H d ns x hx).1))) t

/-- Recover, seen from a name `n` that the walk visits once: steps of other names (`SameC n`),
    the walk's own step for `n`, the cache build, and the step of the finalize list or of the
    validate list that belongs to `n`. -/
theorem recover_skeleton (H : Body → String) (s : State) (now : Int) (ns1 ns2 : List Name) (n : Name)
    (h1 : n ∉ ns1) (h2 : n ∉ ns2) :
    ∃ a s1 f1 v1 : State,
      SameC n s a ∧ SameC n (run a (recoverWalk H s.disk n).1) s1 ∧
      SameC n (run s1 (buildCacheEffects s1 (minMtime s.disk now (ns1 ++ n :: ns2) - 86400) now)) f1 ∧
      SameC n (ownF H s.disk now n f1) v1 ∧
      SameC n (ownV H s.disk now n v1) (run s (recoverEffects H s now (ns1 ++ n :: ns2))) ∧
      run s1 (buildCacheEffects s1 (minMtime s.disk now (ns1 ++ n :: ns2) - 86400) now) =
        recS2 H s now (ns1 ++ n :: ns2) := by
  rw [recover_state]
  have hS2 : recS2 H s now (ns1 ++ n :: ns2) =
      run (run (run (run s ([Prim.setReady false] ++ walkPs H s.disk ns1)) (recoverWalk H s.disk n).1)
        (walkPs H s.disk ns2))
        (buildCacheEffects (run (run (run s ([Prim.setReady false] ++ walkPs H s.disk ns1))
          (recoverWalk H s.disk n).1) (walkPs H s.disk ns2))
          (minMtime s.disk now (ns1 ++ n :: ns2) - 86400) now) := by
    unfold recS2
    rw [recP1_split, run_append, run_append]
  rw [hS2, recFins_fold_split, recVals_fold_split]
  obtain ⟨w1a, w1b⟩ := walkPs_other H s.disk ns1 n h1
  obtain ⟨w2a, w2b⟩ := walkPs_other H s.disk ns2 n h2
  generalize ha : run s ([Prim.setReady false] ++ walkPs H s.disk ns1) = a
  generalize hs1 : run (run a (recoverWalk H s.disk n).1) (walkPs H s.disk ns2) = s1
  generalize hs2 : run s1 (buildCacheEffects s1 (minMtime s.disk now (ns1 ++ n :: ns2) - 86400) now) = s2
  generalize hf1 : (recFins H s.disk ns1).foldl (stF now) s2 = f1
  generalize hv1 : (recVals H s.disk ns1).foldl (stV H now)
    ((recFins H s.disk ns2).foldl (stF now) (ownF H s.disk now n f1)) = v1
  refine ⟨a, s1, f1, v1, ?_, ?_, ?_, ?_, ?_, hs2⟩
  · rw [← ha]
    exact sameC_run n ([Prim.setReady false] ++ walkPs H s.disk ns1)
      (by simp only [List.all_append, Bool.and_eq_true]; exact ⟨by simp [dq], w1a⟩)
      (by simp only [List.all_append, Bool.and_eq_true]; exact ⟨by simp [quietFor], w1b⟩) s
  · rw [← hs1]; exact sameC_run n _ w2a w2b _
  · rw [hs2, ← hf1]; exact recFins_foldl_same H s.disk now ns1 n h1 _
  · rw [← hv1]
    exact (recFins_foldl_same H s.disk now ns2 n h2 _).trans (recVals_foldl_same H s.disk now ns1 n h1 _)
  · exact (recVals_foldl_same H s.disk now ns2 n h2 _).trans
      (sameC_run n [Prim.setReady true] (by simp [dq]) (by simp [quietFor]) _)

/-! ## the cache build, seen from one name -/

theorem buildCache_dq (n : Name) (t : State) (frm now : Int) :
    (buildCacheEffects t frm now).all (dq n) = true := by
  simp only [List.all_eq_true]
  intro p hp
  rcases buildCacheEffects_spec t frm now p hp with ⟨r, _, e, rfl⟩ | ⟨l, rfl⟩ | ⟨x, rfl⟩ <;> rfl

theorem buildCache_NL (n : Name) (t : State) (frm now : Int) (h : NL n t) :
    NL n (run t (buildCacheEffects t frm now)) := by
  cases hct : t.mem.cacheTime with
  | none =>
    rw [buildCacheEffects_none t frm now hct]
    exact (load_core t _ now _ n (bcTail_noCache _ _ _ _)).1 h
  | some ct =>
    by_cases hle : ct ≤ frm
    · rw [buildCacheEffects_some_le t frm now ct hct hle]; exact h
    · rw [buildCacheEffects_some_gt t frm now ct hct hle]
      exact (load_core t _ now _ n (bcTail_noCache _ _ _ _)).1 h

/-- `n` is in no queue and not parked -/
def Fresh (n : Name) (t : State) : Prop :=
  (∀ q, (n, q) ∉ t.mem.fq) ∧ (∀ q, (n, q) ∉ t.mem.vq) ∧ isWaitingName t.mem n = false

theorem Fresh.same {n : Name} {t t' : State} (hs : Same n t t') (h : Fresh n t) : Fresh n t' := by
  obtain ⟨h2, h3, h4⟩ := h
  refine ⟨?_, ?_, ?_⟩
  · intro q hq; exact h2 q ((hs.fq q).mp hq)
  · intro q hq; rw [hs.vq] at hq; exact h3 q hq
  · simp only [isWaitingName, hs.waitL] at h4 ⊢; exact h4

theorem Fresh_crash (n : Name) (s0 : State) : Fresh n (crash s0) := by
  refine ⟨?_, ?_, ?_⟩ <;> simp [crash, isWaitingName]

/-- the walk's own step for `n` changes nothing in memory -/
theorem walkOwn_mem (H : Body → String) (d : Disk) (n : Name) (a : State) :
    (run a (recoverWalk H d n).1).mem = a.mem := by
  rcases recover_walk_prims_cases H d n with h | h | h <;> rw [h] <;> rfl

/-- Recover from a crash image, up to the steps that belong to `n` -/
theorem recover_prefix (H : Body → String) (s0 : State) (now : Int) (ns1 ns2 : List Name) (n : Name)
    (h1 : n ∉ ns1) (h2 : n ∉ ns2) :
    ∃ a f1 v1 : State,
      SameC n (crash s0) a ∧ Same n (run a (recoverWalk H s0.disk n).1) f1 ∧ NL n f1 ∧ Fresh n f1 ∧
      SameC n (ownF H s0.disk now n f1) v1 ∧
      SameC n (ownV H s0.disk now n v1)
        (run (crash s0) (recoverEffects H (crash s0) now (ns1 ++ n :: ns2))) ∧
      f1.mem.cache n = (recS2 H (crash s0) now (ns1 ++ n :: ns2)).mem.cache n := by
  obtain ⟨a, s1, f1, v1, ha, hs1, hf1, hv1, ht, hS2⟩ := recover_skeleton H (crash s0) now ns1 ns2 n h1 h2
  have hd : (crash s0).disk = s0.disk := rfl
  rw [hd] at hs1 hf1 hv1 ht hS2
  have hsame : Same n (run a (recoverWalk H s0.disk n).1) f1 :=
    hs1.1.trans ((dq_run n _ (buildCache_dq n s1 _ now) s1).trans hf1.1)
  have hcache : s1.mem.cache n = none := by
    rw [hs1.2, walkOwn_mem, ha.2]; rfl
  have hNL : NL n f1 := by
    have := buildCache_NL n s1 (minMtime s0.disk now (ns1 ++ n :: ns2) - 86400) now (Or.inl hcache)
    unfold NL IsLogged at this ⊢
    rw [hf1.2]; exact this
  have hfresh : Fresh n (run a (recoverWalk H s0.disk n).1) := by
    have hfa : Fresh n a := (Fresh_crash n s0).same ha.1
    unfold Fresh at hfa ⊢
    rw [walkOwn_mem]; exact hfa
  exact ⟨a, f1, v1, ha, hsame, hNL, hfresh.same hsame, hv1, ht, by rw [hf1.2, hS2]⟩

/-! ## the outcome of Recover for a name, by the walk's classification of the crash image -/

theorem split_names (names : List Name) (n : Name) (hn : n ∈ names) (hnd : names.Nodup) :
    ∃ ns1 ns2, names = ns1 ++ n :: ns2 ∧ n ∉ ns1 ∧ n ∉ ns2 := by
  obtain ⟨ns1, ns2, rfl⟩ := List.append_of_mem hn
  refine ⟨ns1, ns2, rfl, ?_, ?_⟩
  · intro h
    have := (List.nodup_append.mp hnd).2.2 n h n (by simp)
    exact this rfl
  · have := (List.nodup_append.mp hnd).2.1
    exact (List.nodup_cons.mp this).1

/-- the staged files of `n` and all bodies are the same in `d` and `d'` -/
structure FilesEq (n : Name) (d d' : Disk) : Prop where
  part : d'.part n = d.part n
  full : d'.full n = d.full n
  wait : d'.wait n = d.wait n
  cmp : d'.cmp n = d.cmp n
  body : d'.body = d.body

theorem FilesEq.refl (n : Name) (d : Disk) : FilesEq n d d := ⟨rfl, rfl, rfl, rfl, rfl⟩

theorem FilesEq.trans {n : Name} {a b c : Disk} (h1 : FilesEq n a b) (h2 : FilesEq n b c) :
    FilesEq n a c :=
  ⟨h2.part.trans h1.part, h2.full.trans h1.full, h2.wait.trans h1.wait, h2.cmp.trans h1.cmp,
   h2.body.trans h1.body⟩

theorem Same.files {n : Name} {t t' : State} (h : Same n t t') : FilesEq n t.disk t'.disk :=
  ⟨h.part, h.full, h.wait, h.cmp, h.body⟩

theorem FilesEq.of_eq {n : Name} {d d' : Disk} (h : d' = d) : FilesEq n d d' := by
  subst h; exact FilesEq.refl n _

theorem walk_of_finalize (H : Body → String) (d : Disk) (n : Name) (c : Cmp)
    (h : (recoverWalk H d n).2 = .finalize c) : (recoverWalk H d n).1 = [] := by
  obtain ⟨hc, hw⟩ := (recover_finalize_iff H d n c).mp h
  rw [((recover_walk_cases H d n).2 c hc).1 ((waitMatches_iff H d n c).mpr hw)]

/-- **class "finalize".** The crash image has `<n>.wait` whose hash is the companion's: after
    Recover `n` is `OutHeld`; its staged files are untouched. -/
theorem recover_finalize_outcome (H : Body → String) (s0 : State) (now : Int) (names : List Name)
    (n : Name) (c : Cmp) (hn : n ∈ names) (hnd : names.Nodup)
    (hcls : (recoverWalk H s0.disk n).2 = .finalize c) :
    OutHeld H (run (crash s0) (recoverEffects H (crash s0) now names)) n c ∧
    FilesEq n s0.disk (run (crash s0) (recoverEffects H (crash s0) now names)).disk := by
  obtain ⟨ns1, ns2, rfl, h1, h2⟩ := split_names names n hn hnd
  obtain ⟨a, f1, v1, ha, hsame, hNL, hfresh, hv1, ht, hcache⟩ := recover_prefix H s0 now ns1 ns2 n h1 h2
  rw [walk_of_finalize H s0.disk n c hcls, run_nil] at hsame
  have hF : ownF H s0.disk now n f1 = stF now f1 (n, c) := by simp only [ownF, hcls]
  have hV : ownV H s0.disk now n v1 = v1 := by simp only [ownV, hcls]
  rw [hF] at hv1
  rw [hV] at ht
  obtain ⟨hc, i, hw, hh⟩ := (recover_finalize_iff H s0.disk n c).mp hcls
  have hf0 : FilesEq n s0.disk f1.disk := (FilesEq.trans ha.1.files hsame.files)
  obtain ⟨hheld, hdisk⟩ := stF_own H now f1 n c i (by rw [hf0.wait]; exact hw)
    (by rw [hf0.body]; exact hh) (by rw [hf0.cmp]; exact hc) hfresh.1
  exact ⟨(hheld.same hv1).same ht,
    ((hf0.trans (FilesEq.of_eq hdisk)).trans hv1.1.files).trans ht.1.files⟩

/-- the complete file Recover validates again: `<n>.full`, else the (complete) `<n>.part` -/
def revalIno (d : Disk) (n : Name) : Option Nat :=
  match d.full n with
  | some i => some i
  | none => d.part n

/-- the walk's own step for a name of the validate list leaves `<n>.full` = the file to validate -/
theorem walk_of_validate (H : Body → String) (d : Disk) (n : Name) (c : Cmp)
    (h : (recoverWalk H d n).2 = .validate c) (a : State) (ha : FilesEq n d a.disk) :
    ∃ i, revalIno d n = some i ∧ (run a (recoverWalk H d n).1).disk.full n = some i ∧
      (run a (recoverWalk H d n).1).disk.cmp n = some c ∧
      (run a (recoverWalk H d n).1).disk.wait n = d.wait n ∧
      (run a (recoverWalk H d n).1).disk.body = d.body := by
  obtain ⟨hc, hw, hfp⟩ := (recover_validate_iff H d n c).mp h
  have hw' : waitMatches H d n c = false := by
    cases hx : waitMatches H d n c with
    | true => exact absurd ((waitMatches_iff H d n c).mp hx) hw
    | false => rfl
  obtain ⟨_, hb, hc3, _, _⟩ := (recover_walk_cases H d n).2 c hc
  cases hf : d.full n with
  | some i =>
    rw [hb hw' (by simp [hf])]
    exact ⟨i, by simp [revalIno, hf], by rw [run_nil, ha.full, hf], by rw [run_nil, ha.cmp, hc],
      by rw [run_nil, ha.wait], by rw [run_nil, ha.body]⟩
  | none =>
    rcases hfp with hfp | ⟨hp, hcomp⟩
    · exact absurd hf hfp
    · rw [hc3 hw' hf hp hcomp]
      cases hpi : d.part n with
      | none => exact absurd hpi hp
      | some i =>
        have hpa : a.disk.part n = some i := by rw [ha.part, hpi]
        refine ⟨i, by simp [revalIno, hf, hpi], ?_, ?_, ?_, ?_⟩ <;>
          simp only [run_cons, run_nil, applyPrim, applyDisk, hpa, upd_same]
        · rw [ha.cmp, hc]
        · rw [ha.wait]
        · rw [ha.body]

theorem recoverDup_congr (m m' : Mem) (n : Name) (c : Cmp) (h : m'.cache n = m.cache n) :
    recoverDup m' n c = recoverDup m n c := by
  unfold recoverDup
  rw [h]

theorem buildCache_mem (t : State) (frm now : Int) :
    (buildCacheEffects t frm now).all (fun p => !p.durable) = true := by
  simp only [List.all_eq_true]
  intro p hp
  rcases buildCacheEffects_spec t frm now p hp with ⟨r, _, e, rfl⟩ | ⟨l, rfl⟩ | ⟨x, rfl⟩ <;> rfl

theorem recP1_walkPrim (H : Body → String) (d : Disk) (names : List Name) :
    (recP1 H d names).all walkPrim = true := by
  simp only [recP1, List.all_append, List.all_flatMap, Bool.and_eq_true]
  refine ⟨by simp [walkPrim], ?_⟩
  simp only [List.all_eq_true]
  intro x hx
  simp only [List.mem_map] at hx
  obtain ⟨m, _, rfl⟩ := hx
  intro p hp
  rcases recoverWalk_prims H d m p hp with h | h <;> (subst h; rfl)

/-- after the walk and the cache build of Recover on a crash image the log is the log at the
    crash point and every logged cache entry is backed by it -/
theorem recS2_logged (H : Body → String) (s0 : State) (now : Int) (names : List Name) :
    (recS2 H (crash s0) now names).disk.log = s0.disk.log ∧
    LoggedHashInv (recS2 H (crash s0) now names) := by
  unfold recS2
  have hd : (crash s0).disk = s0.disk := rfl
  rw [hd]
  have hp1 := recP1_walkPrim H s0.disk names
  constructor
  · rw [run_disk_of_mem _ _ (buildCache_mem _ _ _), (run_walkPrim _ hp1 (crash s0)).2.2]; rfl
  · have h0 : LoggedHashInv (crash s0) := by intro n e he; simp [crash] at he
    have h1 : LoggedHashInv (run (crash s0) (recP1 H s0.disk names)) := by
      apply inv_run LoggedHashInv_step _ _ h0
      apply GuardsH_of_all_benign
      simp only [List.all_eq_true] at hp1 ⊢
      intro p hp
      have := hp1 p hp
      cases p <;> simp_all [walkPrim, benign]
    exact inv_run LoggedHashInv_step _ _ h1 (GuardsH_of_forall _ _ (buildCache_forall _ _ _))

/-- a list of cache writes of entries built from records: an entry of `n` that is there
    afterwards and was not there before carries the hash of a record of `n` -/
theorem loaded_hash (n : Name) (recs : List LogRec) (now : Int) (ps : List Prim)
    (h : ∀ p ∈ ps, ∃ r ∈ recs, p = Prim.cacheSet r.name
      { renamed := r.renamed, prev := "", hash := r.hash, size := r.size, state := .logged,
        logged := some r.time, time := now })
    (t : State) (P : Entry → Prop) (hP : ∀ e, t.mem.cache n = some e → P e)
    (hrec : ∀ r ∈ recs, r.name = n → ∀ e : Entry, e.hash = r.hash → e.state = .logged → P e) :
    ∀ e, (run t ps).mem.cache n = some e → P e := by
  induction ps generalizing t with
  | nil => exact hP
  | cons p ps ih =>
    rw [run_cons]
    apply ih (fun q hq => h q (by simp [hq]))
    obtain ⟨r, hr, rfl⟩ := h p (by simp)
    intro e he
    simp only [applyPrim, applyMem] at he
    by_cases hnr : n = r.name
    · subst hnr
      simp only [upd_same, Option.some.injEq] at he
      subst he
      exact hrec r hr rfl _ rfl rfl
    · simp only [upd_other _ _ _ _ hnr] at he
      exact hP e he

/-- what Recover's cache build loads for `n` on a crash image: only logged entries carrying the
    hash of a record of `n` from the days it reads; and an entry IS loaded when there is such a
    record. (`buildRecs s0 frm now` = the records of the day files from `frm` = oldest companion
    − 1 day to `now`.) -/
theorem recS2_loaded (H : Body → String) (s0 : State) (now : Int) (names : List Name) (n : Name) :
    (∀ e, (recS2 H (crash s0) now names).mem.cache n = some e →
      e.state = .logged ∧
      ∃ r ∈ buildRecs s0 (minMtime s0.disk now names - 86400) now, r.name = n ∧ e.hash = r.hash) ∧
    ((∃ r ∈ buildRecs s0 (minMtime s0.disk now names - 86400) now, r.name = n) →
      ∃ e, (recS2 H (crash s0) now names).mem.cache n = some e) := by
  unfold recS2
  have hd : (crash s0).disk = s0.disk := rfl
  rw [hd]
  obtain ⟨hc1, hct1, hlog1⟩ := run_walkPrim _ (recP1_walkPrim H s0.disk names) (crash s0)
  generalize hs1 : run (crash s0) (recP1 H s0.disk names) = s1 at *
  have hcache1 : s1.mem.cache n = none := by rw [hc1]; rfl
  have hct1' : s1.mem.cacheTime = none := hct1
  have hrecs : buildRecs s1 (minMtime s0.disk now names - 86400) now =
      buildRecs s0 (minMtime s0.disk now names - 86400) now := buildRecs_congr s0 s1 _ _ hlog1
  rw [buildCacheEffects_none s1 _ now hct1', hrecs]
  constructor
  · intro e he
    rw [run_append, run_noCache _ (bcTail_noCache _ _ _ _)] at he
    exact loaded_hash n _ now _ (buildCacheLoad_mem _ _ now) s1
      (fun e => e.state = .logged ∧
        ∃ r ∈ buildRecs s0 (minMtime s0.disk now names - 86400) now, r.name = n ∧ e.hash = r.hash)
      (by intro e he; rw [hcache1] at he; cases he)
      (fun r hr hrn e heh hst => ⟨hst, r, hr, hrn, heh⟩) e he
  · intro hex
    obtain ⟨e, he, _⟩ := (load_core s1 _ now _ n (bcTail_noCache s1
      (buildRecs s0 (minMtime s0.disk now names - 86400) now) (minMtime s0.disk now names - 86400) now)).2.2
        (Or.inl hcache1) hex
    exact ⟨e, he⟩

/-- a disk-level condition for `Remembered`: the receive log has a record of `n` in the days
    Recover's cache build reads, and every record of `n` in those days carries the companion's
    hash (the first record of a name wins in buildCache). -/
theorem remembered_of_window (H : Body → String) (s0 : State) (now : Int) (names : List Name)
    (n : Name) (c : Cmp)
    (hex : ∃ r ∈ buildRecs s0 (minMtime s0.disk now names - 86400) now, r.name = n)
    (hone : ∀ r ∈ buildRecs s0 (minMtime s0.disk now names - 86400) now, r.name = n → r.hash = c.hash) :
    recoverDup (recS2 H (crash s0) now names).mem n c = true := by
  obtain ⟨h1, h2⟩ := recS2_loaded H s0 now names n
  obtain ⟨e, he⟩ := h2 hex
  obtain ⟨hst, r, hr, hrn, hh⟩ := h1 e he
  unfold recoverDup
  rw [he]
  simp [hst, FState.num, hh, hone r hr hrn]

theorem buildCacheLoad_cons (r : LogRec) (rs : List LogRec) (cached : Name → Bool) (now : Int) :
    buildCacheLoad (r :: rs) cached now =
      if cached r.name then buildCacheLoad rs cached now
      else Prim.cacheSet r.name
             { renamed := r.renamed, prev := "", hash := r.hash, size := r.size, state := .logged,
               logged := some r.time, time := now } :: buildCacheLoad rs cached now := by
  rw [buildCacheLoad]

theorem buildCacheLoad_append (a b : List LogRec) (cached : Name → Bool) (now : Int) :
    buildCacheLoad (a ++ b) cached now = buildCacheLoad a cached now ++ buildCacheLoad b cached now := by
  induction a with
  | nil => rfl
  | cons r rs ih =>
    simp only [List.cons_append, buildCacheLoad_cons]
    split
    · exact ih
    · simp [ih]

/-- records of other names do not touch the entry of `n` -/
theorem buildCacheLoad_other (n : Name) (recs : List LogRec) (cached : Name → Bool) (now : Int)
    (h : ∀ r ∈ recs, r.name ≠ n) (t : State) :
    (run t (buildCacheLoad recs cached now)).mem.cache n = t.mem.cache n := by
  apply (quietFor_run n _ _ t).1
  simp only [List.all_eq_true]
  intro p hp
  obtain ⟨r, hr, rfl⟩ := buildCacheLoad_mem recs cached now p hp
  simp [quietFor, h r hr]

/-- after `fix:` "buildCache kept the oldest of several records of a name": on a crash image
    Recover's cache build loads for `n` the LAST record of `n` in the day files it reads. -/
theorem recS2_loaded_last (H : Body → String) (s0 : State) (now : Int) (names : List Name) (n : Name)
    (pre post : List LogRec) (r : LogRec)
    (hsplit : buildRecs s0 (minMtime s0.disk now names - 86400) now = pre ++ r :: post)
    (hrn : r.name = n) (hpost : ∀ r' ∈ post, r'.name ≠ n) :
    ∃ e, (recS2 H (crash s0) now names).mem.cache n = some e ∧ e.state = .logged ∧ e.hash = r.hash := by
  unfold recS2
  have hd : (crash s0).disk = s0.disk := rfl
  rw [hd]
  obtain ⟨hc1, hct1, hlog1⟩ := run_walkPrim _ (recP1_walkPrim H s0.disk names) (crash s0)
  generalize hs1 : run (crash s0) (recP1 H s0.disk names) = s1 at *
  have hcache1 : s1.mem.cache n = none := by rw [hc1]; rfl
  have hct1' : s1.mem.cacheTime = none := hct1
  have hrecs : buildRecs s1 (minMtime s0.disk now names - 86400) now =
      buildRecs s0 (minMtime s0.disk now names - 86400) now := buildRecs_congr s0 s1 _ _ hlog1
  rw [buildCacheEffects_none s1 _ now hct1', hrecs, hsplit]
  rw [run_append, run_noCache _ (bcTail_noCache _ _ _ _), buildCacheLoad_append, run_append]
  generalize run s1 (buildCacheLoad pre (fun x => (s1.mem.cache x).isSome) now) = t1
  have hcn : (fun x => (s1.mem.cache x).isSome) r.name = false := by simp [hrn, hcache1]
  rw [buildCacheLoad_cons, if_neg (by simp [hcn])]
  rw [run_cons, buildCacheLoad_other n post _ now hpost]
  subst hrn
  simp only [applyPrim, applyMem]
  exact ⟨_, upd_same _ _ _, rfl, rfl⟩

/-- the disk-level condition for `Remembered` after both repairs: the LAST record of `n` in the
    day files Recover's cache build reads carries the companion's hash. -/
theorem remembered_of_last (H : Body → String) (s0 : State) (now : Int) (names : List Name)
    (n : Name) (c : Cmp) (pre post : List LogRec) (r : LogRec)
    (hsplit : buildRecs s0 (minMtime s0.disk now names - 86400) now = pre ++ r :: post)
    (hrn : r.name = n) (hpost : ∀ r' ∈ post, r'.name ≠ n) (hh : r.hash = c.hash) :
    recoverDup (recS2 H (crash s0) now names).mem n c = true := by
  obtain ⟨e, he, hst, heh⟩ := recS2_loaded_last H s0 now names n pre post r hsplit hrn hpost
  unfold recoverDup
  rw [he]
  simp [hst, FState.num, heh, hh]

/-- the cache entry Recover's own cache build loads for `n` says: this version is delivered -/
def Remembered (H : Body → String) (s0 : State) (now : Int) (names : List Name) (n : Name)
    (c : Cmp) : Prop :=
  recoverDup (recS2 H (crash s0) now names).mem n c = true

/-- a remembered version is in the receive log -/
theorem Remembered.logged {H : Body → String} {s0 : State} {now : Int} {names : List Name}
    {n : Name} {c : Cmp} (h : Remembered H s0 now names n c) : LoggedV s0.disk n c.hash := by
  obtain ⟨hlog, hinv⟩ := recS2_logged H s0 now names
  obtain ⟨r, hr, hn⟩ := recoverDup_logged _ n c hinv h
  exact ⟨r, by rw [← hlog]; exact hr, hn⟩

/-- **class "validate".** The crash image has a companion, no `.wait` matching it, and `<n>.full`
    or a complete `<n>.part`. If the cache entry that Recover's cache build loaded from the
    receive log is logged with the companion's hash (`Remembered`), the staged copy is a
    duplicate of a delivered version: `<n>.full` and the companion are removed, nothing is
    queued (`Unlisted`). Otherwise Recover hashes the file; if the hash is the companion's, `n`
    is `OutHeld` with that file as `<n>.wait`; if not, `n` is `Refused` and the file stays
    `<n>.full`. -/
theorem recover_validate_outcome (H : Body → String) (s0 : State) (now : Int) (names : List Name)
    (n : Name) (c : Cmp) (hn : n ∈ names) (hnd : names.Nodup)
    (hcls : (recoverWalk H s0.disk n).2 = .validate c) :
    ∃ i, revalIno s0.disk n = some i ∧
      (Remembered H s0 now names n c →
        Unlisted (run (crash s0) (recoverEffects H (crash s0) now names)) n ∧
        (run (crash s0) (recoverEffects H (crash s0) now names)).disk.full n = none ∧
        (run (crash s0) (recoverEffects H (crash s0) now names)).disk.cmp n = none ∧
        (run (crash s0) (recoverEffects H (crash s0) now names)).disk.wait n = s0.disk.wait n ∧
        ∃ e, (run (crash s0) (recoverEffects H (crash s0) now names)).mem.cache n = some e ∧
          e.state = .logged ∧ e.hash = c.hash) ∧
      (¬ Remembered H s0 now names n c → H (s0.disk.body i) = c.hash →
        OutHeld H (run (crash s0) (recoverEffects H (crash s0) now names)) n c ∧
        (run (crash s0) (recoverEffects H (crash s0) now names)).disk.wait n = some i ∧
        (run (crash s0) (recoverEffects H (crash s0) now names)).disk.full n = none) ∧
      (¬ Remembered H s0 now names n c → H (s0.disk.body i) ≠ c.hash →
        Refused H (run (crash s0) (recoverEffects H (crash s0) now names)) n c ∧
        (run (crash s0) (recoverEffects H (crash s0) now names)).disk.full n = some i ∧
        (run (crash s0) (recoverEffects H (crash s0) now names)).disk.wait n = s0.disk.wait n) ∧
      (run (crash s0) (recoverEffects H (crash s0) now names)).disk.body = s0.disk.body := by
  obtain ⟨ns1, ns2, rfl, h1, h2⟩ := split_names names n hn hnd
  obtain ⟨a, f1, v1, ha, hsame, hNL, hfresh, hv1, ht, hcache⟩ := recover_prefix H s0 now ns1 ns2 n h1 h2
  have hF : ownF H s0.disk now n f1 = f1 := by simp only [ownF, hcls]
  have hV : ownV H s0.disk now n v1 = stV H now v1 (n, c) := by simp only [ownV, hcls]
  rw [hF] at hv1
  rw [hV] at ht
  obtain ⟨i, hi, hbf, hbc, hbw, hbb⟩ := walk_of_validate H s0.disk n c hcls a ha.1.files
  have hfv : FilesEq n (run a (recoverWalk H s0.disk n).1).disk v1.disk := hsame.files.trans hv1.1.files
  have hvf : v1.disk.full n = some i := by rw [hfv.full]; exact hbf
  have hvc : v1.disk.cmp n = some c := by rw [hfv.cmp]; exact hbc
  have hvb : v1.disk.body = s0.disk.body := by rw [hfv.body]; exact hbb
  have hvw : v1.disk.wait n = s0.disk.wait n := by rw [hfv.wait]; exact hbw
  have hfr : Fresh n v1 := hfresh.same hv1.1
  have hNLv : NL n v1 := by
    unfold NL IsLogged at hNL ⊢
    rw [hv1.2]; exact hNL
  have hdup : recoverDup v1.mem n c =
      recoverDup (recS2 H (crash s0) now (ns1 ++ n :: ns2)).mem n c :=
    recoverDup_congr _ _ n c (by rw [hv1.2, hcache])
  obtain ⟨hdrop, hpass, hfail⟩ := stV_own H now v1 n c i hvf hvc hfr.1 hfr.2.1 hfr.2.2 hNLv
  rw [hdup] at hdrop hpass hfail
  rw [hvb] at hpass hfail
  have hnot : ∀ {b : Bool}, ¬ b = true → b = false := by intro b h; cases b <;> simp_all
  refine ⟨i, hi, ?_, ?_, ?_, ?_⟩
  · intro hrem
    obtain ⟨hun, hf, hc, hw, _, _, e, he, hst, hh⟩ := hdrop hrem
    exact ⟨hun.same ht, by rw [ht.1.full]; exact hf, by rw [ht.1.cmp]; exact hc,
      by rw [ht.1.wait, hw]; exact hvw, e, by rw [ht.2]; exact he, hst, hh⟩
  · intro hrem hh
    obtain ⟨hheld, hw, hf, _⟩ := hpass (hnot hrem) hh
    exact ⟨hheld.same ht, by rw [ht.1.wait]; exact hw, by rw [ht.1.full]; exact hf⟩
  · intro hrem hh
    obtain ⟨href, hd⟩ := hfail (hnot hrem) hh
    exact ⟨href.same ht, by rw [ht.1.full, hd]; exact hvf, by rw [ht.1.wait, hd]; exact hvw⟩
  · rw [ht.1.body]
    cases hd : recoverDup (recS2 H (crash s0) now (ns1 ++ n :: ns2)).mem n c with
    | true => rw [(hdrop hd).2.2.2.2.2.1]; exact hvb
    | false =>
      by_cases hh : H (s0.disk.body i) = c.hash
      · rw [stV_pass H now v1 n c i (by rw [hdup]; exact hd) hvf (by rw [hvb]; exact hh)]
        simp only [run_cons, run_nil, applyPrim, applyDisk, hvf]
        exact hvb
      · rw [(hfail hd hh).2]; exact hvb

/-- the disk conditions of the class "nothing" -/
theorem recover_nothing_cases (H : Body → String) (d : Disk) (n : Name)
    (h : (recoverWalk H d n).2 = .nothing) :
    (d.cmp n = none ∧ (recoverWalk H d n).1 = []) ∨
    (∃ c, d.cmp n = some c ∧ waitMatches H d n c = false ∧ d.full n = none ∧ d.part n ≠ none ∧
      isComplete c.parts c.size = false ∧ (recoverWalk H d n).1 = []) ∨
    (∃ c, d.cmp n = some c ∧ waitMatches H d n c = false ∧ d.full n = none ∧ d.part n = none ∧
      (recoverWalk H d n).1 = [Prim.rmCmp n]) := by
  obtain ⟨h0, h1⟩ := recover_walk_cases H d n
  cases hc : d.cmp n with
  | none => exact Or.inl ⟨rfl, by rw [h0 hc]⟩
  | some c =>
    obtain ⟨a, b, c3, d4, e⟩ := h1 c hc
    cases hw : waitMatches H d n c with
    | true => rw [a hw] at h; cases h
    | false =>
      by_cases hf : d.full n = none
      · by_cases hp : d.part n = none
        · exact Or.inr (Or.inr ⟨c, rfl, hw, hf, hp, by rw [e hw hf hp]⟩)
        · cases hcomp : isComplete c.parts c.size with
          | true => rw [c3 hw hf hp hcomp] at h; cases h
          | false => exact Or.inr (Or.inl ⟨c, rfl, hw, hf, hp, hcomp, by rw [d4 hw hf hp hcomp]⟩)
      · rw [b hw hf] at h; cases h

/-- **class "nothing".** After Recover `n` is `Unlisted`; its `.part`, `.full`, `.wait` and all
    bodies are untouched; the companion is untouched too unless it was an orphan (no `.part`,
    no `.full`, no matching `.wait`), which is removed. -/
theorem recover_nothing_outcome (H : Body → String) (s0 : State) (now : Int) (names : List Name)
    (n : Name) (hn : n ∈ names) (hnd : names.Nodup)
    (hcls : (recoverWalk H s0.disk n).2 = .nothing) :
    Unlisted (run (crash s0) (recoverEffects H (crash s0) now names)) n ∧
    (run (crash s0) (recoverEffects H (crash s0) now names)).disk.part n = s0.disk.part n ∧
    (run (crash s0) (recoverEffects H (crash s0) now names)).disk.full n = s0.disk.full n ∧
    (run (crash s0) (recoverEffects H (crash s0) now names)).disk.wait n = s0.disk.wait n ∧
    (run (crash s0) (recoverEffects H (crash s0) now names)).disk.body = s0.disk.body ∧
    ((recoverWalk H s0.disk n).1 = [] ∧
       (run (crash s0) (recoverEffects H (crash s0) now names)).disk.cmp n = s0.disk.cmp n ∨
     (recoverWalk H s0.disk n).1 = [Prim.rmCmp n] ∧
       (run (crash s0) (recoverEffects H (crash s0) now names)).disk.cmp n = none) := by
  obtain ⟨ns1, ns2, rfl, h1, h2⟩ := split_names names n hn hnd
  obtain ⟨a, f1, v1, ha, hsame, hNL, hfresh, hv1, ht, hcache⟩ := recover_prefix H s0 now ns1 ns2 n h1 h2
  have hF : ownF H s0.disk now n f1 = f1 := by simp only [ownF, hcls]
  have hV : ownV H s0.disk now n v1 = v1 := by simp only [ownV, hcls]
  rw [hF] at hv1
  rw [hV] at ht
  have hft : SameC n f1 (run (crash s0) (recoverEffects H (crash s0) now (ns1 ++ n :: ns2))) :=
    hv1.trans ht
  have hun : Unlisted (run (crash s0) (recoverEffects H (crash s0) now (ns1 ++ n :: ns2))) n :=
    Unlisted.same hft ⟨hNL, hfresh.1, hfresh.2.1, hfresh.2.2⟩
  have hfe := (hsame.trans hft.1).files
  have ha' : FilesEq n s0.disk a.disk := ha.1.files
  have hw : (recoverWalk H s0.disk n).1 = [] ∨ (recoverWalk H s0.disk n).1 = [Prim.rmCmp n] := by
    rcases recover_nothing_cases H s0.disk n hcls with h | ⟨c, _, _, _, _, _, h⟩ | ⟨c, _, _, _, _, h⟩
    · exact Or.inl h.2
    · exact Or.inl h
    · exact Or.inr h
  rcases hw with hw | hw
  · rw [hw, run_nil] at hfe
    have := ha'.trans hfe
    exact ⟨hun, this.part, this.full, this.wait, this.body, Or.inl ⟨hw, this.cmp⟩⟩
  · rw [hw] at hfe
    refine ⟨hun, ?_, ?_, ?_, ?_, Or.inr ⟨hw, ?_⟩⟩
    · rw [hfe.part]; simpa [applyPrim, applyDisk] using ha'.part
    · rw [hfe.full]; simpa [applyPrim, applyDisk] using ha'.full
    · rw [hfe.wait]; simpa [applyPrim, applyDisk] using ha'.wait
    · rw [hfe.body]; simpa [applyPrim, applyDisk] using ha'.body
    · rw [hfe.cmp]; simp [applyPrim, applyDisk]

/-! ## the finalize handler on a held name -/

/-- `n` was delivered from the state `t0`: the inode that was `<n>.wait` is now in the final
    directory under the proper name (the companion's rename target), its bytes hash to the
    companion's hash, the receive log has a record of `n` with that hash and target, `<n>.wait`
    and the companion are gone, and the cache entry is finalized (status answer: passed). -/
def Delivered (H : Body → String) (t0 t : State) (n : Name) (c : Cmp) : Prop :=
  ∃ i, t0.disk.wait n = some i ∧ t.disk.final (targetOf n c.renamed) = some i ∧
    H (t.disk.body i) = c.hash ∧
    (∃ r ∈ t.disk.log, r.name = n ∧ r.hash = c.hash ∧ r.renamed = c.renamed ∧ r.size = c.size) ∧
    t.disk.wait n = none ∧ t.disk.cmp n = none ∧ stateOf t.mem n = some .finalized

theorem nextFinalSet_keeps (t : State) (n p : Name) (ce : Entry) (h : t.mem.cache n = some ce) :
    ∃ ce', (applyPrim t (Prim.nextFinalSet p)).mem.cache n = some ce' ∧ ce'.state = ce.state ∧
      ce'.hash = ce.hash := by
  simp only [applyPrim, applyMem]
  split
  · rename_i e0 he0
    by_cases hnp : n = p
    · subst hnp
      rw [h] at he0; cases he0
      exact ⟨_, upd_same _ _ _, rfl, rfl⟩
    · exact ⟨ce, by simp [upd_other _ _ _ _ hnp, h], rfl, rfl⟩
  · exact ⟨ce, h, rfl, rfl⟩

theorem toCache_fin_some (s : State) (m : Mem) (n : Name) (e : Entry) (now : Int) :
    ∃ ce, (run s (toCache m n e .finalized now)).mem.cache n = some ce ∧ ce.state = .finalized ∧
      ce.hash = e.hash := by
  unfold toCache
  rw [run_append, run_append]
  generalize run s (match e.logged, m.cacheTime with
    | some l, none => [Prim.cacheTimeSet (some l)] | _, _ => []) = s1
  have h1 : ∃ ce, (run s1 [Prim.cacheSet n { e with state := .finalized, time := now }]).mem.cache n
      = some ce ∧ ce.state = .finalized ∧ ce.hash = e.hash :=
    ⟨{ e with state := .finalized, time := now, seq := s1.mem.clock },
      by simp [applyPrim, applyMem], rfl, rfl⟩
  obtain ⟨ce, hce, h2, h3⟩ := h1
  split
  · obtain ⟨ce', h, hs, hh⟩ := nextFinalSet_keeps _ n e.prev ce hce
    exact ⟨ce', by simpa using h, hs.trans h2, hh.trans h3⟩
  · exact ⟨ce, by simpa using hce, h2, h3⟩

theorem waitAdd_waiting (m : Mem) (p n : Name) (e : Entry) :
    isWaitingName (applyMem m (.waitAdd p n e)) n = true := by
  simp only [applyMem]
  split
  · rename_i h
    simp only [List.any_eq_true, Bool.and_eq_true, beq_iff_eq] at h
    obtain ⟨w, hw, _, h2⟩ := h
    simp only [isWaitingName, List.any_eq_true, beq_iff_eq]
    refine ⟨_, List.mem_map.mpr ⟨w, hw, rfl⟩, ?_⟩
    split <;> exact h2
  · simp [isWaitingName]

theorem deliver_disk (d : Disk) (m : Name) (r : LogRec) (tgt h : String) (i : Nat) (c : Cmp)
    (hw : d.wait m = some i) (hc : d.cmp m = some c) (hh : c.hash = h) :
    (applyDisk (applyDisk (applyDisk d (.logAppend r)) (.renWaitFinal m tgt)) (.rmCmpIf m h)).final tgt
      = some i ∧
    (applyDisk (applyDisk (applyDisk d (.logAppend r)) (.renWaitFinal m tgt)) (.rmCmpIf m h)).body = d.body ∧
    (applyDisk (applyDisk (applyDisk d (.logAppend r)) (.renWaitFinal m tgt)) (.rmCmpIf m h)).log
      = d.log ++ [r] ∧
    (applyDisk (applyDisk (applyDisk d (.logAppend r)) (.renWaitFinal m tgt)) (.rmCmpIf m h)).wait m = none ∧
    (applyDisk (applyDisk (applyDisk d (.logAppend r)) (.renWaitFinal m tgt)) (.rmCmpIf m h)).cmp m = none := by
  simp [applyDisk, hw, hc, hh]

theorem finalizeRest_noCache (t : State) (n : Name) (h : String) :
    (finalizeRest t n h).all noCache = true := by
  simp [finalizeRest, noCache, List.all_map]

/-- **the finalize handler on a held name**: it delivers it (log record, move under the proper
    name, companion removed) or parks it behind its predecessor (nothing durable changes, the
    status answer is "waiting"). -/
theorem held_finh (H : Body → String) (t : State) (n : Name) (c : Cmp) (now : Int)
    (hh : OutHeld H t n c) (hq : ∃ q, (n, q) ∈ t.mem.fq) :
    Delivered H t (run t (finhEffects t n now)) n c ∨
    (OutHeld H (run t (finhEffects t n now)) n c ∧
      isWaitingName (run t (finhEffects t n now)).mem n = true ∧
      (run t (finhEffects t n now)).disk = t.disk ∧
      statusAnswer (run t (finhEffects t n now)) n = 3) := by
  obtain ⟨⟨ce, hce, hcst, hchash⟩, ⟨i, hw, hwh⟩, hcmp, _, hmeta⟩ := hh
  obtain ⟨q0, hq0⟩ := hq
  cases hfind : t.mem.fq.find? (·.1 == n) with
  | none =>
    have := List.find?_eq_none.mp hfind (n, q0) hq0
    simp at this
  | some x =>
    obtain ⟨m, e⟩ := x
    have hm : m = n := by
      have := List.find?_some hfind
      simpa using this
    subst hm
    have hmem : (m, e) ∈ t.mem.fq := List.mem_of_find?_eq_some hfind
    obtain ⟨heh, her, hep, hes⟩ := hmeta e hmem
    have hst : stateOf t.mem m = some .validated := by simp [stateOf, hce, hcst]
    unfold finhEffects
    rw [hfind]
    simp only
    rw [if_neg (by simp [hst])]
    cases hr : isFileReady t m e now with
    | yes =>
      left
      simp only
      rw [finalizeEffects_eq t m e now i hst (by simp [hce, hchash, heh]) hw]
      simp only [run_append]
      generalize ht1 : run (run (run (run t [Prim.fqDel m]) [Prim.lockAdd m, Prim.timerDel m])
        [Prim.logAppend (finRec m e now)]) [Prim.renWaitFinal m (targetOf m e.renamed)] = t1
      have hd1 : t1.disk = applyDisk (applyDisk t.disk (Prim.logAppend (finRec m e now)))
          (Prim.renWaitFinal m (targetOf m e.renamed)) := by
        rw [← ht1]
        simp [applyPrim, applyDisk]
      generalize ht2 : run t1 (toCache t.mem m { e with logged := some now } .finalized now) = t2
      have hd2 : t2.disk = t1.disk := by rw [← ht2]; exact toCache_disk _ _ _ _ _ _
      obtain ⟨ce2, hce2, hst2, _⟩ := toCache_fin_some t1 t.mem m { e with logged := some now } now
      rw [ht2] at hce2
      have hc3 : (run t2 (finalizeRest t m e.hash)).mem.cache = t2.mem.cache :=
        run_noCache _ (finalizeRest_noCache t m e.hash) t2
      have hd3 : (run t2 (finalizeRest t m e.hash)).disk = applyDisk t2.disk (Prim.rmCmpIf m e.hash) := by
        unfold finalizeRest
        rw [List.append_assoc, List.cons_append, run_cons, run_disk_of_mem]
        · rfl
        · simp [Prim.durable, List.all_map]
      obtain ⟨k1, k2, k3, k4, k5⟩ := deliver_disk t.disk m (finRec m e now) (targetOf m e.renamed) e.hash i c
        hw hcmp heh.symm
      rw [← hd1, ← hd2, ← hd3] at k1 k2 k3 k4 k5
      refine ⟨i, hw, ?_, ?_, ?_, k4, k5, ?_⟩
      · rw [← her]; exact k1
      · rw [k2]; exact hwh
      · exact ⟨finRec m e now, by rw [k3]; simp, rfl, heh, her, hes⟩
      · simp [stateOf, hc3, hce2, hst2]
    | park timer e' =>
      right
      simp only
      have hdisk : (run t ([Prim.fqDel m] ++ ([Prim.timerDel m] ++ (if timer = true then [Prim.timerSet m] else []) ++
          [Prim.waitAdd e'.prev m e']))).disk = t.disk := by
        apply run_disk_of_mem
        cases timer <;> simp [Prim.durable]
      have hcache : (run t ([Prim.fqDel m] ++ ([Prim.timerDel m] ++ (if timer = true then [Prim.timerSet m] else []) ++
          [Prim.waitAdd e'.prev m e']))).mem.cache = t.mem.cache := by
        apply run_noCache
        cases timer <;> simp [noCache]
      have hwait : isWaitingName (run t ([Prim.fqDel m] ++ ([Prim.timerDel m] ++
          (if timer = true then [Prim.timerSet m] else []) ++ [Prim.waitAdd e'.prev m e']))).mem m = true := by
        rw [← List.append_assoc, run_append]
        exact waitAdd_waiting _ _ _ _
      have hfq : ∀ q, (m, q) ∈ (run t ([Prim.fqDel m] ++ ([Prim.timerDel m] ++
          (if timer = true then [Prim.timerSet m] else []) ++ [Prim.waitAdd e'.prev m e']))).mem.fq →
          (m, q) ∈ t.mem.fq := by
        intro q hq
        have : (run t ([Prim.fqDel m] ++ ([Prim.timerDel m] ++
          (if timer = true then [Prim.timerSet m] else []) ++ [Prim.waitAdd e'.prev m e']))).mem.fq =
            eraseFirst (fun x => x.1 == m) t.mem.fq := by
          cases timer <;> simp [applyPrim, applyMem] <;> split <;> rfl
        rw [this] at hq
        exact mem_eraseFirst _ _ _ hq
      refine ⟨⟨⟨ce, by rw [hcache]; exact hce, hcst, hchash⟩, ⟨i, by rw [hdisk]; exact hw, by rw [hdisk]; exact hwh⟩,
        by rw [hdisk]; exact hcmp, Or.inr hwait, fun q hq => hmeta q (hfq q hq)⟩, hwait, hdisk, ?_⟩
      rw [waiting_is_reported _ m (by rw [stateOf, hcache, hce]; simp [hcst]), hwait]
      rfl

/-! ## Recover never touches bodies, the log or the final directory -/

theorem recInner_keeps (d : Disk) (p : Prim) (h : recInner p = true) :
    (applyDisk d p).body = d.body ∧ (applyDisk d p).log = d.log ∧ (applyDisk d p).final = d.final ∧
    (applyDisk d p).written = d.written := by
  cases p <;> simp [recInner] at h <;> simp only [applyDisk] <;> (try split) <;> simp

theorem recInner_run (ps : List Prim) (h : ps.all recInner = true) (t : State) :
    (run t ps).disk.body = t.disk.body ∧ (run t ps).disk.log = t.disk.log ∧
    (run t ps).disk.final = t.disk.final ∧ (run t ps).disk.written = t.disk.written := by
  induction ps generalizing t with
  | nil => exact ⟨rfl, rfl, rfl, rfl⟩
  | cons p ps ih =>
    simp only [List.all_cons, Bool.and_eq_true] at h
    obtain ⟨a, b, c, d⟩ := ih h.2 (applyPrim t p)
    obtain ⟨a', b', c', d'⟩ := recInner_keeps t.disk p h.1
    rw [run_cons]
    exact ⟨a.trans a', b.trans b', c.trans c', d.trans d'⟩

/-- for ANY state and ANY list of names (duplicates allowed): Recover leaves every body, the
    receive log, the final directory and the written-ranges ghost as they are -/
theorem recover_keeps (H : Body → String) (s : State) (now : Int) (names : List Name) :
    (run s (recoverEffects H s now names)).disk.body = s.disk.body ∧
    (run s (recoverEffects H s now names)).disk.log = s.disk.log ∧
    (run s (recoverEffects H s now names)).disk.final = s.disk.final ∧
    (run s (recoverEffects H s now names)).disk.written = s.disk.written := by
  obtain ⟨mid, hshape, hmid⟩ := recover_shape H s now names
  rw [hshape, run_append, run_append]
  obtain ⟨a, b, c, d⟩ := recInner_run mid hmid (run s [Prim.setReady false])
  exact ⟨a, b, c, d⟩

theorem recInner_run_waitL (ps : List Prim) (h : ps.all recInner = true) (t : State) :
    (run t ps).mem.wait = t.mem.wait := by
  induction ps generalizing t with
  | nil => rfl
  | cons p ps ih =>
    simp only [List.all_cons, Bool.and_eq_true] at h
    rw [run_cons, ih h.2]
    cases p <;> simp [recInner] at h <;> simp [applyPrim, applyMem]
    split <;> rfl

/-- Recover parks nothing: the list of parked files is as before (empty on a crash image) -/
theorem recover_waitL (H : Body → String) (s : State) (now : Int) (names : List Name) :
    (run s (recoverEffects H s now names)).mem.wait = s.mem.wait := by
  obtain ⟨mid, hshape, hmid⟩ := recover_shape H s now names
  rw [hshape, run_append, run_append]
  exact recInner_run_waitL mid hmid (run s [Prim.setReady false])

end Sts.Stage
