/-
  Well-formedness of one group of the queue model (list, head file, byFile and the linked
  chain agree) and its preservation by Push and Pop.
-/
import StsModel.Lemmas.QueueChain
import StsModel.Lemmas.QueueOrder

namespace Sts.Queue

/-! ## payload frame lemmas -/

theorem payload_unlink (ns : Nodes) (i j : Nat) : payload (unlink ns i) j = payload ns j := by
  unfold unlink; dsimp only
  split <;> split <;> simp [payload_setNext, payload_setPrev]

theorem payload_addAfter (ns : Nodes) (i p j : Nat) : payload (addAfter ns i p) j = payload ns j := by
  unfold addAfter; dsimp only
  split <;> simp [payload_setNext, payload_setPrev]

theorem payload_addBefore (ns : Nodes) (i n j : Nat) : payload (addBefore ns i n) j = payload ns j := by
  unfold addBefore; dsimp only
  split <;> simp [payload_setNext, payload_setPrev]

theorem payload_insertAfter (ns : Nodes) (i p j : Nat) : payload (insertAfter ns i p) j = payload ns j := by
  unfold insertAfter; rw [payload_addAfter, payload_unlink]

theorem payload_insertBefore (ns : Nodes) (i n j : Nat) : payload (insertBefore ns i n) j = payload ns j := by
  unfold insertBefore; rw [payload_addBefore, payload_unlink]

/-- the file of a node (default if the id is invalid) -/
def fileOf (ns : Nodes) (i : Nat) : FileInfo := match ns[i]? with | some n => n.file | none => default

theorem fileOf_eq_payload (ns : Nodes) (i : Nat) :
    fileOf ns i = match payload ns i with | some p => p.1 | none => default := by
  unfold fileOf payload; cases ns[i]? <;> rfl

theorem nodeTime_eq_payload (ns : Nodes) (i : Nat) :
    nodeTime ns i = match payload ns i with | some p => p.1.time | none => 0 := by
  unfold nodeTime payload; cases ns[i]? <;> rfl

/-- two node stores agree on every payload -/
def SamePayload (ns ns' : Nodes) : Prop := ∀ j, payload ns' j = payload ns j

theorem SamePayload.nodeName {ns ns' : Nodes} (h : SamePayload ns ns') (i : Nat) : nodeName ns' i = nodeName ns i := by
  rw [nodeName_eq_payload, nodeName_eq_payload, h]
theorem SamePayload.isAllocated {ns ns' : Nodes} (h : SamePayload ns ns') (i : Nat) : isAllocated ns' i = isAllocated ns i := by
  rw [isAllocated_eq_payload, isAllocated_eq_payload, h]
theorem SamePayload.fileOf {ns ns' : Nodes} (h : SamePayload ns ns') (i : Nat) : fileOf ns' i = fileOf ns i := by
  rw [fileOf_eq_payload, fileOf_eq_payload, h]
theorem SamePayload.nodeTime {ns ns' : Nodes} (h : SamePayload ns ns') (i : Nat) : nodeTime ns' i = nodeTime ns i := by
  rw [nodeTime_eq_payload, nodeTime_eq_payload, h]

theorem samePayload_unlink (ns : Nodes) (i : Nat) : SamePayload ns (unlink ns i) := fun j => payload_unlink ns i j

/-! ## byFile -/

theorem ByFile.find_erase (m : ByFile) (k k' : String) :
    ByFile.find (ByFile.erase m k) k' = if k' = k then none else ByFile.find m k' := by
  unfold ByFile.find ByFile.erase
  induction m with
  | nil => simp
  | cons e t ih =>
    simp only [List.filter_cons]
    by_cases h1 : e.1 = k
    · simp only [h1, bne_self_eq_false, Bool.false_eq_true, if_false, List.find?_cons]
      by_cases h2 : k' = k
      · simpa [h2] using ih
      · have : (k == k') = false := by simpa using fun e => h2 e.symm
        simpa [h2, this] using ih
    · have hne : (e.1 != k) = true := by simpa using h1
      simp only [hne, if_true, List.find?_cons]
      by_cases h2 : e.1 = k'
      · have : k' ≠ k := by rw [← h2]; exact h1
        simp [h2, this]
      · have : (e.1 == k') = false := by simpa using h2
        simpa [this] using ih

theorem ByFile.find_insert (m : ByFile) (k k' : String) (v : Nat) :
    ByFile.find (ByFile.insert m k v) k' = if k' = k then some v else ByFile.find m k' := by
  by_cases h : k' = k
  · subst h; simp [ByFile.insert, ByFile.find]
  · have h' : (k == k') = false := by simpa using fun e => h e.symm
    have := ByFile.find_erase m k k'
    simp only [h, if_false] at this ⊢
    rw [← this]
    simp [ByFile.insert, ByFile.find, h']

/-! ## sortedness -/

/-- `x` may stand before `y` in the list of a group with order `o` -/
def before (o : Order) (ns : Nodes) (x y : Nat) : Prop :=
  if o.hasMatcher then sortsAfter o (fileOf ns x) (fileOf ns y) = false else x < y

/-- C10: the list is sorted by the tag's order: by (time, name) ascending for fifo, by time
    descending then name ascending for lifo, by name for the alphabetic order, by arrival
    (node id) where there is no matcher. -/
def Sorted (o : Order) (ns : Nodes) (l : List Nat) : Prop := l.Pairwise (before o ns)

theorem sortsAfter_congr (o : Order) {a a' b b' : FileInfo} (h1 : a.name = a'.name) (h2 : a.time = a'.time)
    (h3 : b.name = b'.name) (h4 : b.time = b'.time) : sortsAfter o a b = sortsAfter o a' b' := by
  cases o <;> simp [sortsAfter, h1, h2, h3, h4]

/-- stores that agree on names and times of the listed nodes sort them alike -/
theorem Sorted.congr {o : Order} {ns ns' : Nodes} {l : List Nat} (h : Sorted o ns l)
    (hk : ∀ i ∈ l, (fileOf ns' i).name = (fileOf ns i).name ∧ (fileOf ns' i).time = (fileOf ns i).time) :
    Sorted o ns' l := by
  unfold Sorted at h ⊢
  induction l with
  | nil => exact List.Pairwise.nil
  | cons a t ih =>
    rw [List.pairwise_cons] at h ⊢
    refine ⟨fun y hy => ?_, ih h.2 (fun i hi => hk i (by simp [hi]))⟩
    have := h.1 y hy
    unfold before at this ⊢
    split
    · rename_i hm
      simp only [hm, if_true] at this
      rw [sortsAfter_congr o (hk a (by simp)).1 (hk a (by simp)).2 (hk y (by simp [hy])).1 (hk y (by simp [hy])).2]
      exact this
    · rename_i hm
      simpa [hm] using this

/-! ## well-formedness -/

structure GroupSt.WF (g : GroupSt) : Prop where
  chain : ∃ pre : List Nat, pre.length ≤ 1 ∧ Rep g.nodes (pre ++ g.list) ∧ ∀ p ∈ pre, isAllocated g.nodes p = true
  head_some : g.list ≠ [] → g.head = g.list.head?
  head_none : g.list = [] → ∀ h, g.head = some h → h < g.nodes.length ∧ isAllocated g.nodes h = true
  byFile_iff : ∀ nm id, ByFile.find g.byFile nm = some id ↔ (id ∈ g.list ∧ nodeName g.nodes id = nm)
  names : (g.list.map (nodeName g.nodes)).Nodup
  sorted : Sorted g.conf.order g.nodes g.list

/-- the node whose name the first listed file announces as predecessor (when the list is
    empty: the kept head file, which the next arrival will announce) -/
def GroupSt.anchor (g : GroupSt) : Option Nat :=
  match g.list with
  | [] => g.head
  | a :: _ => getPrev g.nodes a

theorem Rep.prev_head {ns : Nodes} {pre : List Nat} {a : Nat} {t : List Nat} (h : Rep ns (pre ++ a :: t)) :
    getPrev ns a = pre.getLast? := by
  rw [h.prev, predIn_append h.nodup]; simp

theorem GroupSt.WF.valid {g : GroupSt} (h : g.WF) {i : Nat} (hi : i ∈ g.list) : i < g.nodes.length := by
  obtain ⟨pre, _, hr, _⟩ := h.chain
  exact hr.valid i (by simp [hi])

theorem eraseFirstName_split (ns : Nodes) (L1 L2 : List Nat) (o : Nat) (nm : String)
    (h1 : ∀ x ∈ L1, nodeName ns x ≠ nm) (ho : nodeName ns o = nm) :
    eraseFirstName ns (L1 ++ o :: L2) nm = L1 ++ L2 := by
  induction L1 with
  | nil => simp [eraseFirstName, ho]
  | cons a t ih =>
    have ha : nodeName ns a ≠ nm := h1 a (by simp)
    have : (nodeName ns a == nm) = false := by simpa using ha
    simp [eraseFirstName, this, ih (fun x hx => h1 x (by simp [hx]))]

/-! ## Push, first half: a listed file of the same name is taken out -/

theorem dropFile_none {g : GroupSt} {name : String} (h : ByFile.find g.byFile name = none) :
    g.dropFile name = g := by
  unfold GroupSt.dropFile; rw [h]

theorem dropFile_some {g : GroupSt} {name : String} {o : Nat} (h : ByFile.find g.byFile name = some o) :
    g.dropFile name =
      { g with
        nodes := unlink g.nodes o
        byFile := ByFile.erase g.byFile (nodeName g.nodes o)
        list := eraseFirstName (unlink g.nodes o) g.list name
        head :=
          let head' := if g.head == some o then getNext g.nodes o else g.head
          if head'.isNone && (getPrev g.nodes o).isSome then getPrev g.nodes o else head' } := by
  unfold GroupSt.dropFile; rw [h]
  rfl

theorem dropFile_wf {g : GroupSt} (h : g.WF) (name : String) :
    (g.dropFile name).WF ∧ (∀ id ∈ (g.dropFile name).list, nodeName (g.dropFile name).nodes id ≠ name) ∧
    (g.dropFile name).conf = g.conf ∧ (g.dropFile name).name = g.name ∧
    (g.dropFile name).nodes.length = g.nodes.length := by
  cases hf : ByFile.find g.byFile name with
  | none =>
    rw [dropFile_none hf]
    refine ⟨h, fun id hid hn => ?_, rfl, rfl, rfl⟩
    have := (h.byFile_iff name id).mpr ⟨hid, hn⟩
    rw [hf] at this; cases this
  | some o =>
    obtain ⟨hoL, hon⟩ := (h.byFile_iff name o).mp hf
    obtain ⟨L1, L2, hL⟩ := List.append_of_mem hoL
    obtain ⟨pre, hpl, hrep, hpa⟩ := h.chain
    have hnames := h.names
    rw [hL] at hnames hrep
    -- every other listed node has another name
    have hother : ∀ x ∈ L1 ++ L2, nodeName g.nodes x ≠ name := by
      intro x hx hxn
      simp only [List.map_append, List.map_cons] at hnames
      have := List.nodup_append.mp hnames
      simp at hx
      rcases hx with hx | hx
      · exact this.2.2 _ (List.mem_map_of_mem hx) name (by simp [hon]) hxn
      · have h2 := (List.nodup_cons.mp this.2.1).1
        exact h2 (by rw [hon, ← hxn]; exact List.mem_map_of_mem hx)
    have hsp := samePayload_unlink g.nodes o
    have hrep' : Rep (unlink g.nodes o) ((pre ++ L1) ++ L2) := by
      have : pre ++ (L1 ++ o :: L2) = (pre ++ L1) ++ o :: L2 := by simp
      rw [this] at hrep
      exact unlink_rep hrep
    have herase : eraseFirstName (unlink g.nodes o) g.list name = L1 ++ L2 := by
      rw [hL]
      apply eraseFirstName_split
      · intro x hx; rw [hsp.nodeName]; exact hother x (by simp [hx])
      · rw [hsp.nodeName]; exact hon
    have hnd := hrep.nodup
    have hprev : getPrev g.nodes o = (pre ++ L1).getLast? := by
      have : pre ++ (L1 ++ o :: L2) = (pre ++ L1) ++ o :: L2 := by simp
      rw [hrep.prev, this, predIn_append (this ▸ hnd)]; simp
    have hnext : getNext g.nodes o = L2.head? := by
      have : pre ++ (L1 ++ o :: L2) = (pre ++ L1) ++ o :: L2 := by simp
      have hnd' := this ▸ hnd
      have hoA : o ∉ pre ++ L1 := (nodup_mid hnd').2.1
      rw [hrep.next, this, succIn_append hnd']; simp [hoA, succIn]
    rw [dropFile_some hf]
    refine ⟨⟨?_, ?_, ?_, ?_, ?_, ?_⟩, ?_, rfl, rfl, by simp⟩
    · -- chain
      refine ⟨pre, hpl, ?_, fun p hp => ?_⟩
      · simp only [herase]; simpa using hrep'
      · simp only; rw [hsp.isAllocated]; exact hpa p hp
    · -- head_some
      simp only [herase]
      intro hne
      have hhead := h.head_some (by rw [hL]; simp)
      rw [hL] at hhead
      cases L1 with
      | nil =>
        simp at hhead hne ⊢
        simp [hhead, hnext]
        cases L2 with
        | nil => simp at hne
        | cons b t => simp
      | cons a t =>
        simp at hhead ⊢
        have hao : a ≠ o := by
          intro e; subst e
          have := (nodup_mid (by simpa using hnd : (pre ++ a :: (t ++ a :: L2)).Nodup))
          simp at hnd
          grind
        simp [hhead, hao]
    · -- head_none
      simp only [herase]
      intro hnil hh hhd
      have hL1 : L1 = [] := by cases L1 <;> simp_all
      have hL2 : L2 = [] := by cases L2 <;> simp_all
      subst hL1; subst hL2
      have hhead := h.head_some (by rw [hL]; simp)
      rw [hL] at hhead
      simp at hhead
      simp [hhead, hnext, hprev] at hhd
      have : hh ∈ pre := by
        cases hp : pre.getLast? with
        | none => simp [hp] at hhd
        | some x => simp [hp] at hhd; rw [← hhd.2]; exact List.mem_of_getLast? hp
      refine ⟨?_, ?_⟩
      · have := hrep.valid hh (by simp [this]); simpa using this
      · show isAllocated (unlink g.nodes o) hh = true
        rw [hsp.isAllocated]; exact hpa hh this
    · -- byFile_iff
      intro nm id
      simp only [herase, ByFile.find_erase, hon]
      rw [hsp.nodeName]
      by_cases hnm : nm = name
      · subst hnm
        simp only [if_true]
        constructor
        · intro h'; cases h'
        · intro ⟨h1, h2⟩; exact absurd h2 (hother id h1)
      · simp only [hnm, if_false]
        rw [h.byFile_iff nm id, hL]
        constructor
        · intro ⟨h1, h2⟩
          refine ⟨?_, h2⟩
          simp at h1 ⊢
          rcases h1 with h1 | h1 | h1
          · exact Or.inl h1
          · subst h1; exact absurd (hon ▸ h2).symm hnm
          · exact Or.inr h1
        · intro ⟨h1, h2⟩
          refine ⟨?_, h2⟩
          simp at h1 ⊢
          rcases h1 with h1 | h1
          · exact Or.inl h1
          · exact Or.inr (Or.inr h1)
    · -- names
      simp only [herase]
      have : List.map (nodeName (unlink g.nodes o)) (L1 ++ L2) = List.map (nodeName g.nodes) (L1 ++ L2) :=
        List.map_congr_left (fun x _ => hsp.nodeName x)
      rw [this]
      simp only [List.map_append, List.map_cons] at hnames ⊢
      have := List.nodup_append.mp hnames
      apply List.nodup_append.mpr
      refine ⟨this.1, (List.nodup_cons.mp this.2.1).2, fun a ha b hb => this.2.2 a ha b (by simp [hb])⟩
    · -- sorted
      simp only [herase]
      have hs := h.sorted
      rw [hL] at hs
      have hs' : Sorted g.conf.order g.nodes (L1 ++ L2) := by
        unfold Sorted at hs ⊢
        exact hs.sublist (by simp)
      exact hs'.congr (fun i _ => by rw [hsp.fileOf]; exact ⟨rfl, rfl⟩)
    · simp only [herase]
      intro id hid
      rw [hsp.nodeName]; exact hother id hid

/-! ## insertion at the binary-search position keeps the list sorted -/

theorem mem_take_iff {l : List Nat} {i x : Nat} : x ∈ l.take i ↔ ∃ k, k < i ∧ l[k]? = some x := by
  rw [List.mem_iff_getElem?]
  constructor
  · rintro ⟨k, hk⟩
    rw [List.getElem?_take] at hk
    split at hk
    · exact ⟨k, by assumption, hk⟩
    · cases hk
  · rintro ⟨k, hk, hx⟩
    exact ⟨k, by rw [List.getElem?_take]; simp [hk, hx]⟩

theorem mem_drop_iff {l : List Nat} {i x : Nat} : x ∈ l.drop i ↔ ∃ k, i ≤ k ∧ l[k]? = some x := by
  rw [List.mem_iff_getElem?]
  constructor
  · rintro ⟨k, hk⟩
    rw [List.getElem?_drop] at hk
    exact ⟨i + k, by omega, hk⟩
  · rintro ⟨k, hk, hx⟩
    exact ⟨k - i, by rw [List.getElem?_drop]; rw [show i + (k - i) = k by omega]; exact hx⟩

theorem sorted_insertPos (o : Order) (ns : Nodes) (l : List Nat) (id : Nat) (f : FileInfo)
    (hf : fileOf ns id = f) (hs : Sorted o ns l) (hv : ∀ x ∈ l, x < ns.length ∧ x < id) :
    Sorted o ns (l.take (insertPos o ns l f) ++ id :: l.drop (insertPos o ns l f)) := by
  unfold insertPos
  by_cases hm : o.hasMatcher = true
  · simp only [hm, if_true]
    generalize hF : matcherAt o ns l f = F
    have hFk : ∀ (k x : Nat), l[k]? = some x → F k = sortsAfter o (fileOf ns x) f := by
      intro k x hk
      rw [← hF]; simp only [matcherAt, hk]
      have := (hv x (List.mem_of_getElem? hk)).1
      unfold fileOf
      rw [List.getElem?_eq_getElem this]
    have hpw : ∀ (a b xa xb : Nat), a < b → l[a]? = some xa → l[b]? = some xb →
        sortsAfter o (fileOf ns xa) (fileOf ns xb) = false := by
      intro a b xa xb hab ha hb
      have := List.pairwise_iff_getElem.mp hs a b (by
        have := List.getElem?_eq_some_iff.mp ha; exact this.1) (by
        have := List.getElem?_eq_some_iff.mp hb; exact this.1) hab
      unfold before at this
      simp only [hm, if_true] at this
      have ea := (List.getElem?_eq_some_iff.mp ha).2
      have eb := (List.getElem?_eq_some_iff.mp hb).2
      rw [ea, eb] at this; exact this
    have hmono : ∀ a b, a ≤ b → b < l.length → F a = true → F b = true := by
      intro a b hab hb hfa
      rcases Nat.lt_or_ge a b with h | h
      · have ha' : l[a]? = some l[a] := List.getElem?_eq_getElem (by omega)
        have hb' : l[b]? = some l[b] := List.getElem?_eq_getElem hb
        rw [hFk a _ ha'] at hfa
        rw [hFk b _ hb']
        exact sortsAfter_negtrans o _ _ _ hfa (hpw a b _ _ h ha' hb')
      · have : a = b := by omega
        subst this; exact hfa
    have hsp := searchGo_spec F l.length 0 l.length (Nat.zero_le _) (by omega) (fun a b _ h2 h3 h4 => hmono a b h2 h3 h4)
    change _ ∧ _ ∧ _ ∧ _ at hsp
    rw [show searchGo F l.length 0 l.length = search l.length F from rfl] at hsp
    generalize search l.length F = i at hsp
    unfold Sorted at hs ⊢
    rw [List.pairwise_append, List.pairwise_cons]
    refine ⟨hs.sublist (List.take_sublist _ _), ⟨fun y hy => ?_, hs.sublist (List.drop_sublist _ _)⟩, fun x hx y hy => ?_⟩
    · obtain ⟨k, hk, hky⟩ := mem_drop_iff.mp hy
      unfold before; simp only [hm, if_true]
      have hkl : k < l.length := (List.getElem?_eq_some_iff.mp hky).1
      have := hsp.2.2.2 k hk hkl
      rw [hFk k y hky] at this
      rw [hf]
      exact sortsAfter_asymm o _ _ this
    · simp only [List.mem_cons] at hy
      obtain ⟨k, hk, hkx⟩ := mem_take_iff.mp hx
      rcases hy with hy | hy
      · subst hy
        unfold before; simp only [hm, if_true]
        have := hsp.2.2.1 k (Nat.zero_le _) hk
        rw [hFk k x hkx] at this
        rw [hf]; exact this
      · obtain ⟨k', hk', hky⟩ := mem_drop_iff.mp hy
        unfold before; simp only [hm, if_true]
        exact hpw k k' x y (by omega) hkx hky
  · simp only [hm]
    simp only [Bool.false_eq_true, if_false, List.take_length, List.drop_length]
    unfold Sorted at hs ⊢
    rw [List.pairwise_append]
    refine ⟨hs, by simp, fun x hx y hy => ?_⟩
    simp at hy; subst hy
    unfold before; simp only [hm]
    simpa using (hv x hx).2


/-! ## Push, second half: the new node is linked in -/

theorem getNext_append_new (ns : Nodes) (f : FileInfo) (j : Nat) :
    getNext (ns ++ [({ file := f } : Node)]) j = getNext ns j := by
  unfold getNext
  rw [List.getElem?_append]
  split
  · rfl
  · rename_i h
    have : ns[j]? = none := by simp; omega
    rw [this]
    cases hx : [({ file := f } : Node)][j - ns.length]? with
    | none => rfl
    | some n =>
      have := List.mem_of_getElem? hx
      simp at this; subst this; rfl

theorem getPrev_append_new (ns : Nodes) (f : FileInfo) (j : Nat) :
    getPrev (ns ++ [({ file := f } : Node)]) j = getPrev ns j := by
  unfold getPrev
  rw [List.getElem?_append]
  split
  · rfl
  · rename_i h
    have : ns[j]? = none := by simp; omega
    rw [this]
    cases hx : [({ file := f } : Node)][j - ns.length]? with
    | none => rfl
    | some n =>
      have := List.mem_of_getElem? hx
      simp at this; subst this; rfl

theorem payload_append_old (ns : Nodes) (nd : Node) (j : Nat) (h : j < ns.length) :
    payload (ns ++ [nd]) j = payload ns j := by
  unfold payload; rw [List.getElem?_append_left h]

theorem payload_append_new (ns : Nodes) (nd : Node) :
    payload (ns ++ [nd]) ns.length = some (nd.file, nd.allocated) := by
  unfold payload; simp

theorem Rep.append_new {ns : Nodes} {c : List Nat} (h : Rep ns c) (f : FileInfo) :
    Rep (ns ++ [({ file := f } : Node)]) c :=
  h.congr (by simp) (getNext_append_new ns f) (getPrev_append_new ns f)


theorem nodeName_append_new (ns : Nodes) (f : FileInfo) :
    nodeName (ns ++ [({ file := f } : Node)]) ns.length = f.name := by
  rw [nodeName_eq_payload, payload_append_new]

theorem fileOf_append_new (ns : Nodes) (f : FileInfo) :
    fileOf (ns ++ [({ file := f } : Node)]) ns.length = f := by
  rw [fileOf_eq_payload, payload_append_new]

theorem nodup_middle_iff {α : Type} {A B : List α} {a : α} : (A ++ a :: B).Nodup ↔ (a :: (A ++ B)).Nodup := by
  simp only [List.nodup_append, List.nodup_cons, List.mem_append, List.mem_cons]
  constructor
  · rintro ⟨h1, ⟨h2, h3⟩, h4⟩
    exact ⟨fun h => h.elim (fun h => h4 a h a (Or.inl rfl) rfl) h2, h1, h3, fun x hx y hy => h4 x hx y (Or.inr hy)⟩
  · rintro ⟨h1, h2, h3, h4⟩
    refine ⟨h2, ⟨fun h => h1 (Or.inr h), h3⟩, fun x hx y hy => ?_⟩
    rcases hy with hy | hy
    · subst hy; intro e; subst e; exact h1 (Or.inl hx)
    · exact h4 x hx y hy

theorem addNew_wf_anchor {g : GroupSt} (h : g.WF) (f : FileInfo)
    (hfresh : ∀ id ∈ g.list, nodeName g.nodes id ≠ f.name) : (g.addNew f).WF ∧ (g.addNew f).anchor = g.anchor := by
  obtain ⟨pre, hpl, hrep, hpa⟩ := h.chain
  have hv : ∀ x ∈ g.list, x < g.nodes.length := fun x hx => h.valid hx
  have hvp : ∀ x ∈ pre, x < g.nodes.length := fun x hx => hrep.valid x (by simp [hx])
  generalize hns' : g.nodes ++ [({ file := f } : Node)] = ns'
  have hrep' : Rep ns' (pre ++ g.list) := hns' ▸ hrep.append_new f
  have hpo : ∀ j, j < g.nodes.length → payload ns' j = payload g.nodes j := fun j hj => hns' ▸ payload_append_old _ _ j hj
  have hnm : ∀ j, j < g.nodes.length → nodeName ns' j = nodeName g.nodes j := fun j hj => by
    rw [nodeName_eq_payload, nodeName_eq_payload, hpo j hj]
  have hal : ∀ j, j < g.nodes.length → isAllocated ns' j = isAllocated g.nodes j := fun j hj => by
    rw [isAllocated_eq_payload, isAllocated_eq_payload, hpo j hj]
  have hfo : ∀ j, j < g.nodes.length → fileOf ns' j = fileOf g.nodes j := fun j hj => by
    rw [fileOf_eq_payload, fileOf_eq_payload, hpo j hj]
  have hidn : nodeName ns' g.nodes.length = f.name := hns' ▸ nodeName_append_new _ f
  have hidf : fileOf ns' g.nodes.length = f := hns' ▸ fileOf_append_new _ f
  have hlen : ns'.length = g.nodes.length + 1 := by rw [← hns']; simp
  have hidL : g.nodes.length ∉ pre ++ g.list := by
    intro hm; simp at hm
    rcases hm with hm | hm
    · exact Nat.lt_irrefl _ (hvp _ hm)
    · exact Nat.lt_irrefl _ (hv _ hm)
  have hget : ns'[g.nodes.length]? = some ({ file := f } : Node) := by rw [← hns']; simp
  have hsorted' : Sorted g.conf.order ns' g.list :=
    h.sorted.congr (fun i hi => by rw [hfo i (hv i hi)]; exact ⟨rfl, rfl⟩)
  have hnames' : (g.list.map (nodeName ns')).Nodup := by
    have : g.list.map (nodeName ns') = g.list.map (nodeName g.nodes) :=
      List.map_congr_left (fun x hx => hnm x (hv x hx))
    rw [this]; exact h.names
  have hbf : ∀ nm id, ByFile.find (ByFile.insert g.byFile f.name g.nodes.length) nm = some id ↔
      ((id = g.nodes.length ∨ id ∈ g.list) ∧ nodeName ns' id = nm) := by
    intro nm id
    rw [ByFile.find_insert]
    by_cases hnmf : nm = f.name
    · subst hnmf
      simp only [if_true, Option.some.injEq]
      constructor
      · intro e; subst e; exact ⟨Or.inl rfl, hidn⟩
      · rintro ⟨h1 | h1, h2⟩
        · exact h1.symm
        · rw [hnm id (hv id h1)] at h2; exact absurd h2 (hfresh id h1)
    · simp only [hnmf, if_false]
      rw [h.byFile_iff]
      constructor
      · rintro ⟨h1, h2⟩; exact ⟨Or.inr h1, by rw [hnm id (hv id h1)]; exact h2⟩
      · rintro ⟨h1 | h1, h2⟩
        · subst h1; rw [hidn] at h2; exact absurd h2.symm hnmf
        · exact ⟨h1, by rw [← hnm id (hv id h1)]; exact h2⟩
  unfold GroupSt.addNew
  simp only [hns']
  unfold GroupSt.addFile
  simp only [hidn]
  cases hh : g.head with
  | none =>
    have hl : g.list = [] := by
      cases hl : g.list with
      | nil => rfl
      | cons a t => have := h.head_some (by simp [hl]); rw [hh, hl] at this; cases this
    simp only [hl, List.nil_append]
    have hanc : g.anchor = none := by unfold GroupSt.anchor; rw [hl, hh]
    rw [hl] at hrep' hbf
    refine ⟨⟨⟨[], by simp, ?_, by simp⟩, by simp, by simp, ?_, by simp, ?_⟩, ?_⟩
    · have := (hrep'.nil_of_short (by simpa using hpl)).to_singleton (p := g.nodes.length) (by omega)
      simpa using this
    · intro nm id; simpa using hbf nm id
    · unfold Sorted; simp
    · rw [hanc]
      show getPrev ns' g.nodes.length = none
      exact (hrep'.unlinked (by rw [hl] at hidL; exact hidL)).1
  | some hd =>
    simp only [hget]
    generalize hi : insertPos g.conf.order ns' g.list f = i
    have hile : i ≤ g.list.length := by
      rw [← hi]; unfold insertPos; split
      · exact search_le _ _
      · exact Nat.le_refl _
    have hsorted'' := sorted_insertPos g.conf.order ns' g.list g.nodes.length f hidf hsorted'
      (fun x hx => ⟨by have := hv x hx; omega, hv x hx⟩)
    rw [hi] at hsorted''
    generalize hnodes : (if (i == 0) = true then
          if ((List.take i g.list ++ List.length g.nodes :: List.drop i g.list).length == 1) = true then
            insertAfter ns' (List.length g.nodes) hd
          else
            match (List.take i g.list ++ List.length g.nodes :: List.drop i g.list)[1]? with
            | some x => insertBefore ns' (List.length g.nodes) x
            | none => ns'
        else
          match (List.take i g.list ++ List.length g.nodes :: List.drop i g.list)[i - 1]? with
          | some x => insertAfter ns' (List.length g.nodes) x
          | none => ns') = ns''
    have hunl : unlink ns' g.nodes.length = ns' := by
      have := hrep'.unlinked hidL
      exact unlink_unlinked this.1 this.2
    have hidlt : g.nodes.length < ns'.length := by omega
    have key : ∃ pre', pre'.length ≤ 1 ∧
        Rep ns'' (pre' ++ (List.take i g.list ++ List.length g.nodes :: List.drop i g.list)) ∧
        (∀ p ∈ pre', isAllocated ns' p = true) ∧ SamePayload ns' ns'' ∧ pre'.getLast? = g.anchor := by
      rw [← hnodes]
      by_cases hi0 : i = 0
      · subst hi0
        cases hl : g.list with
        | nil =>
          have hhd := h.head_none hl hd hh
          simp only [List.take_zero, List.drop_zero, List.nil_append, List.length_cons, List.length_nil,
            beq_self_eq_true, if_true]
          refine ⟨[hd], by simp, ?_, ?_, ?_, by unfold GroupSt.anchor; rw [hl, hh]; rfl⟩
          · unfold insertAfter; rw [hunl]
            rw [hl] at hrep'
            have h1 := (hrep'.nil_of_short (by simpa using hpl)).to_singleton (p := hd) (by omega)
            have := addAfter_rep (A := [hd]) (B := []) (i := g.nodes.length) (p := hd) (by simpa using h1)
              (by simp) (by simp; omega) hidlt
            simpa using this
          · intro p hp; simp at hp; subst hp; rw [hal p hhd.1]; exact hhd.2
          · intro j; rw [payload_insertAfter]
        | cons a t =>
          simp only [List.take_zero, List.drop_zero, List.nil_append, List.length_cons, beq_self_eq_true, if_true]
          have : ¬ ((t.length + 1 + 1 == 1) = true) := by simp
          simp only [this, Bool.false_eq_true, if_false, List.getElem?_cons_succ, List.getElem?_cons_zero]
          refine ⟨pre, hpl, ?_, ?_, ?_, by unfold GroupSt.anchor; rw [hl]; exact (hl ▸ hrep).prev_head.symm⟩
          · unfold insertBefore; rw [hunl]
            rw [hl] at hrep' hidL
            exact addBefore_rep (A := pre) (B := a :: t) hrep' (by simp) hidL hidlt
          · intro p hp; rw [hal p (hvp p hp)]; exact hpa p hp
          · intro j; rw [payload_insertBefore]
      · have hb : (i == 0) = false := by simpa using hi0
        simp only [hb, Bool.false_eq_true, if_false]
        have hx : (List.take i g.list ++ List.length g.nodes :: List.drop i g.list)[i - 1]? = g.list[i - 1]? := by
          rw [List.getElem?_append_left (by simp; omega), List.getElem?_take]
          have : i - 1 < i := by omega
          simp [this]
        have hlt : i - 1 < g.list.length := by omega
        rw [hx, List.getElem?_eq_getElem hlt]
        simp only
        have hanc : pre.getLast? = g.anchor := by
          cases hl : g.list with
          | nil => rw [hl] at hlt; simp at hlt
          | cons a t => unfold GroupSt.anchor; rw [hl]; exact (hl ▸ hrep).prev_head.symm
        refine ⟨pre, hpl, ?_, ?_, ?_, hanc⟩
        · unfold insertAfter; rw [hunl]
          have hsplit : pre ++ g.list = (pre ++ List.take i g.list) ++ List.drop i g.list := by simp
          rw [hsplit] at hrep' hidL
          have hlast : (pre ++ List.take i g.list).getLast? = some g.list[i - 1] := by
            rw [List.getLast?_append, List.getLast?_take]
            simp [hi0, List.getElem?_eq_getElem hlt]
          have := addAfter_rep hrep' hlast hidL hidlt
          simpa using this
        · intro p hp; rw [hal p (hvp p hp)]; exact hpa p hp
        · intro j; rw [payload_insertAfter]
    obtain ⟨pre', hpl', hrep'', hpa', hsp, hanc'⟩ := key
    have hmem : ∀ x, x ∈ List.take i g.list ++ List.length g.nodes :: List.drop i g.list ↔
        (x = g.nodes.length ∨ x ∈ g.list) := by
      intro x
      have := List.take_append_drop i g.list
      constructor
      · intro hx; simp at hx
        rcases hx with hx | hx | hx
        · exact Or.inr (List.mem_of_mem_take hx)
        · exact Or.inl hx
        · exact Or.inr (List.mem_of_mem_drop hx)
      · rintro (hx | hx)
        · simp [hx]
        · have hx' : x ∈ List.take i g.list ++ List.drop i g.list := by rw [this]; exact hx
          rcases List.mem_append.mp hx' with hx | hx
          · exact List.mem_append.mpr (Or.inl hx)
          · exact List.mem_append.mpr (Or.inr (List.mem_cons_of_mem _ hx))
    refine ⟨⟨⟨pre', hpl', hrep'', fun p hp => ?_⟩, by simp, by simp, ?_, ?_, ?_⟩, ?_⟩
    · show isAllocated ns'' p = true
      rw [hsp.isAllocated]; exact hpa' p hp
    · intro nm id
      show _ ↔ (id ∈ _ ∧ nodeName ns'' id = nm)
      rw [hmem, hsp.nodeName]; exact hbf nm id
    · show (List.map (nodeName ns'') _).Nodup
      have e : List.map (nodeName ns'') (List.take i g.list ++ List.length g.nodes :: List.drop i g.list) =
          List.map (nodeName ns') (List.take i g.list) ++ f.name :: List.map (nodeName ns') (List.drop i g.list) := by
        simp only [List.map_append, List.map_cons, hidn.symm]
        congr 1
        · exact List.map_congr_left (fun x _ => hsp.nodeName x)
        · congr 1
          · exact hsp.nodeName _
          · exact List.map_congr_left (fun x _ => hsp.nodeName x)
      rw [e, nodup_middle_iff]
      apply List.nodup_cons.mpr
      rw [← List.map_append, List.take_append_drop]
      refine ⟨?_, hnames'⟩
      intro hm
      obtain ⟨x, hx, hxn⟩ := List.mem_map.mp hm
      rw [hnm x (hv x hx)] at hxn
      exact hfresh x hx hxn
    · exact hsorted''.congr (fun j _ => by rw [hsp.fileOf]; exact ⟨rfl, rfl⟩)
    · rw [← hanc']
      cases hl' : List.take i g.list ++ List.length g.nodes :: List.drop i g.list with
      | nil => simp at hl'
      | cons a t =>
        rw [hl'] at hrep''
        show GroupSt.anchor { name := g.name, conf := g.conf, nodes := ns'', byFile := _, list := _, head := _ } = _
        unfold GroupSt.anchor
        simp only [hl']
        exact hrep''.prev_head

theorem addNew_conf (g : GroupSt) (f : FileInfo) : (g.addNew f).conf = g.conf ∧ (g.addNew f).name = g.name := by
  unfold GroupSt.addNew GroupSt.addFile
  dsimp only
  split
  · exact ⟨rfl, rfl⟩
  · split <;> exact ⟨rfl, rfl⟩

theorem addNew_wf {g : GroupSt} (h : g.WF) (f : FileInfo)
    (hfresh : ∀ id ∈ g.list, nodeName g.nodes id ≠ f.name) : (g.addNew f).WF := (addNew_wf_anchor h f hfresh).1

/-- Push keeps a group well-formed. -/
theorem pushFile_wf {g : GroupSt} (h : g.WF) (f : FileInfo) : (g.pushFile f).WF := by
  have := dropFile_wf h f.name
  exact addNew_wf this.1 f this.2.1

theorem pushFile_conf (g : GroupSt) (f : FileInfo) (h : g.WF) :
    (g.pushFile f).conf = g.conf ∧ (g.pushFile f).name = g.name := by
  have := dropFile_wf h f.name
  have h2 := addNew_conf (g.dropFile f.name) f
  exact ⟨h2.1.trans this.2.2.1, h2.2.trans this.2.2.2.1⟩

/-! ## Pop: the skip loop -/

/-- the body of Pop's skip loop for an allocated head file `n` that has a successor -/
def GroupSt.skipStep (g : GroupSt) (n : Nat) : GroupSt :=
  let g := g.removeFile n
  { g with nodes := match getPrev g.nodes n with
                    | some p => unlink g.nodes p
                    | none => g.nodes }

theorem skipLoop_succ (fuel : Nat) (g : GroupSt) (n adv : Nat) :
    skipLoop (fuel + 1) g (some n) adv =
      if !isAllocated g.nodes n then (g, some n, adv)
      else match getNext g.nodes n with
        | none => (g, none, adv)
        | some nn => skipLoop fuel (g.skipStep n) (some nn) (adv + 1) := rfl

/-- the skip loop never looks at the list -/
theorem skipLoop_list (fuel : Nat) (g : GroupSt) (nx : Option Nat) (adv : Nat) (L : List Nat) :
    skipLoop fuel { g with list := L } nx adv =
      ({ (skipLoop fuel g nx adv).1 with list := L }, (skipLoop fuel g nx adv).2) := by
  induction fuel generalizing g nx adv with
  | zero => cases nx <;> rfl
  | succ fuel ih =>
    cases nx with
    | none => rfl
    | some n =>
      rw [skipLoop_succ, skipLoop_succ]
      dsimp only
      split
      · rfl
      · split
        · rfl
        · exact ih (g.skipStep n) _ _

theorem skipLoop_list_id (fuel : Nat) (g : GroupSt) (nx : Option Nat) (adv : Nat) :
    (skipLoop fuel g nx adv).1.list = g.list := by
  induction fuel generalizing g nx adv with
  | zero => cases nx <;> rfl
  | succ fuel ih =>
    cases nx with
    | none => rfl
    | some n =>
      rw [skipLoop_succ]
      split
      · rfl
      · split
        · rfl
        · rw [ih]; rfl

theorem skipStep_wf {g : GroupSt} (h : g.WF) {a b : Nat} {t : List Nat} (hl : g.list = a :: b :: t)
    (ha : isAllocated g.nodes a = true) :
    ({ g.skipStep a with list := b :: t } : GroupSt).WF ∧ (g.skipStep a).head = some b ∧
    SamePayload g.nodes (g.skipStep a).nodes ∧ (g.skipStep a).conf = g.conf ∧ (g.skipStep a).name = g.name ∧
    (g.skipStep a).nodes.length = g.nodes.length := by
  obtain ⟨pre, hpl, hrep, hpa⟩ := h.chain
  rw [hl] at hrep
  have hnd := hrep.nodup
  have hhead : g.head = some a := by have := h.head_some (by simp [hl]); simpa [hl] using this
  have hnext : getNext g.nodes a = some b := by
    have e : pre ++ a :: b :: t = pre ++ a :: (b :: t) := rfl
    have haA : a ∉ pre := (nodup_mid hnd).2.1
    rw [hrep.next, succIn_append hnd]; simp [haA, succIn]
  have hprev : getPrev g.nodes a = pre.getLast? := by
    rw [hrep.prev, predIn_append hnd]; simp
  have hnames := h.names
  rw [hl] at hnames
  have hna : ∀ x ∈ b :: t, nodeName g.nodes x ≠ nodeName g.nodes a := by
    intro x hx e
    simp only [List.map_cons] at hnames
    exact (List.nodup_cons.mp hnames).1 (by rw [← e]; exact List.mem_map_of_mem (f := nodeName g.nodes) hx)
  generalize hns' : (match pre.getLast? with
    | some p => unlink g.nodes p
    | none => g.nodes) = ns'
  have hsp : SamePayload g.nodes ns' := by
    rw [← hns']; split
    · exact samePayload_unlink _ _
    · exact fun _ => rfl
  have hlen : ns'.length = g.nodes.length := by
    rw [← hns']; split <;> simp
  have hrep' : Rep ns' ([a] ++ b :: t) := by
    rw [← hns']
    match pre, hpl, hrep with
    | [], _, hrep => simpa using hrep
    | [p], _, hrep =>
      have := unlink_rep (A := []) (B := a :: b :: t) (i := p) (by simpa using hrep)
      simpa using this
  have heq : g.skipStep a = { g with nodes := ns', head := (some b), byFile := (ByFile.erase g.byFile (nodeName g.nodes a)) } := by
    unfold GroupSt.skipStep GroupSt.removeFile
    simp only [hhead, beq_self_eq_true, if_true, hnext, hprev, hns']
  rw [heq]
  refine ⟨⟨⟨[a], by simp, hrep', fun p hp => ?_⟩, by simp, by simp, ?_, ?_, ?_⟩, rfl, hsp, rfl, rfl, hlen⟩
  · simp at hp; subst hp; show isAllocated ns' p = true; rw [hsp.isAllocated]; exact ha
  · intro nm id
    show ByFile.find (ByFile.erase g.byFile (nodeName g.nodes a)) nm = some id ↔ (id ∈ b :: t ∧ nodeName ns' id = nm)
    rw [ByFile.find_erase, hsp.nodeName]
    by_cases hnm : nm = nodeName g.nodes a
    · simp only [hnm, if_true]
      constructor
      · intro e; cases e
      · rintro ⟨h1, h2⟩; exact absurd h2 (hna id h1)
    · simp only [hnm, if_false]
      rw [h.byFile_iff, hl]
      constructor
      · rintro ⟨h1, h2⟩
        simp only [List.mem_cons] at h1
        rcases h1 with h1 | h1
        · subst h1; exact absurd h2.symm hnm
        · exact ⟨by simpa using h1, h2⟩
      · rintro ⟨h1, h2⟩; exact ⟨List.mem_cons_of_mem _ h1, h2⟩
  · show (List.map (nodeName ns') (b :: t)).Nodup
    have : List.map (nodeName ns') (b :: t) = List.map (nodeName g.nodes) (b :: t) :=
      List.map_congr_left (fun x _ => hsp.nodeName x)
    rw [this]
    exact (List.nodup_cons.mp hnames).2
  · show Sorted g.conf.order ns' (b :: t)
    have hs := h.sorted
    rw [hl] at hs
    have : Sorted g.conf.order g.nodes (b :: t) := by
      unfold Sorted at hs ⊢; exact (List.pairwise_cons.mp hs).2
    exact this.congr (fun i _ => by rw [hsp.fileOf]; exact ⟨rfl, rfl⟩)

/-- how many leading listed files Pop's skip loop removes: fully allocated ones that have a successor -/
def skipCount (ns : Nodes) : List Nat → Nat
  | a :: b :: t => if isAllocated ns a then skipCount ns (b :: t) + 1 else 0
  | _ => 0

/-- the file the skip loop stops at: the first remaining one unless it is fully allocated -/
def candidate (ns : Nodes) (l : List Nat) : Option Nat :=
  match l.drop (skipCount ns l) with
  | a :: _ => if isAllocated ns a then none else some a
  | [] => none

theorem skipCount_congr {ns ns' : Nodes} (h : SamePayload ns ns') (l : List Nat) : skipCount ns' l = skipCount ns l := by
  induction l with
  | nil => rfl
  | cons a t ih =>
    cases t with
    | nil => rfl
    | cons b t' => simp only [skipCount, h.isAllocated, ih]

theorem candidate_congr {ns ns' : Nodes} (h : SamePayload ns ns') (l : List Nat) : candidate ns' l = candidate ns l := by
  unfold candidate; rw [skipCount_congr h]
  split <;> simp [h.isAllocated]

theorem skipCount_le (ns : Nodes) (l : List Nat) : skipCount ns l ≤ l.length := by
  induction l with
  | nil => simp [skipCount]
  | cons a t ih =>
    cases t with
    | nil => simp [skipCount]
    | cons b t' => simp only [skipCount]; split <;> simp at ih ⊢ <;> omega

theorem skipLoop_spec (fuel : Nat) : ∀ {g : GroupSt} (_ : g.WF) (_ : g.list.length < fuel) (adv : Nat),
    (skipLoop fuel g g.head adv).2.2 = adv + skipCount g.nodes g.list ∧
    (skipLoop fuel g g.head adv).2.1 = candidate g.nodes g.list ∧
    ({ (skipLoop fuel g g.head adv).1 with list := g.list.drop (skipCount g.nodes g.list) } : GroupSt).WF ∧
    SamePayload g.nodes (skipLoop fuel g g.head adv).1.nodes ∧
    (skipLoop fuel g g.head adv).1.conf = g.conf ∧ (skipLoop fuel g g.head adv).1.name = g.name ∧
    (skipLoop fuel g g.head adv).1.nodes.length = g.nodes.length := by
  induction fuel with
  | zero => intro g _ hf; omega
  | succ fuel ih =>
    intro g h hf adv
    obtain ⟨pre, hpl, hrep, hpa⟩ := h.chain
    match hl : g.list with
    | [] =>
      have hwf : ({ g with list := List.drop (skipCount g.nodes []) [] } : GroupSt).WF := by
        have : ({ g with list := List.drop (skipCount g.nodes []) [] } : GroupSt) = g := by
          cases g; simp at hl; simp [hl]
        rw [this]; exact h
      cases hh : g.head with
      | none => exact ⟨by simp [skipLoop, skipCount], by simp [skipLoop, candidate, skipCount], hwf, fun _ => rfl, by first | rfl | simp, by first | rfl | simp, by first | rfl | simp⟩
      | some hd =>
        have hhd := h.head_none hl hd hh
        have hnx : getNext g.nodes hd = none := by
          rw [hl] at hrep
          have := hrep.nil_of_short (by simpa using hpl)
          rw [this.next]; rfl
        rw [skipLoop_succ]
        simp only [hhd.2, Bool.not_true, Bool.false_eq_true, if_false, hnx]
        exact ⟨by simp [skipCount], by simp [candidate, skipCount], hwf, fun _ => rfl, by first | rfl | simp, by first | rfl | simp, by first | rfl | simp⟩
    | [a] =>
      have hhead : g.head = some a := by have := h.head_some (by simp [hl]); simpa [hl] using this
      have hwf : ({ g with list := List.drop (skipCount g.nodes [a]) [a] } : GroupSt).WF := by
        have : ({ g with list := List.drop (skipCount g.nodes [a]) [a] } : GroupSt) = g := by
          cases g; simp at hl; simp [hl, skipCount]
        rw [this]; exact h
      have hnx : getNext g.nodes a = none := by
        rw [hl] at hrep
        have hnd := hrep.nodup
        have haA : a ∉ pre := (nodup_mid hnd).2.1
        rw [hrep.next, succIn_append hnd]; simp [haA, succIn]
      rw [hhead, skipLoop_succ]
      by_cases ha : isAllocated g.nodes a = true
      · simp only [ha, Bool.not_true, Bool.false_eq_true, if_false, hnx]
        exact ⟨by simp [skipCount], by simp [candidate, skipCount, ha], hwf, fun _ => rfl, by first | rfl | simp, by first | rfl | simp, by first | rfl | simp⟩
      · have ha' : isAllocated g.nodes a = false := by simpa using ha
        simp only [ha', Bool.not_false, if_true]
        exact ⟨by simp [skipCount], by simp [candidate, skipCount, ha'], hwf, fun _ => rfl, by first | rfl | simp, by first | rfl | simp, by first | rfl | simp⟩
    | a :: b :: t =>
      have hhead : g.head = some a := by have := h.head_some (by simp [hl]); simpa [hl] using this
      rw [hhead, skipLoop_succ]
      by_cases ha : isAllocated g.nodes a = true
      · have hnx : getNext g.nodes a = some b := by
          rw [hl] at hrep
          have hnd := hrep.nodup
          have haA : a ∉ pre := (nodup_mid hnd).2.1
          rw [hrep.next, succIn_append hnd]; simp [haA, succIn]
        simp only [ha, Bool.not_true, Bool.false_eq_true, if_false, hnx]
        obtain ⟨hwf1, hhd1, hsp1, hc1, hn1, hlen1⟩ := skipStep_wf h hl ha
        have e1 : g.skipStep a = { ({ g.skipStep a with list := b :: t } : GroupSt) with list := (g.skipStep a).list } := rfl
        rw [e1, skipLoop_list]
        generalize hg1 : ({ g.skipStep a with list := b :: t } : GroupSt) = g1 at hwf1
        have hh1 : g1.head = some b := by rw [← hg1]; exact hhd1
        have hl1 : g1.list = b :: t := by rw [← hg1]
        have hn1' : g1.nodes = (g.skipStep a).nodes := by rw [← hg1]
        have hc1' : g1.conf = (g.skipStep a).conf := by rw [← hg1]
        have hnm1' : g1.name = (g.skipStep a).name := by rw [← hg1]
        have := ih hwf1 (by rw [hl1]; rw [hl] at hf; simp at hf ⊢; omega) (adv + 1)
        rw [hh1, hl1, hn1'] at this
        obtain ⟨r1, r2, r3, r4, r5, r6, r7⟩ := this
        have hsc : skipCount g.nodes (a :: b :: t) = skipCount g.nodes (b :: t) + 1 := by simp [skipCount, ha]
        refine ⟨?_, ?_, ?_, ?_, ?_, ?_, ?_⟩
        · show (skipLoop fuel g1 (some b) (adv + 1)).2.2 = _
          rw [r1, hsc, skipCount_congr hsp1]; omega
        · show (skipLoop fuel g1 (some b) (adv + 1)).2.1 = _
          rw [r2, candidate_congr hsp1]
          unfold candidate; rw [hsc]; rfl
        · rw [hsc]
          simp only [List.drop_succ_cons]
          rw [skipCount_congr hsp1] at r3
          exact r3
        · exact fun j => (r4 j).trans (hsp1 j)
        · exact r5.trans (hc1'.trans hc1)
        · exact r6.trans (hnm1'.trans hn1)
        · exact r7.trans hlen1
      · have ha' : isAllocated g.nodes a = false := by simpa using ha
        simp only [ha', Bool.not_false, if_true]
        have hwf : ({ g with list := List.drop (skipCount g.nodes (a :: b :: t)) (a :: b :: t) } : GroupSt).WF := by
          have : ({ g with list := List.drop (skipCount g.nodes (a :: b :: t)) (a :: b :: t) } : GroupSt) = g := by
            cases g; simp at hl; simp [hl, skipCount, ha']
          rw [this]; exact h
        exact ⟨by simp [skipCount, ha'], by simp [candidate, skipCount, ha'], hwf, fun _ => rfl, by first | rfl | simp, by first | rfl | simp, by first | rfl | simp⟩


/-! ## Pop: the scan of one group -/

/-- the skip loop stops at the first listed file that is not fully allocated -/
theorem candidate_eq_find (ns : Nodes) (l : List Nat) :
    candidate ns l = l.find? (fun x => !isAllocated ns x) := by
  induction l with
  | nil => rfl
  | cons a t ih =>
    cases t with
    | nil =>
      unfold candidate; simp only [skipCount, List.drop_zero, List.find?_cons, List.find?_nil]
      cases isAllocated ns a <;> simp
    | cons b t' =>
      by_cases ha : isAllocated ns a = true
      · have : candidate ns (a :: b :: t') = candidate ns (b :: t') := by
          unfold candidate; simp [skipCount, ha]
        rw [this, ih]; simp [List.find?_cons, ha]
      · have ha' : isAllocated ns a = false := by simpa using ha
        unfold candidate; simp [skipCount, ha']

/-- C12: a group has a chunk ready at time `now`: it lists a file that is not fully
    allocated, and the first such file is not a last listed file that is younger than the
    tag's last-file delay. -/
def GroupSt.ready (g : GroupSt) (now : Int) : Bool :=
  match g.list.find? (fun x => !isAllocated g.nodes x) with
  | none => false
  | some c => !(decide (g.conf.lastDelay > 0) && g.list.getLast? == some c && decide (now - nodeTime g.nodes c < g.conf.lastDelay))

/-- the file Pop would serve from this group -/
def GroupSt.nextFile (g : GroupSt) (now : Int) : Option Nat :=
  if g.ready now then g.list.find? (fun x => !isAllocated g.nodes x) else none

theorem candidate_head {ns : Nodes} {l : List Nat} {c : Nat} (h : candidate ns l = some c) :
    ∃ rest, l.drop (skipCount ns l) = c :: rest ∧ isAllocated ns c = false := by
  unfold candidate at h
  split at h
  · rename_i a rest heq
    split at h
    · cases h
    · rename_i ha; simp at h; subst h; exact ⟨rest, heq, by simpa using ha⟩
  · cases h


theorem getLast?_drop_of_head {l : List Nat} {k c : Nat} {rest : List Nat} (hn : l.Nodup) (h : l.drop k = c :: rest) :
    (l.getLast? = some c ↔ rest = []) := by
  have hl : l = l.take k ++ c :: rest := by rw [← h, List.take_append_drop]
  have hnd : (l.take k ++ c :: rest).Nodup := hl ▸ hn
  rw [hl, List.getLast?_append]
  cases rest with
  | nil => simp
  | cons b t =>
    simp only [reduceCtorEq, iff_false]
    intro e
    have hmem : (c :: b :: t).getLast? = some c := by
      cases h2 : (c :: b :: t).getLast? with
      | none => simp at h2
      | some x => rw [h2] at e; simpa using e
    rw [List.getLast?_cons_cons] at hmem
    have := List.mem_of_getLast? hmem
    have hc := (List.nodup_cons.mp (List.nodup_append.mp hnd).2.1).1
    exact hc this

theorem scan_spec {g : GroupSt} (h : g.WF) (now : Int) :
    (g.scan now).2 = g.nextFile now ∧
    (g.scan now).1.list = g.list.drop (skipCount g.nodes g.list) ∧
    (g.scan now).1.WF ∧ SamePayload g.nodes (g.scan now).1.nodes ∧
    (g.scan now).1.conf = g.conf ∧ (g.scan now).1.name = g.name ∧
    (g.scan now).1.nodes.length = g.nodes.length := by
  obtain ⟨r1, r2, r3, r4, r5, r6, r7⟩ := skipLoop_spec (g.nodes.length + 1) h (by
    have : g.list.length ≤ g.nodes.length := by
      obtain ⟨pre, _, hrep, _⟩ := h.chain
      have hnd : g.list.Nodup := (List.nodup_append.mp hrep.nodup).2.1
      have hsub : g.list ⊆ List.range g.nodes.length := fun x hx => List.mem_range.mpr (h.valid hx)
      have := List.Nodup.length_le_of_subset hnd hsub  -- may not exist
      simpa using this
    omega) 0
  have rl := skipLoop_list_id (g.nodes.length + 1) g g.head 0
  unfold GroupSt.scan
  generalize skipLoop (g.nodes.length + 1) g g.head 0 = res at r1 r2 r3 r4 r5 r6 r7 rl
  obtain ⟨g1, nx, adv⟩ := res
  simp only at r1 r2 r3 r4 r5 r6 r7 rl ⊢
  simp only [Nat.zero_add] at r1
  subst r1
  have hdrop : (if skipCount g.nodes g.list > 0 then g1.list.drop (skipCount g.nodes g.list) else g1.list) =
      g.list.drop (skipCount g.nodes g.list) := by
    rw [rl]; split
    · rfl
    · rename_i hk; have : skipCount g.nodes g.list = 0 := by omega
      rw [this]; rfl
  rw [hdrop]
  obtain ⟨g2, hg2⟩ : ∃ g2 : GroupSt, ({ g1 with list := List.drop (skipCount g.nodes g.list) g.list } : GroupSt) = g2 := ⟨_, rfl⟩
  rw [hg2] at r3
  simp only [hg2]
  have e2n : g2.nodes = g1.nodes := by rw [← hg2]
  have e2l : g2.list = List.drop (skipCount g.nodes g.list) g.list := by rw [← hg2]
  have e2c : g2.conf = g1.conf := by rw [← hg2]
  have e2m : g2.name = g1.name := by rw [← hg2]
  have hfind := candidate_eq_find g.nodes g.list
  have hgnd : g.list.Nodup := by
    obtain ⟨pre0, _, hrep0, _⟩ := h.chain
    exact (List.nodup_append.mp hrep0.nodup).2.1
  have hbase : g2.list = g.list.drop (skipCount g.nodes g.list) ∧ g2.WF ∧ SamePayload g.nodes g2.nodes ∧
      g2.conf = g.conf ∧ g2.name = g.name ∧ g2.nodes.length = g.nodes.length :=
    ⟨e2l, r3, by rw [e2n]; exact r4, by rw [e2c]; exact r5, by rw [e2m]; exact r6, by rw [e2n]; exact r7⟩
  cases nx with
  | none =>
    refine ⟨?_, hbase⟩
    unfold GroupSt.nextFile GroupSt.ready
    rw [← hfind, ← r2]; simp
  | some c =>
    obtain ⟨rest, hdr, hca⟩ := candidate_head r2.symm
    obtain ⟨pre, hpl, hrep, hpa⟩ := r3.chain
    rw [e2l, hdr, e2n] at hrep
    have hnd := hrep.nodup
    have hnext : getNext g1.nodes c = rest.head? := by
      have hcA : c ∉ pre := (nodup_mid hnd).2.1
      rw [hrep.next, succIn_append hnd]; simp [hcA, succIn]
    have hlast := getLast?_drop_of_head hgnd hdr
    have hisNone : (getNext g1.nodes c).isNone = (g.list.getLast? == some c) := by
      rw [hnext]
      cases rest with
      | nil => simp [hlast.mpr rfl]
      | cons b t =>
        have : ¬ g.list.getLast? = some c := fun e => by have := hlast.mp e; cases this
        simp [this]
    have hnf : g.nextFile now = if (decide (g1.conf.lastDelay > 0) && (getNext g1.nodes c).isNone &&
            decide (now - nodeTime g1.nodes c < g1.conf.lastDelay)) = true then none else some c := by
      have hf : g.list.find? (fun x => !isAllocated g.nodes x) = some c := by rw [← hfind, ← r2]
      unfold GroupSt.nextFile GroupSt.ready
      simp only [hf, hisNone, r5, r4.nodeTime]
      generalize (decide (g.conf.lastDelay > 0) && g.list.getLast? == some c &&
        decide (now - nodeTime g.nodes c < g.conf.lastDelay)) = bb
      cases bb <;> simp
    dsimp only
    rw [hnf]
    split
    · exact ⟨rfl, hbase⟩
    · exact ⟨rfl, hbase⟩


/-! ## Pop: allocation and completion of the served file -/

theorem Node.allocate_frame (nd : Node) (d : Int) :
    (nd.allocate d).1.prev = nd.prev ∧ (nd.allocate d).1.next = nd.next ∧
    (nd.allocate d).1.file.name = nd.file.name ∧ (nd.allocate d).1.file.time = nd.file.time ∧
    (nd.allocate d).1.file.size = nd.file.size ∧ ((nd.allocate d).1.file.rcv.isSome = nd.file.rcv.isSome) := by
  unfold Node.allocate
  split
  · rename_i r hr; simp [hr]
  · rename_i hr; simp [hr]

theorem getNext_set (ns : Nodes) (n : Nat) (nd nd' : Node) (h : ns[n]? = some nd) (he : nd'.next = nd.next) (j : Nat) :
    getNext (ns.set n nd') j = getNext ns j := by
  unfold getNext
  rw [List.getElem?_set]
  split
  · rename_i e; subst e
    split
    · rw [h]; simp [he]
    · rename_i hl; rw [List.getElem?_eq_none (by omega)]
  · rfl

theorem getPrev_set (ns : Nodes) (n : Nat) (nd nd' : Node) (h : ns[n]? = some nd) (he : nd'.prev = nd.prev) (j : Nat) :
    getPrev (ns.set n nd') j = getPrev ns j := by
  unfold getPrev
  rw [List.getElem?_set]
  split
  · rename_i e; subst e
    split
    · rw [h]; simp [he]
    · rename_i hl; rw [List.getElem?_eq_none (by omega)]
  · rfl

theorem payload_set_ne (ns : Nodes) (n : Nat) (nd' : Node) (j : Nat) (hj : j ≠ n) :
    payload (ns.set n nd') j = payload ns j := by
  unfold payload; rw [List.getElem?_set]; simp [Ne.symm hj]

theorem payload_set_eq (ns : Nodes) (n : Nat) (nd' : Node) (hn : n < ns.length) :
    payload (ns.set n nd') n = some (nd'.file, nd'.allocated) := by
  unfold payload; rw [List.getElem?_set]; simp [hn]


/-- the completion block of Pop (`if next.isAllocated() { ... }`) -/
def GroupSt.complete (g : GroupSt) (n : Nat) : GroupSt :=
  let g := g.removeFile n
  let g := { g with list := g.list.drop 1 }
  let g := { g with nodes := unlinkAllPrev (g.nodes.length + 1) g.nodes n }
  { g with head := if g.head.isNone then some n else g.head,
           nodes := if g.head.isNone then unlink g.nodes n else g.nodes }

theorem emit_fst {g : GroupSt} {n : Nat} {nd : Node} (hnd : g.nodes[n]? = some nd) :
    (g.emit n).1 =
      if (nd.allocate g.conf.chunk).1.isAllocated then
        ({ g with nodes := g.nodes.set n (nd.allocate g.conf.chunk).1 } : GroupSt).complete n
      else { g with nodes := g.nodes.set n (nd.allocate g.conf.chunk).1 } := by
  unfold GroupSt.emit; rw [hnd]; rfl

theorem emit_snd {g : GroupSt} {n : Nat} {nd : Node} (hnd : g.nodes[n]? = some nd) :
    (g.emit n).2 =
      let nd' := (nd.allocate g.conf.chunk).1
      let nodes := g.nodes.set n nd'
      let prevName := if g.conf.order != Order.none then getPrevName nodes n else ""
      { name := nd'.file.name, offset := (nd.allocate g.conf.chunk).2.1, length := (nd.allocate g.conf.chunk).2.2,
        prev := if prevName != "" && prevName == nd'.file.name then "" else prevName,
        send := nd'.sendSize, group := g.name, id := n, completed := nd'.isAllocated,
        recovered := nd'.file.rcv.isSome } := by
  unfold GroupSt.emit; rw [hnd]


/-- replacing the payload of the first listed node (allocation) keeps the group well-formed -/
theorem setNode_wf {g : GroupSt} (h : g.WF) {c : Nat} {rest : List Nat} (hl : g.list = c :: rest)
    {nd nd' : Node} (hnd : g.nodes[c]? = some nd) (hp : nd'.prev = nd.prev) (hx : nd'.next = nd.next)
    (hname : nd'.file.name = nd.file.name) (htime : nd'.file.time = nd.file.time) :
    ({ g with nodes := g.nodes.set c nd' } : GroupSt).WF := by
  obtain ⟨pre, hpl, hrep, hpa⟩ := h.chain
  have hcl : c < g.nodes.length := (List.getElem?_eq_some_iff.mp hnd).1
  have hcpre : c ∉ pre := by
    rw [hl] at hrep; exact (nodup_mid hrep.nodup).2.1
  have hpay : ∀ j, j ≠ c → payload (g.nodes.set c nd') j = payload g.nodes j := fun j hj => payload_set_ne _ _ _ _ hj
  have hnm : ∀ j, nodeName (g.nodes.set c nd') j = nodeName g.nodes j := by
    intro j
    by_cases hj : j = c
    · subst hj
      rw [nodeName_eq_payload, payload_set_eq _ _ _ hcl]
      unfold nodeName; rw [hnd]; exact hname
    · rw [nodeName_eq_payload, nodeName_eq_payload, hpay j hj]
  have hfo : ∀ j, (fileOf (g.nodes.set c nd') j).name = (fileOf g.nodes j).name ∧
      (fileOf (g.nodes.set c nd') j).time = (fileOf g.nodes j).time := by
    intro j
    by_cases hj : j = c
    · subst hj
      rw [fileOf_eq_payload, payload_set_eq _ _ _ hcl]
      unfold fileOf; rw [hnd]; exact ⟨hname, htime⟩
    · rw [fileOf_eq_payload, fileOf_eq_payload, hpay j hj]; exact ⟨rfl, rfl⟩
  refine ⟨⟨pre, hpl, ?_, fun p hp' => ?_⟩, h.head_some, ?_, ?_, ?_, ?_⟩
  · exact hrep.congr (by simp) (getNext_set _ _ _ _ hnd hx) (getPrev_set _ _ _ _ hnd hp)
  · show isAllocated (g.nodes.set c nd') p = true
    have : p ≠ c := fun e => hcpre (e ▸ hp')
    rw [isAllocated_eq_payload, hpay p this, ← isAllocated_eq_payload]; exact hpa p hp'
  · intro hnil; rw [hl] at hnil; cases hnil
  · intro nm id
    show _ ↔ (id ∈ g.list ∧ nodeName (g.nodes.set c nd') id = nm)
    rw [hnm]; exact h.byFile_iff nm id
  · show (g.list.map (nodeName (g.nodes.set c nd'))).Nodup
    have : g.list.map (nodeName (g.nodes.set c nd')) = g.list.map (nodeName g.nodes) :=
      List.map_congr_left (fun x _ => hnm x)
    rw [this]; exact h.names
  · exact h.sorted.congr (fun j _ => hfo j)


theorem unlinkAllPrev_spec {ns : Nodes} {pre : List Nat} {c : Nat} {rest : List Nat} (hpl : pre.length ≤ 1)
    (hrep : Rep ns (pre ++ c :: rest)) (fuel : Nat) (hf : 2 ≤ fuel) :
    Rep (unlinkAllPrev fuel ns c) (c :: rest) ∧ SamePayload ns (unlinkAllPrev fuel ns c) ∧
    (unlinkAllPrev fuel ns c).length = ns.length := by
  have hprev0 : ∀ {ns' : Nodes}, Rep ns' ([] ++ c :: rest) → getPrev ns' c = none := by
    intro ns' hr; rw [hr.prev, predIn_append hr.nodup]; simp
  match pre, hpl, hrep with
  | [], _, hrep =>
    obtain ⟨f, rfl⟩ : ∃ f, fuel = f + 1 := ⟨fuel - 1, by omega⟩
    simp only [unlinkAllPrev, hprev0 hrep]
    exact ⟨by simpa using hrep, fun _ => rfl, by first | rfl | trivial⟩
  | [p], _, hrep =>
    obtain ⟨f, rfl⟩ : ∃ f, fuel = f + 2 := ⟨fuel - 2, by omega⟩
    have hp : getPrev ns c = some p := by
      rw [hrep.prev, predIn_append hrep.nodup]; simp
    have hrep2 : Rep (unlink ns p) ([] ++ c :: rest) := unlink_rep (A := []) (by simpa using hrep)
    simp only [unlinkAllPrev, hp, hprev0 hrep2]
    exact ⟨by simpa using hrep2, samePayload_unlink _ _, by simp⟩

theorem complete_wf {g : GroupSt} (h : g.WF) {c : Nat} {rest : List Nat} (hl : g.list = c :: rest)
    (ha : isAllocated g.nodes c = true) :
    (g.complete c).WF ∧ (g.complete c).list = rest ∧ SamePayload g.nodes (g.complete c).nodes ∧
    (g.complete c).conf = g.conf ∧ (g.complete c).name = g.name ∧
    (g.complete c).nodes.length = g.nodes.length ∧
    (rest ≠ [] → getPrev (g.complete c).nodes <$> rest.head? = some (some c)) := by
  obtain ⟨pre, hpl, hrep, hpa⟩ := h.chain
  rw [hl] at hrep
  have hcl : c < g.nodes.length := h.valid (by simp [hl])
  have hhead : g.head = some c := by have := h.head_some (by simp [hl]); simpa [hl] using this
  have hnd := hrep.nodup
  have hnext : getNext g.nodes c = rest.head? := by
    have hcA : c ∉ pre := (nodup_mid hnd).2.1
    rw [hrep.next, succIn_append hnd]; simp [hcA, succIn]
  obtain ⟨hrep2, hsp2, hlen2⟩ := unlinkAllPrev_spec hpl hrep (g.nodes.length + 1) (by omega)
  generalize hns2 : unlinkAllPrev (g.nodes.length + 1) g.nodes c = ns2 at hrep2 hsp2 hlen2
  have hnames := h.names
  rw [hl] at hnames
  have hna : ∀ x ∈ rest, nodeName g.nodes x ≠ nodeName g.nodes c := by
    intro x hx e
    simp only [List.map_cons] at hnames
    exact (List.nodup_cons.mp hnames).1 (by rw [← e]; exact List.mem_map_of_mem (f := nodeName g.nodes) hx)
  have heq : g.complete c = { g with
      byFile := (ByFile.erase g.byFile (nodeName g.nodes c)), list := rest,
      head := (if rest.head?.isNone then some c else rest.head?),
      nodes := (if rest.head?.isNone then unlink ns2 c else ns2) } := by
    unfold GroupSt.complete GroupSt.removeFile
    simp only [hhead, beq_self_eq_true, if_true, hnext, hl, List.drop_succ_cons, List.drop_zero, hns2]
  rw [heq]
  have hbf : ∀ (ns' : Nodes), SamePayload g.nodes ns' → ∀ nm id,
      ByFile.find (ByFile.erase g.byFile (nodeName g.nodes c)) nm = some id ↔ (id ∈ rest ∧ nodeName ns' id = nm) := by
    intro ns' hsp nm id
    rw [ByFile.find_erase, hsp.nodeName]
    by_cases hnm : nm = nodeName g.nodes c
    · simp only [hnm, if_true]
      constructor
      · intro e; cases e
      · rintro ⟨h1, h2⟩; exact absurd h2 (hna id h1)
    · simp only [hnm, if_false]
      rw [h.byFile_iff, hl]
      constructor
      · rintro ⟨h1, h2⟩
        simp only [List.mem_cons] at h1
        rcases h1 with h1 | h1
        · subst h1; exact absurd h2.symm hnm
        · exact ⟨h1, h2⟩
      · rintro ⟨h1, h2⟩; exact ⟨List.mem_cons_of_mem _ h1, h2⟩
  have hnamesr : ∀ (ns' : Nodes), SamePayload g.nodes ns' → (rest.map (nodeName ns')).Nodup := by
    intro ns' hsp
    have : rest.map (nodeName ns') = rest.map (nodeName g.nodes) := List.map_congr_left (fun x _ => hsp.nodeName x)
    rw [this]; exact (List.nodup_cons.mp hnames).2
  have hsortedr : ∀ (ns' : Nodes), SamePayload g.nodes ns' → Sorted g.conf.order ns' rest := by
    intro ns' hsp
    have hs := h.sorted
    rw [hl] at hs
    have : Sorted g.conf.order g.nodes rest := by unfold Sorted at hs ⊢; exact (List.pairwise_cons.mp hs).2
    exact this.congr (fun i _ => by rw [hsp.fileOf]; exact ⟨rfl, rfl⟩)
  cases hr : rest with
  | nil =>
    subst hr
    have hsp3 : SamePayload g.nodes (unlink ns2 c) := fun j => (payload_unlink ns2 c j).trans (hsp2 j)
    simp only [List.head?_nil, Option.isNone_none, if_true]
    refine ⟨⟨⟨[], by simp, ?_, by simp⟩, by simp, ?_, hbf _ hsp3, by simp, by simp [Sorted]⟩, (by first | rfl | trivial), hsp3, (by first | rfl | trivial), (by first | rfl | trivial),
      by simp [hlen2], by simp⟩
    · have := unlink_rep (A := []) (B := []) (i := c) (by simpa using hrep2)
      simpa using this
    · intro _ hd hhd
      have e : hd = c := by simpa using hhd.symm
      subst e
      exact ⟨by simp [hlen2]; exact hcl, by show isAllocated (unlink ns2 hd) hd = true; rw [hsp3.isAllocated]; exact ha⟩
  | cons b t =>
    rw [hr] at hrep2 hbf hnamesr hsortedr
    simp only [List.head?_cons, Option.isNone_some, Bool.false_eq_true, if_false]
    refine ⟨⟨⟨[c], by simp, by simpa using hrep2, ?_⟩, by simp, by simp, hbf _ hsp2, hnamesr _ hsp2, hsortedr _ hsp2⟩,
      (by first | rfl | trivial), hsp2, (by first | rfl | trivial), (by first | rfl | trivial), hlen2, ?_⟩
    · intro p hp; simp at hp; subst hp
      show isAllocated ns2 p = true; rw [hsp2.isAllocated]; exact ha
    · intro _
      simp
      rw [hrep2.prev]; simp [predIn]


/-- what Pop's tail does to a well-formed group whose first listed file `c` is served -/
theorem emit_spec {g : GroupSt} (h : g.WF) {c : Nat} {rest : List Nat} (hl : g.list = c :: rest) :
    (g.emit c).1.WF ∧ (g.emit c).1.conf = g.conf ∧ (g.emit c).1.name = g.name ∧
    (g.emit c).1.nodes.length = g.nodes.length ∧
    (g.emit c).1.list = (if (g.emit c).2.completed then rest else g.list) ∧
    (∀ j, j ≠ c → payload (g.emit c).1.nodes j = payload g.nodes j) ∧
    (∀ j, nodeName (g.emit c).1.nodes j = nodeName g.nodes j) ∧
    (∀ j, nodeTime (g.emit c).1.nodes j = nodeTime g.nodes j) ∧
    isAllocated (g.emit c).1.nodes c = (g.emit c).2.completed ∧
    (g.emit c).2.name = nodeName g.nodes c ∧ (g.emit c).2.group = g.name ∧ (g.emit c).2.id = c := by
  have hcl : c < g.nodes.length := h.valid (by simp [hl])
  obtain ⟨nd, hnd⟩ : ∃ nd, g.nodes[c]? = some nd := ⟨g.nodes[c], List.getElem?_eq_getElem hcl⟩
  obtain ⟨f1, f2, f3, f4, f5, f6⟩ := nd.allocate_frame g.conf.chunk
  generalize hnd' : (nd.allocate g.conf.chunk).1 = nd' at f1 f2 f3 f4 f5 f6
  have hwf1 := setNode_wf h hl hnd f1 f2 f3 f4 (nd' := nd')
  rw [emit_fst hnd, emit_snd hnd]
  simp only [hnd']
  have hpay1 : ∀ j, j ≠ c → payload (g.nodes.set c nd') j = payload g.nodes j := fun j hj => payload_set_ne _ _ _ _ hj
  have hpc : payload (g.nodes.set c nd') c = some (nd'.file, nd'.allocated) := payload_set_eq _ _ _ hcl
  have hnm1 : ∀ j, nodeName (g.nodes.set c nd') j = nodeName g.nodes j := by
    intro j
    by_cases hj : j = c
    · subst hj; rw [nodeName_eq_payload, hpc]; unfold nodeName; rw [hnd]; exact f3
    · rw [nodeName_eq_payload, nodeName_eq_payload, hpay1 j hj]
  have htm1 : ∀ j, nodeTime (g.nodes.set c nd') j = nodeTime g.nodes j := by
    intro j
    by_cases hj : j = c
    · subst hj; rw [nodeTime_eq_payload, hpc]; unfold nodeTime; rw [hnd]; exact f4
    · rw [nodeTime_eq_payload, nodeTime_eq_payload, hpay1 j hj]
  have hal1 : isAllocated (g.nodes.set c nd') c = nd'.isAllocated := by
    rw [isAllocated_eq_payload, hpc]; rfl
  have hname : nd'.file.name = nodeName g.nodes c := by unfold nodeName; rw [hnd]; exact f3
  by_cases hdone : nd'.isAllocated = true
  · simp only [hdone, if_true]
    obtain ⟨c1, c2, c3, c4, c5, c6, _⟩ := complete_wf (g := { g with nodes := g.nodes.set c nd' }) hwf1 hl
      (by rw [hal1]; exact hdone)
    refine ⟨c1, c4, c5, by rw [c6]; simp, c2, fun j hj => ?_, fun j => ?_, fun j => ?_, ?_, hname, (by first | rfl | trivial), (by first | rfl | trivial)⟩
    · rw [c3 j]; exact hpay1 j hj
    · rw [c3.nodeName]; exact hnm1 j
    · rw [c3.nodeTime]; exact htm1 j
    · rw [c3.isAllocated]; exact hal1.trans hdone
  · have hdone' : nd'.isAllocated = false := by simpa using hdone
    simp only [hdone', Bool.false_eq_true, if_false]
    exact ⟨hwf1, (by first | rfl | trivial), (by first | rfl | trivial), by simp, (by first | rfl | trivial), hpay1, hnm1, htm1, hal1.trans hdone', hname, (by first | rfl | trivial), (by first | rfl | trivial)⟩


end Sts.Queue
