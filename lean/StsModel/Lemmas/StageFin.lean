/-
  Where the two primitives of `putFileAway` (the receive-log record `logAppend` and the move
  into the final directory `renWaitFinal`) can occur: only in the finalize handler, only for
  a file in cache state `validated` whose cached hash is the queue item's hash, and only
  when `isFileReady` said yes.
-/
import StsModel.Lemmas.StageLogged

namespace Sts.Stage

theorem toCache_notFin (m : Mem) (n : Name) (e : Entry) (st : FState) (now : Int) :
    ∀ p ∈ toCache m n e st now, p.isFin = false := by
  intro p hp
  unfold toCache at hp
  simp only [List.mem_append, List.mem_singleton] at hp
  rcases hp with (hp | hp) | hp
  · split at hp <;> simp at hp; subst hp; rfl
  · subst hp; rfl
  · split at hp <;> simp at hp; subst hp; rfl

/-- the log record `finalize` writes for the queue item `e` of `n` -/
def finRec (n : Name) (e : Entry) (now : Int) : LogRec := ⟨n, e.renamed, e.hash, e.size, now, e.prev⟩

/-- `finalize(file)` logs / moves only when the cache state is `validated` and the cached
    hash is the item's; the record and the move are those of the item. -/
theorem finalize_fin_spec (s : State) (n : Name) (e : Entry) (now : Int) :
    ∀ p ∈ finalizeEffects s n e now, p.isFin = true →
      (stateOf s.mem n = some .validated ∧ (s.mem.cache n).map (·.hash) = some e.hash) ∧
      (p = Prim.logAppend (finRec n e now) ∨ p = Prim.renWaitFinal n (targetOf n e.renamed)) := by
  intro p hp hfin
  unfold finalizeEffects at hp
  by_cases hc : stateOf s.mem n ≠ some .validated ∨ (s.mem.cache n).map (·.hash) ≠ some e.hash
  · rw [if_pos hc] at hp
    simp only [List.append_nil, List.mem_append, List.mem_singleton] at hp
    rcases hp with hp | hp <;> (subst hp; simp [Prim.isFin] at hfin)
  · rw [if_neg hc] at hp
    refine ⟨by simpa [Classical.not_not, not_or] using hc, ?_⟩
    simp only [List.mem_append, List.mem_cons, List.not_mem_nil, or_false] at hp
    rcases hp with (hp | (hp | hp) | hp) | hp
    · subst hp; simp [Prim.isFin] at hfin
    · subst hp; simp [Prim.isFin] at hfin
    · exact Or.inl hp
    · split at hp
      · simp at hp
      · simp only [List.mem_append, List.mem_cons, List.not_mem_nil, or_false,
          List.mem_map] at hp
        rcases hp with ((hp | hp) | hp | hp) | hp
        · exact Or.inr hp
        · rw [toCache_notFin _ _ _ _ _ p hp] at hfin; simp at hfin
        · subst hp; simp [Prim.isFin] at hfin
        · subst hp; simp [Prim.isFin] at hfin
        · obtain ⟨w, _, rfl⟩ := hp; simp [Prim.isFin] at hfin
    · subst hp; simp [Prim.isFin] at hfin

/-- the finalize handler logs / moves only for the item it took from the queue, in state
    `validated` with matching hash, after `isFileReady` said yes. -/
theorem finh_fin_spec (s : State) (n : Name) (now : Int) :
    ∀ p ∈ finhEffects s n now, p.isFin = true →
      ∃ k e, s.mem.fq.find? (·.1 == n) = some (k, e) ∧
        stateOf s.mem n = some .validated ∧ (s.mem.cache n).map (·.hash) = some e.hash ∧
        isFileReady s n e now = .yes ∧
        (p = Prim.logAppend (finRec n e now) ∨ p = Prim.renWaitFinal n (targetOf n e.renamed)) := by
  intro p hp hfin
  unfold finhEffects at hp
  split at hp
  · simp at hp
  · rename_i k e hfq
    simp only [List.mem_append, List.mem_singleton] at hp
    rcases hp with hp | hp
    · subst hp; simp [Prim.isFin] at hfin
    · split at hp
      · simp at hp
      · split at hp
        · rename_i hready
          obtain ⟨⟨h1, h2⟩, h3⟩ := finalize_fin_spec s n e now p hp hfin
          exact ⟨k, e, hfq, h1, h2, hready, h3⟩
        · simp only [List.mem_append, List.mem_singleton] at hp
          rcases hp with (hp | hp) | hp
          · subst hp; simp [Prim.isFin] at hfin
          · split at hp <;> simp at hp; subst hp; simp [Prim.isFin] at hfin
          · subst hp; simp [Prim.isFin] at hfin

/-- no operation other than the finalize handler logs or moves (`Recover` re-enqueues, it
    does not finalize by itself). -/
theorem effects_notFin (H : Body → String) (s : State) (o : OpEv) (h : ∀ n now, o ≠ .finh n now) :
    ∀ p ∈ effects H s o, p.isFin = false := by
  cases o with
  | finh n now => exact absurd rfl (h n now)
  | buildCache frm now => exact buildCache_notFin s frm now
  | recover now names => exact recover_notFin H s now names
  | _ => exact all_mild_notFin _ (effects_mild H s _ (by intros; simp) (by intros; simp) (by intros; simp))

/-- the log after one primitive -/
theorem applyPrim_log (s : State) (p : Prim) :
    (applyPrim s p).disk.log = (match p with | .logAppend r => s.disk.log ++ [r] | _ => s.disk.log) := by
  cases p <;> simp only [applyPrim, applyDisk] <;> (try split) <;> (try split) <;> rfl

theorem applyPrim_log_notFin (s : State) (p : Prim) (h : p.isFin = false) :
    (applyPrim s p).disk.log = s.disk.log := by
  rw [applyPrim_log]
  cases p <;> simp_all [Prim.isFin]

end Sts.Stage
