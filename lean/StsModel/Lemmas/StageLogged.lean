/-
  Invariant: a file whose cache state is `finalized` or `logged` has a record in the receive
  log ("log before move, state after move"). Holds in every reachable state, at every
  crash point.
-/
import StsModel.Lemmas.StageBasic

namespace Sts.Stage

def LoggedInv (s : State) : Prop :=
  ∀ n e, s.mem.cache n = some e → (e.state = .finalized ∨ e.state = .logged) →
    ∃ r ∈ s.disk.log, r.name = n

/-- guard: a cache write with state finalized/logged needs the log record to be there -/
def LoggedG (s : State) : Prim → Prop
  | .cacheSet n e => (e.state = .finalized ∨ e.state = .logged) → ∃ r ∈ s.disk.log, r.name = n
  | _ => True

theorem LoggedG_mono (s : State) (q p : Prim) (h : LoggedG s p) : LoggedG (applyPrim s q) p := by
  cases p <;> simp only [LoggedG] at h ⊢
  intro hst
  obtain ⟨r, hr, hn⟩ := h hst
  exact ⟨r, log_mono_prim s q r hr, hn⟩

theorem LoggedInv_step (s : State) (p : Prim) (hi : LoggedInv s) (hg : LoggedG s p) :
    LoggedInv (applyPrim s p) := by
  intro n e hc hst
  have hlog : ∀ r ∈ s.disk.log, r ∈ (applyPrim s p).disk.log := fun r hr => log_mono_prim s p r hr
  cases p with
  | cacheSet m e' =>
    simp only [applyPrim, applyMem] at hc
    by_cases hnm : n = m
    · subst hnm
      simp only [upd_same, Option.some.injEq] at hc
      subst hc
      obtain ⟨r, hr, hn⟩ := hg (by simpa using hst)
      exact ⟨r, hlog r hr, hn⟩
    · simp only [upd_other _ _ _ _ hnm] at hc
      obtain ⟨r, hr, hn⟩ := hi n e hc hst
      exact ⟨r, hlog r hr, hn⟩
  | cacheDel m =>
    simp only [applyPrim, applyMem] at hc
    by_cases hnm : n = m
    · subst hnm; simp at hc
    · simp only [upd_other _ _ _ _ hnm] at hc
      obtain ⟨r, hr, hn⟩ := hi n e hc hst
      exact ⟨r, hlog r hr, hn⟩
  | nextFinalSet m =>
    simp only [applyPrim, applyMem] at hc
    split at hc
    · rename_i e0 he0
      by_cases hnm : n = m
      · subst hnm
        simp only [upd_same, Option.some.injEq] at hc
        subst hc
        obtain ⟨r, hr, hn⟩ := hi n e0 he0 (by simpa using hst)
        exact ⟨r, hlog r hr, hn⟩
      · simp only [upd_other _ _ _ _ hnm] at hc
        obtain ⟨r, hr, hn⟩ := hi n e hc hst
        exact ⟨r, hlog r hr, hn⟩
    · obtain ⟨r, hr, hn⟩ := hi n e hc hst
      exact ⟨r, hlog r hr, hn⟩
  | _ =>
    all_goals
      first
      | (have hc' : s.mem.cache n = some e := by
           simpa [applyPrim, applyMem] using hc
         obtain ⟨r, hr, hn⟩ := hi n e hc' hst
         exact ⟨r, hlog r hr, hn⟩)
      | (simp only [applyPrim, applyMem] at hc
         split at hc <;>
         (obtain ⟨r, hr, hn⟩ := hi n e hc hst
          exact ⟨r, hlog r hr, hn⟩))

end Sts.Stage

namespace Sts.Stage

/-- a primitive that does not put a file into state finalized / logged -/
def benign : Prim → Bool
  | .cacheSet _ e => e.state != .finalized && e.state != .logged
  | _ => true

theorem benign_LoggedG (s : State) (p : Prim) (h : benign p = true) : LoggedG s p := by
  cases p <;> simp only [LoggedG, benign] at h ⊢
  intro hst
  rcases hst with h' | h' <;> simp [h'] at h

theorem Guards_of_all_benign (s : State) (ps : List Prim) (h : ps.all benign = true) :
    Guards LoggedG s ps := by
  apply Guards.of_forall_mono LoggedG_mono
  intro p hp
  exact benign_LoggedG s p (List.all_eq_true.mp h p hp)

theorem toCache_benign (m : Mem) (n : Name) (e : Entry) (st : FState) (now : Int)
    (h1 : st ≠ .finalized) (h2 : st ≠ .logged) : (toCache m n e st now).all benign = true := by
  unfold toCache
  simp only [List.all_append, Bool.and_eq_true]
  refine ⟨⟨?_, ?_⟩, ?_⟩
  · split <;> simp [benign]
  · simp [benign, h1, h2]
  · split <;> simp [benign]

theorem prepare_benign (s : State) (n : Name) (size now : Int) :
    (prepareEffects s n size now).all benign = true := by
  unfold prepareEffects
  split <;> (try split) <;> (try split) <;> simp [benign]


theorem record_benign (s : State) (n : Name) (m : Meta) (beg fin now : Int) :
    (recordEffects s n m beg fin now).all benign = true := by
  unfold recordEffects
  simp only [List.all_append, Bool.and_eq_true]
  refine ⟨by simp [benign], ?_⟩
  split
  · split
    · split
      · simp only [List.all_append, Bool.and_eq_true]; refine ⟨by simp [benign], ?_⟩
        split <;> simp [benign]
      · split
        · simp only [List.all_append, Bool.and_eq_true]
          exact ⟨⟨by simp [benign], toCache_benign _ _ _ _ _ (by decide) (by decide)⟩, by simp [benign]⟩
        · exact toCache_benign _ _ _ _ _ (by decide) (by decide)
    · split
      · simp only [List.all_append, Bool.and_eq_true]
        exact ⟨⟨by simp [benign], toCache_benign _ _ _ _ _ (by decide) (by decide)⟩, by simp [benign]⟩
      · exact toCache_benign _ _ _ _ _ (by decide) (by decide)
  · simp

theorem processCore_benign (H : Body → String) (s : State) (n : Name) (e : Entry) (now : Int) :
    (processCore H s n e now).all benign = true := by
  unfold processCore
  simp only [List.all_append, Bool.and_eq_true]
  refine ⟨by simp [benign], ?_⟩
  split
  · simp
  · split
    · simp only [List.all_append, Bool.and_eq_true]
      exact ⟨by simp [benign], toCache_benign _ _ _ _ _ (by decide) (by decide)⟩
    · split
      · exact toCache_benign _ _ _ _ _ (by decide) (by decide)
      · simp only [List.all_append, Bool.and_eq_true]
        exact ⟨⟨by simp [benign], toCache_benign _ _ _ _ _ (by decide) (by decide)⟩, by simp [benign]⟩

theorem process_benign (H : Body → String) (s : State) (n : Name) (now : Int) :
    (processEffects H s n now).all benign = true := by
  unfold processEffects
  split
  · simp
  · simp only [List.all_append, Bool.and_eq_true]
    exact ⟨by simp [benign], processCore_benign _ _ _ _ _⟩

theorem timer_benign (s : State) (n : Name) : (timerEffects s n).all benign = true := by
  unfold timerEffects
  split <;> (try split) <;> simp [benign]

theorem received_benign (s : State) (n : Name) (m : Meta) :
    (receivedEffects s n m).all benign = true := by
  unfold receivedEffects
  simp only [List.all_append, Bool.and_eq_true]
  refine ⟨by simp [benign], ?_⟩
  split <;> (try split) <;> simp [benign]

theorem cleanStrayOne_benign (s : State) (now : Int) (n : Name) :
    (cleanStrayOne s now n).all benign = true := by
  unfold cleanStrayOne
  simp only [List.all_append, Bool.and_eq_true]
  constructor <;> (split <;> simp [benign])

theorem cleanStrays_benign (s : State) (now : Int) (names : List Name) :
    (cleanStraysEffects s now names).all benign = true := by
  unfold cleanStraysEffects
  simp only [List.all_flatMap]
  simp [cleanStrayOne_benign]


end Sts.Stage
