/-
  Invariant: a file whose cache state is `finalized` or `logged` has a record in the receive
  log ("log before move, state after move"). Holds in every reachable state, at every
  crash point.
-/
import StsModel.Lemmas.StageBasic

namespace Sts.Stage

def LoggedInv (s : State) : Prop :=
  ∀ n e, s.mem.cache n = some e → (e.state = .finalized ∨ e.state = .logged) →
    ∃ r ∈ s.disk.log, r.name = n

/-- guard: a cache write with state finalized/logged needs the log record to be there -/
def LoggedG (s : State) : Prim → Prop
  | .cacheSet n e => (e.state = .finalized ∨ e.state = .logged) → ∃ r ∈ s.disk.log, r.name = n
  | _ => True

theorem LoggedG_mono (s : State) (q p : Prim) (h : LoggedG s p) : LoggedG (applyPrim s q) p := by
  cases p <;> simp only [LoggedG] at h ⊢
  intro hst
  obtain ⟨r, hr, hn⟩ := h hst
  exact ⟨r, log_mono_prim s q r hr, hn⟩

theorem LoggedInv_step (s : State) (p : Prim) (hi : LoggedInv s) (hg : LoggedG s p) :
    LoggedInv (applyPrim s p) := by
  intro n e hc hst
  have hlog : ∀ r ∈ s.disk.log, r ∈ (applyPrim s p).disk.log := fun r hr => log_mono_prim s p r hr
  cases p with
  | cacheSet m e' =>
    simp only [applyPrim, applyMem] at hc
    by_cases hnm : n = m
    · subst hnm
      simp only [upd_same, Option.some.injEq] at hc
      subst hc
      obtain ⟨r, hr, hn⟩ := hg (by simpa using hst)
      exact ⟨r, hlog r hr, hn⟩
    · simp only [upd_other _ _ _ _ hnm] at hc
      obtain ⟨r, hr, hn⟩ := hi n e hc hst
      exact ⟨r, hlog r hr, hn⟩
  | cacheDel m =>
    simp only [applyPrim, applyMem] at hc
    by_cases hnm : n = m
    · subst hnm; simp at hc
    · simp only [upd_other _ _ _ _ hnm] at hc
      obtain ⟨r, hr, hn⟩ := hi n e hc hst
      exact ⟨r, hlog r hr, hn⟩
  | nextFinalSet m =>
    simp only [applyPrim, applyMem] at hc
    split at hc
    · rename_i e0 he0
      by_cases hnm : n = m
      · subst hnm
        simp only [upd_same, Option.some.injEq] at hc
        subst hc
        obtain ⟨r, hr, hn⟩ := hi n e0 he0 (by simpa using hst)
        exact ⟨r, hlog r hr, hn⟩
      · simp only [upd_other _ _ _ _ hnm] at hc
        obtain ⟨r, hr, hn⟩ := hi n e hc hst
        exact ⟨r, hlog r hr, hn⟩
    · obtain ⟨r, hr, hn⟩ := hi n e hc hst
      exact ⟨r, hlog r hr, hn⟩
  | _ =>
    all_goals
      first
      | (have hc' : s.mem.cache n = some e := by
           simpa [applyPrim, applyMem] using hc
         obtain ⟨r, hr, hn⟩ := hi n e hc' hst
         exact ⟨r, hlog r hr, hn⟩)
      | (simp only [applyPrim, applyMem] at hc
         split at hc <;>
         (obtain ⟨r, hr, hn⟩ := hi n e hc hst
          exact ⟨r, hlog r hr, hn⟩))

end Sts.Stage

namespace Sts.Stage

/-- the two primitives of `putFileAway`: the receive-log record and the move into the final
    directory -/
def Prim.isFin : Prim → Bool
  | .logAppend _ => true
  | .renWaitFinal _ _ => true
  | _ => false

/-- a primitive that does not put a file into state finalized / logged -/
def benign : Prim → Bool
  | .cacheSet _ e => e.state != .finalized && e.state != .logged
  | _ => true

/-- benign, and neither a log record nor a delivery -/
def mild : Prim → Bool
  | .cacheSet _ e => e.state != .finalized && e.state != .logged
  | .logAppend _ => false
  | .renWaitFinal _ _ => false
  | _ => true

theorem mild_benign (p : Prim) (h : mild p = true) : benign p = true := by
  cases p <;> simp_all [mild, benign]

theorem mild_notFin (p : Prim) (h : mild p = true) : p.isFin = false := by
  cases p <;> simp_all [mild, Prim.isFin]

theorem all_mild_benign (ps : List Prim) (h : ps.all mild = true) : ps.all benign = true := by
  rw [List.all_eq_true] at h ⊢
  exact fun p hp => mild_benign p (h p hp)

theorem all_mild_notFin (ps : List Prim) (h : ps.all mild = true) :
    ∀ p ∈ ps, p.isFin = false := by
  rw [List.all_eq_true] at h
  exact fun p hp => mild_notFin p (h p hp)

theorem benign_LoggedG (s : State) (p : Prim) (h : benign p = true) : LoggedG s p := by
  cases p <;> simp only [LoggedG, benign] at h ⊢
  intro hst
  rcases hst with h' | h' <;> simp [h'] at h

theorem Guards_of_forall_LoggedG (s : State) (ps : List Prim) (h : ∀ p ∈ ps, LoggedG s p) :
    Guards LoggedG s ps :=
  Guards.of_forall_mono LoggedG_mono ps s h

theorem Guards_of_all_benign (s : State) (ps : List Prim) (h : ps.all benign = true) :
    Guards LoggedG s ps := by
  apply Guards_of_forall_LoggedG
  intro p hp
  exact benign_LoggedG s p (List.all_eq_true.mp h p hp)

theorem Guards_of_all_mild (s : State) (ps : List Prim) (h : ps.all mild = true) :
    Guards LoggedG s ps := Guards_of_all_benign s ps (all_mild_benign ps h)

theorem toCache_mild (m : Mem) (n : Name) (e : Entry) (st : FState) (now : Int)
    (h1 : st ≠ .finalized) (h2 : st ≠ .logged) : (toCache m n e st now).all mild = true := by
  unfold toCache
  simp only [List.all_append, Bool.and_eq_true]
  refine ⟨⟨?_, ?_⟩, ?_⟩
  · split <;> simp [mild]
  · simp [mild, h1, h2]
  · split <;> simp [mild]

theorem prepare_mild (s : State) (n : Name) (size now : Int) :
    (prepareEffects s n size now).all mild = true := by
  unfold prepareEffects
  split <;> (try split) <;> (try split) <;> simp [mild]

theorem record_mild (s : State) (n : Name) (m : Meta) (beg fin now : Int) :
    (recordEffects s n m beg fin now).all mild = true := by
  unfold recordEffects
  simp only [List.all_append, Bool.and_eq_true]
  refine ⟨by simp [mild], ?_⟩
  split
  · split
    · split
      · simp only [List.all_append, Bool.and_eq_true]; refine ⟨by simp [mild], ?_⟩
        split <;> simp [mild]
      · split
        · simp only [List.all_append, Bool.and_eq_true]
          exact ⟨⟨by simp [mild], toCache_mild _ _ _ _ _ (by decide) (by decide)⟩, by simp [mild]⟩
        · exact toCache_mild _ _ _ _ _ (by decide) (by decide)
    · split
      · simp only [List.all_append, Bool.and_eq_true]
        exact ⟨⟨by simp [mild], toCache_mild _ _ _ _ _ (by decide) (by decide)⟩, by simp [mild]⟩
      · exact toCache_mild _ _ _ _ _ (by decide) (by decide)
  · simp

theorem processCore_mild (H : Body → String) (s : State) (n : Name) (e : Entry) (now : Int) :
    (processCore H s n e now).all mild = true := by
  unfold processCore
  simp only [List.all_append, Bool.and_eq_true]
  refine ⟨by simp [mild], ?_⟩
  split
  · simp
  · split
    · simp only [List.all_append, Bool.and_eq_true]
      exact ⟨by simp [mild], toCache_mild _ _ _ _ _ (by decide) (by decide)⟩
    · split
      · exact toCache_mild _ _ _ _ _ (by decide) (by decide)
      · simp only [List.all_append, Bool.and_eq_true]
        exact ⟨⟨by simp [mild], toCache_mild _ _ _ _ _ (by decide) (by decide)⟩, by simp [mild]⟩

theorem process_mild (H : Body → String) (s : State) (n : Name) (now : Int) :
    (processEffects H s n now).all mild = true := by
  unfold processEffects
  split
  · simp
  · simp only [List.all_append, Bool.and_eq_true]
    exact ⟨by simp [mild], processCore_mild _ _ _ _ _⟩

theorem timer_mild (s : State) (n : Name) : (timerEffects s n).all mild = true := by
  unfold timerEffects
  split <;> (try split) <;> simp [mild]

theorem received_mild (s : State) (n : Name) (m : Meta) :
    (receivedEffects s n m).all mild = true := by
  unfold receivedEffects
  simp only [List.all_append, Bool.and_eq_true]
  refine ⟨by simp [mild], ?_⟩
  split <;> (try split) <;> simp [mild]

theorem cleanStrayOne_mild (s : State) (now : Int) (n : Name) :
    (cleanStrayOne s now n).all mild = true := by
  unfold cleanStrayOne
  simp only [List.all_append, Bool.and_eq_true]
  constructor <;> (split <;> simp [mild])

theorem cleanStrays_mild (s : State) (now : Int) (names : List Name) :
    (cleanStraysEffects s now names).all mild = true := by
  unfold cleanStraysEffects
  simp only [List.all_flatMap]
  simp [cleanStrayOne_mild]

/-! ### cleanWaiting: a fold; every cache write keeps state `validated` -/

theorem cleanWaitingStep_mild (acc : State × List Prim) (c : Name × Entry)
    (h : acc.2.all mild = true) : (cleanWaitingStep acc c).2.all mild = true := by
  unfold cleanWaitingStep
  simp only
  split
  · exact h
  · split
    · exact h
    · simp only [List.all_append, Bool.and_eq_true, List.all_flatMap]
      refine ⟨h, by simp [mild], ?_⟩
      rw [List.all_eq_true]
      intro w _
      split
      · split
        · rename_i f _ hf
          simp [mild, hf]
        · simp
      · simp

theorem cleanWaiting_fold_mild (cs : List (Name × Entry)) (acc : State × List Prim)
    (h : acc.2.all mild = true) : (cs.foldl cleanWaitingStep acc).2.all mild = true := by
  induction cs generalizing acc with
  | nil => simpa using h
  | cons c cs ih => exact ih _ (cleanWaitingStep_mild acc c h)

theorem cleanWaiting_mild (s : State) (names : List Name) :
    (cleanWaitingEffects s names).all mild = true := by
  unfold cleanWaitingEffects
  exact cleanWaiting_fold_mild _ _ (by simp)

end Sts.Stage

namespace Sts.Stage

/-! ### the `benign` forms of the lemmas above (names used by other lemma files) -/

theorem toCache_benign (m : Mem) (n : Name) (e : Entry) (st : FState) (now : Int)
    (h1 : st ≠ .finalized) (h2 : st ≠ .logged) : (toCache m n e st now).all benign = true :=
  all_mild_benign _ (toCache_mild m n e st now h1 h2)

theorem prepare_benign (s : State) (n : Name) (size now : Int) :
    (prepareEffects s n size now).all benign = true := all_mild_benign _ (prepare_mild s n size now)

theorem record_benign (s : State) (n : Name) (m : Meta) (beg fin now : Int) :
    (recordEffects s n m beg fin now).all benign = true :=
  all_mild_benign _ (record_mild s n m beg fin now)

theorem processCore_benign (H : Body → String) (s : State) (n : Name) (e : Entry) (now : Int) :
    (processCore H s n e now).all benign = true := all_mild_benign _ (processCore_mild H s n e now)

theorem process_benign (H : Body → String) (s : State) (n : Name) (now : Int) :
    (processEffects H s n now).all benign = true := all_mild_benign _ (process_mild H s n now)

theorem timer_benign (s : State) (n : Name) : (timerEffects s n).all benign = true :=
  all_mild_benign _ (timer_mild s n)

theorem received_benign (s : State) (n : Name) (m : Meta) :
    (receivedEffects s n m).all benign = true := all_mild_benign _ (received_mild s n m)

theorem cleanStrayOne_benign (s : State) (now : Int) (n : Name) :
    (cleanStrayOne s now n).all benign = true := all_mild_benign _ (cleanStrayOne_mild s now n)

theorem cleanStrays_benign (s : State) (now : Int) (names : List Name) :
    (cleanStraysEffects s now names).all benign = true :=
  all_mild_benign _ (cleanStrays_mild s now names)

/-! ### buildCache: the entries loaded come from records of the log -/

theorem buildCacheLoad_spec (recs : List LogRec) (cached : Name → Bool) (now : Int) :
    ∀ p ∈ buildCacheLoad recs cached now, ∃ r ∈ recs, ∃ e, p = Prim.cacheSet r.name e ∧
      e.state = .logged := by
  induction recs generalizing cached with
  | nil => intro p hp; simp [buildCacheLoad] at hp
  | cons r rs ih =>
    intro p hp
    unfold buildCacheLoad at hp
    split at hp
    · obtain ⟨r', hr', e, he⟩ := ih _ p hp
      exact ⟨r', by simp [hr'], e, he⟩
    · rcases List.mem_cons.mp hp with hp | hp
      · exact ⟨r, by simp, _, hp, rfl⟩
      · obtain ⟨r', hr', e, he⟩ := ih _ p hp
        exact ⟨r', by simp [hr'], e, he⟩

/-- the records `buildCache` reads are records of the log -/
def buildRecs (s : State) (frm ct : Int) : List LogRec :=
  (visitedDays frm ct).flatMap
    (fun d => s.disk.log.filter (fun r => dayOf r.time == d && !(r.time > ct)))

theorem buildRecs_sub (s : State) (frm ct : Int) : ∀ r ∈ buildRecs s frm ct, r ∈ s.disk.log := by
  intro r hr
  simp only [buildRecs, List.mem_flatMap, List.mem_filter] at hr
  obtain ⟨_, _, h, _⟩ := hr
  exact h

theorem buildCacheEffects_eq (s : State) (frm now : Int) :
    ∃ ct, buildCacheEffects s frm now = [] ∨ buildCacheEffects s frm now =
      buildCacheLoad (buildRecs s frm ct) (fun x => (s.mem.cache x).isSome) now ++
      (if (buildRecs s frm ct).isEmpty then [] else [Prim.cacheTimesSet (s.mem.cacheTimes ++ [now])]) ++
      [Prim.cacheTimeSet (some frm)] := by
  unfold buildCacheEffects
  split
  · rename_i ct _
    refine ⟨ct, ?_⟩
    split
    · exact Or.inl rfl
    · exact Or.inr rfl
  · exact ⟨now, Or.inr rfl⟩

/-- every primitive of `buildCache` is a cache-time update or a `cacheSet … logged` for the
    name of a record of the log -/
theorem buildCacheEffects_spec (s : State) (frm now : Int) :
    ∀ p ∈ buildCacheEffects s frm now,
      (∃ r ∈ s.disk.log, ∃ e, p = Prim.cacheSet r.name e) ∨ (∃ l, p = Prim.cacheTimesSet l) ∨
       (∃ t, p = Prim.cacheTimeSet t) := by
  intro p hp
  obtain ⟨ct, h | h⟩ := buildCacheEffects_eq s frm now
  · rw [h] at hp; simp at hp
  · rw [h] at hp
    simp only [List.mem_append, List.mem_singleton] at hp
    rcases hp with (hp | hp) | hp
    · obtain ⟨r, hr, e, he, _⟩ := buildCacheLoad_spec _ _ _ p hp
      exact Or.inl ⟨r, buildRecs_sub s frm ct r hr, e, he⟩
    · split at hp
      · simp at hp
      · exact Or.inr (Or.inl ⟨_, by simpa using hp⟩)
    · exact Or.inr (Or.inr ⟨_, hp⟩)

theorem buildCache_guards (s : State) (frm now : Int) :
    Guards LoggedG s (buildCacheEffects s frm now) := by
  apply Guards_of_forall_LoggedG
  intro p hp
  rcases buildCacheEffects_spec s frm now p hp with ⟨r, hr, e, rfl⟩ | ⟨l, rfl⟩ | ⟨t, rfl⟩
  · intro _; exact ⟨r, hr, rfl⟩
  · trivial
  · trivial

theorem buildCache_notFin (s : State) (frm now : Int) :
    ∀ p ∈ buildCacheEffects s frm now, p.isFin = false := by
  intro p hp
  rcases buildCacheEffects_spec s frm now p hp with ⟨r, hr, e, rfl⟩ | ⟨l, rfl⟩ | ⟨t, rfl⟩ <;> rfl

end Sts.Stage

namespace Sts.Stage

/-! ### finalize: the log record is appended before the cache entry becomes `finalized` -/

/-- a primitive that writes no cache entry other than that of `n` -/
def onlySet (n : Name) : Prim → Bool
  | .cacheSet m _ => m == n
  | _ => true

theorem toCache_onlySet (m : Mem) (n : Name) (e : Entry) (st : FState) (now : Int) :
    (toCache m n e st now).all (onlySet n) = true := by
  unfold toCache
  simp only [List.all_append, Bool.and_eq_true]
  refine ⟨⟨?_, ?_⟩, ?_⟩
  · split <;> simp [onlySet]
  · simp [onlySet]
  · split <;> simp [onlySet]

theorem finalize_onlySet (s : State) (n : Name) (e : Entry) (now : Int) :
    (finalizeEffects s n e now).all (onlySet n) = true := by
  unfold finalizeEffects
  simp only [List.all_append, Bool.and_eq_true]
  refine ⟨⟨by simp [onlySet], ?_⟩, by simp [onlySet]⟩
  split
  · simp
  · simp only [List.all_append, Bool.and_eq_true]
    refine ⟨by simp [onlySet], ?_⟩
    split
    · simp
    · simp only [List.all_append, Bool.and_eq_true]
      refine ⟨⟨⟨by simp [onlySet], toCache_onlySet _ _ _ _ _⟩, by simp [onlySet]⟩, ?_⟩
      simp [List.all_map, onlySet]

theorem finalize_guards (s' s : State) (n : Name) (e : Entry) (now : Int) :
    Guards LoggedG s' (finalizeEffects s n e now) := by
  have hall := List.all_eq_true.mp (finalize_onlySet s n e now)
  unfold finalizeEffects at hall ⊢
  by_cases hc : stateOf s.mem n ≠ some .validated ∨ (s.mem.cache n).map (·.hash) ≠ some e.hash
  · rw [if_pos hc]
    exact Guards_of_all_benign _ _ (by simp [benign])
  · rw [if_neg hc] at hall ⊢
    simp only [List.append_assoc, List.cons_append, List.nil_append] at hall ⊢
    refine ⟨trivial, trivial, trivial, ?_⟩
    apply Guards_of_forall_LoggedG
    intro p hp
    have hp' := hall p (List.mem_cons_of_mem _ (List.mem_cons_of_mem _ (List.mem_cons_of_mem _ hp)))
    cases p with
    | cacheSet m e' =>
      intro _
      simp only [onlySet, beq_iff_eq] at hp'
      subst hp'
      refine ⟨⟨m, e.renamed, e.hash, e.size, now, e.prev⟩, ?_, rfl⟩
      simp [applyPrim, applyDisk]
    | _ => trivial

theorem finh_guards (s : State) (n : Name) (now : Int) :
    Guards LoggedG s (finhEffects s n now) := by
  unfold finhEffects
  split
  · trivial
  · refine ⟨trivial, ?_⟩
    split
    · trivial
    · split
      · exact finalize_guards _ _ _ _ _
      · refine Guards_of_all_benign _ _ ?_
        split <;> simp [benign]

end Sts.Stage

namespace Sts.Stage

/-! ### Recover: walk, cache build, then two folds of harmless cache writes -/

theorem foldl_snd_all {α : Type} (b : Prim → Bool) (f : State × List Prim → α → State × List Prim)
    (hf : ∀ acc x, acc.2.all b = true → (f acc x).2.all b = true) :
    ∀ (l : List α) (acc : State × List Prim), acc.2.all b = true → (l.foldl f acc).2.all b = true := by
  intro l
  induction l with
  | nil => intro acc h; simpa using h
  | cons x xs ih => intro acc h; exact ih _ (hf acc x h)

theorem recoverWalk_mild (H : Body → String) (d : Disk) (n : Name) :
    (recoverWalk H d n).1.all mild = true := by
  unfold recoverWalk
  repeat' split
  all_goals simp [mild]

/-- `Recover()` = harmless primitives, then a `buildCache` (run in the state the first part
    produced), then harmless primitives. -/
theorem recover_decomp (H : Body → String) (s : State) (now : Int) (names : List Name) :
    ∃ p1 frm rest, recoverEffects H s now names =
        p1 ++ buildCacheEffects (run s p1) frm now ++ rest ∧
      p1.all mild = true ∧ rest.all mild = true := by
  unfold recoverEffects
  extract_lets walk p1 s1 oldest p2 s2 fins vals stepF r3 stepV r4
  refine ⟨p1, oldest - 86400, r4.2 ++ [Prim.setReady true], by simp [p2, s1, List.append_assoc], ?_, ?_⟩
  · simp only [p1, List.all_append, Bool.and_eq_true, List.all_flatMap]
    refine ⟨by simp [mild], ?_⟩
    rw [List.all_eq_true]
    intro x hx
    simp only [walk, List.mem_map] at hx
    obtain ⟨n, _, rfl⟩ := hx
    exact recoverWalk_mild H s.disk n
  · simp only [List.all_append, Bool.and_eq_true]
    refine ⟨?_, by simp [mild]⟩
    have hF : ∀ acc x, acc.2.all mild = true → (stepF acc x).2.all mild = true := by
      intro acc x h
      simp only [stepF, List.all_append, Bool.and_eq_true]
      exact ⟨h, toCache_mild _ _ _ _ _ (by decide) (by decide), by simp [mild]⟩
    have hV : ∀ acc x, acc.2.all mild = true → (stepV acc x).2.all mild = true := by
      intro acc x h
      simp only [stepV, List.all_append, Bool.and_eq_true]
      exact ⟨h, recoverValOne_all mild H _ now x rfl rfl rfl
        (toCache_mild _ _ _ _ _ (by decide) (by decide)) (processCore_mild _ _ _ _ _)⟩
    exact foldl_snd_all mild stepV hV vals r3 (foldl_snd_all mild stepF hF fins (s2, []) (by simp))

theorem recover_guards (H : Body → String) (s : State) (now : Int) (names : List Name) :
    Guards LoggedG s (recoverEffects H s now names) := by
  obtain ⟨p1, frm, rest, heq, h1, h2⟩ := recover_decomp H s now names
  rw [heq]
  exact Guards.append (Guards.append (Guards_of_all_mild _ _ h1) (buildCache_guards _ _ _))
    (Guards_of_all_mild _ _ h2)

theorem recover_notFin (H : Body → String) (s : State) (now : Int) (names : List Name) :
    ∀ p ∈ recoverEffects H s now names, p.isFin = false := by
  obtain ⟨p1, frm, rest, heq, h1, h2⟩ := recover_decomp H s now names
  rw [heq]
  intro p hp
  simp only [List.mem_append] at hp
  rcases hp with (hp | hp) | hp
  · exact all_mild_notFin _ h1 p hp
  · exact buildCache_notFin _ _ _ p hp
  · exact all_mild_notFin _ h2 p hp

/-! ### the remaining operations, and the theorem -/

/-- every operation other than the finalize handler, `buildCache` and `Recover` consists of
    harmless primitives only -/
theorem effects_mild (H : Body → String) (s : State) (o : OpEv)
    (h1 : ∀ n now, o ≠ .finh n now) (h2 : ∀ f now, o ≠ .buildCache f now)
    (h3 : ∀ now ns, o ≠ .recover now ns) : (effects H s o).all mild = true := by
  cases o with
  | prepare n size now => exact prepare_mild s n size now
  | recvOpen h n => simp only [effects]; split <;> simp [mild]
  | recvWrite h beg data now => simp only [effects]; split <;> simp [mild]
  | record n m beg fin now => exact record_mild s n m beg fin now
  | process n now => exact process_mild H s n now
  | finh n now => exact absurd rfl (h1 n now)
  | timer n => exact timer_mild s n
  | buildCache frm now => exact absurd rfl (h2 frm now)
  | receivedQ n m => exact received_mild s n m
  | recover now names => exact absurd rfl (h3 now names)
  | cleanStrays now names => exact cleanStrays_mild s now names
  | cleanWaiting names => exact cleanWaiting_mild s names
  | consume t => simp [effects, mild]
  | corrupt n ext pos v => simp only [effects]; split <;> simp [mild]

theorem effects_guards (H : Body → String) (s : State) (o : OpEv) :
    Guards LoggedG s (effects H s o) := by
  cases o with
  | finh n now => exact finh_guards s n now
  | buildCache frm now => exact buildCache_guards s frm now
  | recover now names => exact recover_guards H s now names
  | _ => exact Guards_of_all_mild _ _ (effects_mild H s _ (by intros; simp) (by intros; simp) (by intros; simp))

/-- **finalized_implies_logged**: in every reachable state — after any history of API calls,
    worker actions, crashes and crashes inside operations — a file whose cache state is
    `finalized` or `logged` has a record in the receive log. -/
theorem finalized_implies_logged {H : Body → String} {s : State} (hr : Reachable H s) :
    LoggedInv s := by
  refine inv_reachable (H := H) (P := LoggedInv) (G := LoggedG) ?_ LoggedInv_step ?_ ?_ hr
  · intro n e hc; simp [init] at hc
  · intro s _ n e hc; simp [crash] at hc
  · intro s o _ _; exact effects_guards H s o

end Sts.Stage
