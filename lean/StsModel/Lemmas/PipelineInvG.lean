/-
  Invariants of the Pipeline model, part G: what a stage leaves behind when it returns without an
  immediate stop (the facts behind `graceful_drains`), persistence of the cache.
-/
import StsModel.Lemmas.PipelineInvP
import StsModel.Lemmas.PipelineInvB
namespace Sts.Pipeline

/-- nothing is abandoned unless the stop is immediate -/
def G1 (s : State) : Prop :=
  s.stop ≠ .now → s.lost = 0 ∧ s.deadPl = 0
/-- a completed scan handed its batch on -/
def G2 (s : State) : Prop :=
  s.stop ≠ .now → (s.scanPc = .waitDelay ∨ s.scanPc = .done) → s.scanBatch = 0
/-- once `startQueue` saw its input closed the input stays empty -/
def G3a (s : State) : Prop :=
  s.stop ≠ .now → s.qInNil = true → s.chScanned = 0
/-- `startQueue` returns with an empty queue (up to the withheld files) -/
def G3b (s : State) : Prop :=
  s.stop ≠ .now → s.qPc = .done → s.qInNil = true ∧ s.queue ≤ s.cfg.hold
/-- the input of `startBin` is empty when it flushes its last payload -/
def G4a (s : State) : Prop :=
  s.stop ≠ .now → s.binPc = .finalSend → s.chQueued = 0
/-- `startBin` returns with nothing left -/
def G4b (s : State) : Prop :=
  s.stop ≠ .now → s.binPc = .done → s.chQueued = 0 ∧ s.binHold = 0
/-- a `startSend` goroutine returns only when `chTransmit` is drained -/
def G5 (s : State) : Prop :=
  s.stop ≠ .now → 0 < s.sdDone → s.chTransmit = 0
/-- once `startTrack` saw its input closed the input stays empty -/
def G6a (s : State) : Prop :=
  s.stop ≠ .now → s.trInNil = true → s.chTransmitted = 0
/-- `startTrack` returns with an empty `progress` map -/
def G6b (s : State) : Prop :=
  s.stop ≠ .now → s.trPc = .done → s.trInNil = true ∧ s.progReady = 0 ∧ s.orphan = 0
/-- once `startValidate` saw its input closed the input stays empty -/
def G7a (s : State) : Prop :=
  s.stop ≠ .now → s.vaInNil = true → s.chValidate = 0
/-- `startValidate` returns with an empty `poll` map -/
def G7b (s : State) : Prop :=
  s.stop ≠ .now → s.vaPc = .done → s.vaInNil = true ∧ s.poll = 0
/-- outside the processing of a poll answer the cache is persisted -/
def D1 (s : State) : Prop :=
  (s.vaPc = .head ∨ s.vaPc = .blocked ∨ s.vaPc = .done) → s.dirty = false

set_option maxHeartbeats 4000000 in
theorem G1_step {s : State} {a : Action}  (h : G1 s) (g : guard s a) : G1 (apply s a) := by
  unfold G1 at *; inv_step s a g
set_option maxHeartbeats 4000000 in
theorem G2_step {s : State} {a : Action}  (h : G2 s) (g : guard s a) : G2 (apply s a) := by
  unfold G2 at *; inv_step s a g
set_option maxHeartbeats 4000000 in
theorem G3a_step {s : State} {a : Action} (d0 : B1 s) (d1 : P3 s) (d2 : P1 s) (d3 : P2 s) (d4 : S1 s) (d5 : E2 s) (h : G3a s) (g : guard s a) : G3a (apply s a) := by
  unfold G3a B1 P3 P1 P2 S1 E2 at *; inv_step s a g
set_option maxHeartbeats 4000000 in
theorem G3b_step {s : State} {a : Action}  (h : G3b s) (g : guard s a) : G3b (apply s a) := by
  unfold G3b at *; inv_step s a g
set_option maxHeartbeats 4000000 in
theorem G4a_step {s : State} {a : Action} (d0 : B8 s) (d1 : P5 s) (d2 : P4 s) (h : G4a s) (g : guard s a) : G4a (apply s a) := by
  unfold G4a B8 P5 P4 at *; inv_step s a g
set_option maxHeartbeats 4000000 in
theorem G4b_step {s : State} {a : Action} (d0 : A2 s) (d1 : P5 s) (d2 : P4 s) (d3 : G4a s) (h : G4b s) (g : guard s a) : G4b (apply s a) := by
  unfold G4b A2 P5 P4 G4a at *; inv_step s a g
set_option maxHeartbeats 4000000 in
theorem G5_step {s : State} {a : Action} (d0 : A3 s) (d1 : P7 s) (d2 : P6 s) (h : G5 s) (g : guard s a) : G5 (apply s a) := by
  unfold G5 A3 P7 P6 at *; inv_step s a g
set_option maxHeartbeats 4000000 in
theorem G6a_step {s : State} {a : Action} (d0 : B2 s) (d1 : P9 s) (d2 : P8 s) (d3 : S2 s) (h : G6a s) (g : guard s a) : G6a (apply s a) := by
  unfold G6a B2 P9 P8 S2 at *; inv_step s a g
set_option maxHeartbeats 4000000 in
theorem G6b_step {s : State} {a : Action} (d0 : A4 s) (d1 : P9 s) (d2 : P8 s) (d3 : S2 s) (h : G6b s) (g : guard s a) : G6b (apply s a) := by
  unfold G6b A4 P9 P8 S2 at *; inv_step s a g
set_option maxHeartbeats 4000000 in
theorem G7a_step {s : State} {a : Action} (d0 : B3 s) (d1 : P11 s) (d2 : P10 s) (h : G7a s) (g : guard s a) : G7a (apply s a) := by
  unfold G7a B3 P11 P10 at *; inv_step s a g
set_option maxHeartbeats 4000000 in
theorem G7b_step {s : State} {a : Action}  (h : G7b s) (g : guard s a) : G7b (apply s a) := by
  unfold G7b at *; inv_step s a g
set_option maxHeartbeats 4000000 in
theorem D1_step {s : State} {a : Action}  (h : D1 s) (g : guard s a) : D1 (apply s a) := by
  unfold D1 at *; inv_step s a g

end Sts.Pipeline
