/-
  Machinery for "the receive log has at most one record per name" in crash-free runs:
  the observations the argument needs (log, per-name (state, hash) of the cache, presence of
  `<n>.wait`, hashes in the validation queue), primitives that leave them alone (`Quiet`),
  and the relation `Rel` describing an operation that rewrites the cache signature of one name
  and appends records of that name.
-/
import StsModel.Lemmas.StageFin

namespace Sts.Stage

/-- (state, hash) of the cached file -/
def sig (m : Mem) (x : Name) : Option (FState × String) :=
  (m.cache x).map (fun e => (e.state, e.hash))

theorem sig_of_cache {m : Mem} {x : Name} {e : Entry} (h : m.cache x = some e) :
    sig m x = some (e.state, e.hash) := by simp [sig, h]

theorem cache_of_sig {m : Mem} {x : Name} {st : FState} {hs : String} (h : sig m x = some (st, hs)) :
    ∃ e, m.cache x = some e ∧ e.state = st ∧ e.hash = hs := by
  simp only [sig, Option.map_eq_some_iff, Prod.mk.injEq] at h
  obtain ⟨e, he, h1, h2⟩ := h
  exact ⟨e, he, h1, h2⟩

theorem sig_of_stateOf {m : Mem} {x : Name} {st : FState} (h : stateOf m x = some st) :
    ∃ hs, sig m x = some (st, hs) := by
  simp only [stateOf, Option.map_eq_some_iff] at h
  obtain ⟨e, he, h1⟩ := h
  exact ⟨e.hash, by simp [sig, he, h1]⟩

theorem stateOf_of_sig {m : Mem} {x : Name} {st : FState} {hs : String} (h : sig m x = some (st, hs)) :
    stateOf m x = some st := by
  obtain ⟨e, he, h1, _⟩ := cache_of_sig h
  simp [stateOf, he, h1]

/-- the invariant of crash-free, recover-free runs in which all transmissions of a name
    carry the hash `hashOf name` -/
structure OnceInv (hashOf : Name → String) (s : State) : Prop where
  once : ∀ n, (s.disk.log.filter (fun r => r.name = n)).length ≤ 1
  logged : ∀ r ∈ s.disk.log, ∃ st hs, sig s.mem r.name = some (st, hs) ∧ (st = .finalized ∨ st = .logged)
  waitf : ∀ n hs, sig s.mem n = some (.validated, hs) → s.disk.wait n ≠ none
  chash : ∀ n st hs, sig s.mem n = some (st, hs) → hs = hashOf n
  vhash : ∀ q ∈ s.mem.vq, q.2.hash = hashOf q.1

/-- `s'` differs from `s` in nothing the invariant looks at (files may gain a `.wait`, the
    validation queue may shrink or gain well-hashed items) -/
structure Quiet (hashOf : Name → String) (s s' : State) : Prop where
  log : s'.disk.log = s.disk.log
  sig : ∀ x, sig s'.mem x = sig s.mem x
  w : ∀ x, s.disk.wait x ≠ none → s'.disk.wait x ≠ none
  vq : ∀ q ∈ s'.mem.vq, q ∈ s.mem.vq ∨ q.2.hash = hashOf q.1

theorem Quiet.refl (hashOf : Name → String) (s : State) : Quiet hashOf s s :=
  ⟨rfl, fun _ => rfl, fun _ h => h, fun _ h => Or.inl h⟩

theorem Quiet.trans {hashOf : Name → String} {s s1 s2 : State}
    (h1 : Quiet hashOf s s1) (h2 : Quiet hashOf s1 s2) : Quiet hashOf s s2 :=
  ⟨h2.log.trans h1.log, fun x => (h2.sig x).trans (h1.sig x), fun x h => h2.w x (h1.w x h),
   fun q hq => by
     rcases h2.vq q hq with h | h
     · exact h1.vq q h
     · exact Or.inr h⟩

theorem OnceInv.quiet {hashOf : Name → String} {s s' : State} (hi : OnceInv hashOf s)
    (hq : Quiet hashOf s s') : OnceInv hashOf s' where
  once := by rw [hq.log]; exact hi.once
  logged := by
    intro r hr
    rw [hq.log] at hr
    rw [hq.sig]
    exact hi.logged r hr
  waitf := by
    intro n hs h
    rw [hq.sig] at h
    exact hq.w n (hi.waitf n hs h)
  chash := by
    intro n st hs h
    rw [hq.sig] at h
    exact hi.chash n st hs h
  vhash := by
    intro q hq'
    rcases hq.vq q hq' with h | h
    · exact hi.vhash q h
    · exact h

theorem mem_eraseFirst {α : Type} (p : α → Bool) (l : List α) (x : α) (h : x ∈ eraseFirst p l) :
    x ∈ l := by
  induction l with
  | nil => simp [eraseFirst] at h
  | cons y ys ih =>
    simp only [eraseFirst] at h
    split at h
    · exact List.mem_cons_of_mem _ h
    · rcases List.mem_cons.mp h with h | h
      · simp [h]
      · exact List.mem_cons_of_mem _ (ih h)

/-- guard under which a primitive is quiet in state `s` -/
def QuietG (hashOf : Name → String) (s : State) : Prim → Prop
  | .cacheSet n e => sig s.mem n = some (e.state, e.hash)
  | .cacheDel _ => False
  | .logAppend _ => False
  | .renWaitFinal _ _ => False
  | .vqPush n e => e.hash = hashOf n
  | _ => True

theorem quiet_prim (hashOf : Name → String) (s : State) (p : Prim) (h : QuietG hashOf s p) :
    Quiet hashOf s (applyPrim s p) where
  log := by
    apply applyPrim_log_notFin
    cases p <;> simp_all [Prim.isFin, QuietG]
  sig := by
    intro x
    cases p with
    | cacheSet n e =>
      simp only [QuietG] at h
      simp only [applyPrim, applyMem, Stage.sig]
      by_cases hx : x = n
      · subst hx; simp only [upd_same, Option.map_some]; rw [← Stage.sig, h]
      · simp only [upd_other _ _ _ _ hx]
    | cacheDel n => exact absurd h (by simp [QuietG])
    | nextFinalSet n =>
      simp only [applyPrim, applyMem, Stage.sig]
      split
      · rename_i e he
        by_cases hx : x = n
        · subst hx; simp [he]
        · simp only [upd_other _ _ _ _ hx]
      · rfl
    | waitAdd a b c => simp only [applyPrim, applyMem, Stage.sig]; split <;> rfl
    | _ => rfl
  w := by
    intro x hx
    cases p with
    | renWaitFinal n t => exact absurd h (by simp [QuietG])
    | renFullWait n =>
      simp only [applyPrim, applyDisk]
      split
      · by_cases hxn : x = n
        · subst hxn; simp
        · simpa [upd_other _ _ _ _ hxn] using hx
      · exact hx
    | createPart n now => simp only [applyPrim, applyDisk]; split <;> exact hx
    | truncPart n sz => simp only [applyPrim, applyDisk]; split <;> exact hx
    | cmpCommit n now => simp only [applyPrim, applyDisk]; split <;> exact hx
    | renPartFull n => simp only [applyPrim, applyDisk]; split <;> exact hx
    | rmCmpIf n h0 => simp only [applyPrim, applyDisk]; split <;> (try split) <;> exact hx
    | _ => exact hx
  vq := by
    intro q hq
    cases p with
    | vqPush n e =>
      simp only [QuietG] at h
      simp only [applyPrim, applyMem, List.mem_append, List.mem_singleton] at hq
      rcases hq with hq | hq
      · exact Or.inl hq
      · subst hq; exact Or.inr h
    | vqDel n =>
      simp only [applyPrim, applyMem] at hq
      exact Or.inl (mem_eraseFirst _ _ _ hq)
    | waitAdd a b c =>
      simp only [applyPrim, applyMem] at hq
      split at hq <;> exact Or.inl hq
    | nextFinalSet n =>
      simp only [applyPrim, applyMem] at hq
      split at hq <;> exact Or.inl hq
    | _ => exact Or.inl hq

theorem QuietG_mono (hashOf : Name → String) (s : State) (q p : Prim)
    (hq : QuietG hashOf s q) (hp : QuietG hashOf s p) : QuietG hashOf (applyPrim s q) p := by
  cases p <;> simp only [QuietG] at hp ⊢ <;> try trivial
  rw [(quiet_prim hashOf s q hq).sig]; exact hp

/-- a list of primitives each quiet in the start state is quiet as a whole -/
theorem quiet_run (hashOf : Name → String) :
    ∀ (ps : List Prim) (s : State), (∀ p ∈ ps, QuietG hashOf s p) → Quiet hashOf s (run s ps) := by
  intro ps
  induction ps with
  | nil => intro s _; exact Quiet.refl hashOf s
  | cons p ps ih =>
    intro s h
    have hp := h p (by simp)
    refine (quiet_prim hashOf s p hp).trans (ih _ ?_)
    intro q hq
    exact QuietG_mono hashOf s p q hp (h q (by simp [hq]))

/-- statically quiet primitives -/
def quietB : Prim → Bool
  | .cacheSet _ _ => false
  | .cacheDel _ => false
  | .logAppend _ => false
  | .renWaitFinal _ _ => false
  | .vqPush _ _ => false
  | _ => true

theorem quietB_QuietG (hashOf : Name → String) (s : State) (p : Prim) (h : quietB p = true) :
    QuietG hashOf s p := by
  cases p <;> simp_all [quietB, QuietG]

theorem quiet_run_of_all (hashOf : Name → String) (s : State) (ps : List Prim)
    (h : ps.all quietB = true) : Quiet hashOf s (run s ps) :=
  quiet_run hashOf ps s (fun p hp => quietB_QuietG hashOf s p (List.all_eq_true.mp h p hp))

end Sts.Stage

namespace Sts.Stage

/-- `s'` is `s` with the cache signature of `n` replaced by `v` and the records `nl`
    appended to the log; other files keep their `.wait`. -/
structure Rel (hashOf : Name → String) (s s' : State) (n : Name) (v : Option (FState × String))
    (nl : List LogRec) : Prop where
  log : s'.disk.log = s.disk.log ++ nl
  sig : ∀ x, sig s'.mem x = if x = n then v else sig s.mem x
  w : ∀ x, x ≠ n → s.disk.wait x ≠ none → s'.disk.wait x ≠ none
  vq : ∀ q ∈ s'.mem.vq, q ∈ s.mem.vq ∨ q.2.hash = hashOf q.1

theorem Quiet.toRel {hashOf : Name → String} {s s' : State} (h : Quiet hashOf s s') (n : Name) :
    Rel hashOf s s' n (Stage.sig s.mem n) [] :=
  ⟨by simp [h.log], fun x => by rw [h.sig]; split <;> simp_all, fun x _ hx => h.w x hx, h.vq⟩

theorem Rel.trans {hashOf : Name → String} {s s1 s2 : State} {n : Name}
    {v1 v2 : Option (FState × String)} {l1 l2 : List LogRec}
    (h1 : Rel hashOf s s1 n v1 l1) (h2 : Rel hashOf s1 s2 n v2 l2) :
    Rel hashOf s s2 n v2 (l1 ++ l2) :=
  ⟨by rw [h2.log, h1.log, List.append_assoc],
   fun x => by rw [h2.sig, h1.sig]; split <;> rfl,
   fun x hx h => h2.w x hx (h1.w x hx h),
   fun q hq => by
     rcases h2.vq q hq with h | h
     · exact h1.vq q h
     · exact Or.inr h⟩

theorem Rel.quiet_left {hashOf : Name → String} {s s1 s2 : State} {n : Name}
    {v : Option (FState × String)} {l : List LogRec}
    (h1 : Quiet hashOf s s1) (h2 : Rel hashOf s1 s2 n v l) : Rel hashOf s s2 n v l := by
  simpa using (h1.toRel n).trans h2

theorem Rel.quiet_right {hashOf : Name → String} {s s1 s2 : State} {n : Name}
    {v : Option (FState × String)} {l : List LogRec}
    (h1 : Rel hashOf s s1 n v l) (h2 : Quiet hashOf s1 s2) : Rel hashOf s s2 n v l := by
  have h := h1.trans (h2.toRel n)
  have hv : Stage.sig s1.mem n = v := by rw [h1.sig]; simp
  simpa [hv] using h

/-- the invariant survives an operation that (re)writes the cache entry of `n`, provided
    the log had no record of `n`, the new hash is `hashOf n`, records are appended (at most
    one, named `n`) only together with state `finalized`, and state `validated` comes with a
    `.wait` file. -/
theorem OnceInv.rel {hashOf : Name → String} {s s' : State} {n : Name} {st : FState}
    {hs0 : String} {nl : List LogRec} (hi : OnceInv hashOf s)
    (hr0 : Rel hashOf s s' n (some (st, hs0)) nl) (hhs : hs0 = hashOf n)
    (hno : ∀ r ∈ s.disk.log, r.name ≠ n)
    (hnl : ∀ r ∈ nl, r.name = n) (hlen : nl.length ≤ 1)
    (hst : st = .finalized ∨ (nl = [] ∧ st ≠ .logged))
    (hval : st = .validated → s'.disk.wait n ≠ none) : OnceInv hashOf s' :=
  have hr : Rel hashOf s s' n (some (st, hashOf n)) nl := hhs ▸ hr0
  { once := by
      intro x
      rw [hr.log, List.filter_append, List.length_append]
      by_cases hx : x = n
      · subst hx
        have h0 : (s.disk.log.filter (fun r => r.name = x)) = [] := by
          rw [List.filter_eq_nil_iff]
          intro r hr'
          simpa using hno r hr'
        have h1 : (nl.filter (fun r => r.name = x)).length ≤ nl.length := List.length_filter_le _ _
        rw [h0]; simp only [List.length_nil, Nat.zero_add]; omega
      · have h0 : (nl.filter (fun r => r.name = x)) = [] := by
          rw [List.filter_eq_nil_iff]
          intro r hr'
          rw [decide_eq_true_eq, hnl r hr']
          exact fun h => hx h.symm
        rw [h0]; simpa using hi.once x
    logged := by
      intro r hr'
      rw [hr.log, List.mem_append] at hr'
      rw [hr.sig]
      rcases hr' with h | h
      · rw [if_neg (hno r h)]; exact hi.logged r h
      · rw [if_pos (hnl r h)]
        refine ⟨st, hashOf n, rfl, ?_⟩
        rcases hst with h' | ⟨h', _⟩
        · exact Or.inl h'
        · subst h'; simp at h
    waitf := by
      intro x hs h
      rw [hr.sig] at h
      by_cases hx : x = n
      · subst hx
        simp only [if_true, Option.some.injEq, Prod.mk.injEq] at h
        exact hval h.1
      · rw [if_neg hx] at h
        exact hr.w x hx (hi.waitf x hs h)
    chash := by
      intro x st' hs h
      rw [hr.sig] at h
      by_cases hx : x = n
      · subst hx
        simp only [if_true, Option.some.injEq, Prod.mk.injEq] at h
        exact h.2.symm
      · rw [if_neg hx] at h
        exact hi.chash x st' hs h
    vhash := by
      intro q hq
      rcases hr.vq q hq with h | h
      · exact hi.vhash q h
      · exact h }

/-! ### the non-quiet building blocks -/

theorem toCache_disk (s : State) (m : Mem) (n : Name) (e : Entry) (st : FState) (now : Int) :
    (run s (toCache m n e st now)).disk = s.disk := by
  unfold toCache
  split <;> split <;> simp [run, applyPrim, applyDisk]

theorem toCache_rel (hashOf : Name → String) (s : State) (m : Mem) (n : Name) (e : Entry)
    (st : FState) (now : Int) :
    Rel hashOf s (run s (toCache m n e st now)) n (some (st, e.hash)) [] := by
  have hset : ∀ s : State, Rel hashOf s
      (applyPrim s (Prim.cacheSet n { e with state := st, time := now })) n
      (some (st, e.hash)) [] := by
    intro s
    refine ⟨by simp [applyPrim, applyDisk], ?_, fun x _ hx => hx, fun q hq => Or.inl hq⟩
    intro x
    simp only [applyPrim, applyMem, Stage.sig]
    by_cases hx : x = n
    · subst hx; simp
    · simp [hx]
  unfold toCache
  simp only [run_append]
  have h1 : ∀ s0 : State, Quiet hashOf s0 (run s0 (match e.logged, m.cacheTime with
      | some l, none => [Prim.cacheTimeSet (some l)] | _, _ => [])) := by
    intro s0
    apply quiet_run_of_all
    split <;> simp [quietB]
  have h3 : ∀ s0 : State, Quiet hashOf s0 (run s0
      (if e.prev ≠ "" ∧ st = .finalized then [Prim.nextFinalSet e.prev] else [])) := by
    intro s0
    apply quiet_run_of_all
    split <;> simp [quietB]
  exact ((Rel.quiet_left (h1 s) (hset _)).quiet_right (h3 _))

end Sts.Stage

namespace Sts.Stage

/-! ### operations that touch nothing the invariant looks at -/

theorem prepare_quietB (s : State) (n : Name) (size now : Int) :
    (prepareEffects s n size now).all quietB = true := by
  unfold prepareEffects
  split <;> (try split) <;> (try split) <;> simp [quietB]

theorem timer_quietB (s : State) (n : Name) : (timerEffects s n).all quietB = true := by
  unfold timerEffects
  split <;> (try split) <;> simp [quietB]

theorem received_quietB (s : State) (n : Name) (m : Meta) :
    (receivedEffects s n m).all quietB = true := by
  unfold receivedEffects
  simp only [List.all_append, Bool.and_eq_true]
  refine ⟨by simp [quietB], ?_⟩
  split <;> (try split) <;> simp [quietB]

theorem cleanStrays_quietB (s : State) (now : Int) (names : List Name) :
    (cleanStraysEffects s now names).all quietB = true := by
  unfold cleanStraysEffects
  simp only [List.all_flatMap]
  rw [List.all_eq_true]
  intro n _
  unfold cleanStrayOne
  simp only [List.all_append, Bool.and_eq_true]
  constructor <;> (split <;> simp [quietB])

/-- when every record's name is cached, `buildCache` loads nothing -/
theorem buildCacheLoad_cached (recs : List LogRec) (cached : Name → Bool) (now : Int)
    (h : ∀ r ∈ recs, cached r.name = true) : buildCacheLoad recs cached now = [] := by
  induction recs with
  | nil => rfl
  | cons r rs ih =>
    unfold buildCacheLoad
    rw [if_pos (h r (by simp))]
    exact ih (fun r' hr' => h r' (by simp [hr']))

theorem buildCache_quietB (s : State) (frm now : Int)
    (h : ∀ r ∈ s.disk.log, (s.mem.cache r.name).isSome = true) :
    (buildCacheEffects s frm now).all quietB = true := by
  obtain ⟨ct, he | he⟩ := buildCacheEffects_eq s frm now
  · rw [he]; rfl
  · rw [he, buildCacheLoad_cached _ _ _ (fun r hr => h r (buildRecs_sub s frm ct r hr))]
    simp only [List.nil_append, List.all_append, Bool.and_eq_true]
    refine ⟨?_, by simp [quietB]⟩
    split <;> simp [quietB]

theorem OnceInv.cached {hashOf : Name → String} {s : State} (hi : OnceInv hashOf s) :
    ∀ r ∈ s.disk.log, (s.mem.cache r.name).isSome = true := by
  intro r hr
  obtain ⟨st, hs, h, _⟩ := hi.logged r hr
  obtain ⟨e, he, _⟩ := cache_of_sig h
  simp [he]

/-- a file with a log record is finalized / logged, hence not in any earlier state -/
theorem OnceInv.no_record {hashOf : Name → String} {s : State} (hi : OnceInv hashOf s) (n : Name)
    (h : ∀ st hs, sig s.mem n = some (st, hs) → st ≠ .finalized ∧ st ≠ .logged) :
    ∀ r ∈ s.disk.log, r.name ≠ n := by
  intro r hr hn
  obtain ⟨st, hs, h1, h2⟩ := hi.logged r hr
  rw [hn] at h1
  have := h st hs h1
  rcases h2 with h2 | h2 <;> simp [h2] at this

/-! ### the cleaner: a fold of quiet steps -/

theorem cleanWaitingStep_quiet (hashOf : Name → String) (acc : State × List Prim) (c : Name × Entry) :
    Quiet hashOf acc.1 (cleanWaitingStep acc c).1 ∧
    (∀ s0, acc.1 = run s0 acc.2 → (cleanWaitingStep acc c).1 = run s0 (cleanWaitingStep acc c).2) := by
  unfold cleanWaitingStep
  simp only
  split
  · exact ⟨Quiet.refl _ _, fun _ h => h⟩
  · split
    · exact ⟨Quiet.refl _ _, fun _ h => h⟩
    · refine ⟨?_, fun s0 h => by rw [run_append s0 acc.2, ← h]⟩
      apply quiet_run
      intro p hp
      simp only [List.mem_append, List.mem_singleton, List.mem_flatMap] at hp
      rcases hp with hp | ⟨w, _, hp⟩
      · subst hp; trivial
      · split at hp
        · rename_i f hf
          split at hp
          · rename_i hv
            simp only [List.mem_cons, List.not_mem_nil, or_false] at hp
            rcases hp with hp | hp | hp
            · subst hp; trivial
            · subst hp
              show sig _ _ = some (f.state, f.hash)
              exact sig_of_cache hf
            · subst hp; trivial
          · simp at hp
        · simp at hp

theorem cleanWaiting_fold_quiet (hashOf : Name → String) (s0 : State) (cs : List (Name × Entry)) :
    ∀ acc : State × List Prim, Quiet hashOf s0 acc.1 → acc.1 = run s0 acc.2 →
      Quiet hashOf s0 (cs.foldl cleanWaitingStep acc).1 ∧
      (cs.foldl cleanWaitingStep acc).1 = run s0 (cs.foldl cleanWaitingStep acc).2 := by
  induction cs with
  | nil => intro acc h1 h2; exact ⟨h1, h2⟩
  | cons c cs ih =>
    intro acc h1 h2
    obtain ⟨hq, hr⟩ := cleanWaitingStep_quiet hashOf acc c
    exact ih _ (h1.trans hq) (hr s0 h2)

theorem cleanWaiting_quiet (hashOf : Name → String) (s : State) (names : List Name) :
    Quiet hashOf s (run s (cleanWaitingEffects s names)) := by
  unfold cleanWaitingEffects
  simp only
  generalize (List.foldl (fun acc x => insertBySeq x acc) [] _) = sorted
  obtain ⟨h1, h2⟩ := cleanWaiting_fold_quiet hashOf s sorted (s, []) (Quiet.refl _ _) rfl
  rw [← h2]; exact h1

end Sts.Stage

namespace Sts.Stage

/-! ### Receive's locked region -/

/-- the branch of `recordEffects` that starts a new validation -/
def recordNew (s : State) (n : Name) (m : Meta) (now : Int) : List Prim :=
  match s.disk.part n with
  | some _ => [Prim.renPartFull n] ++ toCache s.mem n (Entry.ofMeta m .received) .received now ++
              [Prim.vqPush n { Entry.ofMeta m .received with time := now }]
  | none => toCache s.mem n (Entry.ofMeta m .received) .failed now

theorem recordEffects_cases (s : State) (n : Name) (m : Meta) (beg fin now : Int) :
    (recordEffects s n m beg fin now).all quietB = true ∨
    ((∀ ex, s.mem.cache n = some ex → ¬(ex.state ≠ .failed ∧ ex.hash = m.hash)) ∧
     recordEffects s n m beg fin now =
       [Prim.lockAdd n, Prim.cmpTmp n (nextCmp s.disk n m beg fin), Prim.cmpCommit n now] ++
       recordNew s n m now) := by
  unfold recordEffects recordNew
  simp only
  split
  · split
    · rename_i ex hex
      split
      · left
        simp only [List.all_append, Bool.and_eq_true]
        refine ⟨by simp [quietB], by simp [quietB], ?_⟩
        split <;> simp [quietB]
      · rename_i hc
        right
        refine ⟨?_, rfl⟩
        intro ex' hex'
        rw [hex] at hex'
        cases hex'
        exact hc
    · rename_i hnone
      right
      exact ⟨fun ex hex => (by rw [hnone] at hex; cases hex), rfl⟩
  · left; simp [quietB]

theorem record_once {hashOf : Name → String} {s : State} (hi : OnceInv hashOf s)
    (n : Name) (m : Meta) (beg fin now : Int) (hm : m.hash = hashOf n) :
    OnceInv hashOf (run s (recordEffects s n m beg fin now)) := by
  rcases recordEffects_cases s n m beg fin now with h | ⟨hnew, heq⟩
  · exact hi.quiet (quiet_run_of_all hashOf s _ h)
  · have hno : ∀ r ∈ s.disk.log, r.name ≠ n := by
      apply hi.no_record
      intro st hs hsig
      obtain ⟨ex, hex, h1, h2⟩ := cache_of_sig hsig
      have := hnew ex hex
      have hh : ex.hash = m.hash := by rw [h2, hm]; exact hi.chash n st hs hsig
      constructor <;> (intro h; subst h; apply this; exact ⟨by rw [h1]; decide, hh⟩)
    rw [heq]
    unfold recordNew
    cases hp : s.disk.part n with
    | some i =>
      simp only
      rw [← List.append_assoc, ← List.append_assoc, run_append, run_append]
      have hq1 := quiet_run_of_all hashOf s
        ([Prim.lockAdd n, Prim.cmpTmp n (nextCmp s.disk n m beg fin), Prim.cmpCommit n now] ++
          [Prim.renPartFull n]) (by simp [quietB])
      have hr := toCache_rel hashOf (run s ([Prim.lockAdd n, Prim.cmpTmp n (nextCmp s.disk n m beg fin),
        Prim.cmpCommit n now] ++ [Prim.renPartFull n])) s.mem n (Entry.ofMeta m .received) .received now
      have hq2 := quiet_run hashOf [Prim.vqPush n { Entry.ofMeta m .received with time := now }]
        (run (run s ([Prim.lockAdd n, Prim.cmpTmp n (nextCmp s.disk n m beg fin),
          Prim.cmpCommit n now] ++ [Prim.renPartFull n]))
          (toCache s.mem n (Entry.ofMeta m .received) .received now))
        (by intro p hp; simp only [List.mem_singleton] at hp; subst hp; exact hm)
      have hrel := (Rel.quiet_left hq1 hr).quiet_right hq2
      exact hi.rel hrel hm hno (by simp) (by simp) (Or.inr ⟨rfl, by decide⟩) (by intro h; cases h)
    | none =>
      simp only
      rw [run_append]
      have hq1 := quiet_run_of_all hashOf s
        [Prim.lockAdd n, Prim.cmpTmp n (nextCmp s.disk n m beg fin), Prim.cmpCommit n now]
        (by simp [quietB])
      have hr := toCache_rel hashOf (run s [Prim.lockAdd n, Prim.cmpTmp n (nextCmp s.disk n m beg fin),
        Prim.cmpCommit n now]) s.mem n (Entry.ofMeta m .received) .failed now
      have hrel := Rel.quiet_left hq1 hr
      exact hi.rel hrel hm hno (by simp) (by simp) (Or.inr ⟨rfl, by decide⟩) (by intro h; cases h)

end Sts.Stage

namespace Sts.Stage

/-! ### a validator -/

theorem process_once {hashOf : Name → String} {s : State} (hi : OnceInv hashOf s)
    (H : Body → String) (n : Name) (now : Int) :
    OnceInv hashOf (run s (processEffects H s n now)) := by
  unfold processEffects
  split
  · exact hi
  · rename_i k e hfind
    have hk : k = n := by simpa using List.find?_some hfind
    have he : e.hash = hashOf n := by
      have := hi.vhash (k, e) (List.mem_of_find?_eq_some hfind)
      rw [hk] at this; exact this
    unfold processCore
    by_cases hst : stateOf s.mem n ≠ some .received
    · rw [if_pos hst]
      exact hi.quiet (quiet_run_of_all hashOf s _ (by simp [quietB]))
    · rw [if_neg hst]
      have hst' : stateOf s.mem n = some .received := Classical.not_not.mp hst
      have hno : ∀ r ∈ s.disk.log, r.name ≠ n := by
        apply hi.no_record
        intro st hs hsig
        have := stateOf_of_sig hsig
        rw [hst'] at this
        cases this
        exact ⟨by decide, by decide⟩
      cases hf : s.disk.full n with
      | none =>
        simp only
        have heq : ∀ T : List Prim, [Prim.vqDel n] ++ ([Prim.lockAdd n] ++ ([Prim.rmCmp n, Prim.rmFull n] ++ T)) =
            [Prim.vqDel n, Prim.lockAdd n, Prim.rmCmp n, Prim.rmFull n] ++ T := by intro T; simp
        rw [heq, run_append]
        have hq1 := quiet_run_of_all hashOf s [Prim.vqDel n, Prim.lockAdd n, Prim.rmCmp n, Prim.rmFull n]
          (by simp [quietB])
        have hrel := Rel.quiet_left hq1 (toCache_rel hashOf _ s.mem n e .failed now)
        exact hi.rel hrel he hno (by simp) (by simp) (Or.inr ⟨rfl, by decide⟩) (by intro h; cases h)
      | some i =>
        simp only
        by_cases hH : H (s.disk.body i) ≠ e.hash
        · rw [if_pos hH]
          have heq : ∀ T : List Prim, [Prim.vqDel n] ++ ([Prim.lockAdd n] ++ T) =
              [Prim.vqDel n, Prim.lockAdd n] ++ T := by intro T; simp
          rw [heq, run_append]
          have hq1 := quiet_run_of_all hashOf s [Prim.vqDel n, Prim.lockAdd n] (by simp [quietB])
          have hrel := Rel.quiet_left hq1 (toCache_rel hashOf _ s.mem n e .failed now)
          exact hi.rel hrel he hno (by simp) (by simp) (Or.inr ⟨rfl, by decide⟩) (by intro h; cases h)
        · rw [if_neg hH]
          have heq : ∀ T U : List Prim, [Prim.vqDel n] ++ ([Prim.lockAdd n] ++ ([Prim.renFullWait n] ++ T ++ U)) =
              [Prim.vqDel n, Prim.lockAdd n, Prim.renFullWait n] ++ T ++ U := by intro T U; simp
          rw [heq, run_append, run_append]
          have hq1 := quiet_run_of_all hashOf s [Prim.vqDel n, Prim.lockAdd n, Prim.renFullWait n]
            (by simp [quietB])
          have hq2 := quiet_run_of_all hashOf
            (run (run s [Prim.vqDel n, Prim.lockAdd n, Prim.renFullWait n])
              (toCache s.mem n e .validated now))
            [Prim.fqPush n { e with state := .validated, time := now }] (by simp [quietB])
          have hrel := (Rel.quiet_left hq1 (toCache_rel hashOf _ s.mem n e .validated now)).quiet_right hq2
          refine hi.rel hrel he hno (by simp) (by simp) (Or.inr ⟨rfl, by decide⟩) ?_
          intro _
          have hd : (run (run (run s [Prim.vqDel n, Prim.lockAdd n, Prim.renFullWait n])
              (toCache s.mem n e .validated now))
              [Prim.fqPush n { e with state := .validated, time := now }]).disk =
              (run s [Prim.vqDel n, Prim.lockAdd n, Prim.renFullWait n]).disk := by
            rw [← toCache_disk (run s [Prim.vqDel n, Prim.lockAdd n, Prim.renFullWait n]) s.mem n e
              .validated now]
            rfl
          rw [hd]
          simp [run, applyPrim, applyDisk, hf]

end Sts.Stage

namespace Sts.Stage

/-! ### the finalize handler -/

theorem logAppend_rel (hashOf : Name → String) (s : State) (n : Name) (r : LogRec) :
    Rel hashOf s (applyPrim s (Prim.logAppend r)) n (sig s.mem n) [r] :=
  ⟨rfl, fun x => by
      show sig s.mem x = _
      split
      · rename_i h; rw [h]
      · rfl,
   fun _ _ h => h, fun _ h => Or.inl h⟩

theorem renWaitFinal_rel (hashOf : Name → String) (s : State) (n : Name) (t : String) :
    Rel hashOf s (applyPrim s (Prim.renWaitFinal n t)) n (sig s.mem n) [] := by
  refine ⟨?_, ?_, ?_, fun _ h => Or.inl h⟩
  · simp only [applyPrim, applyDisk]; split <;> simp
  · intro x
    show sig s.mem x = _
    split
    · rename_i h; rw [h]
    · rfl
  · intro x hx h
    simp only [applyPrim, applyDisk]
    split
    · simpa [upd_other _ _ _ _ hx] using h
    · exact h

/-- what `finalize` does after the cache update -/
def finalizeRest (s : State) (n : Name) (h : String) : List Prim :=
  [Prim.rmCmpIf n h, Prim.waitTake n] ++
    (s.mem.wait.filter (fun w => w.1 == n)).map (fun w => Prim.fqPush w.2.1 w.2.2) ++
    [Prim.lockDel n]

theorem finalizeEffects_eq (s : State) (n : Name) (e : Entry) (now : Int) (i : Nat)
    (hv : stateOf s.mem n = some .validated) (hh : (s.mem.cache n).map (·.hash) = some e.hash)
    (hw : s.disk.wait n = some i) :
    finalizeEffects s n e now =
      [Prim.lockAdd n, Prim.timerDel n] ++ [Prim.logAppend (finRec n e now)] ++
      [Prim.renWaitFinal n (targetOf n e.renamed)] ++
      toCache s.mem n { e with logged := some now } .finalized now ++
      finalizeRest s n e.hash := by
  unfold finalizeEffects finalizeRest
  have hc : ¬ (stateOf s.mem n ≠ some .validated ∨ (s.mem.cache n).map (·.hash) ≠ some e.hash) := by
    simp [hv, hh]
  rw [if_neg hc]
  simp [hw, finRec]

theorem finalize_rel (hashOf : Name → String) (s0 s : State) (n : Name) (e : Entry) (now : Int)
    (i : Nat) (hv : stateOf s.mem n = some .validated)
    (hh : (s.mem.cache n).map (·.hash) = some e.hash) (hw : s.disk.wait n = some i) :
    Rel hashOf s0 (run s0 (finalizeEffects s n e now)) n (some (.finalized, e.hash))
      [finRec n e now] := by
  rw [finalizeEffects_eq s n e now i hv hh hw]
  simp only [run_append]
  have h1 := quiet_run_of_all hashOf s0 [Prim.lockAdd n, Prim.timerDel n] (by simp [quietB])
  have h2 := logAppend_rel hashOf (run s0 [Prim.lockAdd n, Prim.timerDel n]) n (finRec n e now)
  have h3 := renWaitFinal_rel hashOf
    (run (run s0 [Prim.lockAdd n, Prim.timerDel n]) [Prim.logAppend (finRec n e now)]) n
    (targetOf n e.renamed)
  have h4 := toCache_rel hashOf
    (run (run (run s0 [Prim.lockAdd n, Prim.timerDel n]) [Prim.logAppend (finRec n e now)])
      [Prim.renWaitFinal n (targetOf n e.renamed)]) s.mem n { e with logged := some now } .finalized now
  have h5 := quiet_run_of_all hashOf
    (run (run (run (run s0 [Prim.lockAdd n, Prim.timerDel n]) [Prim.logAppend (finRec n e now)])
      [Prim.renWaitFinal n (targetOf n e.renamed)])
      (toCache s.mem n { e with logged := some now } .finalized now))
    (finalizeRest s n e.hash) (by simp [finalizeRest, quietB, List.all_map])
  exact (Rel.quiet_left h1 ((h2.trans h3).trans h4)).quiet_right h5

theorem finh_once {hashOf : Name → String} {s : State} (hi : OnceInv hashOf s)
    (n : Name) (now : Int) : OnceInv hashOf (run s (finhEffects s n now)) := by
  unfold finhEffects
  split
  · exact hi
  · rename_i k e hfind
    by_cases hst : stateOf s.mem n ≠ some .validated
    · rw [if_pos hst]
      exact hi.quiet (quiet_run_of_all hashOf s _ (by simp [quietB]))
    · rw [if_neg hst]
      have hv : stateOf s.mem n = some .validated := Classical.not_not.mp hst
      split
      · -- finalize
        by_cases hh : (s.mem.cache n).map (·.hash) = some e.hash
        · obtain ⟨hs, hsig⟩ := sig_of_stateOf hv
          have hw := hi.waitf n hs hsig
          cases hwn : s.disk.wait n with
          | none => exact absurd hwn hw
          | some i =>
            have he : e.hash = hashOf n := by
              obtain ⟨ex, hex, _, h2⟩ := cache_of_sig hsig
              have : ex.hash = e.hash := by simpa [hex] using hh
              rw [← this, h2]
              exact hi.chash n _ hs hsig
            have hno : ∀ r ∈ s.disk.log, r.name ≠ n := by
              apply hi.no_record
              intro st hs' hsig'
              rw [hsig] at hsig'
              cases hsig'
              exact ⟨by decide, by decide⟩
            rw [run_append]
            have h1 := quiet_run_of_all hashOf s [Prim.fqDel n] (by simp [quietB])
            have hrel := Rel.quiet_left h1 (finalize_rel hashOf (run s [Prim.fqDel n]) s n e now i hv hh hwn)
            exact hi.rel hrel he hno (by simp [finRec]) (by simp) (Or.inl rfl) (by intro h; cases h)
        · have heq : finalizeEffects s n e now = [Prim.lockAdd n] ++ [] ++ [Prim.lockDel n] := by
            unfold finalizeEffects
            rw [if_pos (Or.inr hh)]
          rw [heq]
          exact hi.quiet (quiet_run_of_all hashOf s _ (by simp [quietB]))
      · -- parked
        refine hi.quiet (quiet_run_of_all hashOf s _ ?_)
        simp only [List.all_append, Bool.and_eq_true]
        refine ⟨by simp [quietB], ⟨by simp [quietB], ?_⟩, by simp [quietB]⟩
        split <;> simp [quietB]

end Sts.Stage
