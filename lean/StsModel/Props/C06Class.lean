/-
  C06 — the classification over whole runs (stage/local.go Recover, process, finalize,
  putFileAway; crash model of Model/StageSem).

  "After restart and recovery every file is in exactly one of these conditions: not or partly
   received with an accurate record (A), completely received and validated again (B), or
   validated and held / delivered under its proper name (C). Nothing that was reported as
   validated is lost (N1), nothing unvalidated is delivered (N2), a file already logged and
   delivered is neither requested nor delivered again (N3)."

  Setting. `s` is ANY reachable state (every history of operations, `Ev.cutOp k o` at every
  durable step of every operation — including cuts inside `recover` — and `Ev.crash`);
  `recovered H s now names` = the state after `crash` and `.op (.recover now names)`. In the
  model (as in the code) Recover runs the validations of its validate list itself
  (`s.process(finalFile)` in the worker loop) and only queues the finalizations; the explicit
  event `.op (.finh n now2)` is the finalize handler taking `n` from that queue
  (`held_delivers`).

  The class of `n` is a function of the disk at the crash point (`crashClass`, decision table
  `crashClass_table`, `class_determined_by_disk`); the outcome after recovery is read off the
  state (`Unlisted` / `Refused` / `OutHeld`, which exclude each other: `post_exactly_one`).

  RESULT. The full statement `C06Classification` is FALSE of the model (and of the code); each
  false clause has a concrete witness run (`decide`), replayable through the harness component
  `stage` (`./check C06 --replay`, ops given as the harness writes them; `recv` = write + record,
  so `cut 3 recv` is the model's `cutOp 2 (record …)`):
    * (A) "no `.full`": `classA_stale_full` — ops: `prepare k 2 0` / `recv k - - 2 b9.9 0 2 1.2 0`
      (complete, wrong announced hash) / `process k 1` (fails, `k.full` and the companion stay) /
      `cut 1 prepare k 2 2` (the retransmission's Prepare removed the companion, then the crash) /
      `recover 9` / `observe`: `full{k=1.2}`, no companion, nothing cached or queued, `scan` lists
      nothing. Replayed on the real receiver: same answers. Harmless garbage: the next complete
      reception renames its `.part` over it.
    * (A) "no `.wait`" and (N1): `superseded_wait_ignored_by_recover` (Props/C02Stage, known
      finding): a validated `a.wait` whose companion was rewritten for a newer version is
      ignored by Recover.
    * (N2): `stale_writer_breaks_integrity` (Props/C01, known finding S1).
    * (N3): FIXED DEFECT `logged_delivered_again_orig` (about `recoverEffectsOrig`, the code as
      found) — ops: `prepare a 2 0` / `recv a - - 2 b1.2 0 2 1.2 0` / `settle 0` (delivered,
      logged) / `consume a` / `prepare a 2 1` / `cut 3 recv a - - 2 b1.2 0 2 1.2 1` (the last part
      again after a lost acknowledgement; the crash is after the companion's rename, before the
      duplicate branch removes `a.part`) / `recover 5` / `settle 6` / `observe`: `final{a=1.2}`
      again and two log lines. Recover validated the complete `a.part` WITHOUT looking at the
      cache entry its own buildCache had loaded from the log. Repaired by `fix:` "Recover
      validated, logged and delivered again a duplicate of a version that is already in the
      receive log" (validate loop: "Ignoring duplicate (recover)"); model: `recoverDup`,
      `recoverValOne`; theorem `recover_skips_logged_duplicate`; the same crash image after
      the repair: `logged_duplicate_dropped`. What is left of (N3)'s falsity is cache ageing:
      `logged_delivered_again_unremembered` (the log record is older than the days Recover's
      cache build reads; C05's `Remembered`).
  What is proved (all states / all histories, no bound on anything):
    * `C06_trichotomy`: for EVERY state `s` (reachable or not), every walk list without
      duplicates and every `n` in it: class (A) ⇒ `ClassA` (nothing cached but the log record,
      nothing queued; a companion that remains has its `.part`, no `.full`, is incomplete; a
      `.full`/`.wait` that remains is unrecorded), class (B) ⇒ `ClassB` (a remembered, logged
      version is dropped: `.full` and companion removed, nothing queued; otherwise the complete
      file is hashed again; equal ⇒ held as `<n>.wait`, different ⇒ refused, `<n>.full` kept,
      status "failed"), class (C) ⇒ `OutHeld`. `post_exactly_one`: exactly one of the three outcomes.
    * `classA_full_partial`: with `RecReachableOk` (hypotheses of `record_sound`) and
      `Accompanied` (every `.full` has a companion, every `.wait` the companion of its hash)
      class (A) is `ClassAFull` (the statement as given).
    * `held_delivers`, `classC_delivered_or_parked`: the finalize handler on a held name delivers
      it (log record, the inode that was `<n>.wait` under the proper name, hash = logged hash,
      companion gone) or parks it behind its predecessor (status "waiting", nothing durable
      changes).
    * `C06_N1_partial` (+ `C06_N1_status`), `C06_N2_partial` (+ `C06_N2_after_recovery`),
      `C06_N3_partial` (hypothesis left: `Remembered`), `recover_skips_logged_duplicate`
      (+ `_window`) and the bundle `C06_classification_partial`.
  Not proved: "every logged version is in the final directory, was consumed, or is still held"
  as an invariant over whole runs (the model has no ghost for consumption; the harness oracle
  `validated-lost` checks it on the real receiver).
-/
import StsModel.Lemmas.StageClass
import StsModel.Lemmas.StageOrig

namespace Sts.Stage
open Dur

/-! ## the state after restart and recovery; the class of a name at the crash point -/

/-- the state after a crash in `s`, restart, and `Recover()` walking `names` -/
def recovered (H : Body → String) (s : State) (now : Int) (names : List Name) : State :=
  step H (step H s .crash) (.op (.recover now names))

theorem recovered_eq (H : Body → String) (s : State) (now : Int) (names : List Name) :
    recovered H s now names = run (crash s) (recoverEffects H (crash s) now names) := rfl

/-- the three conditions of the property, as decided by the disk at the crash point -/
inductive Cls
  | partial_                -- (A) not or partly received
  | revalidate (c : Cmp)    -- (B) completely received, to be validated again
  | held (c : Cmp)          -- (C) validated, held for delivery
deriving DecidableEq, Repr

def crashClass (H : Body → String) (d : Disk) (n : Name) : Cls :=
  match (recoverWalk H d n).2 with
  | .nothing => .partial_
  | .validate c => .revalidate c
  | .finalize c => .held c

theorem crashClass_partial (H : Body → String) (d : Disk) (n : Name) :
    crashClass H d n = .partial_ ↔ (recoverWalk H d n).2 = .nothing := by
  unfold crashClass
  cases (recoverWalk H d n).2 <;> simp

theorem crashClass_revalidate (H : Body → String) (d : Disk) (n : Name) (c : Cmp) :
    crashClass H d n = .revalidate c ↔ (recoverWalk H d n).2 = .validate c := by
  unfold crashClass
  cases (recoverWalk H d n).2 <;> simp

theorem crashClass_held (H : Body → String) (d : Disk) (n : Name) (c : Cmp) :
    crashClass H d n = .held c ↔ (recoverWalk H d n).2 = .finalize c := by
  unfold crashClass
  cases (recoverWalk H d n).2 <;> simp

/-- **the decision table**: each class is equivalent to a condition on the four staged files of
    `n`; the three conditions are exhaustive and exclude each other (`crashClass` is a
    function). -/
theorem crashClass_table (H : Body → String) (d : Disk) (n : Name) :
    (∀ c, crashClass H d n = .held c ↔
      d.cmp n = some c ∧ ∃ i, d.wait n = some i ∧ H (d.body i) = c.hash) ∧
    (∀ c, crashClass H d n = .revalidate c ↔
      d.cmp n = some c ∧ (¬ ∃ i, d.wait n = some i ∧ H (d.body i) = c.hash) ∧
      (d.full n ≠ none ∨ (d.part n ≠ none ∧ isComplete c.parts c.size = true))) ∧
    (crashClass H d n = .partial_ ↔
      d.cmp n = none ∨ ∃ c, d.cmp n = some c ∧ (¬ ∃ i, d.wait n = some i ∧ H (d.body i) = c.hash) ∧
        d.full n = none ∧ (d.part n = none ∨ isComplete c.parts c.size = false)) := by
  refine ⟨fun c => (crashClass_held H d n c).trans (recover_finalize_iff H d n c),
    fun c => (crashClass_revalidate H d n c).trans (recover_validate_iff H d n c), ?_⟩
  rw [crashClass_partial]
  constructor
  · intro h
    rcases recover_nothing_cases H d n h with h | ⟨c, hc, hw, hf, hp, hcomp, _⟩ | ⟨c, hc, hw, hf, hp, _⟩
    · exact Or.inl h.1
    · refine Or.inr ⟨c, hc, ?_, hf, Or.inr hcomp⟩
      intro hx; rw [(waitMatches_iff H d n c).mpr hx] at hw; cases hw
    · refine Or.inr ⟨c, hc, ?_, hf, Or.inl hp⟩
      intro hx; rw [(waitMatches_iff H d n c).mpr hx] at hw; cases hw
  · rintro (h | ⟨c, hc, hw, hf, hpc⟩)
    · rw [recoverWalk_none H d n h]
    · have hw' : waitMatches H d n c = false := by
        cases hx : waitMatches H d n c with
        | true => exact absurd ((waitMatches_iff H d n c).mp hx) hw
        | false => rfl
      obtain ⟨_, _, _, d4, e⟩ := (recover_walk_cases H d n).2 c hc
      by_cases hp : d.part n = none
      · rw [e hw' hf hp]
      · rcases hpc with hpc | hpc
        · exact absurd hpc hp
        · rw [d4 hw' hf hp hpc]

/-- **the class is determined by the disk at the crash point**, more precisely by the four
    staged files of `n` and the bodies: two disks that agree on them give the same class. -/
theorem class_determined_by_disk (H : Body → String) (d d' : Disk) (n : Name) (h : FilesEq n d d') :
    crashClass H d' n = crashClass H d n := by
  unfold crashClass recoverWalk
  rw [h.cmp, h.wait, h.full, h.part, h.body]

/-- memory plays no role: the class after a crash is the class of the disk (`crash` keeps it) -/
theorem class_of_crash (H : Body → String) (s : State) (n : Name) :
    crashClass H (step H s .crash).disk n = crashClass H s.disk n := rfl

/-! ## the three conditions after recovery -/

/-- (A) as stated in the property: nothing but a log record cached, nothing queued; no `.full`,
    no `.wait`; a companion that remains describes an incomplete `.part` and every range it
    records was written into that `.part` (or its version is already logged: the conclusion of
    `record_sound`). -/
def ClassAFull (t : State) (n : Name) : Prop :=
  Unlisted t n ∧ t.disk.full n = none ∧ t.disk.wait n = none ∧
  ∀ c, t.disk.cmp n = some c → ∃ i, t.disk.part n = some i ∧ isComplete c.parts c.size = false ∧
    ((∀ r ∈ c.parts, r ∈ t.disk.written i) ∨ LoggedV t.disk n c.hash)

/-- (A) as it holds for every crash image: a `.full` that remains has no companion, a `.wait`
    that remains does not hash to the companion's hash (both are files Recover does not look
    at), a companion that remains has its `.part` and is incomplete. -/
def ClassA (H : Body → String) (t : State) (n : Name) : Prop :=
  Unlisted t n ∧ (t.disk.full n ≠ none → t.disk.cmp n = none) ∧
  (∀ i c, t.disk.wait n = some i → t.disk.cmp n = some c → H (t.disk.body i) ≠ c.hash) ∧
  ∀ c, t.disk.cmp n = some c → (∃ i, t.disk.part n = some i) ∧ isComplete c.parts c.size = false

/-- (B): a complete file is staged (`<n>.full`, else the complete `<n>.part`, inode `i` at the
    crash point). After `fix:` "Ignoring duplicate (recover)": if the cache entry Recover's own
    cache build loaded from the receive log is logged with the companion's hash (`Remembered`),
    the staged copy is a duplicate of a delivered version and is dropped — `<n>.full` and the
    companion are removed, nothing is queued, the version is in the log. Otherwise the file is
    hashed again. Equal to the companion's hash: `n` is held, the file is `<n>.wait`.
    Different: `n` is refused (cache state failed ⇒ status answer "failed" ⇒ the sender sends
    it again), the file stays `<n>.full`. -/
def ClassB (H : Body → String) (s t : State) (now : Int) (names : List Name) (n : Name) (c : Cmp) :
    Prop :=
  ∃ i, revalIno s.disk n = some i ∧
    ((Remembered H s now names n c ∧ Unlisted t n ∧ t.disk.full n = none ∧ t.disk.cmp n = none ∧
       LoggedV s.disk n c.hash) ∨
     (¬ Remembered H s now names n c ∧ H (s.disk.body i) = c.hash ∧ OutHeld H t n c ∧
       t.disk.wait n = some i ∧ t.disk.full n = none) ∨
     (¬ Remembered H s now names n c ∧ H (s.disk.body i) ≠ c.hash ∧ Refused H t n c ∧
       t.disk.full n = some i ∧ t.disk.wait n = s.disk.wait n))

/-- the trichotomy at full strength -/
def C06Trichotomy : Prop :=
  ∀ (H : Body → String) (s : State), Reachable H s → ∀ (now : Int) (names : List Name) (n : Name),
    n ∈ names → names.Nodup →
    match crashClass H s.disk n with
    | .partial_ => ClassAFull (recovered H s now names) n
    | .revalidate c => ClassB H s (recovered H s now names) now names n c
    | .held c => OutHeld H (recovered H s now names) n c

/-- `n` is in condition (C) for the version with hash `h`: held, or in the receive log -/
def InC (H : Body → String) (t : State) (n : Name) (h : String) : Prop :=
  (∃ c, c.hash = h ∧ OutHeld H t n c) ∨ LoggedV t.disk n h

/-- (N1) nothing reported as validated is lost -/
def C06N1 : Prop :=
  ∀ (H : Body → String) (s : State), Reachable H s → ∀ (now : Int) (names : List Name) (n : Name),
    n ∈ names → names.Nodup → ∀ e, s.mem.cache n = some e → statusAnswer s n ≥ 2 →
    InC H (recovered H s now names) n e.hash

/-- (N2) nothing unvalidated is delivered: in every reachable state (= at every cut) every file
    in the final directory has a log record of its target with the hash of its bytes -/
def C06N2 : Prop :=
  ∀ (H : Body → String) (s : State), Reachable H s → ∀ t i, s.disk.final t = some i →
    ∃ r ∈ s.disk.log, targetOf r.name r.renamed = t ∧ H (s.disk.body i) = r.hash

/-- the reference time of a status request reaches back to the record `r` -/
def Reaches (s : State) (now frm : Int) (names : List Name) (r : LogRec) : Prop :=
  (dayOf r.time ∈ visitedDays (minMtime s.disk now names - 86400) now ∧ r.time ≤ now) ∨
  (frm < minMtime s.disk now names - 86400 ∧
    dayOf r.time ∈ visitedDays frm (minMtime s.disk now names - 86400) ∧
    r.time ≤ minMtime s.disk now names - 86400)

/-- (N3) a version already logged is queued by Recover only if a `.wait` with its hash is still
    there (the crash between log and move); and a logged name in class (A) answers "passed"
    when the request reaches back to the record -/
def C06N3 : Prop :=
  ∀ (H : Body → String) (s : State), Reachable H s → ∀ (now : Int) (names : List Name) (n : Name),
    n ∈ names → names.Nodup → ∀ r ∈ s.disk.log, r.name = n →
    (∀ q, (n, q) ∈ (recovered H s now names).mem.fq → q.hash = r.hash →
      ∃ i, s.disk.wait n = some i ∧ H (s.disk.body i) = r.hash) ∧
    (crashClass H s.disk n = .partial_ → ∀ now2 frm, Reaches s now frm names r →
      statusAnswer (step H (recovered H s now names) (.op (.buildCache frm now2))) n = 2)

/-- **the property as given** -/
def C06Classification : Prop := C06Trichotomy ∧ C06N1 ∧ C06N2 ∧ C06N3

/-! ## what holds for every state -/

/-- **the trichotomy** (for EVERY state `s`, reachable or not; every walk list without
    duplicates): the class at the crash point decides the condition after recovery. -/
theorem C06_trichotomy (H : Body → String) (s : State) (now : Int) (names : List Name) (n : Name)
    (hn : n ∈ names) (hnd : names.Nodup) :
    match crashClass H s.disk n with
    | .partial_ => ClassA H (recovered H s now names) n
    | .revalidate c => ClassB H s (recovered H s now names) now names n c
    | .held c => OutHeld H (recovered H s now names) n c := by
  rw [recovered_eq]
  cases hcls : crashClass H s.disk n with
  | partial_ =>
    simp only
    have hw := (crashClass_partial H s.disk n).mp hcls
    obtain ⟨hun, hp, hf, hwt, hb, hcmp⟩ := recover_nothing_outcome H s now names n hn hnd hw
    refine ⟨hun, ?_, ?_, ?_⟩
    · intro hfull
      rw [hf] at hfull
      rcases recover_nothing_cases H s.disk n hw with h | ⟨c, _, _, hf0, _⟩ | ⟨c, _, _, hf0, _⟩
      · rcases hcmp with ⟨_, h2⟩ | ⟨_, h2⟩
        · rw [h2]; exact h.1
        · exact h2
      · exact absurd hf0 hfull
      · exact absurd hf0 hfull
    · intro i c hwi hc
      rw [hwt] at hwi
      rw [hb]
      rcases hcmp with ⟨_, h2⟩ | ⟨_, h2⟩
      · rw [h2] at hc
        rcases recover_nothing_cases H s.disk n hw with h | ⟨c', hc', hwm, _⟩ | ⟨c', hc', hwm, _⟩
        · rw [h.1] at hc; cases hc
        · rw [hc] at hc'; cases hc'
          intro hx
          rw [(waitMatches_iff H s.disk n c).mpr ⟨i, hwi, hx⟩] at hwm; cases hwm
        · rw [hc] at hc'; cases hc'
          intro hx
          rw [(waitMatches_iff H s.disk n c).mpr ⟨i, hwi, hx⟩] at hwm; cases hwm
      · rw [h2] at hc; cases hc
    · intro c hc
      rcases hcmp with ⟨h1, h2⟩ | ⟨_, h2⟩
      · rw [h2] at hc
        rcases recover_nothing_cases H s.disk n hw with h | ⟨c', hc', _, _, hp0, hcomp, _⟩ | ⟨c', hc', _, _, _, h3⟩
        · rw [h.1] at hc; cases hc
        · rw [hc] at hc'; cases hc'
          refine ⟨?_, hcomp⟩
          rw [hp]
          cases hpi : s.disk.part n with
          | none => exact absurd hpi hp0
          | some i => exact ⟨i, rfl⟩
        · rw [h3] at h1; cases h1
      · rw [h2] at hc; cases hc
  | revalidate c =>
    simp only
    have hw := (crashClass_revalidate H s.disk n c).mp hcls
    obtain ⟨i, hi, hdrop, hpass, hfail, _⟩ := recover_validate_outcome H s now names n c hn hnd hw
    refine ⟨i, hi, ?_⟩
    by_cases hrem : Remembered H s now names n c
    · obtain ⟨hun, hf, hc, _⟩ := hdrop hrem
      exact Or.inl ⟨hrem, hun, hf, hc, hrem.logged⟩
    · by_cases hh : H (s.disk.body i) = c.hash
      · exact Or.inr (Or.inl ⟨hrem, hh, hpass hrem hh⟩)
      · exact Or.inr (Or.inr ⟨hrem, hh, hfail hrem hh⟩)
  | held c =>
    simp only
    exact (recover_finalize_outcome H s now names n c hn hnd ((crashClass_held H s.disk n c).mp hcls)).1

/-- **exactly one outcome.** After recovery exactly one of `Unlisted`, `Refused`, `OutHeld` holds
    for every walked name (read off the cache entry: none or logged / failed / validated). -/
theorem post_exactly_one (H : Body → String) (s : State) (now : Int) (names : List Name) (n : Name)
    (hn : n ∈ names) (hnd : names.Nodup) :
    (Unlisted (recovered H s now names) n ∧ (¬ ∃ c, Refused H (recovered H s now names) n c) ∧
      ¬ ∃ c, OutHeld H (recovered H s now names) n c) ∨
    ((∃ c, Refused H (recovered H s now names) n c) ∧ ¬ Unlisted (recovered H s now names) n ∧
      ¬ ∃ c, OutHeld H (recovered H s now names) n c) ∨
    ((∃ c, OutHeld H (recovered H s now names) n c) ∧ ¬ Unlisted (recovered H s now names) n ∧
      ¬ ∃ c, Refused H (recovered H s now names) n c) := by
  have htri := C06_trichotomy H s now names n hn hnd
  have hex := fun c c' => outcomes_exclusive H (recovered H s now names) n c c'
  have hU : Unlisted (recovered H s now names) n → (¬ ∃ c, Refused H (recovered H s now names) n c) ∧
      ¬ ∃ c, OutHeld H (recovered H s now names) n c :=
    fun hu => ⟨fun ⟨c, hc⟩ => (hex c c).1 ⟨hu, hc⟩, fun ⟨c, hc⟩ => (hex c c).2.1 ⟨hu, hc⟩⟩
  have hR : ∀ c, Refused H (recovered H s now names) n c → ¬ Unlisted (recovered H s now names) n ∧
      ¬ ∃ c, OutHeld H (recovered H s now names) n c :=
    fun c hc => ⟨fun hu => (hex c c).1 ⟨hu, hc⟩, fun ⟨c', hc'⟩ => (hex c c').2.2 ⟨hc, hc'⟩⟩
  have hO : ∀ c, OutHeld H (recovered H s now names) n c → ¬ Unlisted (recovered H s now names) n ∧
      ¬ ∃ c, Refused H (recovered H s now names) n c :=
    fun c hc => ⟨fun hu => (hex c c).2.1 ⟨hu, hc⟩, fun ⟨c', hc'⟩ => (hex c' c).2.2 ⟨hc', hc⟩⟩
  cases hcls : crashClass H s.disk n with
  | partial_ =>
    simp only [hcls] at htri
    exact Or.inl ⟨htri.1, hU htri.1⟩
  | revalidate c =>
    simp only [hcls] at htri
    obtain ⟨i, _, ⟨_, hun, _⟩ | ⟨_, _, hheld, _⟩ | ⟨_, _, href, _⟩⟩ := htri
    · exact Or.inl ⟨hun, hU hun⟩
    · exact Or.inr (Or.inr ⟨⟨c, hheld⟩, hO c hheld⟩)
    · exact Or.inr (Or.inl ⟨⟨c, href⟩, hR c href⟩)
  | held c =>
    simp only [hcls] at htri
    exact Or.inr (Or.inr ⟨⟨c, htri⟩, hO c htri⟩)

/-! ## (A) as stated: accuracy of the record, no stranded files -/

/-- every `<n>.full` has a companion and every `<n>.wait` has the companion of its hash (the
    companion hypothesis of Props/C02Stage `validated_survives_crash`, on the disk) -/
def Accompanied (H : Body → String) (d : Disk) (n : Name) : Prop :=
  (d.full n ≠ none → d.cmp n ≠ none) ∧
  (∀ i, d.wait n = some i → ∃ c, d.cmp n = some c ∧ H (d.body i) = c.hash)

/-- **(A) as stated, partial**: hypotheses `RecReachableOk` (the run hypotheses of `record_sound`:
    PrepareOk, RecordOk, FinhOk, CleanOk) and `Accompanied` at the crash point. Witnesses that
    `Accompanied` is needed: `classA_stale_full`, `classA_stranded_wait`; that the run
    hypotheses are: Props/C09Stage `natural_fails_*`, `record_sound_needs_finhOk`. -/
theorem classA_full_partial {H : Body → String} {s : State} (hr : RecReachableOk H s) (now : Int)
    (names : List Name) (n : Name) (hn : n ∈ names) (hnd : names.Nodup)
    (hcls : crashClass H s.disk n = .partial_) (hacc : Accompanied H s.disk n) :
    ClassAFull (recovered H s now names) n := by
  have htri := C06_trichotomy H s now names n hn hnd
  simp only [hcls] at htri
  obtain ⟨hun, _, _, hcmp⟩ := htri
  have hw := (crashClass_partial H s.disk n).mp hcls
  obtain ⟨_, _, hf, hwt, _, _⟩ := recover_nothing_outcome H s now names n hn hnd hw
  have htab := (crashClass_table H s.disk n).2.2.mp hcls
  have hrt : RecReachableOk H (recovered H s now names) :=
    (hr.step .crash trivial).step (.op (.recover now names)) trivial
  refine ⟨hun, ?_, ?_, ?_⟩
  · rw [recovered_eq, hf]
    cases hfull : s.disk.full n with
    | none => rfl
    | some i =>
      exfalso
      have hc := hacc.1 (by simp [hfull])
      rcases htab with h | ⟨c, _, _, hf0, _⟩
      · exact hc h
      · rw [hf0] at hfull; cases hfull
  · rw [recovered_eq, hwt]
    cases hwait : s.disk.wait n with
    | none => rfl
    | some i =>
      exfalso
      obtain ⟨c, hc, hh⟩ := hacc.2 i hwait
      rcases htab with h | ⟨c', hc', hno, _⟩
      · rw [h] at hc; cases hc
      · rw [hc] at hc'; cases hc'
        exact hno ⟨i, hwait, hh⟩
  · intro c hc
    obtain ⟨⟨i, hi⟩, hcomp⟩ := hcmp c hc
    refine ⟨i, hi, hcomp, ?_⟩
    rcases record_sound hrt n c hc with ⟨j, hj, hparts⟩ | hl
    · left
      have : j = i := by
        simp only [Cur, hi, Option.some.injEq] at hj
        exact hj.symm
      subst this
      exact hparts
    · exact Or.inr hl

/-! ## (C): held, then delivered -/

/-- a held name answers "passed" (2) or "waiting" (3) -/
theorem held_status (H : Body → String) (t : State) (n : Name) (c : Cmp) (h : OutHeld H t n c) :
    statusAnswer t n ≥ 2 := by
  obtain ⟨⟨e, he, hst, _⟩, _⟩ := h
  have : stateOf t.mem n = some .validated := by simp [stateOf, he, hst]
  rw [waiting_is_reported t n this]
  split <;> decide

/-- **the finalize handler on a held name** (`.op (.finh n now)` in any state `t` in which `n` is
    held and queued): either `n` is delivered — the receive log gets a record of `n` with the
    companion's hash and rename target, the inode that was `<n>.wait` is in the final directory
    under the proper name and its bytes hash to the logged hash, `<n>.wait` and the companion
    are gone, status "passed" — or it is parked behind its predecessor: still held, nothing
    durable changed, status "waiting". -/
theorem held_delivers (H : Body → String) (t : State) (n : Name) (c : Cmp) (now : Int)
    (hh : OutHeld H t n c) (hq : ∃ q, (n, q) ∈ t.mem.fq) :
    Delivered H t (step H t (.op (.finh n now))) n c ∨
    (OutHeld H (step H t (.op (.finh n now))) n c ∧
      isWaitingName (step H t (.op (.finh n now))).mem n = true ∧
      (step H t (.op (.finh n now))).disk = t.disk ∧
      statusAnswer (step H t (.op (.finh n now))) n = 3) :=
  held_finh H t n c now hh hq

/-- right after recovery a held name is in the finalize queue (nothing is parked yet) -/
theorem recovered_held_queued (H : Body → String) (s : State) (now : Int) (names : List Name)
    (n : Name) (c : Cmp) (h : OutHeld H (recovered H s now names) n c) :
    ∃ q, (n, q) ∈ (recovered H s now names).mem.fq := by
  rcases h.2.2.2.1 with hq | hw
  · exact hq
  · have : (recovered H s now names).mem.wait = [] := by
      rw [recovered_eq, recover_waitL]; rfl
    simp [isWaitingName, this] at hw

/-- class (C) end to end: a name whose `.wait` matches its companion at the crash point is held
    after recovery, and the first run of the finalize handler for it delivers it under its
    proper name with the logged hash, or parks it (status "waiting"). -/
theorem classC_delivered_or_parked (H : Body → String) (s : State) (now now2 : Int)
    (names : List Name) (n : Name) (c : Cmp) (hn : n ∈ names) (hnd : names.Nodup)
    (hcls : crashClass H s.disk n = .held c) :
    OutHeld H (recovered H s now names) n c ∧
    (Delivered H (recovered H s now names) (step H (recovered H s now names) (.op (.finh n now2))) n c ∨
     (OutHeld H (step H (recovered H s now names) (.op (.finh n now2))) n c ∧
      statusAnswer (step H (recovered H s now names) (.op (.finh n now2))) n = 3)) := by
  have htri := C06_trichotomy H s now names n hn hnd
  simp only [hcls] at htri
  refine ⟨htri, ?_⟩
  rcases held_delivers H _ n c now2 htri (recovered_held_queued H s now names n c htri) with h | h
  · exact Or.inl h
  · exact Or.inr ⟨h.1, h.2.2.2⟩

/-! ## (N1) nothing reported as validated is lost -/

/-- **(N1), partial**: hypotheses `ReachableOk` (no stale writer / corruption of a validated
    file: C01's hypotheses, used for "the `.wait` file still has the cached hash") and the
    companion clause of Props/C02Stage (a validated entry's companion records the cached hash;
    witness that it is needed: `C06N1_false` = `superseded_wait_ignored_by_recover`). -/
theorem C06_N1_partial {H : Body → String} {s : State} (hr : ReachableOk H s) (now : Int)
    (names : List Name) (n : Name) (hn : n ∈ names) (hnd : names.Nodup) (e : Entry)
    (hce : s.mem.cache n = some e) (hans : statusAnswer s n ≥ 2)
    (hcomp : e.state = .validated → ∃ c, s.disk.cmp n = some c ∧ c.hash = e.hash) :
    InC H (recovered H s now names) n e.hash := by
  rcases positive_only_if_durably_validated hr n e hce hans with ⟨hst, i, hw, hh⟩ | ⟨r, hr', hrn, hrh⟩
  · obtain ⟨c, hc, hch⟩ := hcomp hst
    have hcls : crashClass H s.disk n = .held c :=
      ((crashClass_table H s.disk n).1 c).mpr ⟨hc, i, hw, by rw [hh, hch]⟩
    have htri := C06_trichotomy H s now names n hn hnd
    simp only [hcls] at htri
    exact Or.inl ⟨c, hch, htri⟩
  · right
    refine ⟨r, ?_, hrn, hrh⟩
    rw [recovered_eq, (recover_keeps H (crash s) now names).2.1]
    exact hr'

/-- … and the answer stays positive: a validated file that was answered "passed"/"waiting" before
    the crash is answered "passed" right after recovery (it is held and queued, not yet parked) -/
theorem C06_N1_status {H : Body → String} {s : State} (hr : ReachableOk H s) (now : Int)
    (names : List Name) (n : Name) (hn : n ∈ names) (hnd : names.Nodup) (e : Entry)
    (hce : s.mem.cache n = some e) (hst : e.state = .validated) (c : Cmp)
    (hc : s.disk.cmp n = some c) (hch : c.hash = e.hash) :
    OutHeld H (recovered H s now names) n c ∧ statusAnswer (recovered H s now names) n ≥ 2 := by
  obtain ⟨i, hi⟩ := validated_has_wait hr.reachable n e hce hst
  have hcls : crashClass H s.disk n = .held c :=
    ((crashClass_table H s.disk n).1 c).mpr ⟨hc, i, hi, by rw [wait_inv hr n i e hi hce hst, hch]⟩
  have htri := C06_trichotomy H s now names n hn hnd
  simp only [hcls] at htri
  exact ⟨htri, held_status H _ n c htri⟩

theorem C06N1_false : ¬ C06N1 := by
  intro h
  obtain ⟨h1, _, _, h4, _, _, _, _⟩ := superseded_wait_ignored_by_recover
  have := h Hs (runEvs Hs init c02SupersedeRun) ⟨c02SupersedeRun, rfl⟩ 5 ["a"] "a" (by simp) (by simp)
    { renamed := "", prev := "", hash := "[1, 2]", size := 2, state := .validated, seq := 1 }
    (by decide) (by rw [h1]; decide)
  rcases this with ⟨c, _, ⟨e, he, _⟩, _⟩ | ⟨r, hr, _⟩
  · have h4' : (recovered Hs (runEvs Hs init c02SupersedeRun) 5 ["a"]).mem.cache "a" = none := h4
    rw [h4'] at he; cases he
  · have hlog : (recovered Hs (runEvs Hs init c02SupersedeRun) 5 ["a"]).disk.log = [] := by decide
    rw [hlog] at hr; cases hr

/-! ## (N2) nothing unvalidated is delivered -/

/-- **(N2), partial** = C01's invariant (`C01_integrity_partial`), which is stated over the
    crash-closed step relation: in every state reachable by allowed events (every cut of every
    operation, every crash) every final file has a log record of its target with the hash of
    its bytes. Hypotheses `ReachableOk`: NoStaleWrite, corruption only of `.part`/`.full`. -/
theorem C06_N2_partial {H : Body → String} {s : State} (hr : ReachableOk H s) :
    ∀ t i, s.disk.final t = some i →
      ∃ r ∈ s.disk.log, targetOf r.name r.renamed = t ∧ H (s.disk.body i) = r.hash :=
  C01_integrity_partial hr

/-- … in particular after restart and recovery, and after the finalize handler ran -/
theorem C06_N2_after_recovery {H : Body → String} {s : State} (hr : ReachableOk H s) (now : Int)
    (names : List Name) (evs : List Ev) (hevs : OkRun H (recovered H s now names) evs) :
    ∀ t i, (runEvs H (recovered H s now names) evs).disk.final t = some i →
      ∃ r ∈ (runEvs H (recovered H s now names) evs).disk.log,
        targetOf r.name r.renamed = t ∧ H ((runEvs H (recovered H s now names) evs).disk.body i) = r.hash := by
  have h1 : Integ H (recovered H s now names) :=
    Integ_event H _ _ (Integ_event H s .crash (Integ_reachableOk hr) trivial) trivial
  exact (Integ_okRun H evs _ h1 hevs).jf

theorem C06N2_false : ¬ C06N2 := C01_integrity_full_false

/-! ## (N3) a logged version is not delivered again -/

/-- **the repair: a staged duplicate of a remembered, logged version is not delivered again.**
    For EVERY state `s`: if the crash image holds a complete reception of `n` with companion `c`
    (class (B)) and the cache entry that Recover's own cache build loads from the receive log is
    logged with the companion's hash (`Remembered`; a disk-level sufficient condition is
    `remembered_of_window`), then after recovery nothing is queued or parked for `n`, the staged
    copy and its companion are gone, the status answer is "passed", and Recover has not touched
    the log or the final directory: there is nothing the finalize handler could deliver. -/
theorem recover_skips_logged_duplicate (H : Body → String) (s : State) (now : Int)
    (names : List Name) (n : Name) (c : Cmp) (hn : n ∈ names) (hnd : names.Nodup)
    (hcls : crashClass H s.disk n = .revalidate c) (hrem : Remembered H s now names n c) :
    LoggedV s.disk n c.hash ∧
    Unlisted (recovered H s now names) n ∧
    (∀ q, (n, q) ∉ (recovered H s now names).mem.fq) ∧
    (recovered H s now names).disk.full n = none ∧ (recovered H s now names).disk.cmp n = none ∧
    (recovered H s now names).disk.wait n = s.disk.wait n ∧
    statusAnswer (recovered H s now names) n = 2 ∧
    (recovered H s now names).disk.log = s.disk.log ∧
    (recovered H s now names).disk.final = s.disk.final := by
  have hw := (crashClass_revalidate H s.disk n c).mp hcls
  obtain ⟨i, _, hdrop, _, _, _⟩ := recover_validate_outcome H s now names n c hn hnd hw
  obtain ⟨hun, hf, hc, hwt, e, he, hst, _⟩ := hdrop hrem
  obtain ⟨_, hlog, hfin, _⟩ := recover_keeps H (crash s) now names
  refine ⟨hrem.logged, hun, hun.2.1, hf, hc, hwt, ?_, hlog, hfin⟩
  rw [recovered_eq]
  simp [statusAnswer, stateOf, he, hst]

/-- the same with the disk-level condition: the receive log has a record of `n` in the day files
    Recover's cache build reads (from the oldest companion's mtime − 1 day to now) and every
    record of `n` there carries the companion's hash. -/
theorem recover_skips_logged_duplicate_window (H : Body → String) (s : State) (now : Int)
    (names : List Name) (n : Name) (c : Cmp) (hn : n ∈ names) (hnd : names.Nodup)
    (hcls : crashClass H s.disk n = .revalidate c)
    (hex : ∃ r ∈ buildRecs s (minMtime s.disk now names - 86400) now, r.name = n)
    (hone : ∀ r ∈ buildRecs s (minMtime s.disk now names - 86400) now, r.name = n → r.hash = c.hash) :
    Unlisted (recovered H s now names) n ∧ (recovered H s now names).disk.full n = none ∧
    (recovered H s now names).disk.cmp n = none ∧ statusAnswer (recovered H s now names) n = 2 := by
  obtain ⟨_, h1, _, h2, h3, _, h4, _⟩ := recover_skips_logged_duplicate H s now names n c hn hnd hcls
    (remembered_of_window H s now names n c hex hone)
  exact ⟨h1, h2, h3, h4⟩

/-- … and with the sharpest disk-level condition (after `fix:` "buildCache kept the oldest of
    several records of a name"): the LAST record of `n` in the day files Recover's cache build
    reads carries the companion's hash — earlier versions of the name may be in the log. -/
theorem recover_skips_logged_duplicate_last (H : Body → String) (s : State) (now : Int)
    (names : List Name) (n : Name) (c : Cmp) (hn : n ∈ names) (hnd : names.Nodup)
    (hcls : crashClass H s.disk n = .revalidate c) (pre post : List LogRec) (r : LogRec)
    (hsplit : buildRecs s (minMtime s.disk now names - 86400) now = pre ++ r :: post)
    (hrn : r.name = n) (hpost : ∀ r' ∈ post, r'.name ≠ n) (hh : r.hash = c.hash) :
    Unlisted (recovered H s now names) n ∧ (recovered H s now names).disk.full n = none ∧
    (recovered H s now names).disk.cmp n = none ∧ statusAnswer (recovered H s now names) n = 2 := by
  obtain ⟨_, h1, _, h2, h3, _, h4, _⟩ := recover_skips_logged_duplicate H s now names n c hn hnd hcls
    (remembered_of_last H s now names n c pre post r hsplit hrn hpost hh)
  exact ⟨h1, h2, h3, h4⟩

/-- **(N3), partial — after the repair.** What remains as a hypothesis is `hrem`: IF the crash
    image holds a complete reception (class (B), companion `c`) of the very version that is
    logged (`c.hash = r.hash`), THEN Recover's cache build remembers it (`Remembered`: the cache
    entry loaded from the receive log carries that hash — true when a record of `n` lies in the
    day files from the oldest companion's mtime − 1 day to now and the LAST record of `n` there
    has that hash, `remembered_of_last`). This is C05's `Remembered` (cache ageing): a version
    whose record is older than the cache reaches is taken again by Receive as well. Without
    `hrem` the statement is still false: `logged_delivered_again_unremembered`. Before the repair
    it was false also for remembered versions: `logged_delivered_again_orig`. No hypothesis on
    `s` (it need not be reachable). -/
theorem C06_N3_partial (H : Body → String) (s : State) (now : Int) (names : List Name) (n : Name)
    (hn : n ∈ names) (hnd : names.Nodup) (r : LogRec) (hr : r ∈ s.disk.log) (hrn : r.name = n)
    (hrem : ∀ c, crashClass H s.disk n = .revalidate c → c.hash = r.hash →
      Remembered H s now names n c) :
    (∀ q, (n, q) ∈ (recovered H s now names).mem.fq → q.hash = r.hash →
      ∃ i, s.disk.wait n = some i ∧ H (s.disk.body i) = r.hash) ∧
    (crashClass H s.disk n = .partial_ → ∀ now2 frm, Reaches s now frm names r →
      statusAnswer (step H (recovered H s now names) (.op (.buildCache frm now2))) n = 2) := by
  have htri := C06_trichotomy H s now names n hn hnd
  constructor
  · intro q hq hqh
    cases hcls : crashClass H s.disk n with
    | partial_ =>
      simp only [hcls] at htri
      exact absurd hq (htri.1.2.1 q)
    | revalidate c =>
      simp only [hcls] at htri
      obtain ⟨i, _, ⟨_, hun, _⟩ | ⟨hnr, _, hheld, _⟩ | ⟨_, _, href, _⟩⟩ := htri
      · exact absurd hq (hun.2.1 q)
      · exact absurd (hrem c hcls ((hheld.2.2.2.2 q hq).1.symm.trans hqh)) hnr
      · exact absurd hq (href.2.2.2.1 q)
    | held c =>
      simp only [hcls] at htri
      obtain ⟨_, i, hw, hh⟩ := ((crashClass_table H s.disk n).1 c).mp hcls
      exact ⟨i, hw, by rw [hh, ← hqh, (htri.2.2.2.2 q hq).1]⟩
  · intro hcls now2 frm hreach
    exact logged_answers_after_restart_gen H s now now2 frm names n r hr hrn
      ((crashClass_partial H s.disk n).mp hcls) hreach

/-! ## witnesses: the clauses that are false of the model -/

def c6Bad : Meta := ⟨"", "", 2, "bad"⟩
def c6H : Meta := ⟨"", "", 2, "h"⟩
def c6H4 : Meta := ⟨"", "", 4, "h"⟩

/-- "k" is received completely with a wrong announced hash; validation fails (`k.full` and the
    companion stay, state failed); the sender starts again and the receiver dies inside Prepare
    right after the companion was removed (its first durable step). -/
def staleFullRun : List Ev :=
  [.op (.prepare "k" 2 0), .op (.recvOpen 1 "k"), .op (.recvWrite 1 0 [1, 2] 0),
   .op (.record "k" c6Bad 0 2 0), .op (.process "k" 1), .cutOp 1 (.prepare "k" 2 2)]

/-- **witness, (A) "no `.full`"**: a reachable crash image of class (A) with a `<k>.full` that has
    no companion; Recover leaves it there (nothing cached, nothing queued). Replay on the real
    receiver (component `stage`): the ops of `staleFullRun`, `recover`, `observe`. Harmless: the
    next complete reception renames its `.part` over it. -/
theorem classA_stale_full :
    let s := runEvs witH6 init staleFullRun
    crashClass witH6 s.disk "k" = .partial_ ∧ s.disk.full "k" = some 0 ∧ s.disk.cmp "k" = none ∧
    (recovered witH6 s 9 ["k"]).disk.full "k" = some 0 ∧
    (recovered witH6 s 9 ["k"]).mem.cache "k" = none ∧ (recovered witH6 s 9 ["k"]).mem.fq = [] ∧
    ¬ Accompanied witH6 s.disk "k" := by
  refine ⟨by decide, by decide, by decide, by decide, by decide, by decide, ?_⟩
  intro h
  exact h.1 (by decide) (by decide)

/-- **witness, (A) "no `.wait`"** (the run of `superseded_wait_ignored_by_recover`): class (A), the
    validated `a.wait` stays behind, unknown to the restarted receiver. -/
theorem classA_stranded_wait :
    let s := runEvs Hs init c02SupersedeRun
    crashClass Hs s.disk "a" = .partial_ ∧ (recovered Hs s 5 ["a"]).disk.wait "a" = some 0 ∧
    (recovered Hs s 5 ["a"]).mem.cache "a" = none ∧ ¬ Accompanied Hs s.disk "a" := by
  refine ⟨by decide, by decide, by decide, ?_⟩
  intro h
  obtain ⟨c, hc, hh⟩ := h.2 0 (by decide)
  have hc' : (runEvs Hs init c02SupersedeRun).disk.cmp "a" =
      some { renamed := "", prev := "", size := 2, hash := "[5, 6]", parts := [⟨0, 1⟩] } := by decide
  rw [hc'] at hc
  cases hc
  revert hh
  decide

theorem C06Trichotomy_false : ¬ C06Trichotomy := by
  intro h
  have h1 := h witH6 (runEvs witH6 init staleFullRun) ⟨staleFullRun, rfl⟩ 9 ["k"] "k" (by simp) (by simp)
  have hc : crashClass witH6 (runEvs witH6 init staleFullRun).disk "k" = .partial_ := by decide
  simp only [hc] at h1
  have h2 : (recovered witH6 (runEvs witH6 init staleFullRun) 9 ["k"]).disk.full "k" = some 0 := by decide
  rw [h1.2.1] at h2
  cases h2

/-- "a" is delivered and logged (`goodRun`); the sender, whose last acknowledgement was lost,
    sends the part again; the receiver dies inside Receive after the companion's rename (second
    durable step), before the duplicate branch removes `a.part`. -/
def againRun : List Ev := goodRun ++
  [.op (.prepare "a" 2 1), .op (.recvOpen 3 "a"), .op (.recvWrite 3 0 [1, 2] 1),
   .cutOp 2 (.record "a" metaA 0 2 1)]

/-- **witness of the defect (code as found, `recoverEffectsOrig`)**: a version that is logged
    and delivered was validated again by Recover (the validate loop ignored the cache entry that
    Recover's own cache build had loaded from the log), queued, and delivered and logged a
    second time by the finalize handler. Replay (component `stage`, corpus case of
    harness/stage_gen.go): prepare a 2 0 / recv a - - 2 b1.2 0 2 1.2 0 / settle 0 / consume a /
    prepare a 2 1 / `cut 3 recv a - - 2 b1.2 0 2 1.2 1` / recover 5 / settle 6 / observe:
    before the repair `final{a=1.2}` again and two log lines (oracle `delivered-twice`). -/
theorem logged_delivered_again_orig :
    let s := runEvs Hs init againRun
    let t := run (crash s) (recoverEffectsOrig Hs (crash s) 5 ["a"])
    s.disk.log = [⟨"a", "", "[1, 2]", 2, 0, ""⟩] ∧ s.disk.final "a" = some 0 ∧
    s.disk.wait "a" = none ∧
    crashClass Hs s.disk "a" = .revalidate ⟨"", "", 2, "[1, 2]", [⟨0, 2⟩]⟩ ∧
    statusAnswer t "a" = 2 ∧ t.mem.fq.map (fun x => (x.1, x.2.hash)) = [("a", "[1, 2]")] ∧
    (step Hs t (.op (.finh "a" 6))).disk.log.length = 2 ∧
    (step Hs t (.op (.finh "a" 6))).disk.final "a" = some 1 := by decide

/-- … and the same crash image after the repair: the version is remembered, the staged duplicate
    and its companion are removed, nothing is queued, the answer is "passed", one log line. -/
theorem logged_duplicate_dropped :
    let s := runEvs Hs init againRun
    let t := recovered Hs s 5 ["a"]
    crashClass Hs s.disk "a" = .revalidate ⟨"", "", 2, "[1, 2]", [⟨0, 2⟩]⟩ ∧
    Remembered Hs s 5 ["a"] "a" ⟨"", "", 2, "[1, 2]", [⟨0, 2⟩]⟩ ∧
    t.mem.fq = [] ∧ t.disk.full "a" = none ∧ t.disk.part "a" = none ∧ t.disk.cmp "a" = none ∧
    statusAnswer t "a" = 2 ∧ t.disk.log.length = 1 ∧ t.disk.final "a" = some 0 := by
  refine ⟨by decide, ?_, by decide, by decide, by decide, by decide, by decide, by decide, by decide⟩
  unfold Remembered
  decide

def c6MetaA2 : Meta := { renamed := "", prev := "", size := 2, hash := "[3, 4]" }

/-- version [1, 2] of "a" is delivered, then version [3, 4]; the last part of [3, 4] arrives again
    and the receiver dies after the companion's rename. -/
def againTwoRun : List Ev := goodRun ++
  [.op (.prepare "a" 2 1), .op (.recvOpen 3 "a"), .op (.recvWrite 3 0 [3, 4] 1),
   .op (.record "a" c6MetaA2 0 2 1), .op (.process "a" 1), .op (.finh "a" 1),
   .op (.prepare "a" 2 2), .op (.recvOpen 4 "a"), .op (.recvWrite 4 0 [3, 4] 2),
   .cutOp 2 (.record "a" c6MetaA2 0 2 2)]

/-- **witness of the second defect (buildCache as found, duplicate branch repaired:
    `recoverEffectsG true false`)**: buildCache kept the FIRST record of a name, so after the
    restart the cache said "a is logged with hash [1, 2]"; the staged duplicate of the LATEST
    delivered version [3, 4] was not recognised, validated again, and delivered and logged a
    second time. Found by the harness oracle `logged-twice` (quick tier, seed 2) on the real
    receiver after the first repair. With `fix:` "buildCache kept the oldest of several records
    of a name" the latest record wins and the duplicate is dropped (second half). Replay
    (component `stage`, in the corpus): prepare a 2 0 / recv a … b1.2 … / settle 0 / prepare a 2 0
    / recv a … b3.4 … / settle 0 / prepare a 2 0 / `cut 3 recv a - - 2 b3.4 0 2 3.4 0` /
    recover 0 / settle 0 / observe. -/
theorem logged_delivered_again_stale_cache_orig :
    let s := runEvs Hs init againTwoRun
    s.disk.log.map (·.hash) = ["[1, 2]", "[3, 4]"] ∧
    crashClass Hs s.disk "a" = .revalidate ⟨"", "", 2, "[3, 4]", [⟨0, 2⟩]⟩ ∧
    (let t := run (crash s) (recoverEffectsG true false Hs (crash s) 5 ["a"])
     (t.mem.cache "a").map (·.hash) = some "[3, 4]" ∧
     t.mem.fq.map (fun x => (x.1, x.2.hash)) = [("a", "[3, 4]")] ∧
     (step Hs t (.op (.finh "a" 6))).disk.log.length = 3) ∧
    (let t := recovered Hs s 5 ["a"]
     t.mem.fq = [] ∧ t.disk.part "a" = none ∧ t.disk.full "a" = none ∧ t.disk.cmp "a" = none ∧
     (t.mem.cache "a").map (fun e => (e.state, e.hash)) = some (.logged, "[3, 4]") ∧
     statusAnswer t "a" = 2 ∧ t.disk.log.length = 2) := by decide

/-- the same duplicate reception ten days after the delivery: the record of "a" is older than
    the days Recover's cache build reads (oldest companion − 1 day … now). -/
def againOldRun : List Ev := goodRun ++
  [.op (.prepare "a" 2 864000), .op (.recvOpen 3 "a"), .op (.recvWrite 3 0 [1, 2] 864000),
   .cutOp 2 (.record "a" metaA 0 2 864000)]

/-- **witness, (N3) after the repair**: the hypothesis `Remembered` is needed — a version whose
    log record is older than the cache reaches is validated, logged and delivered again (this is
    the receiver's cache ageing, C05 `Remembered`; `Receive` takes such a version again, too). -/
theorem logged_delivered_again_unremembered :
    let s := runEvs Hs init againOldRun
    let t := recovered Hs s 864001 ["a"]
    s.disk.log = [⟨"a", "", "[1, 2]", 2, 0, ""⟩] ∧ s.disk.wait "a" = none ∧
    crashClass Hs s.disk "a" = .revalidate ⟨"", "", 2, "[1, 2]", [⟨0, 2⟩]⟩ ∧
    ¬ Remembered Hs s 864001 ["a"] "a" ⟨"", "", 2, "[1, 2]", [⟨0, 2⟩]⟩ ∧
    t.mem.fq.map (fun x => (x.1, x.2.hash)) = [("a", "[1, 2]")] ∧
    (step Hs t (.op (.finh "a" 864002))).disk.log.length = 2 := by
  refine ⟨by decide, by decide, by decide, ?_, by decide, by decide⟩
  unfold Remembered
  decide

theorem C06N3_false : ¬ C06N3 := by
  intro h
  have h1 := (h Hs (runEvs Hs init againOldRun) ⟨againOldRun, rfl⟩ 864001 ["a"] "a" (by simp) (by simp)
    ⟨"a", "", "[1, 2]", 2, 0, ""⟩ (by decide) rfl).1
    { renamed := "", prev := "", hash := "[1, 2]", size := 2, state := .validated, time := 864001 }
    (by decide) rfl
  obtain ⟨i, hi, _⟩ := h1
  have hw : (runEvs Hs init againOldRun).disk.wait "a" = none := by decide
  rw [hw] at hi
  cases hi

/-- **the property as given is false of the model** (three of its four clauses are). -/
theorem C06Classification_false : ¬ C06Classification :=
  fun h => C06Trichotomy_false h.1

/-- the side condition "the walk visits each name once" is needed for class (B): with a name
    listed twice the second pass finds the `.full` gone, removes the companion and marks the
    validated file failed (`filepath.Walk` visits a path once, so this is not a behaviour of
    the code). -/
theorem dup_names_break_validate :
    let s := runEvs witH6 init
      [.op (.prepare "k" 2 0), .op (.recvOpen 1 "k"), .op (.recvWrite 1 0 [1, 2] 0),
       .cutOp 2 (.record "k" c6H 0 2 0)]
    crashClass witH6 s.disk "k" = .revalidate ⟨"", "", 2, "h", [⟨0, 2⟩]⟩ ∧
    stateOf (recovered witH6 s 9 ["k", "k"]).mem "k" = some .failed ∧
    (recovered witH6 s 9 ["k", "k"]).disk.wait "k" = some 0 ∧
    (recovered witH6 s 9 ["k", "k"]).disk.cmp "k" = none ∧
    stateOf (recovered witH6 s 9 ["k"]).mem "k" = some .validated := by decide

/-! ## the bundle -/

/-- **C06 classification, partial.** For every state reachable by events that meet C01's and
    C09's run hypotheses (`ReachableOk`: NoStaleWrite, no corruption of a validated file;
    `RecReachableOk`: PrepareOk / RecordOk / FinhOk / CleanOk), every walk list without
    duplicates and every name in it, after crash, restart and Recover:
    (1) the class at the crash point decides the condition (A) / (B) / (C);
    (2) with `Accompanied`, (A) is as stated in the property;
    (3) (N1) under the companion clause; (4) (N2) for the recovered state and all its OK
    continuations; (5) (N3) provided a staged complete reception of the logged version is
    remembered by Recover's cache build. -/
theorem C06_classification_partial {H : Body → String} {s : State} (hok : ReachableOk H s)
    (hrec : RecReachableOk H s) (now : Int) (names : List Name) (n : Name) (hn : n ∈ names)
    (hnd : names.Nodup) :
    (match crashClass H s.disk n with
      | .partial_ => ClassA H (recovered H s now names) n
      | .revalidate c => ClassB H s (recovered H s now names) now names n c
      | .held c => OutHeld H (recovered H s now names) n c) ∧
    (crashClass H s.disk n = .partial_ → Accompanied H s.disk n →
      ClassAFull (recovered H s now names) n) ∧
    (∀ e, s.mem.cache n = some e → statusAnswer s n ≥ 2 →
      (e.state = .validated → ∃ c, s.disk.cmp n = some c ∧ c.hash = e.hash) →
      InC H (recovered H s now names) n e.hash) ∧
    (∀ evs, OkRun H (recovered H s now names) evs → ∀ t i,
      (runEvs H (recovered H s now names) evs).disk.final t = some i →
      ∃ r ∈ (runEvs H (recovered H s now names) evs).disk.log,
        targetOf r.name r.renamed = t ∧ H ((runEvs H (recovered H s now names) evs).disk.body i) = r.hash) ∧
    (∀ r ∈ s.disk.log, r.name = n →
      (∀ c, crashClass H s.disk n = .revalidate c → c.hash = r.hash → Remembered H s now names n c) →
      (∀ q, (n, q) ∈ (recovered H s now names).mem.fq → q.hash = r.hash →
        ∃ i, s.disk.wait n = some i ∧ H (s.disk.body i) = r.hash) ∧
      (crashClass H s.disk n = .partial_ → ∀ now2 frm, Reaches s now frm names r →
        statusAnswer (step H (recovered H s now names) (.op (.buildCache frm now2))) n = 2)) :=
  ⟨C06_trichotomy H s now names n hn hnd,
   fun hcls hacc => classA_full_partial hrec now names n hn hnd hcls hacc,
   fun e hce hans hcomp => C06_N1_partial hok now names n hn hnd e hce hans hcomp,
   fun evs hevs => C06_N2_after_recovery hok now names evs hevs,
   fun r hr hrn hrem => C06_N3_partial H s now names n hn hnd r hr hrn hrem⟩

/-! ## non-vacuity: one concrete run per class, each with a crash INSIDE an operation -/

/-- (A): the receiver dies inside Receive after the companion's rename; the crash image has
    `k.part` with bytes [0,2) of 4 and the companion recording [0,2). Class (A); after recovery
    nothing is cached or queued, the companion and the partial are still there (the sender
    resumes at byte 2), and the hypotheses of `classA_full_partial` hold. -/
def c6RunA : List Ev :=
  [.op (.prepare "k" 4 0), .op (.recvOpen 1 "k"), .op (.recvWrite 1 0 [1, 2] 0),
   .cutOp 2 (.record "k" c6H4 0 2 0)]

example :
    let s := runEvs witH6 init c6RunA
    RecReachableOk witH6 s ∧ ReachableOk witH6 s ∧ Accompanied witH6 s.disk "k" ∧
    crashClass witH6 s.disk "k" = .partial_ ∧
    (recovered witH6 s 9 ["k"]).mem.cache "k" = none ∧ (recovered witH6 s 9 ["k"]).mem.fq = [] ∧
    (recovered witH6 s 9 ["k"]).disk.part "k" = some 0 ∧
    (recovered witH6 s 9 ["k"]).disk.cmp "k" = some ⟨"", "", 4, "h", [⟨0, 2⟩]⟩ ∧
    (recovered witH6 s 9 ["k"]).disk.written 0 = [⟨0, 2⟩] := by
  refine ⟨⟨c6RunA, ?_, rfl⟩, ⟨c6RunA, ?_, rfl⟩, ⟨by decide, ?_⟩, by decide, by decide, by decide, by decide,
    by decide, by decide⟩
  · refine ⟨Or.inr (Or.inl (by decide)), trivial, trivial, ?_, trivial⟩
    exact recordOk_of_unknown _ _ _ _ _ ⟨0, by decide, by decide⟩ (by decide)
  · simp only [c6RunA, OkRun, EvOk, OpOk, true_and, and_true]
    exact ⟨0, "k", by decide, by decide⟩
  · intro i hi
    have : (runEvs witH6 init c6RunA).disk.wait "k" = none := by decide
    rw [this] at hi; cases hi

/-- (B), pass: the receiver dies inside Receive between the companion's rename and the rename
    `.part → .full` of a complete file; Recover renames, hashes, and holds the file. -/
example :
    let s := runEvs witH6 init
      [.op (.prepare "k" 2 0), .op (.recvOpen 1 "k"), .op (.recvWrite 1 0 [1, 2] 0),
       .cutOp 2 (.record "k" c6H 0 2 0)]
    crashClass witH6 s.disk "k" = .revalidate ⟨"", "", 2, "h", [⟨0, 2⟩]⟩ ∧
    revalIno s.disk "k" = some 0 ∧ witH6 (s.disk.body 0) = "h" ∧
    stateOf (recovered witH6 s 9 ["k"]).mem "k" = some .validated ∧
    (recovered witH6 s 9 ["k"]).disk.wait "k" = some 0 ∧
    (recovered witH6 s 9 ["k"]).mem.fq.map (·.1) = ["k"] ∧
    (step witH6 (recovered witH6 s 9 ["k"]) (.op (.finh "k" 10))).disk.final "k" = some 0 := by decide

/-- (B), cut inside Recover itself: the second restart finds `k.full` (Recover died right after
    its rename) and validates it. -/
example :
    let s := runEvs witH6 init
      [.op (.prepare "k" 2 0), .op (.recvOpen 1 "k"), .op (.recvWrite 1 0 [1, 2] 0),
       .cutOp 2 (.record "k" c6H 0 2 0), .cutOp 1 (.recover 5 ["k"])]
    s.disk.full "k" = some 0 ∧ s.disk.part "k" = none ∧
    crashClass witH6 s.disk "k" = .revalidate ⟨"", "", 2, "h", [⟨0, 2⟩]⟩ ∧
    stateOf (recovered witH6 s 9 ["k"]).mem "k" = some .validated ∧
    (recovered witH6 s 9 ["k"]).disk.wait "k" = some 0 := by decide

/-- (B), refused: the announced hash is not the hash of the bytes; after recovery the state is
    failed (status answer 1), `k.full` stays, nothing is queued. -/
example :
    let s := runEvs witH6 init
      [.op (.prepare "k" 2 0), .op (.recvOpen 1 "k"), .op (.recvWrite 1 0 [1, 2] 0),
       .cutOp 2 (.record "k" c6Bad 0 2 0)]
    crashClass witH6 s.disk "k" = .revalidate ⟨"", "", 2, "bad", [⟨0, 2⟩]⟩ ∧
    stateOf (recovered witH6 s 9 ["k"]).mem "k" = some .failed ∧
    statusAnswer (recovered witH6 s 9 ["k"]) "k" = 1 ∧
    (recovered witH6 s 9 ["k"]).disk.full "k" = some 0 ∧ (recovered witH6 s 9 ["k"]).mem.fq = [] := by
  decide

/-- (C): the receiver dies inside finalize between the log record and the move. Class (C); after
    recovery the file is held and queued; the finalize handler then delivers it: the record is
    repeated (two log lines), the delivery happens once (the one inode, under its proper name),
    the companion is gone. And (N1): the status answer was "passed" before the crash and is
    "passed" after recovery. -/
def c6RunC : List Ev :=
  [.op (.prepare "k" 2 0), .op (.recvOpen 1 "k"), .op (.recvWrite 1 0 [1, 2] 0),
   .op (.record "k" c6H 0 2 0), .op (.process "k" 1)]

example :
    let s0 := runEvs witH6 init c6RunC
    let s := step witH6 s0 (.cutOp 1 (.finh "k" 5))
    let t := recovered witH6 s 9 ["k"]
    let u := step witH6 t (.op (.finh "k" 10))
    statusAnswer s0 "k" = 2 ∧ s.disk.log.length = 1 ∧ s.disk.wait "k" = some 0 ∧ s.disk.final "k" = none ∧
    crashClass witH6 s.disk "k" = .held ⟨"", "", 2, "h", [⟨0, 2⟩]⟩ ∧
    statusAnswer t "k" = 2 ∧ t.mem.fq.map (·.1) = ["k"] ∧
    u.disk.log.length = 2 ∧ u.disk.final "k" = some 0 ∧ u.disk.wait "k" = none ∧ u.disk.cmp "k" = none ∧
    stateOf u.mem "k" = some .finalized := by decide

/-- (N3), second half: "a" delivered at time 0, restart at time 100 with an empty staging area:
    class (A), the request reaches the record, the answer is "passed" -/
example :
    let s := runEvs Hs init goodRun
    crashClass Hs s.disk "a" = .partial_ ∧
    Reaches s 100 50 ["a"] ⟨"a", "", "[1, 2]", 2, 0, ""⟩ ∧
    statusAnswer (step Hs (recovered Hs s 100 ["a"]) (.op (.buildCache 50 101))) "a" = 2 := by
  refine ⟨by decide, Or.inl ⟨by decide, by decide⟩, by decide⟩

end Sts.Stage
