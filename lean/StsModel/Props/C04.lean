/-
  C04 — files of a group are delivered in order; none before its predecessor (receiver part).
-/
import StsModel.Lemmas.StageFin

namespace Sts.Stage

/-! ## decision level: what `isFileReady` / `GetFileStatus` / `finalize` decide -/

theorem prevSearch_found (s : State) (e : Entry) (now : Int) (h : (prevSearch s e now).1 = true) :
    ∃ r ∈ s.disk.log, r.name = e.prev := by
  unfold prevSearch at h
  simp only at h
  split at h
  · simp only [wasReceived, List.any_eq_true, Bool.and_eq_true, beq_iff_eq] at h
    obtain ⟨r, hr, ⟨hn, _⟩, _⟩ := h
    exact ⟨r, hr, hn⟩
  · simp only [List.any_eq_true, Bool.and_eq_true, beq_iff_eq] at h
    obtain ⟨r, hr, hn, _⟩ := h
    exact ⟨r, hr, hn⟩

/-- `held_until_pred`: the finalize handler lets a file with a real predecessor through only
    if the predecessor is finalized or logged in the cache, or is unknown to the cache, not
    in progress (no path lock) and found in the receive log. -/
theorem held_until_pred (s : State) (n : Name) (e : Entry) (now : Int)
    (hp : e.prev ≠ "") (hself : e.prev ≠ n)
    (h : (isFileReady s n e now).isYes = true) :
    stateOf s.mem e.prev = some .finalized ∨ stateOf s.mem e.prev = some .logged ∨
    (stateOf s.mem e.prev = none ∧ s.mem.locks e.prev = false ∧
      ∃ r ∈ s.disk.log, r.name = e.prev) := by
  unfold isFileReady at h
  simp only [hp, hself, or_self, if_false] at h
  cases hst : stateOf s.mem e.prev with
  | none =>
    simp only [hst] at h
    refine Or.inr (Or.inr ⟨rfl, ?_⟩)
    cases hl : s.mem.locks e.prev with
    | true => simp [hl, Ready.isYes] at h
    | false =>
      refine ⟨rfl, ?_⟩
      simp only [hl, Bool.false_eq_true, if_false] at h
      by_cases hf : (prevSearch s e now).1 = true
      · exact prevSearch_found s e now hf
      · simp [hf, Ready.isYes] at h
  | some st =>
    cases st <;> simp [hst, Ready.isYes] at h ⊢

/-- `waiting_is_reported`: a validated file answers "waiting" exactly while it is parked. -/
theorem waiting_is_reported (s : State) (n : Name) (h : stateOf s.mem n = some .validated) :
    statusAnswer s n = (if isWaitingName s.mem n then 3 else 2) := by
  simp [statusAnswer, h]

/-- only validated, finalized and logged files are ever answered positively. -/
theorem positive_only_validated (s : State) (n : Name) (h : statusAnswer s n ≥ 2) :
    stateOf s.mem n = some .validated ∨ stateOf s.mem n = some .finalized ∨
    stateOf s.mem n = some .logged := by
  unfold statusAnswer at h
  split at h <;> simp_all

/-! ## order of the receive log -/

/-- every record that carries a real predecessor is preceded by a record of that predecessor -/
def OrderInv (s : State) : Prop :=
  ∀ (pre : List LogRec) (r : LogRec) (post : List LogRec), s.disk.log = pre ++ r :: post →
    r.prev ≠ "" → r.prev ≠ r.name → ∃ q ∈ pre, q.name = r.prev

/-- guard: a record with a real predecessor is appended only when the log already has a
    record of the predecessor -/
def OrderG (s : State) : Prim → Prop
  | .logAppend r => r.prev ≠ "" → r.prev ≠ r.name → ∃ q ∈ s.disk.log, q.name = r.prev
  | _ => True

theorem OrderG_mono (s : State) (q p : Prim) (h : OrderG s p) : OrderG (applyPrim s q) p := by
  cases p <;> simp only [OrderG] at h ⊢
  intro h1 h2
  obtain ⟨r, hr, hn⟩ := h h1 h2
  exact ⟨r, log_mono_prim s q r hr, hn⟩

theorem OrderG_of_notFin (s : State) (p : Prim) (h : p.isFin = false) : OrderG s p := by
  cases p <;> simp_all [OrderG, Prim.isFin]

theorem OrderInv_step (s : State) (p : Prim) (hi : OrderInv s) (hg : OrderG s p) :
    OrderInv (applyPrim s p) := by
  intro pre r post hlog h1 h2
  rw [applyPrim_log] at hlog
  cases p with
  | logAppend r0 =>
    simp only at hlog
    rcases List.eq_nil_or_concat post with hpost | ⟨post', b, hpost⟩
    · subst hpost
      have := List.append_inj' hlog (by simp)
      obtain ⟨hpre, hr⟩ := this
      simp only [List.cons.injEq, and_true] at hr
      subst hr; subst hpre
      exact hg h1 h2
    · subst hpost
      have h' : s.disk.log ++ [r0] = (pre ++ r :: post') ++ [b] := by simpa using hlog
      have := List.append_inj' h' (by simp)
      exact hi pre r post' this.1 h1 h2
  | _ => exact hi pre r post hlog h1 h2

/-- the finalize handler appends a record with a real predecessor only when the predecessor
    has a record in the log (directly, or because its cache state is finalized / logged) -/
theorem finh_OrderG (s : State) (hl : LoggedInv s) (n : Name) (now : Int) :
    ∀ p ∈ finhEffects s n now, OrderG s p := by
  intro p hp
  cases hfin : p.isFin with
  | false => exact OrderG_of_notFin s p hfin
  | true =>
    obtain ⟨k, e, _, _, _, hready, hp' | hp'⟩ := finh_fin_spec s n now p hp hfin
    · subst hp'
      intro h1 h2
      simp only [finRec] at h1 h2 ⊢
      have hy : (isFileReady s n e now).isYes = true := by rw [hready]; rfl
      rcases held_until_pred s n e now h1 h2 hy with h | h | ⟨_, _, h⟩
      · simp only [stateOf, Option.map_eq_some_iff] at h
        obtain ⟨e', he', hs⟩ := h
        exact hl _ e' he' (Or.inl hs)
      · simp only [stateOf, Option.map_eq_some_iff] at h
        obtain ⟨e', he', hs⟩ := h
        exact hl _ e' he' (Or.inr hs)
      · exact h
    · subst hp'; trivial

theorem effects_OrderG (H : Body → String) (s : State) (hl : LoggedInv s) (o : OpEv) :
    Guards OrderG s (effects H s o) := by
  apply Guards.of_forall_mono OrderG_mono
  cases o with
  | finh n now => exact finh_OrderG s hl n now
  | _ =>
    intro p hp
    exact OrderG_of_notFin s p (effects_notFin H s _ (by intros; simp) p hp)

/-- **log_order_respects_prev**: in every reachable state (any history of calls, worker
    actions, timer and cleaner firings, crashes and crashes inside operations) every record
    of the receive log whose file announced a real predecessor — one that the cleaner did
    not clear — is preceded in the log by a record of that predecessor. -/
theorem log_order_respects_prev {H : Body → String} {s : State} (hr : Reachable H s) :
    ∀ (pre : List LogRec) (r : LogRec) (post : List LogRec), s.disk.log = pre ++ r :: post →
      r.prev ≠ "" → r.prev ≠ r.name → ∃ q ∈ pre, q.name = r.prev := by
  refine inv_reachable (H := H) (P := OrderInv) (G := OrderG) ?_ OrderInv_step ?_ ?_ hr
  · intro pre r post h; simp [init] at h
  · intro s h; exact h
  · intro s o hr _; exact effects_OrderG H s (finalized_implies_logged hr) o

/-! ## release of the files parked on a delivered file -/

/-- the item a primitive pushes onto the finalize queue, if any -/
def fqOf : Prim → Option (Name × Entry)
  | .fqPush n e => some (n, e)
  | _ => none

theorem toCache_no_fqPush (m : Mem) (n : Name) (e : Entry) (st : FState) (now : Int) :
    (toCache m n e st now).filterMap fqOf = [] := by
  unfold toCache
  simp only [List.filterMap_append, List.append_eq_nil_iff]
  refine ⟨⟨?_, by simp [fqOf]⟩, ?_⟩
  · split <;> simp [fqOf]
  · split <;> simp [fqOf]

/-- **released_when_pred_delivered** (operation level). When `finalize(n)` delivers — cache
    state validated, cached hash = the item's hash, `<n>.wait` present — the items it pushes
    onto the finalize queue are exactly, in order and multiplicity, the `(name, entry)` of the
    wait-map entries parked on `n`, and it removes those entries (`waitTake n`). -/
theorem released_when_pred_delivered (s : State) (n : Name) (e : Entry) (now : Int)
    (hv : stateOf s.mem n = some .validated) (hh : (s.mem.cache n).map (·.hash) = some e.hash)
    (hw : s.disk.wait n ≠ none) :
    (finalizeEffects s n e now).filterMap fqOf = (s.mem.wait.filter (fun w => w.1 == n)).map (·.2)
    ∧ Prim.waitTake n ∈ finalizeEffects s n e now := by
  unfold finalizeEffects
  have hc : ¬ (stateOf s.mem n ≠ some .validated ∨ (s.mem.cache n).map (·.hash) ≠ some e.hash) := by
    simp [hv, hh]
  rw [if_neg hc]
  cases hwn : s.disk.wait n with
  | none => exact absurd hwn hw
  | some i =>
    simp only [List.filterMap_append, toCache_no_fqPush, List.filterMap_map]
    constructor
    · simp only [List.filterMap_cons, List.filterMap_nil, fqOf, List.nil_append, List.append_nil]
      induction (s.mem.wait.filter (fun w => w.1 == n)) with
      | nil => rfl
      | cons w ws ih => simp [fqOf, ih]
    · simp

/-- … and in every other case `finalize` pushes nothing onto the finalize queue. -/
theorem nothing_released_otherwise (s : State) (n : Name) (e : Entry) (now : Int)
    (h : stateOf s.mem n ≠ some .validated ∨ (s.mem.cache n).map (·.hash) ≠ some e.hash ∨
         s.disk.wait n = none) :
    (finalizeEffects s n e now).filterMap fqOf = [] := by
  unfold finalizeEffects
  by_cases hc : stateOf s.mem n ≠ some .validated ∨ (s.mem.cache n).map (·.hash) ≠ some e.hash
  · rw [if_pos hc]; simp [fqOf]
  · rw [if_neg hc]
    have hw : s.disk.wait n = none := by
      rcases h with h | h | h
      · exact absurd (Or.inl h) hc
      · exact absurd (Or.inr h) hc
      · exact h
    simp [hw, fqOf]

/-! ## the cleaner gives the order up only on cycles of the wait map -/

/-- `WaitsPath m a b`: there is a non-empty chain `a ← w₁ ← … ← b` in the wait map
    (`(q, w, _) ∈ m.wait` means `w` waits on `q`): `w₁` waits on `a`, each next element waits
    on the previous one, the last element is `b`. `WaitsPath m p p` says `p` lies on a cycle. -/
inductive WaitsPath (m : Mem) : Name → Name → Prop
  | edge {a b : Name} {e : Entry} : (a, b, e) ∈ m.wait → WaitsPath m a b
  | step {a b c : Name} {e : Entry} : WaitsPath m a b → (b, c, e) ∈ m.wait → WaitsPath m a c

theorem mem_waitersOf (m : Mem) (q w : Name) : w ∈ waitersOf m q ↔ ∃ e, (q, w, e) ∈ m.wait := by
  simp only [waitersOf, List.mem_map, List.mem_filter, beq_iff_eq]
  constructor
  · rintro ⟨⟨q', w', e⟩, ⟨hm, hq⟩, rfl⟩
    simp only at hq; subst hq
    exact ⟨e, hm⟩
  · rintro ⟨e, hm⟩
    exact ⟨(q, w, e), ⟨hm, rfl⟩, rfl⟩

theorem detectLoopAux_sound (m : Mem) (start : Name) :
    ∀ (f : Nat) (paths seen : List Name),
      (∀ x ∈ paths, x = start ∨ WaitsPath m start x) →
      detectLoopAux m start f paths seen = true → WaitsPath m start start := by
  intro f
  induction f with
  | zero => intro paths seen _ h; simp [detectLoopAux] at h
  | succ f ih =>
    intro paths seen hp h
    have hws : ∀ w ∈ paths.flatMap (waitersOf m), WaitsPath m start w := by
      intro w hw
      simp only [List.mem_flatMap] at hw
      obtain ⟨x, hx, hwx⟩ := hw
      obtain ⟨e, he⟩ := (mem_waitersOf m x w).mp hwx
      rcases hp x hx with rfl | hpx
      · exact WaitsPath.edge he
      · exact WaitsPath.step hpx he
    unfold detectLoopAux at h
    simp only at h
    split at h
    · rename_i hc
      exact hws start (by simpa using hc)
    · split at h
      · simp at h
      · refine ih _ _ ?_ h
        intro x hx
        rw [List.mem_eraseDups, List.mem_filter] at hx
        exact Or.inr (hws x hx.1)

/-- **detectLoop_sound**: `detectWaitLoop(p)` answers true only if `p` lies on a cycle of the
    waits-on relation. -/
theorem detectLoop_sound (m : Mem) (p : Name) (h : detectLoop m p = true) : WaitsPath m p p :=
  detectLoopAux_sound m p _ [p] [] (by simp) h

/-- a chain starts with somebody waiting on its origin -/
theorem WaitsPath.first {m : Mem} {a b : Name} (h : WaitsPath m a b) :
    ∃ x e, (a, x, e) ∈ m.wait := by
  induction h with
  | edge he => exact ⟨_, _, he⟩
  | step _ _ ih => exact ih

/-- **cleanWaiting_only_on_cycle**: one step of the cleaner (candidate `c`, predecessor
    `c.prev`) leaves the state and the primitive list unchanged unless `detectLoop` is true for
    the candidate's predecessor … -/
theorem cleanWaiting_only_on_cycle (acc : State × List Prim) (c : Name × Entry)
    (h : detectLoop acc.1.mem c.2.prev = false) : cleanWaitingStep acc c = acc := by
  unfold cleanWaitingStep
  simp only [h]
  split <;> simp

/-- … hence only when the predecessor lies on a cycle of the wait map; and then the files
    whose predecessor it clears are the validated files parked on that cycle member. -/
theorem cleanWaitingStep_spec (acc : State × List Prim) (c : Name × Entry) :
    cleanWaitingStep acc c = acc ∨
    (WaitsPath acc.1.mem c.2.prev c.2.prev ∧
      ∃ ps, cleanWaitingStep acc c = (run acc.1 ps, acc.2 ++ ps) ∧
        ∀ n e, Prim.cacheSet n e ∈ ps →
          ∃ en f, (c.2.prev, n, en) ∈ acc.1.mem.wait ∧ acc.1.mem.cache n = some f ∧
            f.state = .validated ∧ e = { f with prev := "" }) := by
  cases hd : detectLoop acc.1.mem c.2.prev with
  | false => exact Or.inl (cleanWaiting_only_on_cycle acc c hd)
  | true =>
    by_cases hw : isWaitingName acc.1.mem c.2.prev = true
    · refine Or.inr ⟨detectLoop_sound _ _ hd, ?_⟩
      unfold cleanWaitingStep
      simp only [hd, hw, Bool.not_true, Bool.false_eq_true, if_false]
      refine ⟨_, rfl, ?_⟩
      intro n e hmem
      simp only [List.mem_append, List.mem_singleton, List.mem_flatMap, List.mem_filter,
        beq_iff_eq, reduceCtorEq, false_or] at hmem
      obtain ⟨⟨q, w, en⟩, ⟨hwm, hq⟩, hin⟩ := hmem
      simp only at hq hin
      subst hq
      split at hin
      · rename_i f hf
        split at hin
        · rename_i hv
          simp only [List.mem_cons, reduceCtorEq, Prim.cacheSet.injEq, List.not_mem_nil, or_false,
            false_or] at hin
          obtain ⟨rfl, rfl⟩ := hin
          exact ⟨en, f, hwm, hf, hv, rfl⟩
        · simp at hin
      · simp at hin
    · left
      unfold cleanWaitingStep
      simp [hw]

/-- without a cycle in the wait map the cleaner does nothing at all -/
theorem cleanWaiting_noop_without_cycle (s : State) (names : List Name)
    (h : ∀ p, detectLoop s.mem p = false) : cleanWaitingEffects s names = [] := by
  unfold cleanWaitingEffects
  simp only
  generalize (List.foldl (fun acc x => insertBySeq x acc) [] _) = sorted
  suffices ∀ l : List (Name × Entry), l.foldl cleanWaitingStep (s, []) = (s, []) by rw [this]
  intro l
  induction l with
  | nil => rfl
  | cons c cs ih =>
    rw [List.foldl_cons, cleanWaiting_only_on_cycle (s, []) c (h _)]
    exact ih

/-! ## non-vacuity and the S6 witness -/

/-- constant "hash" for concrete runs -/
def exH : Body → String := fun _ => "h"

/-- a whole file `n` announcing predecessor `prev` arrives in one part and is validated -/
def exRecv (n prev : String) : List Ev := [
  .op (.prepare n 2 0), .op (.recvOpen 1 n), .op (.recvWrite 1 0 [1, 2] 0),
  .op (.record n ⟨"", prev, 2, "h"⟩ 0 2 0), .op (.process n 0)]

/-- `b` (predecessor `a`) arrives and is handled first: it is parked, `a` is delivered, `b`
    is released and delivered. -/
def exAB : List Ev := exRecv "b" "a" ++ exRecv "a" "" ++
  [.op (.finh "b" 0), .op (.finh "a" 0), .op (.finh "b" 0)]

/-- `b` was really held: after its first pass through the finalize handler it is parked on
    `a`, reported as waiting, and the log is still empty -/
example :
    let s := runEvs exH init (exRecv "b" "a" ++ exRecv "a" "" ++ [.op (.finh "b" 0)])
    s.mem.wait.map (fun w => (w.1, w.2.1)) = [("a", "b")] ∧ statusAnswer s "b" = 3 ∧
      s.disk.log = [] := by decide

/-- `finalized_implies_logged` and `log_order_respects_prev` speak about non-trivial states -/
example : ∃ s, Reachable exH s ∧ stateOf s.mem "b" = some .finalized ∧
    ∃ pre r post, s.disk.log = pre ++ r :: post ∧ r.prev ≠ "" ∧ r.prev ≠ r.name ∧
      r.name = "b" ∧ pre.map (·.name) = ["a"] :=
  ⟨runEvs exH init exAB, ⟨exAB, rfl⟩, by decide,
   [⟨"a", "", "h", 2, 0, ""⟩], ⟨"b", "", "h", 2, 0, "a"⟩, [], by decide, by decide, by decide,
   rfl, by decide⟩

/-- `released_when_pred_delivered` on a state where `b` is parked on `a` -/
example :
    let s := runEvs exH init (exRecv "b" "a" ++ exRecv "a" "" ++ [.op (.finh "b" 0)])
    ∃ e, stateOf s.mem "a" = some .validated ∧ (s.mem.cache "a").map (·.hash) = some e.hash ∧
      s.disk.wait "a" ≠ none ∧
      ((finalizeEffects s "a" e 0).filterMap fqOf).map (·.1) = ["b"] :=
  ⟨⟨"", "", "h", 2, .validated, none, 0, false, 0, none⟩, by decide, by decide, by decide, by decide⟩

/-- three files: `a` and `b` announce each other (a cycle), `c` announces `b` (parked on a
    cycle member, not itself on the cycle); all three validated and parked. -/
def exS6 : List Ev := exRecv "a" "b" ++ exRecv "b" "a" ++ exRecv "c" "b" ++
  [.op (.finh "a" 0), .op (.finh "b" 0), .op (.finh "c" 0)]

example : detectLoop (runEvs exH init exS6).mem "b" = true := by decide

/-- **S6 witness**: in the reachable state `exS6` the file `c` is not on a cycle of the wait
    map (nothing waits on it), it waits on `b`, and one run of the cleaner clears its
    predecessor and re-enqueues it together with the cycle member `a`: `cleanWaiting` gives
    the order up for files that are merely parked on a member of a cycle. -/
theorem S6_cleaner_clears_off_cycle_file :
    let s := runEvs exH init exS6
    let s' := run s (cleanWaitingEffects s ["a", "b", "c"])
    Reachable exH s ∧ (¬ ∃ x, WaitsPath s.mem "c" x) ∧
    s.mem.wait.map (fun w => (w.1, w.2.1)) = [("b", "a"), ("a", "b"), ("b", "c")] ∧
    (s.mem.cache "c").map (·.prev) = some "b" ∧
    (s'.mem.cache "c").map (·.prev) = some "" ∧ s'.mem.fq.map (·.1) = ["a", "c"] := by
  refine ⟨⟨exS6, rfl⟩, ?_, by decide, by decide, by decide, by decide⟩
  rintro ⟨x, hx⟩
  obtain ⟨y, e, hm⟩ := hx.first
  have : ∀ w ∈ (runEvs exH init exS6).mem.wait, w.1 ≠ "c" := by decide
  exact this _ hm rfl

end Sts.Stage
