/-
  C04 — files of a group are delivered in order; none before its predecessor (receiver part).
-/
import StsModel.Lemmas.StageBasic

namespace Sts.Stage

/-! ## decision level: what `isFileReady` / `GetFileStatus` / `finalize` decide -/

theorem prevSearch_found (s : State) (e : Entry) (now : Int) (h : (prevSearch s e now).1 = true) :
    ∃ r ∈ s.disk.log, r.name = e.prev := by
  unfold prevSearch at h
  simp only at h
  split at h
  · simp only [wasReceived, List.any_eq_true, Bool.and_eq_true, beq_iff_eq] at h
    obtain ⟨r, hr, ⟨hn, _⟩, _⟩ := h
    exact ⟨r, hr, hn⟩
  · simp only [List.any_eq_true, Bool.and_eq_true, beq_iff_eq] at h
    obtain ⟨r, hr, hn, _⟩ := h
    exact ⟨r, hr, hn⟩

/-- `held_until_pred`: the finalize handler lets a file with a real predecessor through only
    if the predecessor is finalized or logged in the cache, or is unknown to the cache, not
    in progress (no path lock) and found in the receive log. -/
theorem held_until_pred (s : State) (n : Name) (e : Entry) (now : Int)
    (hp : e.prev ≠ "") (hself : e.prev ≠ n)
    (h : (isFileReady s n e now).isYes = true) :
    stateOf s.mem e.prev = some .finalized ∨ stateOf s.mem e.prev = some .logged ∨
    (stateOf s.mem e.prev = none ∧ s.mem.locks e.prev = false ∧
      ∃ r ∈ s.disk.log, r.name = e.prev) := by
  unfold isFileReady at h
  simp only [hp, hself, or_self, if_false] at h
  cases hst : stateOf s.mem e.prev with
  | none =>
    simp only [hst] at h
    refine Or.inr (Or.inr ⟨rfl, ?_⟩)
    cases hl : s.mem.locks e.prev with
    | true => simp [hl, Ready.isYes] at h
    | false =>
      refine ⟨rfl, ?_⟩
      simp only [hl, Bool.false_eq_true, if_false] at h
      by_cases hf : (prevSearch s e now).1 = true
      · exact prevSearch_found s e now hf
      · simp [hf, Ready.isYes] at h
  | some st =>
    cases st <;> simp [hst, Ready.isYes] at h ⊢

/-- `waiting_is_reported`: a validated file answers "waiting" exactly while it is parked. -/
theorem waiting_is_reported (s : State) (n : Name) (h : stateOf s.mem n = some .validated) :
    statusAnswer s n = (if isWaitingName s.mem n then 3 else 2) := by
  simp [statusAnswer, h]

/-- only validated, finalized and logged files are ever answered positively. -/
theorem positive_only_validated (s : State) (n : Name) (h : statusAnswer s n ≥ 2) :
    stateOf s.mem n = some .validated ∨ stateOf s.mem n = some .finalized ∨
    stateOf s.mem n = some .logged := by
  unfold statusAnswer at h
  split at h <;> simp_all

end Sts.Stage
