/-
  C15 — unauthorised or premature requests are refused without any effect.

  Proved about the executable model in Model/Auth.lean, for all configurations, states and
  requests (`decide` only for the finite route table and the concrete witnesses):

  * `validator_decision`        main/server.go standardValidator accepts exactly when (no source list, or the
                                source matches the character class and is listed) and (no key list, or the key
                                is listed); membership is equality of strings (`listed_iff`), so it is exact and
                                case-sensitive;
  * `gate`                      http/server.go handleValidate lets a request through exactly when a source is
                                named, the name is acceptable as a directory (repair), the source's gatekeeper is
                                ready and the validator accepts; otherwise 400 / 503 / 403, checked in this order;
  * `all_data_routes_wrapped`   every data-bearing route of Serve is registered behind handleValidate (finite
                                table; the table itself is compared with the source of Serve on every run), and
                                `effects_only_through_gate`: a gatekeeper call other than the allocation of a
                                gatekeeper, or a change of the serve directory, implies the gate was passed;
  * `refusal_has_no_effect`     a refused request makes no gatekeeper call except possibly allocating the
                                gatekeeper of its source, leaves configuration and serve directory unchanged, and
                                the state afterwards is observationally equivalent to the state before:
                                `serve_sim_trace` — every later sequence of requests gets the same statuses,
                                bodies and gatekeeper calls (allocation calls aside);
  * `not_ready_during_recover`  between the first and the last step of Recover every request sees "not ready";
    `no_ready_window`           with the repaired start-up order (Stop before `go Recover`) this holds from the
                                creation of the stage on; `ready_window_old`: the unrepaired order has a window
                                (S10) — partial in the sense that the scheduling inside the Go runtime is not
                                modelled: the model has one event per flag access.
-/
import StsModel.Model.Auth

set_option linter.unusedSimpArgs false

namespace Sts

/-! ## standardValidator -/

theorem listed_iff (x : String) (l : List String) : listed x l = true ↔ x ∈ l := by
  simp only [listed, List.any_eq_true, beq_iff_eq]
  constructor
  · rintro ⟨v, hv, rfl⟩; exact hv
  · intro h; exact ⟨x, h, rfl⟩

/-- the pattern of standardValidator: one or more characters, each a lower-case ASCII letter, a
    digit, '.', '-' or '/' -/
theorem sourceMatches_iff (s : String) :
    sourceMatches s = true ↔ s ≠ "" ∧ ∀ c ∈ s.toList,
      (('a' ≤ c ∧ c ≤ 'z') ∨ ('0' ≤ c ∧ c ≤ '9') ∨ c = '.' ∨ c = '-' ∨ c = '/') := by
  simp only [sourceMatches, Bool.and_eq_true, bne_iff_ne, ne_eq, List.all_eq_true]
  constructor
  · rintro ⟨h1, h2⟩
    refine ⟨h1, fun c hc => ?_⟩
    have := h2 c hc
    simp only [srcCharOk, Char.isLower, Char.isDigit, Bool.or_eq_true, Bool.and_eq_true, decide_eq_true_eq, beq_iff_eq] at this
    rcases this with (((⟨h, h'⟩ | ⟨h, h'⟩) | h) | h) | h
    · exact Or.inl ⟨h, h'⟩
    · exact Or.inr (Or.inl ⟨h, h'⟩)
    · exact Or.inr (Or.inr (Or.inl h))
    · exact Or.inr (Or.inr (Or.inr (Or.inl h)))
    · exact Or.inr (Or.inr (Or.inr (Or.inr h)))
  · rintro ⟨h1, h2⟩
    refine ⟨h1, fun c hc => ?_⟩
    simp only [srcCharOk, Char.isLower, Char.isDigit, Bool.or_eq_true, Bool.and_eq_true, decide_eq_true_eq, beq_iff_eq]
    rcases h2 c hc with ⟨h, h'⟩ | ⟨h, h'⟩ | h | h | h
    · exact Or.inl (Or.inl (Or.inl (Or.inl ⟨h, h'⟩)))
    · exact Or.inl (Or.inl (Or.inl (Or.inr ⟨h, h'⟩)))
    · exact Or.inl (Or.inl (Or.inr h))
    · exact Or.inl (Or.inr h)
    · exact Or.inr h

/-- **validator_decision** -/
theorem validator_decision (conf : AuthConf) (source key : String) :
    standardValid conf source key = true ↔
      (conf.sources = [] ∨ (sourceMatches source = true ∧ source ∈ conf.sources)) ∧
      (conf.keys = [] ∨ key ∈ conf.keys) := by
  unfold standardValid
  have hs : (conf.sources.length > 0) ↔ conf.sources ≠ [] := by
    cases conf.sources <;> simp
  have hk : (conf.keys.length > 0) ↔ conf.keys ≠ [] := by
    cases conf.keys <;> simp
  by_cases h1 : conf.sources = []
  · by_cases h2 : conf.keys = []
    · simp [h1, h2]
    · cases hl : listed key conf.keys
      · have : ¬ key ∈ conf.keys := fun hm => by rw [(listed_iff _ _).mpr hm] at hl; cases hl
        simp [h1, hk.mpr h2, hl, h2, this]
      · have : key ∈ conf.keys := (listed_iff _ _).mp hl
        simp [h1, hk.mpr h2, hl, this]
  · have hpos := hs.mpr h1
    cases hm : sourceMatches source
    · simp [hpos, hm, h1]
    · cases hl : listed source conf.sources
      · have : ¬ source ∈ conf.sources := fun hmem => by rw [(listed_iff _ _).mpr hmem] at hl; cases hl
        simp [hpos, hm, hl, h1, this]
      · have hmem : source ∈ conf.sources := (listed_iff _ _).mp hl
        by_cases h2 : conf.keys = []
        · simp [hpos, hm, hl, h2, hmem]
        · cases hlk : listed key conf.keys
          · have : ¬ key ∈ conf.keys := fun hmk => by rw [(listed_iff _ _).mpr hmk] at hlk; cases hlk
            simp [hpos, hm, hl, hk.mpr h2, hlk, h1, h2, hmem, this]
          · have : key ∈ conf.keys := (listed_iff _ _).mp hlk
            simp [hpos, hm, hl, hk.mpr h2, hlk, hmem, this]

/-- membership is exact: a key or source that differs in case is not listed -/
example : standardValid ⟨["src1"], ["k1"]⟩ "src1" "k1" = true ∧ standardValid ⟨["src1"], ["k1"]⟩ "SRC1" "k1" = false ∧
    standardValid ⟨["src1"], ["k1"]⟩ "src1" "K1" = false ∧ standardValid ⟨["src1"], ["k1"]⟩ "src1" "" = false ∧
    standardValid ⟨["SRC1"], []⟩ "SRC1" "" = false ∧ standardValid ⟨[], []⟩ "anything at all" "" = true ∧
    standardValid ⟨["src1", "other"], ["k1", "k2"]⟩ "other" "k1" = true := by decide

/-! ## the gate -/

/-- readiness of the gatekeeper a source has or would get (a new stage.Stage starts ready) -/
def readyOf (s : Srv) (source : String) : Bool :=
  match lookupGK s.gks source with
  | some g => g.ready
  | none => true

theorem lookupGK_source {gks : List GK} {src : String} {g : GK} (h : lookupGK gks src = some g) : g.source = src := by
  have := List.find?_some h
  simpa using this

/-- **gate**: the four outcomes of handleValidate, in the order the code checks them. -/
theorem gate (valid : String → String → Bool) (s : Srv) (r : Req) :
    let src := getSourceName r
    let out := (handleValidate valid s r).2.1
    ((src = "" ∨ isSafeSource src = false) → out = Gate.refused 400) ∧
    (src ≠ "" → isSafeSource src = true → readyOf s src = false → out = Gate.refused 503) ∧
    (src ≠ "" → isSafeSource src = true → readyOf s src = true → valid src (getKey r) = false →
      out = Gate.refused 403) ∧
    (src ≠ "" → isSafeSource src = true → readyOf s src = true → valid src (getKey r) = true →
      ∃ g, out = Gate.pass g ∧ g.source = src ∧ g.ready = true) := by
  simp only
  unfold handleValidate getGateKeeper readyOf
  refine ⟨?_, ?_, ?_, ?_⟩
  · intro h
    have : (getSourceName r == "" || !isSafeSource (getSourceName r)) = true := by
      rcases h with h | h <;> simp [h]
    simp [this]
  · intro h1 h2 h3
    have : (getSourceName r == "" || !isSafeSource (getSourceName r)) = false := by simp [h1, h2]
    cases hl : lookupGK s.gks (getSourceName r) with
    | none => rw [hl] at h3; cases h3
    | some g => rw [hl] at h3; simp [this, hl, h3]
  · intro h1 h2 h3 h4
    have : (getSourceName r == "" || !isSafeSource (getSourceName r)) = false := by simp [h1, h2]
    cases hl : lookupGK s.gks (getSourceName r) with
    | none => simp [this, hl, h4]
    | some g => rw [hl] at h3; simp [this, hl, h3, h4]
  · intro h1 h2 h3 h4
    have : (getSourceName r == "" || !isSafeSource (getSourceName r)) = false := by simp [h1, h2]
    cases hl : lookupGK s.gks (getSourceName r) with
    | none => simp [this, hl, h4]
    | some g => rw [hl] at h3; simp [this, hl, h3, h4, lookupGK_source hl]

/-- the wrapped handler is reached iff source named ∧ acceptable ∧ ready ∧ valid -/
theorem gate_pass_iff (valid : String → String → Bool) (s : Srv) (r : Req) :
    (∃ g, (handleValidate valid s r).2.1 = Gate.pass g) ↔
      getSourceName r ≠ "" ∧ isSafeSource (getSourceName r) = true ∧ readyOf s (getSourceName r) = true ∧
      valid (getSourceName r) (getKey r) = true := by
  obtain ⟨g1, g2, g3, g4⟩ := gate valid s r
  constructor
  · rintro ⟨g, hg⟩
    by_cases h1 : getSourceName r = ""
    · rw [g1 (Or.inl h1)] at hg; cases hg
    · cases h2 : isSafeSource (getSourceName r) with
      | false => rw [g1 (Or.inr h2)] at hg; cases hg
      | true =>
        cases h3 : readyOf s (getSourceName r) with
        | false => rw [g2 h1 h2 h3] at hg; cases hg
        | true =>
          cases h4 : valid (getSourceName r) (getKey r) with
          | false => rw [g3 h1 h2 h3 h4] at hg; cases hg
          | true => exact ⟨h1, rfl, rfl, rfl⟩
  · rintro ⟨h1, h2, h3, h4⟩
    obtain ⟨g, hg, _⟩ := g4 h1 h2 h3 h4
    exact ⟨g, hg⟩

/-! ## the route table -/

/-- **all_data_routes_wrapped**: every route of Serve whose handler reads or writes the stage,
    final, log or serve directories is registered behind handleValidate. The table is data
    (`Sts.routes`); the harness reads the same table from the source of Serve with go/ast on
    every run and compares. -/
theorem all_data_routes_wrapped : ∀ rt ∈ routes, rt.handler.dataBearing = true → rt.validated = true := by
  decide

/-- the five data-bearing handlers are all registered, each exactly once -/
theorem data_routes_present :
    (routes.filter (fun rt => rt.handler.dataBearing)).map (·.pattern) =
      ["/data", "/data-recovery", "/validate", "/partials", "/static/"] := by
  decide

def Call.isNew : Call → Bool
  | .newGK _ => true
  | _ => false

/-- gatekeeper calls without the allocations -/
def stripNew (cs : List Call) : List Call := cs.filter (fun c => !c.isNew)

theorem handleValidate_only_new (valid : String → String → Bool) (s : Srv) (r : Req) :
    stripNew (handleValidate valid s r).2.2 = [] ∧
    (handleValidate valid s r).1.conf = s.conf ∧ (handleValidate valid s r).1.serve = s.serve := by
  unfold handleValidate getGateKeeper
  by_cases hc : (getSourceName r == "" || !isSafeSource (getSourceName r)) = true
  · simp [hc, stripNew]
  · simp only [hc]
    cases hl : lookupGK s.gks (getSourceName r) with
    | some g =>
      simp only [Bool.false_eq_true, if_false]
      repeat' split
      all_goals simp [stripNew]
    | none =>
      simp only [Bool.false_eq_true, if_false]
      repeat' split
      all_goals simp [stripNew, Call.isNew]

/-- **effects_only_through_gate**: whatever a request does beyond allocating a gatekeeper — a
    call on a gatekeeper, a change of the serve directory — it does after passing the gate. -/
theorem effects_only_through_gate (serveRoot : String) (s : Srv) (r : Req) (path : String) (rt : Route)
    (valid : String → String → Bool)
    (h : stripNew (dispatch true (handleValidate valid) serveRoot s r path rt).2.calls ≠ [] ∨
         (dispatch true (handleValidate valid) serveRoot s r path rt).1.serve ≠ s.serve) :
    rt.validated = true ∧ ∃ g, (handleValidate valid s r).2.1 = Gate.pass g := by
  obtain ⟨hn, _, hserve⟩ := handleValidate_only_new valid s r
  unfold dispatch at h
  split at h
  · exfalso
    split at h
    · simp only [routeHealth] at h
      split at h <;> simp [stripNew] at h
    · simp [notModelled, stripNew] at h
  · rename_i hv
    refine ⟨by simpa using hv, ?_⟩
    simp only at h
    split at h
    · exfalso
      rcases h with h | h
      · exact h hn
      · exact h hserve
    · rename_i gk hgk
      exact ⟨gk, hgk⟩

/-! ## refusals have no effect -/

/-- what the rest of the receiver can observe of the gatekeeper table for one source: a missing
    gatekeeper behaves like a freshly created one (real, ready) -/
def gkView (gks : List GK) (source : String) : Bool × Bool :=
  match lookupGK gks source with
  | some g => (g.ready, g.stub)
  | none => (true, false)

/-- two receiver states that differ at most in which ready, real gatekeepers have already been
    allocated -/
def Sim (s t : Srv) : Prop :=
  s.conf = t.conf ∧ s.serve = t.serve ∧ ∀ x, gkView s.gks x = gkView t.gks x

theorem Sim.refl (s : Srv) : Sim s s := ⟨rfl, rfl, fun _ => rfl⟩
theorem Sim.symm {s t : Srv} (h : Sim s t) : Sim t s := ⟨h.1.symm, h.2.1.symm, fun x => (h.2.2 x).symm⟩
theorem Sim.trans {s t u : Srv} (h1 : Sim s t) (h2 : Sim t u) : Sim s u :=
  ⟨h1.1.trans h2.1, h1.2.1.trans h2.2.1, fun x => (h1.2.2 x).trans (h2.2.2 x)⟩

theorem gkView_cons_fresh (gks : List GK) (src x : String) (h : lookupGK gks src = none) :
    gkView (⟨src, true, false⟩ :: gks) x = gkView gks x := by
  unfold gkView lookupGK
  by_cases hx : src = x
  · subst hx
    unfold lookupGK at h
    simp [List.find?_cons, h]
  · have : ((⟨src, true, false⟩ : GK).source == x) = false := by simpa using hx
    simp [List.find?_cons, this]

/-- allocating the gatekeeper of a source is not observable -/
theorem getGateKeeper_self_sim (s : Srv) (src : String) : Sim s (getGateKeeper s src).1 := by
  unfold getGateKeeper
  split
  · exact Sim.refl s
  · cases hl : lookupGK s.gks src with
    | some g => exact Sim.refl s
    | none =>
      refine ⟨rfl, rfl, fun x => ?_⟩
      exact (gkView_cons_fresh s.gks src x hl).symm

theorem gk_eq_of_view {g : GK} {src : String} {v : Bool × Bool} (hs : g.source = src) (hv : (g.ready, g.stub) = v) :
    g = ⟨src, v.1, v.2⟩ := by
  cases g
  subst hs
  subst hv
  rfl

/-- equivalent states hand the same gatekeeper to a request and stay equivalent -/
theorem getGateKeeper_sim (s t : Srv) (h : Sim s t) (src : String) :
    (getGateKeeper s src).2.1 = (getGateKeeper t src).2.1 ∧
    Sim (getGateKeeper s src).1 (getGateKeeper t src).1 ∧
    stripNew (getGateKeeper s src).2.2 = [] ∧ stripNew (getGateKeeper t src).2.2 = [] := by
  have hss := getGateKeeper_self_sim s src
  have htt := getGateKeeper_self_sim t src
  refine ⟨?_, (hss.symm.trans h).trans htt, ?_, ?_⟩
  · have hv := h.2.2 src
    unfold gkView at hv
    unfold getGateKeeper
    by_cases hc : (src == "" || !isSafeSource src) = true
    · simp [hc]
    · simp only [hc, Bool.false_eq_true, if_false]
      cases hl1 : lookupGK s.gks src with
      | some g1 =>
        cases hl2 : lookupGK t.gks src with
        | some g2 =>
          rw [hl1, hl2] at hv
          simp only at hv ⊢
          rw [gk_eq_of_view (lookupGK_source hl1) rfl, gk_eq_of_view (lookupGK_source hl2) rfl, hv]
        | none =>
          rw [hl1, hl2] at hv
          simp only at hv ⊢
          rw [gk_eq_of_view (lookupGK_source hl1) hv]
      | none =>
        cases hl2 : lookupGK t.gks src with
        | some g2 =>
          rw [hl1, hl2] at hv
          simp only at hv ⊢
          rw [gk_eq_of_view (lookupGK_source hl2) hv.symm]
        | none => rfl
  · unfold getGateKeeper
    split
    · rfl
    · cases lookupGK s.gks src <;> simp [stripNew, Call.isNew]
  · unfold getGateKeeper
    split
    · rfl
    · cases lookupGK t.gks src <;> simp [stripNew, Call.isNew]

theorem handleValidate_sim (valid : String → String → Bool) (s t : Srv) (h : Sim s t) (r : Req) :
    (handleValidate valid s r).2.1 = (handleValidate valid t r).2.1 ∧
    Sim (handleValidate valid s r).1 (handleValidate valid t r).1 := by
  obtain ⟨hg, hsim, _, _⟩ := getGateKeeper_sim s t h (getSourceName r)
  unfold handleValidate
  rcases h1 : getGateKeeper s (getSourceName r) with ⟨s', g1, c1⟩
  rcases h2 : getGateKeeper t (getSourceName r) with ⟨t', g2, c2⟩
  rw [h1, h2] at hg hsim
  simp only at hg hsim
  subst hg
  cases g1 with
  | none => exact ⟨rfl, hsim⟩
  | some g =>
    simp only
    split
    · exact ⟨rfl, hsim⟩
    · split
      · exact ⟨rfl, hsim⟩
      · exact ⟨rfl, hsim⟩

theorem stripNew_append (a b : List Call) : stripNew (a ++ b) = stripNew a ++ stripNew b := by
  simp [stripNew]

/-- what a request is answered: status, body, gatekeeper calls (allocations aside) -/
def answer (x : Resp) : Nat × String × List Call := (x.status, x.body, stripNew x.calls)

theorem runHandler_sim (serveRoot : String) (s t : Srv) (h : Sim s t) (gk : GK) (r : Req) (path : String) (hd : Handler) :
    (runHandler true serveRoot s gk r path hd).2 = (runHandler true serveRoot t gk r path hd).2 ∧
    Sim (runHandler true serveRoot s gk r path hd).1 (runHandler true serveRoot t gk r path hd).1 := by
  cases hd
  case static =>
    simp only [runHandler, h.2.1]
    exact ⟨trivial, h.1, rfl, h.2.2⟩
  all_goals exact ⟨rfl, h⟩

theorem dispatch_sim (serveRoot : String) (valid : String → String → Bool) (s t : Srv) (h : Sim s t)
    (r : Req) (path : String) (rt : Route) :
    answer (dispatch true (handleValidate valid) serveRoot s r path rt).2 =
      answer (dispatch true (handleValidate valid) serveRoot t r path rt).2 ∧
    Sim (dispatch true (handleValidate valid) serveRoot s r path rt).1
        (dispatch true (handleValidate valid) serveRoot t r path rt).1 := by
  unfold dispatch
  split
  · split
    · exact ⟨rfl, h⟩
    · exact ⟨rfl, h⟩
  · obtain ⟨hg, hsim⟩ := handleValidate_sim valid s t h r
    obtain ⟨hn1, _, _⟩ := handleValidate_only_new valid s r
    obtain ⟨hn2, _, _⟩ := handleValidate_only_new valid t r
    simp only
    rw [← hg]
    cases hgate : (handleValidate valid s r).2.1 with
    | refused st =>
      simp only [answer, hn1, hn2]
      exact ⟨trivial, hsim⟩
    | pass gk =>
      obtain ⟨hr, hs⟩ := runHandler_sim serveRoot _ _ hsim gk r path rt.handler
      simp only [answer, stripNew_append, hn1, hn2, List.nil_append]
      rw [hr]
      exact ⟨by simp, hs⟩

/-- one request on two equivalent states: same answer, equivalent states afterwards -/
theorem serve_sim (serveRoot : String) (s t : Srv) (h : Sim s t) (r : Req) :
    answer (serve serveRoot s r).2 = answer (serve serveRoot t r).2 ∧
    Sim (serve serveRoot s r).1 (serve serveRoot t r).1 := by
  unfold serve serveWith
  split
  · exact ⟨rfl, h⟩
  · simp only
    split
    · exact ⟨rfl, h⟩
    · rw [h.1]
      exact dispatch_sim serveRoot _ s t h r _ _

/-- the answers to a sequence of requests -/
def serveAll (serveRoot : String) : Srv → List Req → List (Nat × String × List Call)
  | _, [] => []
  | s, r :: rs => answer (serve serveRoot s r).2 :: serveAll serveRoot (serve serveRoot s r).1 rs

/-- **serve_sim_trace**: equivalent states answer every later sequence of requests identically -/
theorem serve_sim_trace (serveRoot : String) (rs : List Req) :
    ∀ s t, Sim s t → serveAll serveRoot s rs = serveAll serveRoot t rs := by
  induction rs with
  | nil => intro s t _; rfl
  | cons r rs ih =>
    intro s t h
    obtain ⟨ha, hs⟩ := serve_sim serveRoot s t h r
    simp only [serveAll, ha, ih _ _ hs]

/-- the gate's refusals -/
def isGateRefusal (valid : String → String → Bool) (s : Srv) (r : Req) : Prop :=
  ∃ st, (handleValidate valid s r).2.1 = Gate.refused st

/-- **refusal_has_no_effect**: a request refused by the gate (400 no/unusable source, 503 not
    ready, 403 not authorised) on any wrapped route
    (a) is answered with exactly that status and no gatekeeper call other than the allocation of
        the source's gatekeeper,
    (b) leaves the configuration and the serve directory as they were,
    (c) leaves a state from which every later sequence of requests — of any sender — is answered
        exactly as it would have been without the refused request. -/
theorem refusal_has_no_effect (serveRoot : String) (s : Srv) (r : Req) (path : String) (rt : Route)
    (hv : rt.validated = true) (st : Nat)
    (href : (handleValidate (standardValid s.conf) s r).2.1 = Gate.refused st) :
    let out := dispatch true (handleValidate (standardValid s.conf)) serveRoot s r path rt
    out.2.status = st ∧ stripNew out.2.calls = [] ∧ out.2.body = "" ∧
    out.1.conf = s.conf ∧ out.1.serve = s.serve ∧
    ∀ rs, serveAll serveRoot out.1 rs = serveAll serveRoot s rs := by
  obtain ⟨hn, hconf, hserve⟩ := handleValidate_only_new (standardValid s.conf) s r
  have hsim : Sim s (handleValidate (standardValid s.conf) s r).1 := by
    unfold handleValidate
    have := getGateKeeper_self_sim s (getSourceName r)
    rcases hg : getGateKeeper s (getSourceName r) with ⟨s', g, cs⟩
    rw [hg] at this
    cases g with
    | none => exact this
    | some g =>
      simp only
      split
      · exact this
      · split <;> exact this
  simp only [dispatch, hv, Bool.not_true, Bool.false_eq_true, if_false, href]
  exact ⟨trivial, hn, trivial, hconf, hserve, fun rs => (serve_sim_trace serveRoot rs _ _ hsim).symm⟩

def exConf : AuthConf := ⟨["src1"], ["k1"]⟩
def exSrv (ready : Bool) : Srv := { Srv.init with conf := exConf, gks := [⟨"src1", ready, false⟩, ⟨"site", true, false⟩] }
def exReq (src key : String) : Req :=
  { method := "GET", url := "/partials", srcH := src, srcQ := "", keyH := key, keyQ := "", sep := "",
    metaLen := .ok, gzip := .off, body := .none, version := "1" }

/-- refusals exist for each of the three reasons (non-vacuity of `refusal_has_no_effect`) and a
    request that passes exists -/
example :
    (serve "/srv/serve" (exSrv false) (exReq "" "k1")).2.status = 400 ∧
    (serve "/srv/serve" (exSrv false) (exReq ".." "k1")).2.status = 400 ∧
    (serve "/srv/serve" (exSrv false) (exReq "src1" "k1")).2.status = 503 ∧
    (serve "/srv/serve" (exSrv false) (exReq "site" "k1")).2.status = 403 ∧
    (serve "/srv/serve" (exSrv true) (exReq "src1" "K1")).2.status = 403 ∧
    (serve "/srv/serve" (exSrv true) (exReq "src1" "k1")).2 = ⟨200, [Call.scan "src1" "1"], ""⟩ := by
  decide

/-! ## the ready flag around Recover -/

theorem runFlag_append (b : Bool) (a c : List FlagEv) :
    runFlag b (a ++ c) = ((runFlag (runFlag b a).1 c).1, (runFlag b a).2 ++ (runFlag (runFlag b a).1 c).2) := by
  induction a generalizing b with
  | nil => simp [runFlag]
  | cons e es ih =>
    cases e <;> simp [runFlag, ih]

/-- inside Recover (steps and requests only) the flag stays down and every request sees that -/
theorem runFlag_inside (mid : List FlagEv) (hmid : ∀ e ∈ mid, e = FlagEv.recoverStep ∨ e = FlagEv.request) :
    (runFlag false mid).1 = false ∧ ∀ x ∈ (runFlag false mid).2, x = false := by
  induction mid with
  | nil => simp [runFlag]
  | cons e es ih =>
    have hes := ih (fun x hx => hmid x (by simp [hx]))
    rcases hmid e (by simp) with rfl | rfl
    · simpa [runFlag] using hes
    · simp only [runFlag]
      refine ⟨hes.1, ?_⟩
      intro x hx
      simp only [List.mem_cons] at hx
      rcases hx with rfl | hx
      · rfl
      · exact hes.2 x hx

/-- **not_ready_during_recover**: whatever the flag was, from Recover's first statement to its
    last every request is told "not ready" (handleValidate answers 503), and afterwards the
    stage is ready again. -/
theorem not_ready_during_recover (b : Bool) (mid : List FlagEv)
    (hmid : ∀ e ∈ mid, e = FlagEv.recoverStep ∨ e = FlagEv.request) :
    (runFlag b (FlagEv.recoverBegin :: mid ++ [FlagEv.recoverEnd])).1 = true ∧
    ∀ x ∈ (runFlag b (FlagEv.recoverBegin :: mid ++ [FlagEv.recoverEnd])).2, x = false := by
  obtain ⟨h1, h2⟩ := runFlag_inside mid hmid
  simp only [runFlag, runFlag_append, h1]
  refine ⟨trivial, ?_⟩
  intro x hx
  simp only [List.append_nil] at hx
  exact h2 x hx

/-- **no_ready_window** (repaired start-up order of main/server.go: `stager.Stop(true)` before
    `go stager.Recover()`): from the creation of a stage found at start-up until the end of its
    recovery, no request is let through — however many arrive before the recovery goroutine
    gets to run (`early`) and while it runs (`mid`). -/
theorem no_ready_window (b : Bool) (early mid : List FlagEv)
    (hearly : ∀ e ∈ early, e = FlagEv.request)
    (hmid : ∀ e ∈ mid, e = FlagEv.recoverStep ∨ e = FlagEv.request) :
    ∀ x ∈ (runFlag b (initEvents ++ early ++ (FlagEv.recoverBegin :: mid ++ [FlagEv.recoverEnd]))).2, x = false := by
  have he := runFlag_inside early (fun e he => Or.inr (hearly e he))
  have hr := not_ready_during_recover false mid hmid
  intro x hx
  rw [runFlag_append, runFlag_append] at hx
  simp only [initEvents, runFlag, List.nil_append, he.1] at hx
  simp only [List.mem_append] at hx
  rcases hx with hx | hx
  · exact he.2 x hx
  · exact hr.2 x (by simpa [runFlag, runFlag_append] using hx)

/-- **ready_window_old** (S10): with the unrepaired order (`go stager.Recover()` right after
    `stage.New`, which starts ready) a request that arrives before the goroutine's first
    statement is let through although the stage still has everything to recover. -/
theorem ready_window_old :
    (runFlag false (initEventsOld ++ [FlagEv.request] ++ [FlagEv.recoverBegin, FlagEv.recoverStep, FlagEv.recoverEnd])).2 = [true] := by
  decide

example : (runFlag false (initEvents ++ [FlagEv.request] ++ [FlagEv.recoverBegin, FlagEv.request, FlagEv.recoverStep, FlagEv.request,
    FlagEv.recoverEnd, FlagEv.request])) = (true, [false, false, false, true]) := by
  decide

end Sts
