/-
  C18, the clause "for records written concurrently / all interleavings of concurrent
  writers": the writer goroutine of log/local.go serialises the records.

  Model: StsModel/Model/LogWriter.lean (k client goroutines, one writer goroutine, the two
  unbuffered channels, `rollingFile.rotate` / `Println` in append mode) on top of the
  directory model of StsModel/Model/LogFmt.lean. The theorems are for every number of
  clients, every list of records per client, every labelling with clock readings, every
  initial directory and every schedule (sequence of enabled steps):

  * `whole_lines_always`        (a) at every moment every day file is a concatenation of
                                    whole lines that were handed in for that day;
  * `complete_schedule_merges`  (b) after a complete schedule the directory is the initial
                                    one followed by a merge of the clients' sequences
                                    (`IsMerge`: every record exactly once, every client's
                                    records in its order), `IsMerge.perm` (multiset);
  * `store_is_sequential_log`,  (c) the directory equals `foldl logLine` over that merge,
    `recv_store_is_recvStore`       i.e. `recvStore (h0 ++ m)`; the exactness theorems of
    `C18_concurrent_lookup_exact_*` Props/C18 apply and are restated over the clients' inputs;
    `search_perm`, `parseLog_perm`, `lookup_schedule_independent`: look-ups depend only on
                                    the multiset of lines, so not on the schedule;
  * `returned_calls_are_written`,   a `Received` / `Sent` call that has returned has its
    `lookup_finds_returned_call`    line in the file (what the wait on `loggedCh` is for) and
                                    is found, whatever the other clients are doing;
  * `no_deadlock`, `steps_count`    a schedule that is not complete can be continued, and
                                    every complete schedule has exactly four steps per record.

  Tie T3 (bottom of the file): the shape of package log the model assumes, regenerated from
  the source on every run (`Generated/LogWriter.lean`), against `LogWriter.Expected`.
-/
import StsModel.Model.LogWriter
import StsModel.Props.C18
import StsModel.Generated.LogWriter

namespace Sts
namespace LogWriter
open Sts.LogFmt

/-! ## labelled lists and merges -/

section merge
variable {β : Type}

theorem proj_nil (i : Nat) : proj i ([] : List (Nat × β)) = [] := rfl

theorem proj_append (i : Nat) (a b : List (Nat × β)) : proj i (a ++ b) = proj i a ++ proj i b := by
  simp [proj]

theorem proj_cons_self (i : Nat) (x : β) (t : List (Nat × β)) : proj i ((i, x) :: t) = x :: proj i t := by
  simp [proj]

theorem proj_cons_ne (i j : Nat) (x : β) (t : List (Nat × β)) (h : j ≠ i) :
    proj i ((j, x) :: t) = proj i t := by
  simp [proj, h]

theorem mem_proj (i : Nat) (x : β) (tm : List (Nat × β)) : x ∈ proj i tm ↔ (i, x) ∈ tm := by
  simp only [proj, List.mem_map, List.mem_filter, beq_iff_eq]
  constructor
  · rintro ⟨e, ⟨he, rfl⟩, rfl⟩; exact he
  · intro h; exact ⟨(i, x), ⟨h, rfl⟩, rfl⟩

/-- removing the first element of one of the sequences removes it from the concatenation -/
theorem flatten_set_perm (cs : List (List β)) (i : Nat) (x : β) (rest : List β)
    (h : cs[i]? = some (x :: rest)) : cs.flatten.Perm (x :: (cs.set i rest).flatten) := by
  induction cs generalizing i with
  | nil => simp at h
  | cons c cs ih =>
    cases i with
    | zero =>
      simp only [List.getElem?_cons_zero, Option.some.injEq] at h
      subst h
      simp
    | succ i =>
      simp only [List.getElem?_cons_succ] at h
      simp only [List.flatten_cons, List.set_cons_succ]
      exact (List.Perm.append_left c (ih i h)).trans List.perm_middle

theorem getD_set_self (cs : List (List β)) (i : Nat) (rest c : List β) (h : cs[i]? = some c) :
    ((cs.set i rest)[i]?).getD [] = rest := by
  have hi : i < cs.length := by
    rcases Nat.lt_or_ge i cs.length with h' | h'
    · exact h'
    · rw [List.getElem?_eq_none h'] at h; cases h
  simp [List.getElem?_set_self hi]

theorem getD_set_ne (cs : List (List β)) (i j : Nat) (rest : List β) (h : i ≠ j) :
    ((cs.set i rest)[j]?).getD [] = (cs[j]?).getD [] := by
  rw [List.getElem?_set_ne h]

/-- a merge contains every element of every sequence exactly once (as multisets:
    `m` is a permutation of the concatenation of the sequences) -/
theorem IsMerge.perm {cs : List (List β)} {m : List β} (h : IsMerge cs m) : m.Perm cs.flatten := by
  obtain ⟨tm, rfl, hp⟩ := h
  induction tm generalizing cs with
  | nil =>
    have : ∀ c ∈ cs, c = [] := by
      intro c hc
      obtain ⟨i, hi⟩ := List.getElem?_of_mem hc
      have := hp i
      rw [hi] at this
      simpa [proj] using this.symm
    have hnil : cs.flatten = [] := by
      simp only [List.flatten_eq_nil_iff]
      exact this
    simp [hnil]
  | cons e tm ih =>
    obtain ⟨i, x⟩ := e
    have hi := hp i
    rw [proj_cons_self] at hi
    -- cs[i] starts with x
    have hci : cs[i]? = some (x :: proj i tm) := by
      cases hc : cs[i]? with
      | none => rw [hc] at hi; simp at hi
      | some c => rw [hc] at hi; simp only [Option.getD_some] at hi; rw [hi]
    have hp' : ∀ j, proj j tm = (((cs.set i (proj i tm))[j]?).getD []) := by
      intro j
      by_cases hj : i = j
      · subst hj; rw [getD_set_self cs i _ _ hci]
      · rw [getD_set_ne cs i j _ hj, ← hp j, proj_cons_ne j i x tm hj]
    have := ih hp'
    simp only [List.map_cons]
    exact (List.Perm.cons x this).trans (flatten_set_perm cs i x _ hci).symm

theorem IsMerge.length {cs : List (List β)} {m : List β} (h : IsMerge cs m) :
    m.length = cs.flatten.length := h.perm.length_eq

theorem IsMerge.mem_iff {cs : List (List β)} {m : List β} (h : IsMerge cs m) (x : β) :
    x ∈ m ↔ ∃ c ∈ cs, x ∈ c := by
  rw [h.perm.mem_iff, List.mem_flatten]

/-- every client's sequence is a sub-sequence of the merge (its records keep their order) -/
theorem IsMerge.sublist {cs : List (List β)} {m : List β} (h : IsMerge cs m) (i : Nat) (c : List β)
    (hc : cs[i]? = some c) : c.Sublist m := by
  obtain ⟨tm, rfl, hp⟩ := h
  have := hp i
  rw [hc] at this
  simp only [Option.getD_some] at this
  rw [← this, proj]
  exact List.Sublist.map _ List.filter_sublist

/-- one sequence: the only merge is the sequence itself -/
theorem IsMerge.single {c m : List β} (h : IsMerge [c] m) : m = c := by
  obtain ⟨tm, rfl, hp⟩ := h
  have h0 := hp 0
  simp only [List.getElem?_cons_zero, Option.getD_some] at h0
  rw [← h0, proj]
  have hall : ∀ e ∈ tm, e.1 = 0 := by
    intro e he
    rcases Nat.eq_zero_or_pos e.1 with h | h
    · exact h
    · have := hp e.1
      have hlen : ([c] : List (List β))[e.1]? = none := by
        apply List.getElem?_eq_none; simp; omega
      rw [hlen] at this
      have hm : e.2 ∈ proj e.1 tm := (mem_proj e.1 e.2 tm).2 he
      rw [this] at hm
      simp at hm
  rw [List.filter_eq_self.2]
  intro e he
  simp [hall e he]

end merge

/-! ## the invariant of the system -/

section system
variable {α : Type}

/-- the line of a labelled record as it stands in the directory -/
def lineOf (fmt : α → Str) (e : Int × α) : Int × Str := (e.1, fmt e.2)

/-- what the writer's position says about the record in flight (`infl`, labelled with its
    owner) and about the clients blocked in `<-f.loggedCh` -/
def WInv (fmt : α → Str) (s : State α) (infl : List (Nat × (Int × α))) : Prop :=
  match s.w with
  | .idle => infl = [] ∧ s.blocked = []
  | .got x => ∃ i e, infl = [(i, e)] ∧ x = lineOf fmt e ∧ s.blocked = [i]
  | .rotated x => ∃ i e, infl = [(i, e)] ∧ x = lineOf fmt e ∧ s.blocked = [i] ∧ s.path = some x.1
  | .logged => infl = [] ∧ ∃ i, s.blocked = [i]

/-- the invariant: the directory is the initial one followed by the lines of a labelled
    list `tm` (label = the client that handed the record in); for every client, what it has
    written, then what it has in flight, then what it has still to do is its sequence. -/
def Inv (fmt : α → Str) (cs : List (List (Int × α))) (st0 : Store) (s : State α) : Prop :=
  ∃ tm infl : List (Nat × (Int × α)),
    s.files = st0 ++ storeOfLines (tm.map (fun e => lineOf fmt e.2)) ∧
    (∀ i, proj i (tm ++ infl) ++ (s.todo[i]?).getD [] = (cs[i]?).getD []) ∧
    WInv fmt s infl

theorem inv_init (fmt : α → Str) (cs : List (List (Int × α))) (st0 : Store) :
    Inv fmt cs st0 (init cs st0) := by
  refine ⟨[], [], ?_, ?_, ?_⟩
  · simp [init, storeOfLines]
  · intro i; simp [init, proj]
  · simp [WInv, init]

theorem inv_step (fmt : α → Str) (cs : List (List (Int × α))) (st0 : Store) (s s' : State α) (t : Step)
    (hinv : Inv fmt cs st0 s) (hs : step fmt s t = some s') : Inv fmt cs st0 s' := by
  obtain ⟨tm, infl, hf, hp, hw⟩ := hinv
  obtain ⟨todo, blocked, w, path, files⟩ := s
  simp only at hf hp
  cases t with
  | hand i =>
    cases w with
    | idle =>
      simp only [WInv] at hw
      obtain ⟨rfl, rfl⟩ := hw
      cases htodo : todo[i]? with
      | none => simp [step, hand, htodo] at hs
      | some c =>
        cases c with
        | nil => simp [step, hand, htodo] at hs
        | cons e rest =>
          simp only [step, hand, htodo, List.contains_nil, Bool.false_eq_true, if_false,
            Option.some.injEq] at hs
          subst hs
          refine ⟨tm, [(i, e)], hf, ?_, ?_⟩
          · intro j
            by_cases hj : i = j
            · subst hj
              have := hp i
              simp only [htodo, Option.getD_some, List.append_nil] at this
              simp only [getD_set_self todo i rest _ htodo, proj_append, proj_cons_self, proj_nil,
                List.append_assoc, List.singleton_append]
              exact this
            · have := hp j
              simp only [List.append_nil] at this
              simp only [getD_set_ne todo i j rest hj, proj_append, proj_cons_ne j i e [] hj, proj_nil,
                List.append_nil]
              exact this
          · simp only [WInv]
            exact ⟨i, e, rfl, rfl, rfl⟩
    | got x => simp [step, hand] at hs
    | rotated x => simp [step, hand] at hs
    | logged => simp [step, hand] at hs
  | rotate =>
    cases w with
    | got x =>
      simp only [step, rotate, Option.some.injEq] at hs
      subst hs
      simp only [WInv] at hw
      obtain ⟨i, e, h1, h2, h3⟩ := hw
      exact ⟨tm, infl, hf, hp, by simp only [WInv]; exact ⟨i, e, h1, h2, h3, trivial⟩⟩
    | idle => simp [step, rotate] at hs
    | rotated x => simp [step, rotate] at hs
    | logged => simp [step, rotate] at hs
  | println =>
    cases w with
    | rotated x =>
      simp only [WInv] at hw
      obtain ⟨i, e, rfl, rfl, h3, h4⟩ := hw
      subst h3 h4
      simp only [step, println, Option.some.injEq] at hs
      subst hs
      refine ⟨tm ++ [(i, e)], [], ?_, ?_, ?_⟩
      · simp only [hf, logLine, List.map_append, storeOfLines, List.map_cons, List.map_nil,
          List.append_assoc, lineOf]
      · intro j
        have := hp j
        simpa using this
      · simp only [WInv]
        exact ⟨trivial, i, rfl⟩
    | idle => simp [step, println] at hs
    | got x => simp [step, println] at hs
    | logged => simp [step, println] at hs
  | ack i =>
    cases w with
    | logged =>
      simp only [WInv] at hw
      obtain ⟨rfl, j, rfl⟩ := hw
      by_cases hc : j = i
      · subst hc
        simp only [step, ack, List.contains_cons, BEq.rfl, Bool.true_or, if_true, Option.some.injEq] at hs
        subst hs
        refine ⟨tm, [], hf, hp, ?_⟩
        simp [WInv]
      · have : ([j] : List Nat).contains i = false := by
          simp only [List.contains_cons, List.contains_nil, Bool.or_false, beq_eq_false_iff_ne, ne_eq]
          exact fun h => hc h.symm
        simp only [step, ack, this] at hs
        cases hs
    | idle => simp [step, ack] at hs
    | got x => simp [step, ack] at hs
    | rotated x => simp [step, ack] at hs

theorem inv_run (fmt : α → Str) (cs : List (List (Int × α))) (st0 : Store) (sched : List Step)
    (s s' : State α) (hinv : Inv fmt cs st0 s) (hr : run fmt s sched = some s') : Inv fmt cs st0 s' := by
  induction sched generalizing s with
  | nil => simp only [run, Option.some.injEq] at hr; subst hr; exact hinv
  | cons t ts ih =>
    simp only [run] at hr
    split at hr
    · rename_i s1 hs1
      exact ih s1 (inv_step fmt cs st0 s s1 t hinv hs1) hr
    · cases hr

/-- the invariant holds at every moment of every schedule -/
theorem inv_reachable (fmt : α → Str) (cs : List (List (Int × α))) (st0 : Store) (sched : List Step)
    (s : State α) (hr : run fmt (init cs st0) sched = some s) : Inv fmt cs st0 s :=
  inv_run fmt cs st0 sched _ s (inv_init fmt cs st0) hr

end system

/-! ## (a) whole lines at every moment, (b) a merge at the end -/

section theorems
variable {α : Type}

theorem mem_of_mem_getD {β : Type} (cs : List (List β)) (i : Nat) (x : β) (h : x ∈ (cs[i]?).getD []) :
    ∃ c ∈ cs, x ∈ c := by
  cases hc : cs[i]? with
  | none => rw [hc] at h; simp at h
  | some c => rw [hc] at h; exact ⟨c, List.mem_of_getElem? hc, h⟩

theorem content_append (a b : Store) (d : Int) : content (a ++ b) d = content a d ++ content b d := by
  simp [content]

theorem storeOfLines_append (a b : List (Int × Str)) :
    storeOfLines (a ++ b) = storeOfLines a ++ storeOfLines b := by
  simp [storeOfLines]

/-- every labelled record that is in the file or in flight was handed in by the client it
    is labelled with -/
theorem inv_mem (cs : List (List (Int × α))) (tm : List (Nat × (Int × α))) (rest : List (List (Int × α)))
    (hp : ∀ i, proj i tm ++ (rest[i]?).getD [] = (cs[i]?).getD []) (e : Nat × (Int × α)) (he : e ∈ tm) :
    ∃ c ∈ cs, e.2 ∈ c := by
  apply mem_of_mem_getD cs e.1
  rw [← hp e.1]
  exact List.mem_append_left _ ((mem_proj e.1 e.2 tm).2 he)

theorem flatMap_lines (fmt : α → Str) (day : Int) (l : List (Int × α)) :
    ((((l.map (lineOf fmt)).filter (fun e => e.1 == day)).map (fun e => e.2)).flatMap
        (fun x => x ++ ['\n'])) =
      (l.filter (fun e => e.1 == day)).flatMap (fun e => fmt e.2 ++ ['\n']) := by
  induction l with
  | nil => rfl
  | cons e t ih =>
    simp only [List.map_cons, List.filter_cons, lineOf] at ih ⊢
    by_cases hd : e.1 = day
    · simp [hd, ih]
    · simp [hd, ih]

/-- **(a) whole_lines_always**: at every moment of every schedule (any number of clients,
    any records, any initial directory), the bytes of every day file are the bytes it had
    initially followed by whole lines `fmt e ++ "\n"` of records `e` that some client handed
    in for that day; no line is torn or mixed with another. -/
theorem whole_lines_always (fmt : α → Str) (cs : List (List (Int × α))) (st0 : Store)
    (sched : List Step) (s : State α) (hr : run fmt (init cs st0) sched = some s) (day : Int) :
    ∃ es : List (Int × α),
      (∀ e ∈ es, e.1 = day ∧ ∃ c ∈ cs, e ∈ c) ∧
      content s.files day = content st0 day ++ es.flatMap (fun e => fmt e.2 ++ ['\n']) := by
  obtain ⟨tm, infl, hf, hp, _⟩ := inv_reachable fmt cs st0 sched s hr
  refine ⟨(tm.map (fun e => e.2)).filter (fun e => e.1 == day), ?_, ?_⟩
  · intro e he
    simp only [List.mem_filter, List.mem_map, beq_iff_eq] at he
    obtain ⟨⟨e', he', rfl⟩, hd⟩ := he
    refine ⟨hd, ?_⟩
    have hp' : ∀ i, proj i tm ++ (proj i infl ++ (s.todo[i]?).getD []) = (cs[i]?).getD [] := by
      intro i; rw [← hp i, proj_append, List.append_assoc]
    obtain ⟨c, hc, hm⟩ := mem_of_mem_getD cs e'.1 e'.2 (by
      rw [← hp' e'.1]; exact List.mem_append_left _ ((mem_proj e'.1 e'.2 tm).2 he'))
    exact ⟨c, hc, hm⟩
  · rw [hf, content_append, content_storeOfLines]
    congr 1
    have : tm.map (fun e => lineOf fmt e.2) = (tm.map (fun e => e.2)).map (lineOf fmt) := by
      rw [List.map_map]; rfl
    rw [this]
    exact flatMap_lines fmt day _

theorem done_iff (s : State α) : done s = true ↔ s.w = .idle ∧ ∀ c ∈ s.todo, c = [] := by
  simp [done, List.all_eq_true, List.isEmpty_iff]

theorem getD_nil_of_all_nil {β : Type} (cs : List (List β)) (h : ∀ c ∈ cs, c = []) (i : Nat) :
    (cs[i]?).getD [] = [] := by
  cases hc : cs[i]? with
  | none => rfl
  | some c => exact h c (List.mem_of_getElem? hc)

/-- **(b) complete_schedule_merges**: after a complete schedule the directory is the
    initial directory followed by the lines of a merge `m` of the clients' sequences: every
    record handed in is there exactly once (`IsMerge.perm`), nothing else is, and the records
    of each client are in that client's order (`IsMerge` / `IsMerge.sublist`). -/
theorem complete_schedule_merges (fmt : α → Str) (cs : List (List (Int × α))) (st0 : Store)
    (sched : List Step) (s : State α) (hr : run fmt (init cs st0) sched = some s)
    (hd : done s = true) :
    ∃ m, IsMerge cs m ∧ s.files = st0 ++ storeOfLines (m.map (lineOf fmt)) := by
  obtain ⟨tm, infl, hf, hp, hw⟩ := inv_reachable fmt cs st0 sched s hr
  obtain ⟨hidle, hnil⟩ := (done_iff s).1 hd
  simp only [WInv, hidle] at hw
  obtain ⟨rfl, _⟩ := hw
  refine ⟨tm.map (fun e => e.2), ⟨tm, rfl, ?_⟩, ?_⟩
  · intro i
    have := hp i
    rw [getD_nil_of_all_nil s.todo hnil i] at this
    simpa using this
  · rw [hf, List.map_map]; rfl

/-- the multiset form of (b): the lines added are those of all records handed in, each once -/
theorem complete_schedule_all_once (fmt : α → Str) (cs : List (List (Int × α))) (st0 : Store)
    (sched : List Step) (s : State α) (hr : run fmt (init cs st0) sched = some s)
    (hd : done s = true) :
    ∃ m : List (Int × α), m.Perm cs.flatten ∧ s.files = st0 ++ storeOfLines (m.map (lineOf fmt)) ∧
      s.files.length = st0.length + cs.flatten.length := by
  obtain ⟨m, hm, hf⟩ := complete_schedule_merges fmt cs st0 sched s hr hd
  refine ⟨m, hm.perm, hf, ?_⟩
  rw [hf, List.length_append, storeOfLines, List.length_map, List.length_map, hm.length]

/-- **(c) store_is_sequential_log**: the directory after a complete schedule is the one the
    sequential logger of Model/LogFmt.lean (`logLine` after `logLine`) builds for a merge of
    the clients' sequences. -/
theorem store_is_sequential_log (fmt : α → Str) (cs : List (List (Int × α))) (st0 : Store)
    (sched : List Step) (s : State α) (hr : run fmt (init cs st0) sched = some s)
    (hd : done s = true) :
    ∃ m, IsMerge cs m ∧ s.files = m.foldl (fun st e => logLine st e.1 (fmt e.2)) st0 := by
  obtain ⟨m, hm, hf⟩ := complete_schedule_merges fmt cs st0 sched s hr hd
  refine ⟨m, hm, ?_⟩
  have := foldl_logLine st0 (m.map (lineOf fmt))
  rw [List.foldl_map] at this
  rw [hf, ← this]
  rfl

/-! ## a call that has returned has its line in the file -/

/-- at most one call is between its channel send and its return, and the writer is outside
    `range f.logCh` exactly while there is one -/
theorem one_call_in_flight (fmt : α → Str) (cs : List (List (Int × α))) (st0 : Store)
    (sched : List Step) (s : State α) (hr : run fmt (init cs st0) sched = some s) :
    s.blocked.length ≤ 1 ∧ (s.w = .idle ↔ s.blocked = []) := by
  obtain ⟨tm, infl, _, _, hw⟩ := inv_reachable fmt cs st0 sched s hr
  unfold WInv at hw
  split at hw
  · rename_i h; simp [h, hw.2]
  · rename_i x h; obtain ⟨i, e, _, _, hb⟩ := hw; simp [h, hb]
  · rename_i x h; obtain ⟨i, e, _, _, hb, _⟩ := hw; simp [h, hb]
  · rename_i h; obtain ⟨_, i, hb⟩ := hw; simp [h, hb]

/-- the record in flight belongs to the blocked client -/
theorem proj_infl_nil (fmt : α → Str) (s : State α) (infl : List (Nat × (Int × α))) (i : Nat)
    (hw : WInv fmt s infl) (hi : i ∉ s.blocked) : proj i infl = [] := by
  unfold WInv at hw
  split at hw
  · rw [hw.1]; rfl
  · obtain ⟨j, e, rfl, _, hb⟩ := hw
    rw [hb] at hi
    exact proj_cons_ne i j e [] (fun h => hi (by simp [h]))
  · obtain ⟨j, e, rfl, _, hb, _⟩ := hw
    rw [hb] at hi
    exact proj_cons_ne i j e [] (fun h => hi (by simp [h]))
  · rw [hw.1]; rfl

/-- **returned_calls_are_written**: at every moment, for a client that is not inside a
    call, the records it has handed in so far (its sequence minus what it has still to do)
    all stand in the directory as whole lines. `Received` / `Sent` return only after the
    line is in the file. -/
theorem returned_calls_are_written (fmt : α → Str) (cs : List (List (Int × α))) (st0 : Store)
    (sched : List Step) (s : State α) (hr : run fmt (init cs st0) sched = some s)
    (i : Nat) (hi : i ∉ s.blocked) :
    ∃ written : List (Int × α),
      written ++ (s.todo[i]?).getD [] = (cs[i]?).getD [] ∧
      ∀ e ∈ written, (e.1, fmt e.2 ++ ['\n']) ∈ s.files := by
  obtain ⟨tm, infl, hf, hp, hw⟩ := inv_reachable fmt cs st0 sched s hr
  have hinfl : proj i infl = [] := proj_infl_nil fmt s infl i hw hi
  refine ⟨proj i tm, ?_, ?_⟩
  · have := hp i
    rw [proj_append, hinfl, List.append_nil] at this
    exact this
  · intro e he
    rw [hf]
    apply List.mem_append_right
    simp only [storeOfLines, List.map_map, List.mem_map]
    exact ⟨(i, e), (mem_proj i e tm).1 he, rfl⟩

/-! ## no deadlock; every complete schedule has four steps per record -/

/-- **no_deadlock**: at every moment of every schedule, either everything is logged or some
    step is enabled. -/
theorem no_deadlock (fmt : α → Str) (cs : List (List (Int × α))) (st0 : Store)
    (s : State α) (hinv : Inv fmt cs st0 s) (hd : done s = false) :
    ∃ t s', step fmt s t = some s' := by
  obtain ⟨tm, infl, _, _, hw⟩ := hinv
  obtain ⟨todo, blocked, w, path, files⟩ := s
  cases w with
  | idle =>
    simp only [WInv] at hw
    obtain ⟨_, rfl⟩ := hw
    have : ∃ c ∈ todo, c ≠ [] := by
      apply Classical.byContradiction
      intro hno
      have hall : ∀ c ∈ todo, c = [] := by
        intro c hc
        apply Classical.byContradiction
        intro hne
        exact hno ⟨c, hc, hne⟩
      have : done { todo := todo, blocked := [], w := WPc.idle, path := path, files := files } = true :=
        (done_iff _).2 ⟨rfl, hall⟩
      rw [this] at hd
      cases hd
    obtain ⟨c, hc, hne⟩ := this
    obtain ⟨i, hi⟩ := List.getElem?_of_mem hc
    cases c with
    | nil => exact absurd rfl hne
    | cons e rest =>
      exact ⟨.hand i, _, by simp only [step, hand, hi, List.contains_nil, Bool.false_eq_true, if_false]; rfl⟩
  | got x => exact ⟨.rotate, _, by simp only [step, rotate]; rfl⟩
  | rotated x =>
    simp only [WInv] at hw
    obtain ⟨i, e, _, _, _, hpath⟩ := hw
    subst hpath
    exact ⟨.println, _, by simp only [step, println]; rfl⟩
  | logged =>
    simp only [WInv] at hw
    obtain ⟨_, i, hb⟩ := hw
    subst hb
    exact ⟨.ack i, _, by simp only [step, ack, List.contains_cons, BEq.rfl, Bool.true_or, if_true]; rfl⟩

theorem measure_step (fmt : α → Str) (s s' : State α) (t : Step) (hs : step fmt s t = some s') :
    measure s = measure s' + 1 := by
  obtain ⟨todo, blocked, w, path, files⟩ := s
  cases t with
  | hand i =>
    cases w with
    | idle =>
      cases htodo : todo[i]? with
      | none => simp [step, hand, htodo] at hs
      | some c =>
        cases c with
        | nil => simp [step, hand, htodo] at hs
        | cons e rest =>
          simp only [step, hand, htodo] at hs
          split at hs
          · cases hs
          · simp only [Option.some.injEq] at hs
            subst hs
            have := (flatten_set_perm todo i e rest htodo).length_eq
            simp only [List.length_cons] at this
            simp only [measure, WPc.rank, this]
            omega
    | got x => simp [step, hand] at hs
    | rotated x => simp [step, hand] at hs
    | logged => simp [step, hand] at hs
  | rotate =>
    cases w <;> simp [step, rotate] at hs
    subst hs; simp [measure, WPc.rank]
  | println =>
    cases w <;> cases path <;> simp [step, println] at hs
    subst hs; simp [measure, WPc.rank]
  | ack i =>
    cases w <;> simp [step, ack] at hs
    obtain ⟨_, rfl⟩ := hs; simp [measure, WPc.rank]

/-- **steps_count**: every schedule consumes exactly its length of the measure; hence no
    schedule is longer than four steps per record and no infinite schedule exists. -/
theorem steps_count (fmt : α → Str) (s s' : State α) (sched : List Step)
    (hr : run fmt s sched = some s') : measure s = measure s' + sched.length := by
  induction sched generalizing s with
  | nil => simp only [run, Option.some.injEq] at hr; subst hr; simp
  | cons t ts ih =>
    simp only [run] at hr
    split at hr
    · rename_i s1 hs1
      have := measure_step fmt s s1 t hs1
      have := ih s1 hr
      simp only [List.length_cons]
      omega
    · cases hr

/-- a complete schedule has exactly four steps per record handed in -/
theorem complete_schedule_length (fmt : α → Str) (cs : List (List (Int × α))) (st0 : Store)
    (sched : List Step) (s : State α) (hr : run fmt (init cs st0) sched = some s)
    (hd : done s = true) : sched.length = 4 * cs.flatten.length := by
  have h := steps_count fmt _ _ sched hr
  obtain ⟨hidle, hnil⟩ := (done_iff s).1 hd
  have hflat : s.todo.flatten = [] := by
    simp only [List.flatten_eq_nil_iff]; exact hnil
  simp only [measure, init, WPc.rank, hidle, hflat, List.length_nil] at h
  omega

theorem run_append (fmt : α → Str) (s : State α) (a b : List Step) :
    run fmt s (a ++ b) = (run fmt s a).bind (fun s1 => run fmt s1 b) := by
  induction a generalizing s with
  | nil => rfl
  | cons t ts ih =>
    simp only [List.cons_append, run]
    split
    · exact ih _
    · rfl

/-- **complete_schedule_exists**: every reachable moment can be continued to a complete
    schedule (so the statements about complete schedules are not vacuous, for any input). -/
theorem complete_schedule_exists (fmt : α → Str) (cs : List (List (Int × α))) (st0 : Store)
    (s : State α) (hinv : Inv fmt cs st0 s) :
    ∃ sched s', run fmt s sched = some s' ∧ done s' = true := by
  generalize hn : measure s = n
  induction n generalizing s with
  | zero =>
    cases hd : done s with
    | true => exact ⟨[], s, rfl, hd⟩
    | false =>
      obtain ⟨t, s1, hs1⟩ := no_deadlock fmt cs st0 s hinv hd
      have := measure_step fmt s s1 t hs1
      omega
  | succ n ih =>
    cases hd : done s with
    | true => exact ⟨[], s, rfl, hd⟩
    | false =>
      obtain ⟨t, s1, hs1⟩ := no_deadlock fmt cs st0 s hinv hd
      have hm := measure_step fmt s s1 t hs1
      obtain ⟨sched, s', hr, hd'⟩ := ih s1 (inv_step fmt cs st0 s s1 t hinv hs1) (by omega)
      exact ⟨t :: sched, s', by simp only [run, hs1]; exact hr, hd'⟩

end theorems

/-! ## (c) the look-ups of Model/LogFmt.lean on the directory a schedule leaves -/

section lookups

theorem perm_flatMap_left {β γ : Type} (l : List β) (f g : β → List γ)
    (h : ∀ a ∈ l, (f a).Perm (g a)) : (l.flatMap f).Perm (l.flatMap g) := by
  induction l with
  | nil => simp
  | cons a t ih =>
    simp only [List.flatMap_cons]
    exact (h a (by simp)).append (ih (fun b hb => h b (by simp [hb])))

/-- the receive-log directory after any complete schedule of concurrent `Received` calls,
    started on the directory of an earlier history `h0`, is `recvStore` of `h0` followed by a
    merge of the clients' records: exactly the shape the theorems of Props/C18 are about. -/
theorem recv_store_is_recvStore (cs : List (List (Int × Rec))) (h0 : List (Int × Rec))
    (sched : List Step) (s : State Rec)
    (hr : run fmtReceived (init cs (recvStore h0)) sched = some s) (hd : done s = true) :
    ∃ m, IsMerge cs m ∧ s.files = recvStore (h0 ++ m) := by
  obtain ⟨m, hm, hf⟩ := complete_schedule_merges fmtReceived cs (recvStore h0) sched s hr hd
  refine ⟨m, hm, ?_⟩
  rw [hf]
  simp only [recvStore, List.map_append, storeOfLines_append]
  rfl

theorem sent_store_is_sentStore (cs : List (List (Int × SentRec))) (h0 : List (Int × SentRec))
    (sched : List Step) (s : State SentRec)
    (hr : run fmtSent (init cs (sentStore h0)) sched = some s) (hd : done s = true) :
    ∃ m, IsMerge cs m ∧ s.files = sentStore (h0 ++ m) := by
  obtain ⟨m, hm, hf⟩ := complete_schedule_merges fmtSent cs (sentStore h0) sched s hr hd
  refine ⟨m, hm, ?_⟩
  rw [hf]
  simp only [sentStore, List.map_append, storeOfLines_append]
  rfl

/-- **C18_concurrent_lookup_exact_received**: k goroutines call `Received` concurrently, each
    for its own sequence of well-formed records, on a log that holds the history `h0`; after
    ANY complete schedule `WasReceived` answers yes iff a record with exactly that name (and
    hash, if given) is in `h0` or was handed in by some client, for a day the window visits.
    The right-hand side does not mention the schedule. -/
theorem C18_concurrent_lookup_exact_received (cs : List (List (Int × Rec))) (h0 : List (Int × Rec))
    (hc0 : ∀ e ∈ h0, e.2.Clean) (hc : ∀ c ∈ cs, ∀ e ∈ c, e.2.Clean)
    (sched : List Step) (s : State Rec)
    (hr : run fmtReceived (init cs (recvStore h0)) sched = some s) (hd : done s = true)
    (name hash : Str) (hn : ':' ∉ name) (start stop : Int) :
    wasReceived s.files name hash start stop = true ↔
      ∃ d ∈ visitedDays start stop, ∃ r, ((d, r) ∈ h0 ∨ ∃ c ∈ cs, (d, r) ∈ c) ∧
        r.name = name ∧ (hash = [] ∨ r.hash = hash) := by
  obtain ⟨m, hm, hf⟩ := recv_store_is_recvStore cs h0 sched s hr hd
  have hcm : ∀ e ∈ h0 ++ m, e.2.Clean := by
    intro e he
    rcases List.mem_append.1 he with h | h
    · exact hc0 e h
    · obtain ⟨c, hcc, hec⟩ := (hm.mem_iff e).1 h
      exact hc c hcc e hec
  rw [hf, C18_lookup_exact_received (h0 ++ m) hcm name hash hn start stop]
  constructor
  · rintro ⟨d, hd', r, hmem, hrest⟩
    refine ⟨d, hd', r, ?_, hrest⟩
    rcases List.mem_append.1 hmem with h | h
    · exact Or.inl h
    · exact Or.inr ((hm.mem_iff _).1 h)
  · rintro ⟨d, hd', r, hmem, hrest⟩
    refine ⟨d, hd', r, ?_, hrest⟩
    rcases hmem with h | h
    · exact List.mem_append_left _ h
    · exact List.mem_append_right _ ((hm.mem_iff _).2 h)

/-- the same for concurrent `Sent` calls and `WasSent`. -/
theorem C18_concurrent_lookup_exact_sent (cs : List (List (Int × SentRec))) (h0 : List (Int × SentRec))
    (hc0 : ∀ e ∈ h0, e.2.Clean) (hc : ∀ c ∈ cs, ∀ e ∈ c, e.2.Clean)
    (sched : List Step) (s : State SentRec)
    (hr : run fmtSent (init cs (sentStore h0)) sched = some s) (hd : done s = true)
    (name hash : Str) (hn : ':' ∉ name) (start stop : Int) :
    wasSent s.files name hash start stop = true ↔
      ∃ d ∈ visitedDays start stop, ∃ r, ((d, r) ∈ h0 ∨ ∃ c ∈ cs, (d, r) ∈ c) ∧
        r.name = name ∧ (hash = [] ∨ r.hash = hash) := by
  obtain ⟨m, hm, hf⟩ := sent_store_is_sentStore cs h0 sched s hr hd
  have hcm : ∀ e ∈ h0 ++ m, e.2.Clean := by
    intro e he
    rcases List.mem_append.1 he with h | h
    · exact hc0 e h
    · obtain ⟨c, hcc, hec⟩ := (hm.mem_iff e).1 h
      exact hc c hcc e hec
  rw [hf, C18_lookup_exact_sent (h0 ++ m) hcm name hash hn start stop]
  constructor
  · rintro ⟨d, hd', r, hmem, hrest⟩
    refine ⟨d, hd', r, ?_, hrest⟩
    rcases List.mem_append.1 hmem with h | h
    · exact Or.inl h
    · exact Or.inr ((hm.mem_iff _).1 h)
  · rintro ⟨d, hd', r, hmem, hrest⟩
    refine ⟨d, hd', r, ?_, hrest⟩
    rcases hmem with h | h
    · exact List.mem_append_left _ h
    · exact List.mem_append_right _ ((hm.mem_iff _).2 h)

/-- `Parse` after any complete schedule of concurrent `Received` calls hands over exactly
    the records of the visited days, as a multiset (per day file: a merge of the clients'
    records of that day). -/
theorem C18_concurrent_parse_replays (cs : List (List (Int × Rec))) (h0 : List (Int × Rec))
    (hc0 : ∀ e ∈ h0, e.2.Clean) (hc : ∀ c ∈ cs, ∀ e ∈ c, e.2.Clean)
    (sched : List Step) (s : State Rec)
    (hr : run fmtReceived (init cs (recvStore h0)) sched = some s) (hd : done s = true)
    (start stop : Int) :
    (parseLog s.files start stop).Perm
      ((visitedDays start stop).flatMap (fun d =>
        ((h0 ++ cs.flatten).filter (fun e => e.1 == d)).map (fun e => e.2))) := by
  obtain ⟨m, hm, hf⟩ := recv_store_is_recvStore cs h0 sched s hr hd
  have hcm : ∀ e ∈ h0 ++ m, e.2.Clean := by
    intro e he
    rcases List.mem_append.1 he with h | h
    · exact hc0 e h
    · obtain ⟨c, hcc, hec⟩ := (hm.mem_iff e).1 h
      exact hc c hcc e hec
  rw [hf, parse_replays_history (h0 ++ m) hcm start stop]
  apply perm_flatMap_left
  intro d _
  exact ((List.Perm.append_left h0 hm.perm).filter _).map _

/-- **lookup_finds_returned_call**: at every moment of every schedule (other clients may be
    in the middle of their calls), a record of a `Received` call that has returned is found
    by `WasReceived` for its name (and hash) over every window that visits its day. -/
theorem lookup_finds_returned_call (cs : List (List (Int × Rec))) (h0 : List (Int × Rec))
    (hc0 : ∀ e ∈ h0, e.2.Clean) (hc : ∀ c ∈ cs, ∀ e ∈ c, e.2.Clean)
    (sched : List Step) (s : State Rec)
    (hr : run fmtReceived (init cs (recvStore h0)) sched = some s)
    (i : Nat) (hi : i ∉ s.blocked) (returned : List (Int × Rec))
    (hret : returned ++ (s.todo[i]?).getD [] = (cs[i]?).getD [])
    (d : Int) (r : Rec) (hmem : (d, r) ∈ returned)
    (name hash : Str) (hn : ':' ∉ name) (start stop : Int) (hd : d ∈ visitedDays start stop)
    (hname : r.name = name) (hhash : hash = [] ∨ r.hash = hash) :
    wasReceived s.files name hash start stop = true := by
  obtain ⟨tm, infl, hf, hp, hw⟩ := inv_reachable fmtReceived cs (recvStore h0) sched s hr
  have hinfl : proj i infl = [] := proj_infl_nil fmtReceived s infl i hw hi
  have hpi := hp i
  rw [proj_append, hinfl, List.append_nil, ← hret] at hpi
  have hproj : proj i tm = returned := List.append_cancel_right hpi
  have hp' : ∀ j, proj j tm ++ (proj j infl ++ (s.todo[j]?).getD []) = (cs[j]?).getD [] := by
    intro j; rw [← hp j, proj_append, List.append_assoc]
  have hfiles : s.files = recvStore (h0 ++ tm.map (fun e => e.2)) := by
    rw [hf]
    simp only [recvStore, List.map_append, storeOfLines_append, List.map_map]
    rfl
  have hcm : ∀ e ∈ h0 ++ tm.map (fun e => e.2), e.2.Clean := by
    intro e he
    rcases List.mem_append.1 he with h | h
    · exact hc0 e h
    · simp only [List.mem_map] at h
      obtain ⟨e', he', rfl⟩ := h
      obtain ⟨c, hcc, hec⟩ := mem_of_mem_getD cs e'.1 e'.2 (by
        rw [← hp' e'.1]; exact List.mem_append_left _ ((mem_proj e'.1 e'.2 tm).2 he'))
      exact hc c hcc _ hec
  rw [hfiles]
  apply (C18_lookup_exact_received _ hcm name hash hn start stop).2
  refine ⟨d, hd, r, ?_, hname, hhash⟩
  apply List.mem_append_right
  simp only [List.mem_map]
  exact ⟨(i, (d, r)), (mem_proj i (d, r) tm).1 (by rw [hproj]; exact hmem), rfl⟩

/-! ### look-ups depend only on the multiset of lines of each day -/

/-- a permutation of the history permutes the lines of every day file -/
theorem fileLines_perm (h1 h2 : List (Int × Str)) (hp : h1.Perm h2) (hnl : ∀ e ∈ h1, '\n' ∉ e.2)
    (d : Int) : (fileLines (storeOfLines h1) d).Perm (fileLines (storeOfLines h2) d) := by
  rw [fileLines_storeOfLines h1 d hnl,
    fileLines_storeOfLines h2 d (fun e he => hnl e (hp.mem_iff.2 he))]
  exact ((hp.filter _).map _).map _

/-- **search_perm**: `wasWritten` (hence `WasReceived` and `WasSent`), for ANY lines without
    a newline (well-formed records or not), any name, hash, hash position and window, gives
    the same answer on two directories whose histories are permutations of each other. -/
theorem search_perm (h1 h2 : List (Int × Str)) (hp : h1.Perm h2) (hnl : ∀ e ∈ h1, '\n' ∉ e.2)
    (name hash : Str) (idx : Nat) (start stop : Int) :
    search (storeOfLines h1) name hash idx start stop = search (storeOfLines h2) name hash idx start stop := by
  unfold search anyLine
  congr 1
  funext d
  exact (fileLines_perm h1 h2 hp hnl d).any_eq

/-- `Parse` hands over the same records, as a multiset. -/
theorem parseLog_perm (h1 h2 : List (Int × Str)) (hp : h1.Perm h2) (hnl : ∀ e ∈ h1, '\n' ∉ e.2)
    (start stop : Int) :
    (parseLog (storeOfLines h1) start stop).Perm (parseLog (storeOfLines h2) start stop) := by
  unfold parseLog allLines
  apply List.Perm.filterMap
  apply perm_flatMap_left
  intro d _
  exact fileLines_perm h1 h2 hp hnl d

/-- **lookup_schedule_independent**: two complete schedules of the same clients on the same
    initial log (any lines without newline) give directories on which every look-up answers
    the same: the answers do not depend on the interleaving. -/
theorem lookup_schedule_independent {α : Type} (fmt : α → Str) (cs : List (List (Int × α)))
    (h0 : List (Int × Str)) (hnl0 : ∀ e ∈ h0, '\n' ∉ e.2) (hnl : ∀ c ∈ cs, ∀ e ∈ c, '\n' ∉ fmt e.2)
    (sched1 sched2 : List Step) (s1 s2 : State α)
    (hr1 : run fmt (init cs (storeOfLines h0)) sched1 = some s1) (hd1 : done s1 = true)
    (hr2 : run fmt (init cs (storeOfLines h0)) sched2 = some s2) (hd2 : done s2 = true)
    (name hash : Str) (idx : Nat) (start stop : Int) :
    search s1.files name hash idx start stop = search s2.files name hash idx start stop ∧
    (parseLog s1.files start stop).Perm (parseLog s2.files start stop) := by
  obtain ⟨m1, hm1, hf1⟩ := complete_schedule_merges fmt cs _ sched1 s1 hr1 hd1
  obtain ⟨m2, hm2, hf2⟩ := complete_schedule_merges fmt cs _ sched2 s2 hr2 hd2
  rw [hf1, hf2, ← storeOfLines_append, ← storeOfLines_append]
  have hp : (h0 ++ m1.map (lineOf fmt)).Perm (h0 ++ m2.map (lineOf fmt)) :=
    List.Perm.append_left h0 ((hm1.perm.trans hm2.perm.symm).map _)
  have hnl1 : ∀ e ∈ h0 ++ m1.map (lineOf fmt), '\n' ∉ e.2 := by
    intro e he
    rcases List.mem_append.1 he with h | h
    · exact hnl0 e h
    · simp only [List.mem_map] at h
      obtain ⟨e', he', rfl⟩ := h
      obtain ⟨c, hcc, hec⟩ := (hm1.mem_iff e').1 he'
      exact hnl c hcc e' hec
  exact ⟨search_perm _ _ hp hnl1 name hash idx start stop, parseLog_perm _ _ hp hnl1 start stop⟩

end lookups

/-! ## non-vacuity: two writers, two lines each, a specific interleaving -/

section examples

def exA : List (Int × Str) := [(0, "a1".toList), (1, "a2".toList)]
def exB : List (Int × Str) := [(0, "b1".toList), (0, "b2".toList)]

/-- B, A, B, A with the writer's steps in between -/
def exSched : List Step :=
  [.hand 1, .rotate, .println, .ack 1, .hand 0, .rotate, .println, .ack 0,
   .hand 1, .rotate, .println, .ack 1, .hand 0, .rotate, .println, .ack 0]

/-- the schedule is enabled step by step, complete, and leaves the merge b1 a1 b2 | a2 -/
example : (run id (init [exA, exB] []) exSched).map (fun s => (done s, s.files, s.blocked, s.path)) =
    some (true, [(0, "b1\n".toList), (0, "a1\n".toList), (0, "b2\n".toList), (1, "a2\n".toList)], [], some 1) := by
  decide

/-- it is a merge in the sense of `IsMerge` (labels 1 0 1 0) -/
example : IsMerge [exA, exB] [(0, "b1".toList), (0, "a1".toList), (0, "b2".toList), (1, "a2".toList)] :=
  ⟨[(1, (0, "b1".toList)), (0, (0, "a1".toList)), (1, (0, "b2".toList)), (0, (1, "a2".toList))], rfl, by
    intro i
    match i with
    | 0 => decide
    | 1 => decide
    | i + 2 => simp [proj, exA, exB]⟩

/-- a second client cannot hand a line over while the writer is busy, nor the same client twice -/
example : run id (init [exA, exB] []) [.hand 1, .hand 0] = none ∧
    run id (init [exA, exB] []) [.hand 1, .rotate, .println, .hand 1] = none ∧
    run id (init [exA, exB] []) [.hand 1, .rotate, .println, .ack 0] = none ∧
    run id (init [exA, exB] []) [.hand 2] = none := by decide

/-- in the middle of the schedule (B's second call in flight) the day file holds whole lines only -/
example : (run (α := Str) id (init [exA, exB] []) (exSched.take 10)).map (fun s => ((content s.files 0, s.blocked), s.todo)) =
    some (("b1\na1\n".toList, [1]), [[(1, "a2".toList)], []]) := by decide

/-- hypotheses of `C18_concurrent_lookup_exact_received` are satisfiable: two clients log the
    records of `hist1` of Props/C18 concurrently; the look-ups find them -/
def exRecs : List (List (Int × Rec)) := [[hist1[0], hist1[1]], [hist1[2], hist1[3]]]

example : (run fmtReceived (init exRecs (recvStore hist2)) exSched).map
    (fun s => (done s, wasReceived s.files "d/f1".toList "cc33".toList 0 10,
      wasReceived s.files "d/f1".toList "aa11".toList 0 10,
      wasReceived s.files "d/f10.nc".toList "aa11".toList 0 10)) = some (true, true, false, true) := by
  decide

end examples

/-! ## what goes wrong with a broken writer -/

section broken

/-- `appendWrite` is concatenation: with `O_APPEND` a `Write` never overwrites anything. -/
theorem appendWrite_eq (content data : Str) : appendWrite content data = content ++ data := by
  simp [appendWrite, writeAt]

/-- **no_append_loses_record**: two loggers on one directory (a restart, or a second `NewFileIO`);
    without `O_APPEND` the second handle starts at offset 0 and overwrites the first record;
    with it both lines are there. This is why the obligation `open_flags_append` is needed. -/
theorem no_append_loses_record :
    twoHandles false "d/f1:aa11:1:100:".toList "d/f2:bb22:1:101:".toList = "d/f2:bb22:1:101:\n".toList ∧
    twoHandles true "d/f1:aa11:1:100:".toList "d/f2:bb22:1:101:".toList
      = "d/f1:aa11:1:100:\nd/f2:bb22:1:101:\n".toList := by decide

/-- without append mode even a shorter second record damages the first one -/
example : scanLines (twoHandles false "d/f1:aa11:1:100:".toList "x:h:1:1:".toList)
    = ["x:h:1:1:".toList, ":1:100:".toList] := by decide

def tornRecs : List (List Str) :=
  [[fmtReceived ⟨"d/f1".toList, [], "aa11".toList, 5, 100⟩], [fmtReceived ⟨"a".toList, [], "bb22".toList, 7, 101⟩]]

/-- **direct_split_writes_tear**: if the clients (or two logger instances on one directory,
    each with its own goroutine) wrote to the file themselves, the line and the newline in
    two `Write` calls, the schedule line 0, line 1, nl 0, nl 1 is enabled and
    leaves one line that is the two records glued together (and an empty line); a look-up
    for the second record with its hash then answers no although it was logged. -/
theorem direct_split_writes_tear :
    (tornRun ⟨tornRecs, [], []⟩ [.line 0, .line 1, .nl 0, .nl 1]).map
      (fun s => (s.todo, scanLines s.content,
        wasReceived [(0, s.content)] "a".toList "bb22".toList 0 10,
        wasReceived [(0, s.content)] "d/f1".toList "aa11".toList 0 10)) =
    some ([[], []], ["d/f1::aa11:5:100:a::bb22:7:101:".toList, []], false, true) := by decide

/-- the same clients through the writer goroutine: both are found, whatever the schedule
    (here the one that hands over client 1 first) -/
example : (run id (init [[(0, tornRecs[0][0])], [(0, tornRecs[1][0])]] [])
      [.hand 1, .rotate, .println, .ack 1, .hand 0, .rotate, .println, .ack 0]).map
      (fun s => (wasReceived s.files "a".toList "bb22".toList 0 10,
        wasReceived s.files "d/f1".toList "aa11".toList 0 10)) = some (true, true) := by decide

end broken

/-! ## Tie T3: the shape of package log the model assumes (regenerated on every run) -/

section t3

/-- the only channels: `logCh` and `loggedCh` of `FileIO`, both unbuffered (a send is a
    rendezvous with the writer: `hand`, `ack`), and the buffered channel of `General`. -/
theorem channels_match : Generated.chanMakes = Expected.chanMakes := by decide

/-- `Sent` and `Received` send on `logCh` and then receive from `loggedCh`; the only receiver
    of `logCh` is the goroutine's `range`, the only sender on `loggedCh` is that goroutine;
    no channel is closed. -/
theorem chan_ops_match : Generated.chanOps = Expected.chanOps := by decide

/-- one goroutine per `NewFileIO` (and one per `NewGeneral`), nothing else is started. -/
theorem go_stmts_match : Generated.goStmts = Expected.goStmts := by decide

/-- each `FileIO` creates its own `rollingFile`, with empty prefix and flags 0 (the line
    printed is the message itself). -/
theorem rolling_files_match : Generated.rollingFiles = Expected.rollingFiles := by decide

/-- **single_writer**: `rollingFile.log` is called from the two goroutine bodies only;
    `Sent` / `Received` / `wasWritten` / `Parse` never call it (they use the channel, or
    `eachLine`, which only reads); `Println` is called in `rollingFile.log` only, on the
    whole message. -/
theorem logger_calls_match : Generated.loggerCalls = Expected.loggerCalls := by decide

/-- the file handle is assigned by `rf.open` in `rotate`, given to `SetOutput`, synced and
    closed; nobody writes through it directly or passes it on. -/
theorem fh_uses_match : Generated.fhUses = Expected.fhUses := by decide

/-- **one_write_per_record**: `rollingFile.log` is `rotate`, one `Println`, optional `Sync`. -/
theorem log_body_matches : Generated.logBody = Expected.logBody := by decide

theorem rotate_callers_match : Generated.rotateCallers = Expected.rotateCallers := by decide

/-- what travels on `logCh` is one `fmt.Sprintf` of the record, with the formats that
    `fmtSent` / `fmtReceived` of Model/LogFmt.lean model. -/
theorem line_sends_match : Generated.lineSends = Expected.lineSends := by decide

/-- files are opened in `rotate` (for writing) and in `eachLine` (`os.Open`, read only). -/
theorem open_sites_match : Generated.openSites = Expected.openSites := by decide

/-- **open_flags_append**: every opening other than the read-only `os.Open` has `O_APPEND`,
    `O_CREATE`, `O_RDWR` or `O_WRONLY`, and no `O_TRUNC` (`logLine` appends; `twoHandles`
    shows what is lost otherwise), and there is one. -/
theorem open_flags_append :
    (Generated.openFlags.filter (fun e => e.2.1 != "os.Open")).all (fun e => Expected.goodWriteFlags e.2.2) = true ∧
    (Generated.openFlags.filter (fun e => e.2.1 != "os.Open")).length = 1 := by decide

/-- nothing else in the package writes to a file by name. -/
theorem other_writes_match : Generated.otherWrites = Expected.otherWrites := by decide

/-- the flag predicate is not vacuous: it rejects the flags without `O_APPEND` and with `O_TRUNC` -/
example : Expected.goodWriteFlags ["os.O_RDWR", "os.O_CREATE"] = false ∧
    Expected.goodWriteFlags ["os.O_WRONLY", "os.O_APPEND", "os.O_CREATE", "os.O_TRUNC"] = false ∧
    Expected.goodWriteFlags ["os.O_CREATE", "os.O_WRONLY", "os.O_APPEND"] = true := by decide

end t3

end LogWriter
end Sts
