/-
  C16 — one-shot and graceful stops finish the work; every stop terminates.

  The statements are about the Pipeline model (Model/Pipeline.lean): `client.Broker.Start`
  restricted to its choreography. Helper lemmas: Lemmas/PipelineInv*.lean (invariants),
  PipelineLive.lean (deadlock freedom), PipelineMeasure.lean (ranking function),
  PipelineDrain.lean (state at a graceful return).

  Proved for all thread counts ≥ 1, all numbers of files, all fault budgets, all
  interleavings of the model's atomic actions and every moment of the stop request:

  * tie T3 — the facts regenerated from client.go equal what the model assumes
    (`sends_are_guarded`, `chan_ops_match`, `close_order_matches`, `capacities_match`,
    `stage_starts_match`, `exits_match`, `stop_checks_match`);
  * `front_token_moves` — no deadlock after a stop request (full for the repaired tracker;
    `front_token_moves_partial` for the code before the two repairs needs `TrackOk`:
    `orphan_blocks_graceful_stop` (finding S14) and `late_forward_blocks_graceful_stop`
    (finding S14b, found by the end-to-end runs) show what happens without it);
  * `stop_terminates`, `no_infinite_run_after_stop` — a lexicographic ranking function;
  * `immediate_stop_measure` — after an immediate stop no new fault can start and the
    budget-free part of the measure decreases; the stronger claim of DESIGN.md (the measure is
    only "stages alive, position of Start") does not hold for the code: `startQueue` keeps
    popping (`immediate_queue_still_pops`);
  * `graceful_drains`, `graceful_all_done_partial` — what is guaranteed at a graceful return,
    with the exceptions named: files withheld by `last-delay` (`last_delay_leaves_file`,
    finding S13), files with a negative verdict (`negative_verdict_left_undone`), files that
    changed, a failed `recover()`;
  * `no_send_on_closed`, `channels_bounded` — `Start` closes a channel only after every
    goroutine that sends on it returned; the buffers never exceed their capacities.

  Not exhibited by the model (runtime): fairness of the Go scheduler and of `select`, the
  one-second graces of `sendCh` / `recvCh` / `startBin` / `startTrack` (they only bound how
  long an enabled abort takes), blocking inside `Transmitter` / `Validator` calls.
-/
import StsModel.Lemmas.PipelineLive
import StsModel.Lemmas.PipelineDrain
import StsModel.Lemmas.PipelineMeasure
import StsModel.Lemmas.PipelineMisc
import StsModel.Model.PipelineExpect
import StsModel.Generated.Sends

namespace Sts.Pipeline

/-! ## Tie T3: the regenerated facts are what the model assumes (finite tables, `decide`) -/

set_option maxRecDepth 100000 in
/-- Every unconditional (`ch <- x`) send of client.go is on the allow-list. -/
theorem sends_are_guarded : bareSendsOf Generated.chanOps = allowedBareSends := by decide

set_option maxRecDepth 100000 in
/-- Every channel operation of client.go has the channel and the form the model assumes. -/
theorem chan_ops_match : Generated.chanOps = expectedChanOps := by decide

/-- `Start` waits and closes in the order the model interprets. -/
theorem close_order_matches : Generated.startSequence = startSequence := by decide

set_option maxRecDepth 100000 in
/-- The `make(chan …)` capacities are the ones of the model … -/
theorem capacities_match : Generated.capacities = capacityTable := by decide

/-- … namely one batch for `chScanned` and `2·Threads` for the other buffered channels. -/
theorem capacities_eval (s : State) :
    (capacityTable.lookup "chScanned").bind (evalCap s.cfg.threads) = some 1 ∧
    ∀ ch ∈ ["chQueued", "chRetry", "chTransmit", "chTransmitted", "chStats", "chValidate"],
      (capacityTable.lookup ch).bind (evalCap s.cfg.threads) = some (cap s) := by
  refine ⟨by simp [capacityTable, List.lookup, evalCap], ?_⟩
  intro ch hch
  simp only [List.mem_cons, List.not_mem_nil, or_false] at hch
  rcases hch with rfl | rfl | rfl | rfl | rfl | rfl <;> simp [capacityTable, List.lookup, evalCap, cap]

set_option maxRecDepth 100000 in
theorem stage_starts_match : Generated.stageStarts = expectedStageStarts := by decide

set_option maxRecDepth 100000 in
/-- Every `return` / `break` of the choreography functions sits under the conditions the model assumes. -/
theorem exits_match : Generated.exits = expectedExits := by decide

/-- The stop flags are published before the stop is broadcast to the scanner. -/
theorem stop_flags_before_broadcast : Generated.stopGoroutine = expectedStopGoroutine := by decide

set_option maxRecDepth 100000 in
theorem stop_checks_match : Generated.stopChecks = expectedStopChecks := by decide

/-! ## Reachability helpers -/

theorem reachable_run {s s' : State} (h : Reachable s) :
    ∀ (as : List Action), runActions s as = some s' → Reachable s' := by
  intro as
  induction as generalizing s with
  | nil => intro e; simp [runActions] at e; exact e ▸ h
  | cons a as ih =>
    intro e
    unfold runActions at e
    split at e
    · rename_i s1 hs1
      exact ih (Reachable.step h hs1) e
    · cases e

/-- A stop request is never withdrawn. -/
theorem stop_stays {s s' : State} {a : Action} (hs : s.stop ≠ .none) (h : step s a = some s') :
    s'.stop ≠ .none := by
  obtain ⟨g, rfl⟩ := step_some h
  exact StopReq_step hs g

/-! ## No deadlock -/

/-- `front_token_moves`: in every reachable state in which a stop was requested and `Start` has
    not returned, some action is enabled (repaired tracker: `dropOrphans`, `trackRecheck`). -/
theorem front_token_moves {s : State} (h : Reachable s) (hs : s.stop ≠ .none) (hr : ¬ returned s)
    (hfix : s.cfg.dropOrphans = true ∧ s.cfg.trackRecheck = true) : ∃ a, (step s a).isSome := by
  obtain ⟨a, g⟩ := live_of_inv (inv_of_reachable h) hs hr ⟨Or.inl hfix.1, Or.inl hfix.2⟩
  exact ⟨a, by simp [step, g]⟩

/-- The same for the code before the repairs, under the hypothesis `TrackOk`: the tracker's
    `progress` map holds no entry whose remaining parts were dropped (`NoOrphanProgress`) and the
    tracker is not in its timer-less `select` with a closed input (`NoLateForward`). -/
theorem front_token_moves_partial {s : State} (h : Reachable s) (hs : s.stop ≠ .none) (hr : ¬ returned s)
    (noOrphanProgress : s.orphan = 0) (noLateForward : ¬ (s.trPc = .blocked ∧ s.trInNil = true)) :
    ∃ a, (step s a).isSome := by
  obtain ⟨a, g⟩ := live_of_inv (inv_of_reachable h) hs hr ⟨Or.inr noOrphanProgress, Or.inr noLateForward⟩
  exact ⟨a, by simp [step, g]⟩

/-- … in terms of `enabled`. -/
theorem enabled_nonempty {s : State} (h : Reachable s) (hs : s.stop ≠ .none) (hr : ¬ returned s)
    (hfix : s.cfg.dropOrphans = true ∧ s.cfg.trackRecheck = true) : enabled s ≠ [] := by
  obtain ⟨a, g⟩ := live_of_inv (inv_of_reachable h) hs hr ⟨Or.inl hfix.1, Or.inl hfix.2⟩
  intro he
  have hm : a ∈ enabled s := by
    unfold enabled
    rw [List.mem_filter]
    exact ⟨by cases a <;> decide, by simpa using g⟩
  rw [he] at hm
  cases hm

/-! ## Termination -/

/-- `stop_terminates`: after a stop request every step strictly decreases the lexicographic
    measure (fault budget, potential of the tokens, control rank). -/
theorem stop_terminates : ∀ (s : State) (a : Action) (s' : State),
    Reachable s → s.stop ≠ .none → step s a = some s' → MLt (measure s') (measure s) := by
  intro s a s' h hs hst
  obtain ⟨g, rfl⟩ := step_some hst
  have I := inv_of_reachable h
  exact measure_decreases I.k3 I.k4 I.kQ I.kV hs g

/-- Hence no run goes on for ever after a stop request (the budget bounds the faults). -/
theorem no_infinite_run_after_stop :
    ¬ ∃ f : Nat → State, Reachable (f 0) ∧ (f 0).stop ≠ .none ∧ ∀ n, ∃ a, step (f n) a = some (f (n + 1)) := by
  rintro ⟨f, h0, hs0, hstep⟩
  have hall : ∀ n, Reachable (f n) ∧ (f n).stop ≠ .none := by
    intro n
    induction n with
    | zero => exact ⟨h0, hs0⟩
    | succ n ih =>
      obtain ⟨a, ha⟩ := hstep n
      exact ⟨Reachable.step ih.1 ha, stop_stays ih.2 ha⟩
  have hdec : ∀ n, MLt (measure (f (n + 1))) (measure (f n)) := by
    intro n
    obtain ⟨a, ha⟩ := hstep n
    exact stop_terminates _ a _ (hall n).1 (hall n).2 ha
  -- an infinite descending chain contradicts well-foundedness
  have hacc : ∀ m : Nat × Nat × Nat, Acc MLt m → ∀ n, measure (f n) = m → False := by
    intro m hm
    induction hm with
    | intro m _ ih =>
      intro n hn
      exact ih (measure (f (n + 1))) (hn ▸ hdec n) (n + 1) rfl
  exact hacc _ (MLt_wf.apply _) 0 rfl

/-- budget-free part of the measure -/
def immMeasure (s : State) : Nat × Nat := (tokenPot s, ctl s)

/-- The only fault events that can still happen after an immediate stop: the scanner's timer
    beating the pending stop, and verdicts of a poll answer that is already being processed. -/
theorem faults_after_immediate_stop {s : State} {a : Action} (hn : s.stop = .now) (g : guard s a)
    (hb : (apply s a).budget ≠ s.budget) : a = .scanAgain ∨ a = .valFail ∨ a = .valNotFound := by
  cases a
  case startStep =>
    obtain ⟨_, hc⟩ := startStep_cases s g
    rcases hc with ⟨_, _, he⟩|⟨_, _, he⟩|⟨_, _, he⟩|⟨_, _, he⟩|⟨_, _, he⟩|⟨_, _, he⟩|⟨_, _, he⟩|⟨_, _, he⟩|⟨_, _, he⟩|⟨_, _, he⟩|⟨_, _, he⟩|⟨_, _, he⟩|⟨_, _, he⟩|⟨_, _, he⟩|⟨_, _, he⟩|⟨_, _, he⟩ <;>
    (rw [he] at hb; exact absurd rfl hb)
  case scanAgain => exact Or.inl rfl
  case valFail => exact Or.inr (Or.inl rfl)
  case valNotFound => exact Or.inr (Or.inr rfl)
  all_goals (
    exfalso
    simp only [guard] at g
    simp only [apply, fault] at hb
    repeat' split at hb
    all_goals first
      | exact hb rfl
      | (simp only [hn] at g; simp at g))

/-- `immediate_stop_measure`: after an immediate stop every step other than those three
    leaves the budget alone and strictly decreases (potential of the tokens, control rank). -/
theorem immediate_stop_measure {s s' : State} {a : Action} (h : Reachable s) (hn : s.stop = .now)
    (hst : step s a = some s') (h1 : a ≠ .scanAgain) (h2 : a ≠ .valFail) (h3 : a ≠ .valNotFound) :
    s'.budget = s.budget ∧ Prod.Lex (· < ·) (· < ·) (immMeasure s') (immMeasure s) := by
  have hs : s.stop ≠ .none := by rw [hn]; intro h; cases h
  have hm := stop_terminates s a s' h hs hst
  obtain ⟨g, rfl⟩ := step_some hst
  have hb : (apply s a).budget = s.budget := by
    cases Nat.decEq (apply s a).budget s.budget with
    | isTrue h => exact h
    | isFalse h =>
      rcases faults_after_immediate_stop hn g h with h | h | h
      · exact absurd h h1
      · exact absurd h h2
      · exact absurd h h3
  refine ⟨hb, ?_⟩
  unfold measure at hm
  rw [MLt_iff] at hm
  unfold immMeasure
  rcases hm with hm | ⟨_, hm | ⟨he, hm⟩⟩
  · omega
  · exact Prod.Lex.left _ _ hm
  · rw [he]; exact Prod.Lex.right _ hm

/-! ## What a graceful stop guarantees -/

/-- `graceful_drains`: when `Start` has returned after a graceful stop, nothing is left between
    the scanner and the validator, the cache was persisted after the last verdict, and every file
    found by `recover()` and by the scans (all of which completed: `scanBatch = 0`) is
    * done, or
    * still in the queue — at most `hold` files, the ones `last-delay` withholds, or
    * had a negative verdict and was not retried (`neg`: the hand-off to the retry stage gave up
      because of the stop; `chRetry`: handed off, but the retry goroutines were gone), or
    * was dropped because it changed or vanished (`changed`), or
    * belonged to a recovery batch that a failed `recover()` dropped (`recLost`). -/
theorem graceful_drains {s : State} (h : Reachable s) (hg : s.stop = .graceful) (hr : returned s) :
    PipelineEmpty s ∧ s.queue ≤ s.cfg.hold ∧ s.dirty = false ∧
    s.found = s.done + s.queue + (s.neg + s.chRetry) + s.changed + s.recLost :=
  drains_of_inv (inv_of_reachable h) hg hr

/-- Full statement of the property ("everything found is done at a graceful return") — holds
    under the named hypotheses `NoLastDelay` (`hold = 0`) and `NoFaults` (no fault event:
    in particular no negative verdict, no changed file, no failed recovery). -/
theorem graceful_all_done_partial {s : State} (h : Reachable s) (hg : s.stop = .graceful) (hr : returned s)
    (noLastDelay : s.cfg.hold = 0) (noFaults : s.faults = 0) : s.found = s.done := by
  obtain ⟨_, hq, _, hf⟩ := graceful_drains h hg hr
  have f1 := (inv_of_reachable h).f1 noFaults
  omega

/-- One-shot run (`main/app.go`: a graceful stop right after start): the stop request may come
    in any state, also while `Start` is still inside `recover()`; the statement is the same. -/
theorem one_shot_all_done_partial {s₀ s : State} {pre post : List Action} {c : Cfg} {files : Nat}
    (hc : 0 < c.threads) (h0 : runActions (init c files 0) pre = some s₀)
    (h1 : runActions s₀ (.stopGraceful :: post) = some s) (hr : returned s)
    (noLastDelay : c.hold = 0) : s.found = s.done := by
  have hr0 := reachable_run (Reachable.init c files 0 hc) pre h0
  have hrs := reachable_run hr0 _ h1
  have hs1 : ∃ s1, step s₀ .stopGraceful = some s1 ∧ runActions s1 post = some s := by
    unfold runActions at h1
    split at h1
    · rename_i s1 hs1; exact ⟨s1, hs1, h1⟩
    · cases h1
  obtain ⟨s1, hst, hpost⟩ := hs1
  have hg1 : StopGraceful s1 := by
    obtain ⟨_, rfl⟩ := step_some hst
    simp [StopGraceful, apply]
  have hg : StopGraceful s := run_preserves StopGraceful_step post _ _ hpost hg1
  have hnf : NoFaults s :=
    run_preserves NoFaults_step _ _ _ h1 (run_preserves NoFaults_step pre _ _ h0 (by simp [NoFaults, init]))
  have hcfg : HasCfg c s :=
    run_preserves HasCfg_step _ _ _ h1 (run_preserves HasCfg_step pre _ _ h0 (by simp [HasCfg, init]))
  unfold HasCfg at hcfg
  exact graceful_all_done_partial hrs hg hr (by rw [hcfg]; exact noLastDelay) hnf.2

/-! ## Safety of the close order, capacities -/

/-- `Start` closes a channel only after every goroutine that sends on it returned, so no send
    hits a closed channel (which would panic). -/
theorem no_send_on_closed {s : State} (h : Reachable s) :
    (s.clScanned = true → s.scanPc = .done ∧ s.rtDone = s.cfg.threads) ∧
    (s.clQueued = true → s.qPc = .done) ∧
    (s.clTransmit = true → s.binPc = .done) ∧
    (s.clTransmitted = true → s.sdDone = s.cfg.threads) ∧
    (s.clStats = true → s.sdDone = s.cfg.threads) ∧
    (s.clValidate = true → s.trPc = .done) ∧
    (s.clRetry = true → s.vaPc = .done) := by
  have I := inv_of_reachable h
  refine ⟨fun hc => ?_, fun hc => ?_, fun hc => ?_, fun hc => ?_, fun hc => ?_, fun hc => ?_, fun hc => ?_⟩
  · have := I.p3.mp hc; exact ⟨I.p1 (by omega), I.p2 (by omega)⟩
  · have := I.p5.mp hc; exact I.p4 (by omega)
  · have := I.p7.mp hc; exact I.p6 (by omega)
  · have := I.p9.mp hc; exact I.p8 (by omega)
  · have := I.p12.mp hc; exact I.p8 (by omega)
  · have := I.p11.mp hc; exact I.p10 (by omega)
  · have := I.p15.mp hc; exact I.p14 (by omega)

/-- The buffered channels never hold more than `2·Threads` items. -/
theorem channels_bounded {s : State} (h : Reachable s) :
    s.chQueued ≤ cap s ∧ s.chRetry ≤ cap s ∧ s.chTransmit ≤ cap s ∧ s.chTransmitted ≤ cap s ∧
    s.chStats ≤ cap s ∧ s.chValidate ≤ cap s := (inv_of_reachable h).k7

/-! ## Witnesses: what is NOT guaranteed, and non-vacuity -/

/-- one file, one thread, a graceful stop after the first scan handed its batch on -/
def tracePrefix : List Action := [.recoverDone, .scanFind, .scanDone, .scanSend, .stopGraceful]

/-- S13: `last-delay` withholds the file; `startQueue` sees `Pop() = nil` on a closed input and returns. -/
def traceLastDelay : List Action := tracePrefix ++
  [.queuePopNil, .scanExitStop, .startStep, .retryExitStop, .startStep, .startStep, .queueRecv, .queuePopNil,
   .queueSeeClosed, .queuePopNil, .startStep, .startStep, .binSeeClosed, .startStep, .startStep, .sendSeeClosed,
   .startStep, .startStep, .trackBlock, .trackSeeClosed, .trackExitEmpty, .startStep, .startStep, .startStep,
   .statsExit, .startStep, .valBlock, .valSeeClosed, .valExitEmpty, .startStep, .startStep, .startStep]

set_option maxRecDepth 1000000 in
/-- Finding S13 (hypothesis `NoLastDelay` is necessary): a graceful stop returns although a file
    that a completed scan found is neither sent nor done — it is still in the queue. -/
theorem last_delay_leaves_file :
    ∃ s, Reachable s ∧ s.stop = .graceful ∧ returned s ∧ s.faults = 0 ∧
      s.found = 1 ∧ s.done = 0 ∧ s.queue = 1 := by
  have hrun : (runActions (init { threads := 1, hold := 1 } 1 0) traceLastDelay).isSome = true := by decide
  obtain ⟨s, hs⟩ := Option.isSome_iff_exists.mp hrun
  refine ⟨s, reachable_run (Reachable.init _ 1 0 (by decide)) _ hs, ?_⟩
  have hv : (runActions (init { threads := 1, hold := 1 } 1 0) traceLastDelay).map
      (fun s => (s.stop, decide (returned s), s.faults, s.found, s.done, s.queue)) =
      some (Stop.graceful, true, 0, 1, 0, 1) := by decide
  rw [hs] at hv
  simp only [Option.map_some, Option.some.injEq, Prod.mk.injEq, decide_eq_true_eq] at hv
  exact hv

/-- a failed verdict during the drain: `finish` hands the file to `chRetry`, nobody reads it -/
def traceNegative : List Action := tracePrefix ++
  [.retryExitStop, .scanExitStop, .startStep, .startStep, .startStep, .queueRecv, .queueSeeClosed, .queuePop,
   .queueSend, .queuePopNil, .startStep, .startStep, .binRecvMore, .binSeeClosed, .binSend, .startStep, .startStep,
   .sendRecv, .xmitOk, .statSend, .outSend, .sendSeeClosed, .startStep, .startStep, .statsRecv, .trackBlock,
   .trackRecv, .trackPart, .trackUnpackDone, .trackCheck, .trackForward, .trackToSelect, .trackSeeClosed,
   .trackExitEmpty, .startStep, .startStep, .startStep, .statsExit, .startStep, .valBlock, .valRecv, .valFail,
   .valHandSend, .valPersist, .valBlock, .valSeeClosed, .valExitEmpty, .startStep, .startStep, .startStep]

set_option maxRecDepth 1000000 in
/-- Hypothesis `NoFaults` is necessary: a file whose verdict is negative during a graceful stop
    is left not-done (`finish` does not retry on a stop); it waits in `chRetry` when `Start` returns. -/
theorem negative_verdict_left_undone :
    ∃ s, Reachable s ∧ s.stop = .graceful ∧ returned s ∧ s.cfg.hold = 0 ∧
      s.found = 1 ∧ s.done = 0 ∧ s.chRetry = 1 := by
  have hrun : (runActions (init { threads := 1 } 1 1) traceNegative).isSome = true := by decide
  obtain ⟨s, hs⟩ := Option.isSome_iff_exists.mp hrun
  refine ⟨s, reachable_run (Reachable.init _ 1 1 (by decide)) _ hs, ?_⟩
  have hv : (runActions (init { threads := 1 } 1 1) traceNegative).map
      (fun s => (s.stop, decide (returned s), s.cfg.hold, s.found, s.done, s.chRetry)) =
      some (Stop.graceful, true, 0, 1, 0, 1) := by decide
  rw [hs] at hv
  simp only [Option.map_some, Option.some.injEq, Prod.mk.injEq, decide_eq_true_eq] at hv
  exact hv

/-- S14: the remaining part of a changed file is dropped from a payload while an earlier part
    is in the tracker's `progress` map; the tracker sees its input closed -/
def traceOrphanPrefix : List Action := tracePrefix ++
  [.scanExitStop, .startStep, .retryExitStop, .startStep, .startStep, .queueRecv, .queueSeeClosed, .queuePop,
   .queueSend, .queuePopNil, .startStep, .startStep, .binRecvMore, .binSeeClosed, .binSend, .startStep, .startStep,
   .sendRecv, .xmitOrphanLast, .sendSeeClosed, .startStep, .startStep, .trackCheck, .trackToSelect, .trackSeeClosed]

/-- … the code before the repair goes back to its `select` with the one-second timer, for ever -/
def traceOrphan : List Action := traceOrphanPrefix ++ [.trackCheck, .trackToSelect, .valBlock]

/-- the configuration of the code before `fix: tracker waits forever for a file whose remaining parts were dropped` -/
def cfgBeforeOrphanFix : Cfg := { threads := 1, orphan := true, dropOrphans := false }

set_option maxRecDepth 1000000 in
/-- Finding S14 (code before the repair; `NoOrphanProgress` is necessary): a reachable state
    after a graceful stop in which `Start` has not returned (it sits in `wgValidate.Wait()`,
    position 9) and NO action is enabled. -/
theorem orphan_blocks_graceful_stop :
    ∃ s, Reachable s ∧ s.stop = .graceful ∧ ¬ returned s ∧ s.cfg.dropOrphans = false ∧ s.orphan = 1 ∧
      s.startPos = 9 ∧ enabled s = [] := by
  have hrun : (runActions (init cfgBeforeOrphanFix 1 1) traceOrphan).isSome = true := by decide
  obtain ⟨s, hs⟩ := Option.isSome_iff_exists.mp hrun
  refine ⟨s, reachable_run (Reachable.init _ 1 1 (by decide)) _ hs, ?_⟩
  have hv : (runActions (init cfgBeforeOrphanFix 1 1) traceOrphan).map
      (fun s => (s.stop, decide (returned s), s.cfg.dropOrphans, s.orphan, s.startPos, (enabled s).isEmpty)) =
      some (Stop.graceful, false, false, 1, 9, true) := by decide
  rw [hs] at hv
  simp only [Option.map_some, Option.some.injEq, Prod.mk.injEq, decide_eq_false_iff_not, List.isEmpty_iff] at hv
  exact hv

set_option maxRecDepth 1000000 in
/-- The same history on the repaired code: the tracker drops the orphan entry and the stop goes on. -/
theorem orphan_dropped_after_fix :
    (runActions (init { threads := 1, orphan := true } 1 1) traceOrphanPrefix).map
      (fun s => ((enabled s).contains .trackDropOrphans, (apply s .trackDropOrphans).orphan,
                 (enabled (apply s .trackDropOrphans)).contains .trackExitEmpty)) = some (true, 0, true) := by decide

/-- S14b: three files, one thread (`chValidate` holds two): the tracker's input closes while a
    complete entry waits for room; the next pass hands it on and goes to the `select` -/
def traceLateForward : List Action :=
  [.recoverDone, .scanFind, .scanFind, .scanFind, .scanDone, .scanSend, .stopGraceful, .scanExitStop, .startStep,
   .retryExitStop, .startStep, .startStep, .queueRecv, .queueSeeClosed, .queuePop, .queueSend, .binRecvMore,
   .queuePop, .queueSend, .binRecvMore, .queuePop, .queueSend, .binRecvMore, .queuePopNil, .startStep, .startStep,
   .binSeeClosed, .binSend, .startStep, .startStep, .sendRecv, .xmitOk, .statSend, .outSend, .sendSeeClosed,
   .startStep, .startStep, .statsRecv, .trackBlock, .trackRecv, .trackPart, .trackPart, .trackPart,
   .trackUnpackDone, .trackCheck, .trackForward, .trackForward, .trackToSelect, .trackSeeClosed, .trackCheck,
   .trackToSelect, .valBlock, .valRecv, .trackTickForward, .trackToSelect, .valRecv, .valRecv, .valPass, .valPass,
   .valPass, .valPersist, .valBlock]

/-- the configuration of the code before `fix: tracker blocks forever after handing on its last files …` -/
def cfgBeforeRecheckFix : Cfg := { threads := 1, trackRecheck := false }

set_option maxRecDepth 1000000 in
/-- Finding S14b (code before the repair; `NoLateForward` is necessary), found by the end-to-end
    runs of the real `Broker.Start`: without any fault, all three files are transmitted,
    confirmed and done, and yet `Start` never returns — the tracker selects on a nil channel and
    a nil timer, `Start` sits in `wgValidate.Wait()` and NO action is enabled. -/
theorem late_forward_blocks_graceful_stop :
    ∃ s, Reachable s ∧ s.stop = .graceful ∧ ¬ returned s ∧ s.faults = 0 ∧ s.found = 3 ∧ s.done = 3 ∧
      s.trPc = .blocked ∧ s.trInNil = true ∧ s.startPos = 9 ∧ enabled s = [] := by
  have hrun : (runActions (init cfgBeforeRecheckFix 3 0) traceLateForward).isSome = true := by decide
  obtain ⟨s, hs⟩ := Option.isSome_iff_exists.mp hrun
  refine ⟨s, reachable_run (Reachable.init _ 3 0 (by decide)) _ hs, ?_⟩
  have hv : (runActions (init cfgBeforeRecheckFix 3 0) traceLateForward).map
      (fun s => (s.stop, decide (returned s), s.faults, s.found, s.done)) =
      some (Stop.graceful, false, 0, 3, 3) := by decide
  have hw : (runActions (init cfgBeforeRecheckFix 3 0) traceLateForward).map
      (fun s => (s.trPc, s.trInNil, s.startPos, (enabled s).isEmpty)) =
      some (TrPc.blocked, true, 9, true) := by decide
  rw [hs] at hv hw
  simp only [Option.map_some, Option.some.injEq, Prod.mk.injEq, decide_eq_false_iff_not, List.isEmpty_iff] at hv hw
  exact ⟨hv.1, hv.2.1, hv.2.2.1, hv.2.2.2.1, hv.2.2.2.2, hw⟩

set_option maxRecDepth 1000000 in
/-- The same history on the repaired code: the tracker returns instead, `Start` goes on. -/
theorem late_forward_returns_after_fix :
    (runActions (init { threads := 1 } 3 0) traceLateForward).map
      (fun s => (s.trPc, (enabled s).contains .startStep)) = some (TrPc.done, true) := by decide

set_option maxRecDepth 1000000 in
/-- After an immediate stop `startQueue` still pops the queue (its loop only re-checks
    `shouldStopNow` when the input closes or `sendCh` times out): the measure of an immediate
    stop cannot be just (stages alive, position of `Start`). -/
theorem immediate_queue_still_pops :
    (runActions (init { threads := 1 } 3 0)
        [.recoverDone, .scanFind, .scanFind, .scanFind, .scanDone, .scanSend, .queueRecv, .stopNow]).map
      (fun s => (s.stop, s.queue, (enabled s).contains .queuePop, (apply s .queuePop).qPc, (apply s .queuePop).startPos)) =
      some (Stop.now, 3, true, QPc.send, 0) := by decide

/-- non-vacuity of `front_token_moves` / `stop_terminates`: a reachable state with a stop requested, not returned -/
example : ∃ s, Reachable s ∧ s.stop ≠ .none ∧ ¬ returned s ∧ s.cfg.dropOrphans = true ∧ s.cfg.trackRecheck = true :=
  ⟨apply (init ({ threads := 2 } : Cfg) 3 1) .stopNow,
   Reachable.step (a := .stopNow) (Reachable.init ({ threads := 2 } : Cfg) 3 1 (by decide)) (by decide),
   by decide, by decide, by decide, by decide⟩

set_option maxRecDepth 1000000 in
/-- non-vacuity of `graceful_drains` / `graceful_all_done_partial`: the same scenario as
    `last_delay_leaves_file` without `last-delay` ends with the file done -/
example : (runActions (init { threads := 1 } 1 0) (tracePrefix ++
    [.scanExitStop, .startStep, .retryExitStop, .startStep, .startStep, .queueRecv, .queueSeeClosed, .queuePop,
     .queueSend, .queuePopNil, .startStep, .startStep, .binRecvMore, .binSeeClosed, .binSend, .startStep, .startStep,
     .sendRecv, .xmitOk, .statSend, .outSend, .sendSeeClosed, .startStep, .startStep, .statsRecv, .trackBlock,
     .trackRecv, .trackPart, .trackUnpackDone, .trackCheck, .trackForward, .trackToSelect, .trackSeeClosed,
     .trackExitEmpty, .startStep, .startStep, .startStep, .statsExit, .startStep, .valBlock, .valRecv, .valSeeClosed,
     .valPass, .valPersist, .valExitEmpty, .startStep, .startStep, .startStep])).map
    (fun s => (decide (returned s), s.found, s.done, s.faults)) = some (true, 1, 1, 0) := by decide

end Sts.Pipeline
