/-
  C04 end to end — the sender's predecessor chain (C10, Model/Queue.lean) composed with the
  receiver's "no record before its predecessor" guarantee (C04, Model/Stage*.lean).

  (1) over plain data (Lemmas/OrderCompose.lean, restated here):
      * `order_composition`            full
      * `prefix_composition`           full
  (2) receiver instance:
      * `receiver_respects_announcements`  full, for every `Reachable` receiver state; from
                                       `log_order_respects_prev` (Props/C04.lean), nothing weakened
  (3) sender instance, history level:
      * `chunk_announces_last_completed`   full (every chunk, every history; pure ordered group)
      * `completed_files_form_chain`       full (hypothesis `PlainOrderedGroup`)
      * `steady_of_whole_files`            full (a sufficient condition for `SteadyAnnouncements`)
  (4) end to end:
      * `delivery_order_is_emission_order`   full under `PlainOrderedGroup` (sender),
                                             `Reachable` (receiver) and the link `AnnouncementsCarried`
      * `delivered_files_are_prefix_of_emission`   the same in prefix form
      * `delivery_order_is_emission_order_any_chunk`  the link weakened to "the record carries the
                                             announcement of SOME chunk of the file" (`AnnouncementsCarriedAny`)
                                             plus `SteadyAnnouncements` on the sender's history

  The link between the two models is a HYPOTHESIS, not a theorem: `AnnouncementsCarried` says
  that the ghost field `prev` of every receive-log record of a file of the group (the
  predecessor the finalized entry carried, Model/Stage.lean `LogRec.prev`) is the predecessor
  the sender's Pop announced with the completing chunk of that file. It bundles
    (a) the wire: the `prev` the receiver reads from a part's header is the one Pop put into
        the chunk (property C13, Props/C13.lean, proved for the wire codec on its own);
    (b) the receiver took the header of a part that carried the final announcement (the entry
        is built from the part that completes the file at the receiver, `recordEffects`), and
    (c) the cleaner did not clear it (`cleanWaitingStep` rewrites `prev := ""`): this is the
        form "the cleaner has not given the order up" takes, because `log_order_respects_prev`
        itself has no cleaner hypothesis - it speaks about the record's own `prev` field, which
        the cleaner has blanked for the files it released.
  Witnesses that no hypothesis can be dropped stand at the end of the file.
-/
import StsModel.Props.C04
import StsModel.Lemmas.QueueEmitted

/-! ## (1) the composition over plain data -/

namespace Sts.Compose

/-- **order_composition** (1). `emitted`: the files of one ordered group in the order the
    sender completed them; `prevOf`: the announced predecessor; `log`: names in receive-log
    order (of any group). If `prevOf` is the chain of `emitted` and every logged occurrence of
    a file of the group with a non-empty announced predecessor is preceded in the log by that
    predecessor, then for `i < j` every occurrence of `emitted[j]` in the log is preceded by
    an occurrence of `emitted[i]`: the log restricted to the group is closed downwards and
    ordered as emitted. (Only `Chain.named` and `Chain.next` are used.) -/
theorem order_composition {prevOf : Name → Name} {emitted log : List Name}
    (hc : Chain prevOf emitted) (hlog : RespectsPrev prevOf emitted log)
    {i j : Nat} {a b : Name} (hij : i < j) (ha : emitted[i]? = some a) (hb : emitted[j]? = some b)
    {pre post : List Name} (hsplit : log = pre ++ b :: post) : a ∈ pre :=
  emitted_before hc.named hc.next hlog j i a b hij ha hb pre post hsplit

/-- **prefix_composition** (1, prefix form). Under the same hypotheses the names of the group
    in the order of their first occurrence in the log (`firstSeen`: `mem_firstSeen`,
    `firstSeen_snoc`) are an initial segment of `emitted`. -/
theorem prefix_composition {prevOf : Name → Name} {emitted log : List Name}
    (hc : Chain prevOf emitted) (hlog : RespectsPrev prevOf emitted log) :
    firstSeen emitted log <+: emitted ∧
    firstSeen emitted log = emitted.take (firstSeen emitted log).length :=
  ⟨firstSeen_isPrefix hc.nodup hc.named hc.next hlog, firstSeen_prefix hc.nodup hc.named hc.next hlog⟩

/-- non-vacuity: a chain of three, a log with a foreign name and a repeated record -/
example :
    Chain (fun x => if x = "b" then "a" else if x = "c" then "b" else "") ["a", "b", "c"] ∧
    RespectsPrev (fun x => if x = "b" then "a" else if x = "c" then "b" else "") ["a", "b", "c"]
      ["z", "a", "b", "a"] ∧
    firstSeen ["a", "b", "c"] ["z", "a", "b", "a"] = ["a", "b"] := by
  refine ⟨⟨by decide, by decide, by decide, ?_⟩, ?_, by decide⟩
  · intro i a b ha hb
    match i, ha, hb with
    | 0, ha, hb => simp at ha hb; subst ha; subst hb; rfl
    | 1, ha, hb => simp at ha hb; subst ha; subst hb; rfl
    | n + 2, ha, hb => simp at hb
  · intro pre x post hsplit hx hp
    have hx' : x = "a" ∨ x = "b" ∨ x = "c" := by simpa using hx
    rcases hx' with rfl | rfl | rfl
    · simp at hp
    · -- "b" stands at position 2 only
      have : pre = ["z", "a"] := by
        match pre, hsplit with
        | [], h => simp at h
        | [_], h => simp at h
        | [_, _], h => simp at h; simp [h]
        | [_, _, _], h => simp at h
        | _ :: _ :: _ :: _ :: t, h => simp at h
      subst this; simp
    · exfalso
      have : "c" ∈ ["z", "a", "b", "a"] := by rw [hsplit]; simp
      simp at this

end Sts.Compose

/-! ## (2) the receiver's side -/

namespace Sts.Stage

/-- **the link between the two models** (a hypothesis; see the head of the file): every
    receive-log record of a file of the group carries, in its ghost field `prev`, the
    predecessor the sender announced for that file. -/
def AnnouncementsCarried (prevOf : Name → Name) (emitted : List Name) (s : State) : Prop :=
  ∀ r ∈ s.disk.log, r.name ∈ emitted → r.prev = prevOf r.name

/-- **receiver_respects_announcements** (2). What `log_order_respects_prev` states: for every
    `Reachable H s` and every split `s.disk.log = pre ++ r :: post` with `r.prev ≠ ""` and
    `r.prev ≠ r.name` there is `q ∈ pre` with `q.name = r.prev`; `r.prev` is the predecessor
    the entry carried when it was finalized (blank if the cleaner had cleared it). There is no
    further hypothesis. Instantiated: if the records of the group carry the announced
    predecessors (`AnnouncementsCarried`) and no file of the group announces itself, the names
    of the log respect the announcements. -/
theorem receiver_respects_announcements {H : Body → String} {s : State} (hr : Reachable H s)
    {prevOf : Name → Name} {emitted : List Name}
    (hself : ∀ x ∈ emitted, prevOf x ≠ "" → prevOf x ≠ x)
    (hcar : AnnouncementsCarried prevOf emitted s) :
    Compose.RespectsPrev prevOf emitted (s.disk.log.map (·.name)) := by
  intro pre x post hsplit hx hp
  obtain ⟨l1, l2, hl, h1, h2⟩ := List.map_eq_append_iff.mp hsplit
  obtain ⟨r, l3, hl2, hrn, _⟩ := List.map_eq_cons_iff.mp h2
  subst hl2
  have hrm : r ∈ s.disk.log := by rw [hl]; simp
  have hrp : r.prev = prevOf x := by rw [← hrn]; exact hcar r hrm (hrn ▸ hx)
  obtain ⟨q, hq, hqn⟩ := log_order_respects_prev hr l1 r l3 hl (by rw [hrp]; exact hp)
    (by rw [hrp, hrn]; exact hself x hx hp)
  rw [← h1, ← hrp, ← hqn]
  exact List.mem_map.mpr ⟨q, hq, rfl⟩

end Sts.Stage

/-! ## (3) the sender's side -/

namespace Sts.Queue

/-- the hypotheses on the sender's history for the group `grp`:
    * `pure`    : what `prev_is_last_completed` needs (`PureGroup`): no file pushed into the
                  group is a Recovered (resumed) file or fully allocated already;
    * `once`    : what `prev_acyclic` / `prev_edge` need: no name is handed to Push twice;
    * `named`   : no file of the group has the empty name ("" means "no predecessor");
    * `ordered` : the tag `NewTagged` finds for the group is not `OrderNone`. -/
structure PlainOrderedGroup (c : Conf) (ops : List Op) (grp : String) : Prop where
  pure : PureGroup c ops grp
  once : (pushNames ops).Nodup
  named : ∀ f, Op.push f ∈ ops → c.grouper f.name = grp → f.name ≠ ""
  ordered : ∀ t, c.tags.find? (fun t => t.name == c.tagger grp) = some t → t.order ≠ Order.none

theorem PureGroup.take {c : Conf} {ops : List Op} {grp : String} (h : PureGroup c ops grp) (k : Nat) :
    PureGroup c (ops.take k) grp :=
  fun f hf hg => h f (List.mem_of_mem_take hf) hg

/-- **chunk_announces_last_completed** (3, history level form of `prev_is_last_completed`).
    For every history from the empty queue whose group `grp` is pure and ordered, EVERY chunk
    of the group (the `k`-th answer) announces the file of the group completed most recently
    by the answers before it (nothing if there is none, or if it has the chunk's own name). -/
theorem chunk_announces_last_completed (c : Conf) (ops : List Op) (grp : String)
    (hpure : PureGroup c ops grp)
    (hord : ∀ t, c.tags.find? (fun t => t.name == c.tagger grp) = some t → t.order ≠ Order.none)
    (k : Nat) (ch : Chunk) (hk : (run c [] ops).2[k]? = some (some ch)) (hg : ch.group = grp) :
    ch.prev = (if lastCompleted ((run c [] ops).2.take k) grp = ch.name then ""
               else lastCompleted ((run c [] ops).2.take k) grp) := by
  obtain ⟨now, _, htake, hp⟩ := answer_at c ops k ch hk
  obtain ⟨g, hgs, hgn, hprev⟩ := prev_is_last_completed c (ops.take k) now hp (hg ▸ hpure.take k)
  have hord' : g.conf.order ≠ Order.none := by
    apply hord
    have := tag_reachable c (ops.take k) g hgs
    rwa [hgn, hg] at this
  rw [hprev, if_neg hord', htake, hg]

/-- **completed_files_form_chain** (3). For every history from the empty queue and every
    group satisfying `PlainOrderedGroup`: the files of the group in the order Pop completed
    them (`completedNames`) and the predecessors announced with their completing chunks
    (`completionPrev`) satisfy the chain hypothesis of (1). -/
theorem completed_files_form_chain {c : Conf} {ops : List Op} {grp : String}
    (h : PlainOrderedGroup c ops grp) :
    Compose.Chain (completionPrev (run c [] ops).2 grp) (completedNames (run c [] ops).2 grp) := by
  apply chain_of_steps
  intro k ch hk hcomp hg
  obtain ⟨now, _, htake, hp⟩ := answer_at c ops k ch hk
  have hnk : (pushNames (ops.take k)).Nodup := by
    have := h.once
    rw [← List.take_append_drop k ops, pushNames_append] at this
    exact (List.nodup_append.mp this).1
  obtain ⟨hg1, hnd, _⟩ := prev_edge c (ops.take k) now hnk hp
  have hmem : some ch ∈ (run c [] ops).2 := List.mem_of_getElem? hk
  have hne : ch.name ≠ "" := by
    have := (uniq_reachable c ops h.once).chunkNames ch hmem
    unfold pushNames at this
    obtain ⟨op, hop, hf⟩ := List.mem_filterMap.mp this
    cases op with
    | pop now => simp at hf
    | push f =>
      simp only [Option.some.injEq] at hf
      rw [← hf]
      exact h.named f hop (by rw [hf, hg1, hg])
  have hnew : ch.name ∉ completedNames ((run c [] ops).2.take k) grp := by
    intro hm
    obtain ⟨ch', hm', h1, h2, h3⟩ := mem_completedNames.mp hm
    apply hnd
    rw [htake] at hm'
    exact Or.inl ⟨ch', hm', h1, h2.trans hg.symm, h3⟩
  refine ⟨hne, hnew, ?_⟩
  rw [chunk_announces_last_completed c ops grp h.pure h.ordered k ch hk hg]
  have hlc : lastCompleted ((run c [] ops).2.take k) grp ≠ ch.name := by
    rw [lastCompleted_eq]
    cases hl : (completedNames ((run c [] ops).2.take k) grp).getLast? with
    | none => exact fun e => hne e.symm
    | some v =>
      intro e
      apply hnew
      have : v = ch.name := e
      rw [← this]
      exact List.mem_of_getLast? hl
  rw [if_neg hlc]

/-- all chunks of a file of the group announce what its completing chunk announces -/
def SteadyAnnouncements (as : List (Option Chunk)) (grp : String) : Prop :=
  ∀ (k : Nat) (ch : Chunk), as[k]? = some (some ch) → ch.group = grp → ch.name ∈ completedNames as grp →
    ch.prev = completionPrev as grp ch.name

/-- **steady_of_whole_files**: a sufficient condition for `SteadyAnnouncements` - every chunk
    of the group is the last chunk of its file (e.g. the tag's chunk size is 0, or no file is
    larger than it). In general a file that is emitted in several chunks may be overtaken by
    a later arrival that sorts before it, and then its chunks announce different predecessors
    (`first_chunk_may_announce_less`). -/
theorem steady_of_whole_files {c : Conf} {ops : List Op} {grp : String}
    (h : PlainOrderedGroup c ops grp)
    (hwhole : ∀ (k : Nat) (ch : Chunk), (run c [] ops).2[k]? = some (some ch) → ch.group = grp → ch.completed = true) :
    SteadyAnnouncements (run c [] ops).2 grp := by
  intro k ch hk hg _
  have hcomp := hwhole k ch hk hg
  obtain ⟨now, _, htake, hp⟩ := answer_at c ops k ch hk
  have hnk : (pushNames (ops.take k)).Nodup := by
    have := h.once
    rw [← List.take_append_drop k ops, pushNames_append] at this
    exact (List.nodup_append.mp this).1
  obtain ⟨_, hnd, _⟩ := prev_edge c (ops.take k) now hnk hp
  have hnew : ch.name ∉ completedNames ((run c [] ops).2.take k) grp := by
    intro hm
    obtain ⟨ch', hm', h1, h2, h3⟩ := mem_completedNames.mp hm
    apply hnd
    rw [htake] at hm'
    exact Or.inl ⟨ch', hm', h1, h2.trans hg.symm, h3⟩
  have hkl : k < (run c [] ops).2.length := (List.getElem?_eq_some_iff.mp hk).1
  have hsplit : (run c [] ops).2 = (run c [] ops).2.take k ++ some ch :: (run c [] ops).2.drop (k + 1) := by
    have hxe : (run c [] ops).2[k] = some ch := by
      have := List.getElem?_eq_getElem hkl; rw [hk] at this; exact (Option.some.inj this).symm
    rw [← hxe, List.getElem_cons_drop, List.take_append_drop]
  conv => rhs; rw [hsplit]
  exact (completionPrev_append_new ch _ hnew hcomp hg).symm

end Sts.Queue

/-! ## (4) end to end -/

namespace Sts

open Queue Stage

/-- **delivery_order_is_emission_order** (4). Sender: any history `ops` of Push and Pop from
    the empty queue whose group `grp` satisfies `PlainOrderedGroup`. Receiver: any reachable
    state `s` (all arrival orders, crashes, timer and cleaner firings). Link: the records of
    the group's files carry the predecessors the sender announced with the completing chunks
    (`AnnouncementsCarried` - a hypothesis standing for the wire, property C13, for the
    receiver's choice of the completing part, and for "the cleaner has not cleared it").
    Then the files of the group appear in the receive log in the order the sender's queue
    completed them: if `a` was completed before `b`, every record of `b` is preceded by a
    record of `a`. -/
theorem delivery_order_is_emission_order {c : Conf} {ops : List Queue.Op} {grp : String}
    (hs : PlainOrderedGroup c ops grp)
    {H : Body → String} {s : Stage.State} (hr : Reachable H s)
    (hcar : AnnouncementsCarried (completionPrev (Queue.run c [] ops).2 grp)
      (completedNames (Queue.run c [] ops).2 grp) s)
    {i j : Nat} {a b : String} (hij : i < j)
    (ha : (completedNames (Queue.run c [] ops).2 grp)[i]? = some a)
    (hb : (completedNames (Queue.run c [] ops).2 grp)[j]? = some b)
    {pre post : List LogRec} {r : LogRec} (hsplit : s.disk.log = pre ++ r :: post) (hrb : r.name = b) :
    ∃ q ∈ pre, q.name = a := by
  have hc := completed_files_form_chain hs
  have hlog := receiver_respects_announcements hr (fun x hx hp => hc.prev_ne_self hx hp) hcar
  have := Compose.order_composition hc hlog hij ha hb (pre := pre.map (·.name)) (post := post.map (·.name))
    (by rw [hsplit, ← hrb]; simp)
  obtain ⟨q, hq, hqn⟩ := List.mem_map.mp this
  exact ⟨q, hq, hqn⟩

/-- **delivered_files_are_prefix_of_emission** (4, prefix form): the files of the group, in
    the order of their first record in the receive log, are an initial segment of the
    sender's completion order. -/
theorem delivered_files_are_prefix_of_emission {c : Conf} {ops : List Queue.Op} {grp : String}
    (hs : PlainOrderedGroup c ops grp)
    {H : Body → String} {s : Stage.State} (hr : Reachable H s)
    (hcar : AnnouncementsCarried (completionPrev (Queue.run c [] ops).2 grp)
      (completedNames (Queue.run c [] ops).2 grp) s) :
    Compose.firstSeen (completedNames (Queue.run c [] ops).2 grp) (s.disk.log.map (·.name)) <+:
      completedNames (Queue.run c [] ops).2 grp := by
  have hc := completed_files_form_chain hs
  have hlog := receiver_respects_announcements hr (fun x hx hp => hc.prev_ne_self hx hp) hcar
  exact (Compose.prefix_composition hc hlog).1

/-- the link with the choice of the chunk left open: every record of a file of the group
    carries the predecessor announced with SOME chunk the sender cut from that file -/
def AnnouncementsCarriedAny (as : List (Option Chunk)) (grp : String) (s : Stage.State) : Prop :=
  ∀ r ∈ s.disk.log, r.name ∈ completedNames as grp →
    ∃ (k : Nat) (ch : Chunk), as[k]? = some (some ch) ∧ ch.group = grp ∧ ch.name = r.name ∧ r.prev = ch.prev

theorem AnnouncementsCarriedAny.carried {as : List (Option Chunk)} {grp : String} {s : Stage.State}
    (h : AnnouncementsCarriedAny as grp s) (hst : SteadyAnnouncements as grp) :
    AnnouncementsCarried (completionPrev as grp) (completedNames as grp) s := by
  intro r hr hm
  obtain ⟨k, ch, hk, hg, hn, hp⟩ := h r hr hm
  rw [hp, ← hn]
  exact hst k ch hk hg (hn ▸ hm)

/-- **delivery_order_is_emission_order_any_chunk**: the same conclusion when the record may
    carry the announcement of any chunk of its file, for histories in which the chunks of a
    file agree (`SteadyAnnouncements`; `steady_of_whole_files` gives a sufficient condition,
    `first_chunk_may_announce_less` shows it is not automatic). -/
theorem delivery_order_is_emission_order_any_chunk {c : Conf} {ops : List Queue.Op} {grp : String}
    (hs : PlainOrderedGroup c ops grp) (hst : SteadyAnnouncements (Queue.run c [] ops).2 grp)
    {H : Body → String} {s : Stage.State} (hr : Reachable H s)
    (hcar : AnnouncementsCarriedAny (Queue.run c [] ops).2 grp s)
    {i j : Nat} {a b : String} (hij : i < j)
    (ha : (completedNames (Queue.run c [] ops).2 grp)[i]? = some a)
    (hb : (completedNames (Queue.run c [] ops).2 grp)[j]? = some b)
    {pre post : List LogRec} {r : LogRec} (hsplit : s.disk.log = pre ++ r :: post) (hrb : r.name = b) :
    ∃ q ∈ pre, q.name = a :=
  delivery_order_is_emission_order hs hr (hcar.carried hst) hij ha hb hsplit hrb

end Sts

/-! ## non-vacuity: three files pushed, popped, sent in reverse order and delivered -/

namespace Sts

open Queue Stage

/-- one fifo tag, chunk size 0 (whole files), every name in group "g" -/
def e2eConf : Conf := { tags := [⟨"t", 0, .fifo, 0, 0⟩], tagger := fun _ => "t", grouper := fun _ => "g" }

def e2eOps : List Queue.Op :=
  [.push ⟨"g/a", 2, 1, none⟩, .push ⟨"g/b", 2, 2, none⟩, .push ⟨"g/c", 2, 3, none⟩, .pop 100, .pop 100, .pop 100]

/-- the receiver gets `c` (announcing `b`), then `b` (announcing `a`), then `a`; the finalize
    handler takes them in that order: `c` and `b` are parked, `a` is delivered and releases `b`,
    `b` releases `c`. -/
def e2eRecv : List Ev := exRecv "g/c" "g/b" ++ exRecv "g/b" "g/a" ++ exRecv "g/a" "" ++
  [.op (.finh "g/c" 0), .op (.finh "g/b" 0), .op (.finh "g/a" 0), .op (.finh "g/b" 0), .op (.finh "g/c" 0)]

theorem e2e_plain : PlainOrderedGroup e2eConf e2eOps "g" := by
  refine ⟨?_, by decide, ?_, ?_⟩
  · intro f hf _
    simp [e2eOps] at hf
    rcases hf with rfl | rfl | rfl <;> exact ⟨rfl, by decide⟩
  · intro f hf _
    simp [e2eOps] at hf
    rcases hf with rfl | rfl | rfl <;> decide
  · intro t ht
    simp [e2eConf] at ht
    subst ht
    decide

/-- the sender's side of the example: completion order and announcements -/
example : completedNames (Queue.run e2eConf [] e2eOps).2 "g" = ["g/a", "g/b", "g/c"] ∧
    (completedNames (Queue.run e2eConf [] e2eOps).2 "g").map
      (completionPrev (Queue.run e2eConf [] e2eOps).2 "g") = ["", "g/a", "g/b"] := by decide

theorem e2e_carried : AnnouncementsCarried (completionPrev (Queue.run e2eConf [] e2eOps).2 "g")
    (completedNames (Queue.run e2eConf [] e2eOps).2 "g") (runEvs exH init e2eRecv) := by
  unfold AnnouncementsCarried
  decide

/-- all hypotheses of `delivery_order_is_emission_order` hold together on a non-trivial pair
    of runs (`c` and `b` really were held: the log is empty until `a` is handled), and the
    conclusion is what the log shows. -/
example :
    PlainOrderedGroup e2eConf e2eOps "g" ∧ Reachable exH (runEvs exH init e2eRecv) ∧
    AnnouncementsCarried (completionPrev (Queue.run e2eConf [] e2eOps).2 "g")
      (completedNames (Queue.run e2eConf [] e2eOps).2 "g") (runEvs exH init e2eRecv) ∧
    (runEvs exH init (e2eRecv.take 17)).disk.log = [] ∧
    (runEvs exH init (e2eRecv.take 17)).mem.wait.map (fun w => (w.1, w.2.1)) = [("g/b", "g/c"), ("g/a", "g/b")] ∧
    (runEvs exH init e2eRecv).disk.log.map (·.name) = ["g/a", "g/b", "g/c"] :=
  ⟨e2e_plain, ⟨e2eRecv, rfl⟩, e2e_carried, by decide, by decide, by decide⟩

/-- the theorem applied: every record of `g/c` is preceded by a record of `g/a` -/
example {pre post : List LogRec} {r : LogRec}
    (hsplit : (runEvs exH init e2eRecv).disk.log = pre ++ r :: post) (hrc : r.name = "g/c") :
    ∃ q ∈ pre, q.name = "g/a" :=
  delivery_order_is_emission_order e2e_plain ⟨e2eRecv, rfl⟩ e2e_carried (i := 0) (j := 2)
    (by decide) (by decide) (by decide) hsplit hrc

/-- `SteadyAnnouncements` holds in the example (whole files) -/
example : SteadyAnnouncements (Queue.run e2eConf [] e2eOps).2 "g" := by
  apply steady_of_whole_files e2e_plain
  intro k ch hk _
  have : ∀ a ∈ (Queue.run e2eConf [] e2eOps).2, ∀ ch, a = some ch → ch.completed = true := by decide
  exact this _ (List.mem_of_getElem? hk) ch rfl

/-! ## no hypothesis can be dropped -/

/-- **the cleaner** (`AnnouncementsCarried`, part c). The S6 state of Props/C04.lean, continued:
    `c` announced `b` (its cache entry says so, `S6_cleaner_clears_off_cycle_file`); the cleaner
    fires and clears it, the finalize handler takes `c`. The state is reachable, the sender's
    chain for the group `[b, c]` is in order, the header of `c` was carried, yet the record of
    `c` carries no predecessor and `c` is logged although `b` is not: once the cleaner has given
    the order up, the log order may differ from the emission order. -/
theorem cleaner_gave_up_breaks_order :
    let prevOf : Name → Name := fun x => if x = "c" then "b" else ""
    let s := runEvs exH init (exS6 ++ [.op (.cleanWaiting ["a", "b", "c"]), .op (.finh "c" 0)])
    Compose.Chain prevOf ["b", "c"] ∧ Reachable exH s ∧
    ((runEvs exH init exS6).mem.cache "c").map (·.prev) = some "b" ∧
    s.disk.log.map (fun r => (r.name, r.prev)) = [("c", "")] ∧
    ¬ AnnouncementsCarried prevOf ["b", "c"] s := by
  refine ⟨⟨by decide, by decide, by decide, ?_⟩, ⟨_, rfl⟩, S6_cleaner_clears_off_cycle_file.2.2.2.1,
    by decide, ?_⟩
  · intro i a b ha hb
    match i, ha, hb with
    | 0, ha, hb => simp at ha hb; subst ha; subst hb; rfl
    | n + 1, ha, hb => simp at hb
  · unfold AnnouncementsCarried
    decide

/-- configuration, sender history and receiver run of `first_chunk_may_announce_less` -/
def ovConf : Conf := { tags := [⟨"t", 0, .fifo, 4, 0⟩], tagger := fun _ => "t", grouper := fun _ => "g" }
def ovOps : List Queue.Op :=
  [.push ⟨"g/m", 8, 5, none⟩, .pop 100, .push ⟨"g/a", 3, 1, none⟩, .pop 100, .pop 100]
def ovRecv : List Ev := [
  .op (.prepare "g/m" 8 0), .op (.recvOpen 1 "g/m"), .op (.recvWrite 1 4 [5, 6, 7, 8] 0),
  .op (.record "g/m" ⟨"", "g/a", 8, "h"⟩ 4 8 0),
  .op (.prepare "g/m" 8 0), .op (.recvOpen 2 "g/m"), .op (.recvWrite 2 0 [1, 2, 3, 4] 0),
  .op (.record "g/m" ⟨"", "", 8, "h"⟩ 0 4 0), .op (.process "g/m" 0), .op (.finh "g/m" 0)]

/-- **which chunk** (`AnnouncementsCarried`, part b; `SteadyAnnouncements`). A file `m` of two
    chunks is half emitted when an older file `a` arrives; `a` overtakes it. The history
    satisfies `PlainOrderedGroup`; the first chunk of `m` announces nothing, its completing
    chunk announces `a`: the chunks of one file need not agree. If the part cut first reaches
    the receiver last, the entry is built from its header, the record of `m` carries no
    predecessor (the announcement of SOME chunk, `AnnouncementsCarriedAny`) and `m` is logged
    while `a` (completed before `m`) is not. (This is within the C04 statement, which protects
    only files "already queued when it was first emitted"; it is the reason why the link is
    stated for the completing chunk.) -/
theorem first_chunk_may_announce_less :
    PlainOrderedGroup ovConf ovOps "g" ∧
    (Queue.run ovConf [] ovOps).2.filterMap (fun a => a.map (fun ch => (ch.name, ch.prev, ch.completed))) =
      [("g/m", "", false), ("g/a", "", true), ("g/m", "g/a", true)] ∧
    completedNames (Queue.run ovConf [] ovOps).2 "g" = ["g/a", "g/m"] ∧
    ¬ SteadyAnnouncements (Queue.run ovConf [] ovOps).2 "g" ∧
    Reachable exH (runEvs exH init ovRecv) ∧
    AnnouncementsCarriedAny (Queue.run ovConf [] ovOps).2 "g" (runEvs exH init ovRecv) ∧
    (runEvs exH init ovRecv).disk.log.map (fun r => (r.name, r.prev)) = [("g/m", "")] := by
  refine ⟨⟨?_, by decide, ?_, ?_⟩, by decide, by decide, ?_, ⟨ovRecv, rfl⟩, ?_, by decide⟩
  · intro f hf _
    simp [ovOps] at hf
    rcases hf with rfl | rfl <;> exact ⟨rfl, by decide⟩
  · intro f hf _
    simp [ovOps] at hf
    rcases hf with rfl | rfl <;> decide
  · intro t ht
    simp [ovConf] at ht
    subst ht
    decide
  · intro h
    have := h 1 ((Queue.run ovConf [] ovOps).2[1]?.getD none |>.getD default) (by decide) (by decide) (by decide)
    revert this
    decide
  · intro r hr _
    have hr' : r = ⟨"g/m", "", "h", 8, 0, ""⟩ := by
      have : ∀ x ∈ (runEvs exH init ovRecv).disk.log, x = ⟨"g/m", "", "h", 8, 0, ""⟩ := by decide
      exact this r hr
    subst hr'
    exact ⟨1, (Queue.run ovConf [] ovOps).2[1]?.getD none |>.getD default, by decide, by decide, by decide, by decide⟩

/-- **names queued once** (`PlainOrderedGroup.once`). `a` is queued again after `b`: the
    completing chunks announce a -> "", b -> a, a -> b, c -> a; `completedNames` is not
    duplicate free and the chain is broken (the second `a` announces `b`, the first nothing). -/
theorem requeued_name_breaks_chain :
    let ops : List Queue.Op := [.push ⟨"g/a", 2, 1, none⟩, .pop 100, .push ⟨"g/b", 2, 2, none⟩, .pop 100,
      .push ⟨"g/a", 2, 3, none⟩, .pop 100, .push ⟨"g/c", 2, 4, none⟩, .pop 100]
    ¬ (pushNames ops).Nodup ∧
    (Queue.run e2eConf [] ops).2.filterMap (fun a => a.map (fun ch => (ch.name, ch.prev))) =
      [("g/a", ""), ("g/b", "g/a"), ("g/a", "g/b"), ("g/c", "g/a")] ∧
    ¬ Compose.Chain (completionPrev (Queue.run e2eConf [] ops).2 "g") (completedNames (Queue.run e2eConf [] ops).2 "g") := by
  refine ⟨by decide, by decide, fun h => ?_⟩
  have := h.nodup
  revert this
  decide

/-- **no resumed files** (`PlainOrderedGroup.pure`, first half). A Recovered file announces the
    predecessor it was handed (`prev_safe`), not the file completed before it. -/
theorem resumed_file_breaks_chain :
    let ops : List Queue.Op := [.push ⟨"g/a", 2, 1, none⟩, .pop 100,
      .push ⟨"g/r", 4, 2, some ⟨"g/zz", [⟨0, 4⟩], 0, 0⟩⟩, .pop 100]
    (pushNames ops).Nodup ∧ ¬ PureGroup ovConf ops "g" ∧
    (Queue.run ovConf [] ops).2.filterMap (fun a => a.map (fun ch => (ch.name, ch.prev, ch.completed))) =
      [("g/a", "", true), ("g/r", "g/zz", true)] ∧
    ¬ Compose.Chain (completionPrev (Queue.run ovConf [] ops).2 "g") (completedNames (Queue.run ovConf [] ops).2 "g") := by
  refine ⟨by decide, fun h => ?_, by decide, fun h => ?_⟩
  · have := (h ⟨"g/r", 4, 2, some ⟨"g/zz", [⟨0, 4⟩], 0, 0⟩⟩ (by simp) rfl).1
    cases this
  · have := h.next 0 "g/a" "g/r" (by decide) (by decide)
    revert this
    decide

/-- **nothing queued as already sent** (`PlainOrderedGroup.pure`, second half). A file pushed
    fully allocated (here: of size 0) is never emitted but becomes the predecessor of the next
    file: the chain skips from `a` to a name that is not in `completedNames`. -/
theorem already_sent_file_breaks_chain :
    let ops : List Queue.Op := [.push ⟨"g/a", 2, 1, none⟩, .pop 100, .push ⟨"g/p", 0, 2, none⟩,
      .push ⟨"g/b", 2, 3, none⟩, .pop 100]
    (pushNames ops).Nodup ∧ ¬ PureGroup e2eConf ops "g" ∧
    (Queue.run e2eConf [] ops).2.filterMap (fun a => a.map (fun ch => (ch.name, ch.prev, ch.completed))) =
      [("g/a", "", true), ("g/b", "g/p", true)] ∧
    ¬ Compose.Chain (completionPrev (Queue.run e2eConf [] ops).2 "g") (completedNames (Queue.run e2eConf [] ops).2 "g") := by
  refine ⟨by decide, fun h => ?_, by decide, fun h => ?_⟩
  · have := (h ⟨"g/p", 0, 2, none⟩ (by simp) rfl).2
    revert this
    decide
  · have := h.next 0 "g/a" "g/b" (by decide) (by decide)
    revert this
    decide

/-- **ordered tag** (`PlainOrderedGroup.ordered`). With `OrderNone` nothing is announced. -/
theorem unordered_tag_breaks_chain :
    let c : Conf := { tags := [⟨"t", 0, .none, 0, 0⟩], tagger := fun _ => "t", grouper := fun _ => "g" }
    (Queue.run c [] e2eOps).2.filterMap (fun a => a.map (fun ch => (ch.name, ch.prev, ch.completed))) =
      [("g/a", "", true), ("g/b", "", true), ("g/c", "", true)] ∧
    ¬ Compose.Chain (completionPrev (Queue.run c [] e2eOps).2 "g") (completedNames (Queue.run c [] e2eOps).2 "g") := by
  refine ⟨by decide, fun h => ?_⟩
  have := h.next 0 "g/a" "g/b" (by decide) (by decide)
  revert this
  decide

/-- **non-empty names** (`PlainOrderedGroup.named`, `Chain.named`). A file with the empty name
    is announced as "" - which the receiver reads as "no predecessor": all other chain
    conditions hold, the log respects the announcements, and `b` is logged without its
    predecessor. The queue produces exactly these announcements. -/
theorem empty_name_breaks_order :
    let prevOf : Compose.Name → Compose.Name := fun _ => ""
    (["", "b"] : List Compose.Name).Nodup ∧
    (∀ i a b, (["", "b"] : List Compose.Name)[i]? = some a → (["", "b"] : List Compose.Name)[i + 1]? = some b →
      prevOf b = a) ∧
    Compose.RespectsPrev prevOf ["", "b"] ["b"] ∧
    ¬ (∀ pre post : List Compose.Name, ["b"] = pre ++ "b" :: post → "" ∈ pre) ∧
    (Queue.run e2eConf [] [.push ⟨"", 2, 1, none⟩, .pop 100, .push ⟨"b", 2, 2, none⟩, .pop 100]).2.filterMap
      (fun a => a.map (fun ch => (ch.name, ch.prev, ch.completed))) = [("", "", true), ("b", "", true)] := by
  refine ⟨by decide, ?_, ?_, fun h => by simpa using h [] [] rfl, by decide⟩
  · intro i a b ha hb
    match i, ha, hb with
    | 0, ha, hb => simp at ha hb; subst ha; rfl
    | n + 1, ha, hb => simp at hb
  · intro pre x post _ _ hp
    exact absurd rfl hp

end Sts
