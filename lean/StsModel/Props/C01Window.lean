/-
  C01 — the window between the finalize handler's decision and `finalize`'s locked region.

  `finalizeHandler` (stage/local.go) takes an item from its channel, checks WITHOUT the file lock
  that the cached state of the name is *validated*, evaluates `isFileReady` (which may scan the
  receive log: slow), and only then calls `finalize`, which takes the file lock and checks again,
  on the cache of THAT moment, that the entry is validated AND carries the item's hash, before
  it logs and moves. The atomic event `finh` of Model/StageSem.lean cannot see that window; the
  split semantics (`WEv`: `finhDecide`, `finhDo`, `cutFinhDo`, and every atomic event in between)
  can. Proved here, for ALL histories of the split semantics:

    * `finhEffects_eq_decide_append`, `finh_eq_decide_then_do`: the atomic `finh` is exactly the
      decision phase followed by the locked phase with nothing in between, so every theorem
      about `finh` is a theorem about that schedule of the split handler; `runW_ev`,
      `ReachableW_of_reachable`: every atomic history is a split history;
    * `finalize_window_safe`: whatever happened since the decision (any state satisfying the
      integrity invariant, any held item), the locked phase logs and moves only if the cache
      entry of the name is still the validated entry with the item's hash; what it moves then
      has the bytes that were validated under the hash it logs; the invariant holds after it and
      at every crash point inside it;
    * `C01_window_integrity_partial`: C01's integrity statement (every file in the final
      directory has a receive-log record of its target with the hash of its bytes) for every
      state reachable in the split semantics (same two hypotheses as `C01_integrity_partial`);
    * `broken_window_violates_integrity`: the variant that compares the hash only in the decision
      phase (an independently written breaking change moved the comparison out of `finalize`)
      violates the statement: a newer version validated in the window is moved under the older
      version's log record. Concrete witness, evaluated by `decide`.
-/
import StsModel.Props.C01

namespace Sts.Stage

/-! ## the atomic handler is the composition of the two phases -/

/-- `finalize` reads the cache, the cache start time, the wait map and the `.wait` links only -/
theorem finalizeEffects_congr (s s' : State) (n : Name) (e : Entry) (now : Int)
    (hc : s'.mem.cache = s.mem.cache) (hct : s'.mem.cacheTime = s.mem.cacheTime)
    (hw : s'.mem.wait = s.mem.wait) (hd : s'.disk.wait = s.disk.wait) :
    finalizeEffects s' n e now = finalizeEffects s n e now := by
  unfold finalizeEffects stateOf toCache
  rw [hc, hct, hw, hd]

/-- when the decision phase hands an item to `finalize` its only effect was taking the item
    from the channel -/
theorem finhDecide_of_pending (s : State) (n : Name) (now : Int) (e : Entry)
    (h : finhPending s n now = some e) : finhDecideEffects s n now = [Prim.fqDel n] := by
  unfold finhPending at h
  unfold finhDecideEffects
  split at h
  · cases h
  · rename_i k e0 hq
    by_cases hst : stateOf s.mem n ≠ some .validated
    · rw [if_pos hst] at h; cases h
    · rw [if_neg hst] at h
      rw [if_neg hst]
      split at h
      · rfl
      · cases h

/-- **the atomic `finh` is the decision phase followed by the locked phase**, as primitive
    lists: nothing runs in between, so `finalize` is computed on the state of the decision. -/
theorem finhEffects_eq_decide_append (s : State) (n : Name) (now : Int) :
    finhEffects s n now = finhDecideEffects s n now ++
      (match finhPending s n now with
       | some e => finhDoEffects s n e now
       | none => []) := by
  unfold finhEffects finhDecideEffects finhPending finhDoEffects
  split
  · rfl
  · by_cases hst : stateOf s.mem n ≠ some .validated
    · simp only [if_pos hst, List.append_nil]
    · simp only [if_neg hst]
      split <;> simp

/-- the same at the level of events: from a state in which the handler holds nothing,
    `finhDecide n now` followed immediately by `finhDo now` is the atomic event `finh n now`. -/
theorem finh_eq_decide_then_do (H : Body → String) (s : State) (n : Name) (now : Int) :
    wstep H (wstep H ⟨s, none⟩ (.finhDecide n now)) (.finhDo now) =
      ⟨step H s (.op (.finh n now)), none⟩ := by
  simp only [wstep, step, effects]
  rw [finhEffects_eq_decide_append]
  cases hp : finhPending s n now with
  | none => simp
  | some e =>
    simp only [Option.map_some]
    have hc : finalizeEffects (run s [Prim.fqDel n]) n e now = finalizeEffects s n e now := by
      apply finalizeEffects_congr <;> simp [applyPrim, applyMem, applyDisk]
    rw [finhDecide_of_pending s n now e hp, run_append]
    simp only [finhDoEffects, hc]

/-- every history of the atomic semantics is a history of the split semantics (the handler
    never holds anything) -/
theorem runW_ev (H : Body → String) (s : State) (evs : List Ev) :
    runW H ⟨s, none⟩ (evs.map .ev) = ⟨runEvs H s evs, none⟩ := by
  induction evs generalizing s with
  | nil => rfl
  | cons e es ih =>
    simp only [List.map_cons, runW, List.foldl_cons, runEvs]
    have h1 : wstep H ⟨s, none⟩ (.ev e) = ⟨step H s e, none⟩ := by cases e <;> rfl
    rw [h1]
    exact ih _

theorem ReachableW_of_reachable {H : Body → String} {s : State} (h : Reachable H s) :
    ReachableW H ⟨s, none⟩ := by
  obtain ⟨evs, rfl⟩ := h
  exact ⟨evs.map .ev, (runW_ev H init evs).symm⟩

/-! ## the integrity invariant in the split semantics -/

/-- an event of the split semantics that the hypotheses of the partial theorem allow -/
def WEvOk (w : WState) : WEv → Prop
  | .ev e => EvOk w.st e
  | _ => True

def OkRunW (H : Body → String) : WState → List WEv → Prop
  | _, [] => True
  | w, e :: es => WEvOk w e ∧ OkRunW H (wstep H w e) es

def ReachableWOk (H : Body → String) (w : WState) : Prop :=
  ∃ evs, OkRunW H {} evs ∧ w = runW H {} evs

theorem OkRunW_append (H : Body → String) (w : WState) (xs ys : List WEv) :
    OkRunW H w (xs ++ ys) ↔ OkRunW H w xs ∧ OkRunW H (runW H w xs) ys := by
  induction xs generalizing w with
  | nil => simp [OkRunW, runW]
  | cons x xs ih =>
    simp only [List.cons_append, OkRunW, ih, runW, List.foldl_cons, and_assoc]

theorem ReachableWOk.extend {H : Body → String} {w : WState} (h : ReachableWOk H w)
    (evs : List WEv) (hok : OkRunW H w evs) : ReachableWOk H (runW H w evs) := by
  obtain ⟨pre, hpre, rfl⟩ := h
  refine ⟨pre ++ evs, (OkRunW_append H _ pre evs).mpr ⟨hpre, hok⟩, ?_⟩
  simp [runW, List.foldl_append]

theorem finhDecide_easy (s : State) (n : Name) (now : Int) :
    (finhDecideEffects s n now).all easy = true := by
  unfold finhDecideEffects
  split
  · rfl
  · simp only [List.all_append, Bool.and_eq_true]
    refine ⟨by simp [easy], ?_⟩
    split
    · rfl
    · split
      · rfl
      · simp only [List.all_append, Bool.and_eq_true]
        refine ⟨⟨by simp [easy], ?_⟩, by simp [easy]⟩
        split <;> simp [easy]

/-- the invariant survives every allowed event of the split semantics: the decision phase, the
    locked phase on whatever state it finds, a crash at any durable step of it, and every
    atomic event in between -/
theorem Integ_wstep (H : Body → String) (w : WState) (e : WEv) (hI : Integ H w.st)
    (hok : WEvOk w e) : Integ H (wstep H w e).st := by
  cases e with
  | ev e =>
    have h := Integ_event H w.st e hI hok
    cases e <;> exact h
  | finhDecide n now =>
    simp only [wstep]
    cases w.held with
    | some _ => exact hI
    | none => exact Integ_run H _ _ hI (Guards_of_all_easy H _ _ (finhDecide_easy w.st n now))
  | finhDo now =>
    simp only [wstep]
    cases hh : w.held with
    | none => exact hI
    | some x =>
      obtain ⟨n, it⟩ := x
      exact Integ_run H _ _ hI (integ_finalize_guards H w.st w.st n it now hI rfl)
  | cutFinhDo k now =>
    simp only [wstep]
    cases hh : w.held with
    | none => exact hI
    | some x =>
      obtain ⟨n, it⟩ := x
      exact Integ_crash H _
        (inv_cut (Integ_step H) _ w.st hI (integ_finalize_guards H w.st w.st n it now hI rfl) k)

theorem Integ_okRunW (H : Body → String) (evs : List WEv) (w : WState) (hI : Integ H w.st)
    (hr : OkRunW H w evs) : Integ H (runW H w evs).st := by
  induction evs generalizing w with
  | nil => exact hI
  | cons e es ih =>
    simp only [runW, List.foldl_cons]
    exact ih _ (Integ_wstep H w e hI hr.1) hr.2

theorem Integ_reachableWOk {H : Body → String} {w : WState} (hr : ReachableWOk H w) :
    Integ H w.st := by
  obtain ⟨evs, hok, rfl⟩ := hr
  exact Integ_okRunW H evs {} (Integ_init H) hok

/-- **C01 in the split semantics (partial: the two hypotheses of `C01_integrity_partial`).** In
    every state reachable by allowed events of the split semantics, i.e. with arbitrary other
    operations, crashes and restarts between the finalize handler's decision and its locked
    phase, every file in the final directory has a receive-log record for its target whose hash
    is the hash of the file's bytes. -/
theorem C01_window_integrity_partial {H : Body → String} {w : WState} (hr : ReachableWOk H w) :
    ∀ t i, w.st.disk.final t = some i →
      ∃ r ∈ w.st.disk.log, targetOf r.name r.renamed = t ∧ H (w.st.disk.body i) = r.hash :=
  (Integ_reachableWOk hr).jf

/-- the same as a statement about one window: from any allowed state, the decision for `n`,
    ANY allowed history `mid` (a newer version of `n` received and validated, the predecessor
    delivered, a duplicate, the cleaner, crashes, restarts, other windows), then the locked
    phase: the statement of C01 holds at the end. -/
theorem window_history_safe {H : Body → String} {w : WState} (hr : ReachableWOk H w)
    (n : Name) (now now' : Int) (mid : List WEv)
    (hok : OkRunW H (wstep H w (.finhDecide n now)) mid) :
    ∀ t i, (runW H w ([.finhDecide n now] ++ mid ++ [.finhDo now'])).st.disk.final t = some i →
      ∃ r ∈ (runW H w ([.finhDecide n now] ++ mid ++ [.finhDo now'])).st.disk.log,
        targetOf r.name r.renamed = t ∧
        H ((runW H w ([.finhDecide n now] ++ mid ++ [.finhDo now'])).st.disk.body i) = r.hash := by
  apply C01_window_integrity_partial
  apply hr.extend
  rw [OkRunW_append, OkRunW_append]
  refine ⟨⟨⟨trivial, trivial⟩, ?_⟩, trivial, trivial⟩
  simpa [runW] using hok

/-! ## the locked phase alone: `finalize_window_safe` -/

theorem mem_finalizeEffects_cond (s : State) (n : Name) (e : Entry) (now : Int) (p : Prim)
    (hp : p ∈ finalizeEffects s n e now) (hne : p ≠ Prim.lockAdd n) (hne' : p ≠ Prim.lockDel n) :
    stateOf s.mem n = some .validated ∧ (s.mem.cache n).map (·.hash) = some e.hash := by
  unfold finalizeEffects at hp
  by_cases hcond : stateOf s.mem n ≠ some .validated ∨ (s.mem.cache n).map (·.hash) ≠ some e.hash
  · rw [if_pos hcond] at hp
    simp only [List.append_nil, List.cons_append, List.nil_append, List.mem_cons,
      List.not_mem_nil, or_false] at hp
    rcases hp with rfl | rfl
    · exact absurd rfl hne
    · exact absurd rfl hne'
  · constructor
    · apply Classical.byContradiction; intro h; exact hcond (Or.inl h)
    · apply Classical.byContradiction; intro h; exact hcond (Or.inr h)

theorem toCache_no_logAppend (m : Mem) (n : Name) (e : Entry) (st : FState) (now : Int)
    (r : LogRec) : Prim.logAppend r ∉ toCache m n e st now := by
  intro h
  have := List.all_eq_true.mp (toCache_mem m n e st now) _ h
  simp [Prim.durable] at this

theorem toCache_no_renWaitFinal (m : Mem) (n : Name) (e : Entry) (st : FState) (now : Int)
    (k : Name) (t : String) : Prim.renWaitFinal k t ∉ toCache m n e st now := by
  intro h
  have := List.all_eq_true.mp (toCache_mem m n e st now) _ h
  simp [Prim.durable] at this

/-- the only record `finalize` appends is the held item's -/
theorem finalize_logs_item (s : State) (n : Name) (e : Entry) (now : Int) (r : LogRec)
    (h : Prim.logAppend r ∈ finalizeEffects s n e now) :
    r = ⟨n, e.renamed, e.hash, e.size, now, e.prev⟩ := by
  unfold finalizeEffects at h
  split at h
  · simp at h
  · split at h
    · simpa using h
    · simp only [List.cons_append, List.nil_append, List.append_assoc, List.mem_cons,
        List.mem_append, List.mem_map, reduceCtorEq, false_or, Prim.logAppend.injEq,
        List.not_mem_nil, or_false, and_false, exists_false] at h
      rcases h with h | h
      · exact h
      · exact absurd h (toCache_no_logAppend _ _ _ _ _ _)

/-- **`finalize_window_safe`.** The locked phase of the finalize handler, executed for ANY held
    item `e` of name `n` in ANY state `s` that satisfies the integrity invariant (whatever
    happened between the handler's decision and this moment):
    (1) it appends a log record or moves a file only if the cache entry of `n` is, now, the
        validated entry with the item's hash;
    (2) the only record it appends is the item's (its hash `e.hash`), the only file it moves is
        `<n>.wait`, to the item's target, and the bytes of that file hash to `e.hash`: they are
        the bytes that were validated under the hash that is logged;
    (3) the integrity invariant holds after it and after a crash at any durable step of it. -/
theorem finalize_window_safe (H : Body → String) (s : State) (n : Name) (e : Entry) (now : Int)
    (hI : Integ H s) :
    (((∃ r, Prim.logAppend r ∈ finhDoEffects s n e now) ∨
        (∃ m t, Prim.renWaitFinal m t ∈ finhDoEffects s n e now)) →
      ∃ ce, s.mem.cache n = some ce ∧ ce.state = .validated ∧ ce.hash = e.hash) ∧
    (∀ r, Prim.logAppend r ∈ finhDoEffects s n e now →
      r = ⟨n, e.renamed, e.hash, e.size, now, e.prev⟩) ∧
    (∀ m t, Prim.renWaitFinal m t ∈ finhDoEffects s n e now →
      m = n ∧ t = targetOf n e.renamed ∧ ∀ i, s.disk.wait n = some i → H (s.disk.body i) = e.hash) ∧
    Integ H (run s (finhDoEffects s n e now)) ∧
    ∀ k, Integ H (crash (run s (cut k (finhDoEffects s n e now)))) := by
  unfold finhDoEffects
  have hcache : ∀ p, p ∈ finalizeEffects s n e now → p ≠ Prim.lockAdd n → p ≠ Prim.lockDel n →
      ∃ ce, s.mem.cache n = some ce ∧ ce.state = .validated ∧ ce.hash = e.hash := by
    intro p hp h1 h2
    obtain ⟨hst, hh⟩ := mem_finalizeEffects_cond s n e now p hp h1 h2
    cases hce : s.mem.cache n with
    | none => simp [stateOf, hce] at hst
    | some ce =>
      simp only [stateOf, hce, Option.map_some, Option.some.injEq] at hst hh
      exact ⟨ce, rfl, hst, hh⟩
  refine ⟨?_, finalize_logs_item s n e now, ?_, ?_, ?_⟩
  · rintro (⟨r, hr⟩ | ⟨m, t, hm⟩)
    · exact hcache _ hr (by simp) (by simp)
    · exact hcache _ hm (by simp) (by simp)
  · intro m t hm
    obtain ⟨h1, h2⟩ := (log_before_move s n e now).2.1 m t hm
    refine ⟨h1, h2, ?_⟩
    intro i hw
    obtain ⟨ce, hce, hst, hh⟩ := hcache _ hm (by simp) (by simp)
    rw [← hh]
    exact hI.jw n i ce hw hce hst
  · exact Integ_run H _ _ hI (integ_finalize_guards H s s n e now hI rfl)
  · intro k
    exact Integ_crash H _
      (inv_cut (Integ_step H) _ s hI (integ_finalize_guards H s s n e now hI rfl) k)

/-! ## non-vacuity: a newer version validated inside the window -/

def metaB : Meta := { renamed := "", prev := "", size := 2, hash := "[7, 8]" }

/-- version 1 of "a" ([1, 2]) is received and validated; the finalize handler decides to
    finalize it and is held before `finalize`; version 2 ([7, 8]) of the same name is received
    completely and validated (its `.wait` replaces version 1's); then the handler goes on. -/
def windowRun : List WEv :=
  [ .ev (.op (.prepare "a" 2 0)), .ev (.op (.recvOpen 1 "a")), .ev (.op (.recvWrite 1 0 [1, 2] 0)),
    .ev (.op (.record "a" metaA 0 2 0)), .ev (.op (.process "a" 0)),
    .finhDecide "a" 0,
    .ev (.op (.prepare "a" 2 1)), .ev (.op (.recvOpen 2 "a")), .ev (.op (.recvWrite 2 0 [7, 8] 1)),
    .ev (.op (.record "a" metaB 0 2 1)), .ev (.op (.process "a" 1)),
    .finhDo 2 ]

theorem windowRun_ok : OkRunW Hs {} windowRun := by
  simp only [windowRun, OkRunW, WEvOk, EvOk, OpOk, true_and, and_true]
  exact ⟨⟨0, "a", by decide, by decide⟩, ⟨1, "a", by decide, by decide⟩⟩

/-- in the window the handler really holds version 1 while the cache already describes the
    validated version 2 (the hypotheses of `finalize_window_safe` are met by a state in which
    the re-check matters) -/
example : (runW Hs {} (windowRun.take 11)).held.map (fun x => (x.1, x.2.hash)) = some ("a", "[1, 2]") ∧
    ((runW Hs {} (windowRun.take 11)).st.mem.cache "a").map (fun e => (e.state, e.hash)) =
      some (.validated, "[7, 8]") ∧
    ((runW Hs {} (windowRun.take 11)).st.disk.wait "a").map (runW Hs {} (windowRun.take 11)).st.disk.body =
      some [7, 8] := ⟨by decide, by decide, by decide⟩

/-- the code: the stale item of version 1 is ignored by `finalize` (nothing logged, nothing
    moved); version 2 is then delivered through its own item, under its own record. -/
theorem window_code_ignores_stale_item :
    ReachableWOk Hs (runW Hs {} windowRun) ∧
    (runW Hs {} windowRun).st.disk.final "a" = none ∧
    (runW Hs {} windowRun).st.disk.log = [] ∧
    (runW Hs {} (windowRun ++ [.finhDecide "a" 3, .finhDo 3])).st.disk.log =
      [⟨"a", "", "[7, 8]", 2, 3, ""⟩] ∧
    ((runW Hs {} (windowRun ++ [.finhDecide "a" 3, .finhDo 3])).st.disk.final "a").map
      (runW Hs {} (windowRun ++ [.finhDecide "a" 3, .finhDo 3])).st.disk.body = some [7, 8] :=
  ⟨⟨windowRun, windowRun_ok, rfl⟩, by decide, by decide, by decide, by decide⟩

/-- the window with nothing in it is the atomic handler (`finh_eq_decide_then_do` on `goodRun`) -/
example : (runW Hs {} ((goodRun.take 6).map .ev ++ [.finhDecide "a" 0, .finhDo 0])).st.disk.final "a" =
    (runEvs Hs init goodRun).disk.final "a" := by decide

/-! ## the broken variant: hash compared only in the decision phase -/

/-- NOT the code: the handler's pre-check also compares the hash … -/
def finhPendingB (s : State) (n : Name) (now : Int) : Option Entry :=
  match s.mem.fq.find? (·.1 == n) with
  | none => none
  | some (_, e) =>
    if stateOf s.mem n ≠ some .validated ∨ (s.mem.cache n).map (·.hash) ≠ some e.hash then none
    else match isFileReady s n e now with
      | .yes => some e
      | .park .. => none

def finhDecideEffectsB (s : State) (n : Name) (now : Int) : List Prim :=
  match s.mem.fq.find? (·.1 == n) with
  | none => []
  | some (_, e) =>
    [Prim.fqDel n] ++
    (if stateOf s.mem n ≠ some .validated ∨ (s.mem.cache n).map (·.hash) ≠ some e.hash then []
     else match isFileReady s n e now with
       | .yes => []
       | .park timer e' =>
         [Prim.timerDel n] ++ (if timer then [Prim.timerSet n] else []) ++ [Prim.waitAdd e'.prev n e'])

/-- … and `finalize`, under the lock, re-checks only the state. -/
def finalizeEffectsB (s : State) (n : Name) (e : Entry) (now : Int) : List Prim :=
  [Prim.lockAdd n] ++
  (if stateOf s.mem n ≠ some .validated then []
   else
     [Prim.timerDel n, Prim.logAppend ⟨n, e.renamed, e.hash, e.size, now, e.prev⟩] ++
     (match s.disk.wait n with
      | none => []
      | some _ =>
        let t := targetOf n e.renamed
        [Prim.renWaitFinal n t] ++
        toCache s.mem n { e with logged := some now } .finalized now ++
        [Prim.rmCmpIf n e.hash, Prim.waitTake n] ++
        (s.mem.wait.filter (fun w => w.1 == n)).map (fun w => Prim.fqPush w.2.1 w.2.2))) ++
  [Prim.lockDel n]

/-- the split semantics of the broken variant -/
def wstepB (H : Body → String) (w : WState) : WEv → WState
  | .finhDecide n now =>
    (match w.held with
     | some _ => w
     | none => { st := run w.st (finhDecideEffectsB w.st n now),
                 held := (finhPendingB w.st n now).map (fun e => (n, e)) })
  | .finhDo now =>
    (match w.held with
     | none => w
     | some (n, e) => { st := run w.st (finalizeEffectsB w.st n e now), held := none })
  | .cutFinhDo k now =>
    (match w.held with
     | none => w
     | some (n, e) => { st := crash (run w.st (cut k (finalizeEffectsB w.st n e now))), held := none })
  | e => wstep H w e

def runWB (H : Body → String) (w : WState) (evs : List WEv) : WState := evs.foldl (wstepB H) w

/-- with nothing in the window the broken variant behaves like the code on `goodRun`: it is
    the window that separates them (which is why checks that can only schedule the atomic
    handler do not see the change) -/
example : (runWB Hs {} ((goodRun.take 6).map .ev ++ [.finhDecide "a" 0, .finhDo 0])).st.disk.final "a" =
    (runEvs Hs init goodRun).disk.final "a" ∧
    (runWB Hs {} ((goodRun.take 6).map .ev ++ [.finhDecide "a" 0, .finhDo 0])).st.disk.log =
    (runEvs Hs init goodRun).disk.log := ⟨by decide, by decide⟩

/-- **the broken variant violates C01.** Same history (`windowRun`, every event of which the
    hypotheses of the partial theorem allow): the stale item of version 1 passes `finalize`'s
    state-only re-check; the receive log gets version 1's hash and size, the final directory gets
    version 2's bytes: the delivered file has the hash of no record of the receive log. -/
theorem broken_window_violates_integrity :
    ∃ i, (runWB Hs {} windowRun).st.disk.final "a" = some i ∧
      (runWB Hs {} windowRun).st.disk.body i = [7, 8] ∧
      (runWB Hs {} windowRun).st.disk.log = [⟨"a", "", "[1, 2]", 2, 2, ""⟩] ∧
      ∀ r ∈ (runWB Hs {} windowRun).st.disk.log, Hs ((runWB Hs {} windowRun).st.disk.body i) ≠ r.hash :=
  ⟨1, by decide, by decide, by decide, by decide⟩

/-- so the statement of `C01_window_integrity_partial` is false for the broken variant -/
theorem broken_window_not_safe :
    ¬ ∀ t i, (runWB Hs {} windowRun).st.disk.final t = some i →
        ∃ r ∈ (runWB Hs {} windowRun).st.disk.log,
          targetOf r.name r.renamed = t ∧ Hs ((runWB Hs {} windowRun).st.disk.body i) = r.hash := by
  intro h
  obtain ⟨i, hf, _, _, hne⟩ := broken_window_violates_integrity
  obtain ⟨r, hr, _, hh⟩ := h "a" i hf
  exact hne r hr hh

end Sts.Stage
