/-
  C18 — transfer logs answer "was this file sent/received" exactly.
  Model: StsModel/Model/LogFmt.lean (log/local.go after the repair of finding F2; the
  behaviour before the repair is `searchOrig` / `wasWrittenOrig`).
-/
import StsModel.Model.LogFmt

namespace Sts
namespace LogFmt

/-! ## strings.Split -/

theorem splitOn_ne_nil (sep : Char) (s : Str) : splitOn sep s ≠ [] := by
  induction s with
  | nil => simp [splitOn]
  | cons c cs ih =>
    unfold splitOn
    split
    · simp
    · split <;> simp

theorem splitOn_noSep (sep : Char) (s : Str) (h : sep ∉ s) : splitOn sep s = [s] := by
  induction s with
  | nil => simp [splitOn]
  | cons c cs ih =>
    simp only [List.mem_cons, not_or] at h
    unfold splitOn
    rw [if_neg (fun e => h.1 e.symm), ih h.2]

theorem splitOn_append (sep : Char) (a rest : Str) (h : sep ∉ a) :
    splitOn sep (a ++ sep :: rest) = a :: splitOn sep rest := by
  induction a with
  | nil => simp [splitOn]
  | cons c cs ih =>
    simp only [List.mem_cons, not_or] at h
    simp only [List.cons_append]
    rw [splitOn, if_neg (fun e => h.1 e.symm), ih h.2]

/-! ## bufio.ScanLines -/

theorem linesRaw_line (l rest : Str) (h : '\n' ∉ l) :
    linesRaw (l ++ '\n' :: rest) = l :: linesRaw rest := by
  induction l with
  | nil => simp [linesRaw]
  | cons c cs ih =>
    simp only [List.mem_cons, not_or] at h
    simp only [List.cons_append]
    rw [linesRaw, if_neg (fun e => h.1 e.symm), ih h.2]

theorem scanLines_lines (ls : List Str) (h : ∀ l ∈ ls, '\n' ∉ l) :
    scanLines (ls.flatMap (fun l => l ++ ['\n'])) = ls.map dropCR := by
  induction ls with
  | nil => simp [scanLines, linesRaw]
  | cons l ls ih =>
    have hl := h l (by simp)
    have ih' := ih (fun x hx => h x (by simp [hx]))
    simp only [scanLines] at ih' ⊢
    simp only [List.flatMap_cons, List.append_assoc, List.singleton_append, List.map_cons]
    rw [linesRaw_line l _ hl]
    simp [ih']

theorem dropCR_id (l : Str) (h : l.getLast? ≠ some '\r') : dropCR l = l := by
  simp [dropCR, h]

/-! ## the directory as a history of whole lines -/

/-- the directory after the lines `h` (day, message) were logged, oldest first -/
def storeOfLines (h : List (Int × Str)) : Store := h.map (fun e => (e.1, e.2 ++ ['\n']))

theorem foldl_logLine (st : Store) (h : List (Int × Str)) :
    h.foldl (fun st e => logLine st e.1 e.2) st = st ++ storeOfLines h := by
  induction h generalizing st with
  | nil => simp [storeOfLines]
  | cons e es ih =>
    simp only [List.foldl_cons]
    rw [ih]
    simp [logLine, storeOfLines]

theorem content_storeOfLines (h : List (Int × Str)) (d : Int) :
    content (storeOfLines h) d =
      ((h.filter (fun e => e.1 == d)).map (fun e => e.2)).flatMap (fun l => l ++ ['\n']) := by
  induction h with
  | nil => simp [content, storeOfLines]
  | cons e es ih =>
    simp only [content, storeOfLines] at ih ⊢
    simp only [List.map_cons, List.filter_cons]
    split <;> simp_all

theorem fileLines_storeOfLines (h : List (Int × Str)) (d : Int)
    (hnl : ∀ e ∈ h, '\n' ∉ e.2) :
    fileLines (storeOfLines h) d = ((h.filter (fun e => e.1 == d)).map (fun e => e.2)).map dropCR := by
  unfold fileLines
  rw [content_storeOfLines]
  apply scanLines_lines
  intro l hl
  simp only [List.mem_map, List.mem_filter] at hl
  obtain ⟨e, ⟨he, _⟩, rfl⟩ := hl
  exact hnl e he

/-! ## strings.CutPrefix -/

theorem stripPrefix_eq_some (p s r : Str) : stripPrefix p s = some r ↔ s = p ++ r := by
  induction p generalizing s with
  | nil => simp [stripPrefix, eq_comm]
  | cons a p ih =>
    cases s with
    | nil => simp [stripPrefix]
    | cons c cs =>
      simp only [stripPrefix, List.cons_append, List.cons.injEq]
      split
      · rename_i hac; subst hac; simp [ih]
      · rename_i hac; simp [eq_comm, hac]

theorem append_sep_inj (sep : Char) (a b x y : Str) (ha : sep ∉ a) (hb : sep ∉ b)
    (h : a ++ sep :: x = b ++ sep :: y) : a = b ∧ x = y := by
  induction a generalizing b with
  | nil =>
    cases b with
    | nil => simpa using h
    | cons c cs =>
      simp only [List.nil_append, List.cons_append, List.cons.injEq] at h
      simp only [List.mem_cons, not_or] at hb
      exact absurd h.1 hb.1
  | cons c cs ih =>
    cases b with
    | nil =>
      simp only [List.nil_append, List.cons_append, List.cons.injEq] at h
      simp only [List.mem_cons, not_or] at ha
      exact absurd h.1.symm ha.1
    | cons d ds =>
      simp only [List.cons_append, List.cons.injEq] at h
      simp only [List.mem_cons, not_or] at ha hb
      obtain ⟨h1, h2⟩ := ih ds ha.2 hb.2 h.2
      exact ⟨by rw [h.1, h1], h2⟩

/-! ## decimal numbers -/

/-- the ten digit characters -/
def IsDigit (c : Char) : Prop := ∃ d, d < 10 ∧ c = digitChar d

theorem digitVal_digitChar (d : Nat) (h : d < 10) : digitVal? (digitChar d) = some d := by
  have : d = 0 ∨ d = 1 ∨ d = 2 ∨ d = 3 ∨ d = 4 ∨ d = 5 ∨ d = 6 ∨ d = 7 ∨ d = 8 ∨ d = 9 := by omega
  rcases this with h | h | h | h | h | h | h | h | h | h <;> subst h <;> rfl

theorem isDigit_props (c : Char) (h : IsDigit c) :
    c ≠ ':' ∧ c ≠ '\n' ∧ c ≠ '-' ∧ c ≠ '+' ∧ c ≠ '\r' := by
  obtain ⟨d, hd, rfl⟩ := h
  have : d = 0 ∨ d = 1 ∨ d = 2 ∨ d = 3 ∨ d = 4 ∨ d = 5 ∨ d = 6 ∨ d = 7 ∨ d = 8 ∨ d = 9 := by omega
  rcases this with h | h | h | h | h | h | h | h | h | h <;> subst h <;> decide

theorem natDigitsAux_all_digits (f n : Nat) : ∀ c ∈ natDigitsAux f n, IsDigit c := by
  induction f generalizing n with
  | zero =>
    intro c hc
    simp only [natDigitsAux, List.mem_singleton] at hc
    exact ⟨n % 10, by omega, hc⟩
  | succ f ih =>
    intro c hc
    rw [natDigitsAux] at hc
    split at hc
    · simp only [List.mem_singleton] at hc
      exact ⟨n, by omega, hc⟩
    · simp only [List.mem_append, List.mem_singleton] at hc
      rcases hc with hc | hc
      · exact ih _ c hc
      · exact ⟨n % 10, by omega, hc⟩

theorem natDigits_all_digits (n : Nat) : ∀ c ∈ natDigits n, IsDigit c :=
  natDigitsAux_all_digits n n

theorem natDigitsAux_ne_nil (f n : Nat) : natDigitsAux f n ≠ [] := by
  cases f with
  | zero => simp [natDigitsAux]
  | succ f => rw [natDigitsAux]; split <;> simp

theorem natDigits_ne_nil (n : Nat) : natDigits n ≠ [] := natDigitsAux_ne_nil n n

theorem parseNatAux_snoc (s : Str) (d acc : Nat) (hd : d < 10) :
    parseNatAux (s ++ [digitChar d]) acc = (parseNatAux s acc).map (fun v => v * 10 + d) := by
  induction s generalizing acc with
  | nil => simp [parseNatAux, digitVal_digitChar d hd]
  | cons c cs ih =>
    simp only [List.cons_append, parseNatAux]
    split
    · exact ih _
    · rfl

theorem parseNatAux_natDigitsAux (f n : Nat) (h : n ≤ f) :
    parseNatAux (natDigitsAux f n) 0 = some n := by
  induction f generalizing n with
  | zero =>
    have : n = 0 := by omega
    subst this
    rfl
  | succ f ih =>
    rw [natDigitsAux]
    split
    · rename_i h10
      simp [parseNatAux, digitVal_digitChar n h10]
    · rw [parseNatAux_snoc _ _ _ (by omega), ih (n / 10) (by omega)]
      simp only [Option.map_some, Option.some.injEq]
      omega

theorem parseNat_natDigits (n : Nat) : parseNat? (natDigits n) = some n := by
  unfold parseNat?
  split
  · rename_i h; exact absurd h (natDigits_ne_nil n)
  · exact parseNatAux_natDigitsAux n n (Nat.le_refl n)

theorem parseInt_neg (cs : Str) :
    parseInt? ('-' :: cs) = (parseNat? cs).map (fun n => - (n : Int)) := rfl

/-- a string of digits starts with neither sign -/
theorem parseInt_digits (s : Str) (h : ∀ c ∈ s, IsDigit c) :
    parseInt? s = (parseNat? s).map (fun n => (n : Int)) := by
  unfold parseInt?
  split
  · exact absurd rfl (isDigit_props _ (h _ (by simp))).2.2.1
  · exact absurd rfl (isDigit_props _ (h _ (by simp))).2.2.2.1
  · rfl

/-- `strconv.ParseInt` inverts `%d` -/
theorem atoi_fmtInt (i : Int) : atoi (fmtInt i) = i := by
  unfold atoi fmtInt
  split
  · rename_i h
    rw [parseInt_neg, parseNat_natDigits]
    show -((i.natAbs : Nat) : Int) = i
    omega
  · rename_i h
    rw [parseInt_digits _ (natDigits_all_digits _), parseNat_natDigits]
    show ((i.toNat : Nat) : Int) = i
    omega

theorem fmtInt_chars (i : Int) : ∀ c ∈ fmtInt i, c ≠ ':' ∧ c ≠ '\n' := by
  intro c hc
  unfold fmtInt at hc
  split at hc
  · simp only [List.mem_cons] at hc
    rcases hc with hc | hc
    · subst hc; decide
    · have := isDigit_props c (natDigits_all_digits _ c hc); exact ⟨this.1, this.2.1⟩
  · have := isDigit_props c (natDigits_all_digits _ c hc); exact ⟨this.1, this.2.1⟩

theorem fmtInt_no_colon (i : Int) : ':' ∉ fmtInt i := fun h => (fmtInt_chars i _ h).1 rfl
theorem fmtInt_no_nl (i : Int) : '\n' ∉ fmtInt i := fun h => (fmtInt_chars i _ h).2 rfl

example : fmtInt (-1048576) = ['-', '1', '0', '4', '8', '5', '7', '6'] := by decide
example : atoi ['+', '7'] = 7 ∧ atoi ['1', 'x'] = 0 ∧ atoi [] = 0 ∧ atoi ['-'] = 0 := by decide

/-! ## rollingFile.each: which day files a window visits -/

/-- the forward loop with fuel `f` visits exactly the times `t + 24h * j`, `j ≤ f`, for which
    the previously visited time (if any) was not after `stop`. -/
theorem mem_visitFwdAux (f : Nat) (t stop x : Int) :
    x ∈ visitFwdAux f t stop ↔
      ∃ j : Nat, j ≤ f ∧ x = t + 86400 * (j : Int) ∧ (j = 0 ∨ t + 86400 * (j : Int) - 86400 ≤ stop) := by
  induction f generalizing t with
  | zero =>
    simp only [visitFwdAux, List.mem_singleton]
    constructor
    · intro h; exact ⟨0, by omega, by omega, Or.inl rfl⟩
    · rintro ⟨j, hj, hx, _⟩
      have : j = 0 := by omega
      subst this; omega
  | succ f ih =>
    rw [visitFwdAux]
    simp only [List.mem_cons]
    constructor
    · rintro (h | h)
      · exact ⟨0, by omega, by omega, Or.inl rfl⟩
      · split at h
        · cases h
        · rename_i hst
          obtain ⟨j, hj, hx, hc⟩ := (ih _).1 h
          refine ⟨j + 1, by omega, by omega, Or.inr ?_⟩
          rcases hc with hc | hc
          · subst hc; omega
          · omega
    · rintro ⟨j, hj, hx, hc⟩
      cases j with
      | zero => left; omega
      | succ j =>
        right
        have hc' : t + 86400 * ((j + 1 : Nat) : Int) - 86400 ≤ stop := by
          rcases hc with hc | hc
          · omega
          · exact hc
        have hst : ¬ stop < t := by omega
        rw [if_neg hst]
        refine (ih _).2 ⟨j, by omega, by omega, ?_⟩
        by_cases hj0 : j = 0
        · exact Or.inl hj0
        · right; omega

/-- `each`, forward: the fuel of `visitFwd` never cuts the loop short. -/
theorem mem_visitFwd (t stop x : Int) :
    x ∈ visitFwd t stop ↔
      ∃ j : Nat, x = t + 86400 * (j : Int) ∧ (j = 0 ∨ t + 86400 * (j : Int) - 86400 ≤ stop) := by
  unfold visitFwd
  rw [mem_visitFwdAux]
  constructor
  · rintro ⟨j, _, hx, hc⟩; exact ⟨j, hx, hc⟩
  · rintro ⟨j, hx, hc⟩
    refine ⟨j, ?_, hx, hc⟩
    rcases hc with hc | hc
    · omega
    · omega

theorem mem_visitBwdAux (f : Nat) (t stop x : Int) :
    x ∈ visitBwdAux f t stop ↔
      ∃ j : Nat, j ≤ f ∧ x = t - 86400 * (j : Int) ∧ (j = 0 ∨ stop ≤ t - 86400 * (j : Int) + 86400) := by
  induction f generalizing t with
  | zero =>
    simp only [visitBwdAux, List.mem_singleton]
    constructor
    · intro h; exact ⟨0, by omega, by omega, Or.inl rfl⟩
    · rintro ⟨j, hj, hx, _⟩
      have : j = 0 := by omega
      subst this; omega
  | succ f ih =>
    rw [visitBwdAux]
    simp only [List.mem_cons]
    constructor
    · rintro (h | h)
      · exact ⟨0, by omega, by omega, Or.inl rfl⟩
      · split at h
        · cases h
        · rename_i hst
          obtain ⟨j, hj, hx, hc⟩ := (ih _).1 h
          refine ⟨j + 1, by omega, by omega, Or.inr ?_⟩
          rcases hc with hc | hc
          · subst hc; omega
          · omega
    · rintro ⟨j, hj, hx, hc⟩
      cases j with
      | zero => left; omega
      | succ j =>
        right
        have hc' : stop ≤ t - 86400 * ((j + 1 : Nat) : Int) + 86400 := by
          rcases hc with hc | hc
          · omega
          · exact hc
        have hst : ¬ t < stop := by omega
        rw [if_neg hst]
        refine (ih _).2 ⟨j, by omega, by omega, ?_⟩
        by_cases hj0 : j = 0
        · exact Or.inl hj0
        · right; omega

/-- `each`, backward. -/
theorem mem_visitBwd (t stop x : Int) :
    x ∈ visitBwd t stop ↔
      ∃ j : Nat, x = t - 86400 * (j : Int) ∧ (j = 0 ∨ stop ≤ t - 86400 * (j : Int) + 86400) := by
  unfold visitBwd
  rw [mem_visitBwdAux]
  constructor
  · rintro ⟨j, _, hx, hc⟩; exact ⟨j, hx, hc⟩
  · rintro ⟨j, hx, hc⟩
    refine ⟨j, ?_, hx, hc⟩
    rcases hc with hc | hc
    · omega
    · omega

/-- equal times: `each` returns at once, no day file is opened (also when a record was
    written at that very second). -/
theorem visitedDays_empty (t : Int) : visitedDays t t = [] := by
  simp [visitedDays, eachTimes]

/-- **days_cover_window**: for `start ≠ stop` (either order) every calendar day (UTC) that
    the closed window touches is visited. -/
theorem days_cover_window (start stop d : Int) (hne : start ≠ stop)
    (hlo : dayOf (min start stop) ≤ d) (hhi : d ≤ dayOf (max start stop)) :
    d ∈ visitedDays start stop := by
  unfold visitedDays eachTimes
  rw [if_neg hne]
  simp only [dayOf] at hlo hhi
  split
  · rename_i hlt
    rw [List.mem_map]
    refine ⟨start - 86400 * ((start / 86400 - d).toNat : Int), ?_, ?_⟩
    · rw [mem_visitBwd]
      refine ⟨(start / 86400 - d).toNat, rfl, ?_⟩
      by_cases h0 : (start / 86400 - d).toNat = 0
      · exact Or.inl h0
      · right; omega
    · simp only [dayOf]; omega
  · rename_i hlt
    rw [List.mem_map]
    refine ⟨start + 86400 * ((d - start / 86400).toNat : Int), ?_, ?_⟩
    · rw [mem_visitFwd]
      refine ⟨(d - start / 86400).toNat, rfl, ?_⟩
      by_cases h0 : (d - start / 86400).toNat = 0
      · exact Or.inl h0
      · right; omega
    · simp only [dayOf]; omega

/-- at most one further day is visited, on the far side of `stop`: forward windows visit
    days `dayOf start … dayOf stop + 1`, reversed windows `dayOf stop - 1 … dayOf start`. -/
theorem visitedDays_within (start stop d : Int) (h : d ∈ visitedDays start stop) :
    (start < stop ∧ dayOf start ≤ d ∧ d ≤ dayOf stop + 1) ∨
    (stop < start ∧ dayOf stop - 1 ≤ d ∧ d ≤ dayOf start) := by
  unfold visitedDays eachTimes at h
  split at h
  · cases h
  · rename_i hne
    split at h
    · rename_i hlt
      rw [List.mem_map] at h
      obtain ⟨x, hx, rfl⟩ := h
      rw [mem_visitBwd] at hx
      obtain ⟨j, rfl, hc⟩ := hx
      right
      simp only [dayOf]
      rcases hc with hc | hc
      · subst hc; omega
      · omega
    · rename_i hlt
      rw [List.mem_map] at h
      obtain ⟨x, hx, rfl⟩ := h
      rw [mem_visitFwd] at hx
      obtain ⟨j, rfl, hc⟩ := hx
      left
      simp only [dayOf]
      rcases hc with hc | hc
      · subst hc; omega
      · omega

/-- zero times: `each` substitutes two successive clock readings; the covering statement
    holds for the resolved window. -/
theorem days_cover_window_zero (start stop : Option Int) (now1 now2 d : Int)
    (hne : resolve start now1 ≠ resolve stop now2)
    (hlo : dayOf (min (resolve start now1) (resolve stop now2)) ≤ d)
    (hhi : d ≤ dayOf (max (resolve start now1) (resolve stop now2))) :
    d ∈ visitedDaysZ start stop now1 now2 :=
  days_cover_window _ _ d hne hlo hhi

/-- both times zero and the clock moved on (by less than a day) between the two readings:
    today's and tomorrow's files are opened. -/
theorem visitedDaysZ_both_zero (now1 now2 : Int) (h1 : now1 < now2) (h2 : now2 < now1 + 86400) :
    visitedDaysZ none none now1 now2 = [dayOf now1, dayOf now1 + 1] := by
  have hf : ((now2 - now1) / 86400 + 1).toNat = 1 := by omega
  have h4 : now1 ≠ now2 := by omega
  have h5 : ¬ now2 < now1 := by omega
  simp only [visitedDaysZ, resolve, Option.getD_none, visitedDays, eachTimes, if_neg h4, if_neg h5,
    visitFwd, hf, visitFwdAux, List.map_cons, List.map_nil, dayOf]
  congr 2
  omega

/-- the loop ends only past `stop`: the last visited time of a forward window is after
    `stop`, every earlier one is not. -/
theorem visitFwd_stops_past (t stop x : Int) (h : x ∈ visitFwd t stop) :
    (x + 86400 ∈ visitFwd t stop ↔ x ≤ stop) := by
  rw [mem_visitFwd] at h ⊢
  obtain ⟨j, rfl, hc⟩ := h
  constructor
  · rintro ⟨k, hk, hkc⟩
    rcases hkc with hkc | hkc
    · subst hkc; omega
    · omega
  · intro hle
    exact ⟨j + 1, by omega, Or.inr (by omega)⟩

/-- the further day really occurs (window inside day 0, day 1 is opened too) and does not
    always occur (window from the last second of day 0 into day 1). -/
example : visitedDays 0 10 = [0, 1] := by decide
example : visitedDays 86399 86401 = [0, 1] := by decide
example : visitedDays 10 0 = [0, -1] := by decide
example : visitedDays 1728000000 1735776000 = (List.range 92).map (fun i : Nat => (20000 : Int) + (i : Int)) := by decide
/-- both ends zero: the two clock readings differ, today and tomorrow are opened -/
example : visitedDaysZ none none 1728043200 1728043201 = [20000, 20001] := by decide
/-- non-vacuity of `days_cover_window` across a month boundary (2024-09-30 … 2024-10-01) -/
example : (19996 : Int) ∈ visitedDays 1727740799 1727740801 ∧ (19997 : Int) ∈ visitedDays 1727740799 1727740801 := by decide

/-! ## records as lines -/

/-- hypothesis of the exactness theorems: the text fields of a record contain neither the
    field separator `:` nor a newline (finding F2b: the format cannot represent them). -/
structure Rec.Clean (r : Rec) : Prop where
  name_c : ':' ∉ r.name
  name_n : '\n' ∉ r.name
  renamed_c : ':' ∉ r.renamed
  renamed_n : '\n' ∉ r.renamed
  hash_c : ':' ∉ r.hash
  hash_n : '\n' ∉ r.hash

structure SentRec.Clean (r : SentRec) : Prop where
  name_c : ':' ∉ r.name
  name_n : '\n' ∉ r.name
  hash_c : ':' ∉ r.hash
  hash_n : '\n' ∉ r.hash

/-- what follows `name:` in a receive record -/
def recvRest (r : Rec) : Str :=
  r.renamed ++ ':' :: (r.hash ++ ':' :: (fmtInt r.size ++ ':' :: (fmtInt r.time ++ [':'])))

/-- what follows `name:` in a send record -/
def sentRest (r : SentRec) : Str :=
  r.hash ++ ':' :: (fmtInt r.size ++ ':' :: (fmtInt r.time ++ ':' :: ' ' :: (fmtInt r.ms ++ [' ', 'm', 's'])))

theorem fmtReceived_eq (r : Rec) : fmtReceived r = r.name ++ ':' :: recvRest r := rfl
theorem fmtSent_eq (r : SentRec) : fmtSent r = r.name ++ ':' :: sentRest r := rfl

theorem fmtReceived_no_nl (r : Rec) (h : r.Clean) : '\n' ∉ fmtReceived r := by
  have h1 := fmtInt_no_nl r.size
  have h2 := fmtInt_no_nl r.time
  simp [fmtReceived, h.name_n, h.renamed_n, h.hash_n, h1, h2]

theorem fmtSent_no_nl (r : SentRec) (h : r.Clean) : '\n' ∉ fmtSent r := by
  have h1 := fmtInt_no_nl r.size
  have h2 := fmtInt_no_nl r.time
  have h3 := fmtInt_no_nl r.ms
  simp [fmtSent, h.name_n, h.hash_n, h1, h2, h3]

theorem dropCR_snoc (x : Str) (c : Char) (h : c ≠ '\r') : dropCR (x ++ [c]) = x ++ [c] := by
  simp [dropCR, h]

theorem dropCR_fmtReceived (r : Rec) : dropCR (fmtReceived r) = fmtReceived r := by
  have : fmtReceived r =
      (r.name ++ ':' :: (r.renamed ++ ':' :: (r.hash ++ ':' :: (fmtInt r.size ++ ':' :: fmtInt r.time)))) ++ [':'] := by
    simp [fmtReceived]
  rw [this]
  exact dropCR_snoc _ _ (by decide)

theorem dropCR_fmtSent (r : SentRec) : dropCR (fmtSent r) = fmtSent r := by
  have : fmtSent r =
      (r.name ++ ':' :: (r.hash ++ ':' :: (fmtInt r.size ++ ':' :: (fmtInt r.time ++ ':' :: ' ' :: (fmtInt r.ms ++ [' ', 'm']))))) ++ ['s'] := by
    simp [fmtSent]
  rw [this]
  exact dropCR_snoc _ _ (by decide)

/-- the handler of the repaired look-up accepts the line of a receive record iff the record
    has exactly the name and (if one is asked for) exactly the hash. -/
theorem matchRecord_received (r : Rec) (hr : r.Clean) (name hash : Str) (hn : ':' ∉ name) :
    matchRecord name hash 1 (fmtReceived r) = true ↔ r.name = name ∧ (hash = [] ∨ r.hash = hash) := by
  unfold matchRecord
  cases hs : stripPrefix (name ++ [':']) (fmtReceived r) with
  | none =>
    simp only [Bool.false_eq_true, false_iff]
    rintro ⟨hname, _⟩
    have : stripPrefix (name ++ [':']) (fmtReceived r) = some (recvRest r) := by
      rw [stripPrefix_eq_some, fmtReceived_eq, hname]; simp
    rw [hs] at this; cases this
  | some rest =>
    rw [stripPrefix_eq_some, fmtReceived_eq] at hs
    have hs' : r.name ++ ':' :: recvRest r = name ++ ':' :: rest := by simpa using hs
    obtain ⟨hname, hrest⟩ := append_sep_inj ':' _ _ _ _ hr.name_c hn hs'
    subst hrest
    simp only
    by_cases he : hash = []
    · simp [he, hname]
    · have hne : hash.isEmpty = false := by simp [he]
      rw [hne]
      simp only [Bool.false_eq_true, if_false]
      unfold recvRest
      rw [splitOn_append ':' _ _ hr.renamed_c, splitOn_append ':' _ _ hr.hash_c]
      simp [hname, he]

theorem matchRecord_sent (r : SentRec) (hr : r.Clean) (name hash : Str) (hn : ':' ∉ name) :
    matchRecord name hash 0 (fmtSent r) = true ↔ r.name = name ∧ (hash = [] ∨ r.hash = hash) := by
  unfold matchRecord
  cases hs : stripPrefix (name ++ [':']) (fmtSent r) with
  | none =>
    simp only [Bool.false_eq_true, false_iff]
    rintro ⟨hname, _⟩
    have : stripPrefix (name ++ [':']) (fmtSent r) = some (sentRest r) := by
      rw [stripPrefix_eq_some, fmtSent_eq, hname]; simp
    rw [hs] at this; cases this
  | some rest =>
    rw [stripPrefix_eq_some, fmtSent_eq] at hs
    have hs' : r.name ++ ':' :: sentRest r = name ++ ':' :: rest := by simpa using hs
    obtain ⟨hname, hrest⟩ := append_sep_inj ':' _ _ _ _ hr.name_c hn hs'
    subst hrest
    simp only
    by_cases he : hash = []
    · simp [he, hname]
    · have hne : hash.isEmpty = false := by simp [he]
      rw [hne]
      simp only [Bool.false_eq_true, if_false]
      unfold sentRest
      rw [splitOn_append ':' _ _ hr.hash_c]
      simp [hname, he]

/-! ## C18: the look-up is exact -/

/-- the receive-log directory after the records `hist` (day of the writer's clock, record)
    were logged by `Received`, oldest first -/
def recvStore (hist : List (Int × Rec)) : Store :=
  storeOfLines (hist.map (fun e => (e.1, fmtReceived e.2)))

/-- the send-log directory after `Sent` logged `hist` -/
def sentStore (hist : List (Int × SentRec)) : Store :=
  storeOfLines (hist.map (fun e => (e.1, fmtSent e.2)))

/-- `recvStore` is what repeated `Received` (format the record, `rollingFile.log` it) builds. -/
theorem recvStore_eq_foldl (hist : List (Int × Rec)) :
    hist.foldl (fun st e => logLine st e.1 (fmtReceived e.2)) [] = recvStore hist := by
  have := foldl_logLine [] (hist.map (fun e => (e.1, fmtReceived e.2)))
  simp only [List.foldl_map, List.nil_append] at this
  exact this

theorem sentStore_eq_foldl (hist : List (Int × SentRec)) :
    hist.foldl (fun st e => logLine st e.1 (fmtSent e.2)) [] = sentStore hist := by
  have := foldl_logLine [] (hist.map (fun e => (e.1, fmtSent e.2)))
  simp only [List.foldl_map, List.nil_append] at this
  exact this

/-- the lines of a day file of the receive log are the formatted records of that day, in order -/
theorem fileLines_recvStore (hist : List (Int × Rec)) (hc : ∀ e ∈ hist, e.2.Clean) (d : Int) :
    fileLines (recvStore hist) d = (hist.filter (fun e => e.1 == d)).map (fun e => fmtReceived e.2) := by
  unfold recvStore
  rw [fileLines_storeOfLines]
  · simp only [List.filter_map, List.map_map]
    apply List.map_congr_left
    intro e _
    simp [dropCR_fmtReceived]
  · intro e he
    simp only [List.mem_map] at he
    obtain ⟨e', he', rfl⟩ := he
    exact fmtReceived_no_nl _ (hc e' he')

theorem fileLines_sentStore (hist : List (Int × SentRec)) (hc : ∀ e ∈ hist, e.2.Clean) (d : Int) :
    fileLines (sentStore hist) d = (hist.filter (fun e => e.1 == d)).map (fun e => fmtSent e.2) := by
  unfold sentStore
  rw [fileLines_storeOfLines]
  · simp only [List.filter_map, List.map_map]
    apply List.map_congr_left
    intro e _
    simp [dropCR_fmtSent]
  · intro e he
    simp only [List.mem_map] at he
    obtain ⟨e', he', rfl⟩ := he
    exact fmtSent_no_nl _ (hc e' he')

/-- **C18_lookup_exact** (receive log, repaired code): for every history of well-formed
    records, every name without `:`, every hash and every window, `WasReceived` answers yes
    iff a record with exactly that name (and, if a hash is given, exactly that hash) was
    written on one of the days the window visits. -/
theorem C18_lookup_exact_received (hist : List (Int × Rec)) (hc : ∀ e ∈ hist, e.2.Clean)
    (name hash : Str) (hn : ':' ∉ name) (start stop : Int) :
    wasReceived (recvStore hist) name hash start stop = true ↔
      ∃ d ∈ visitedDays start stop, ∃ r, (d, r) ∈ hist ∧ r.name = name ∧ (hash = [] ∨ r.hash = hash) := by
  unfold wasReceived search anyLine
  simp only [List.any_eq_true]
  constructor
  · rintro ⟨d, hd, line, hline, hm⟩
    rw [fileLines_recvStore hist hc d] at hline
    simp only [List.mem_map, List.mem_filter, beq_iff_eq] at hline
    obtain ⟨e, ⟨he, hed⟩, rfl⟩ := hline
    have := (matchRecord_received e.2 (hc e he) name hash hn).1 hm
    exact ⟨d, hd, e.2, by rw [← hed]; exact he, this⟩
  · rintro ⟨d, hd, r, hr, hm⟩
    refine ⟨d, hd, fmtReceived r, ?_, (matchRecord_received r (hc _ hr) name hash hn).2 hm⟩
    rw [fileLines_recvStore hist hc d]
    simp only [List.mem_map, List.mem_filter, beq_iff_eq]
    exact ⟨(d, r), ⟨hr, rfl⟩, rfl⟩

/-- **C18_lookup_exact** (send log, repaired code). -/
theorem C18_lookup_exact_sent (hist : List (Int × SentRec)) (hc : ∀ e ∈ hist, e.2.Clean)
    (name hash : Str) (hn : ':' ∉ name) (start stop : Int) :
    wasSent (sentStore hist) name hash start stop = true ↔
      ∃ d ∈ visitedDays start stop, ∃ r, (d, r) ∈ hist ∧ r.name = name ∧ (hash = [] ∨ r.hash = hash) := by
  unfold wasSent search anyLine
  simp only [List.any_eq_true]
  constructor
  · rintro ⟨d, hd, line, hline, hm⟩
    rw [fileLines_sentStore hist hc d] at hline
    simp only [List.mem_map, List.mem_filter, beq_iff_eq] at hline
    obtain ⟨e, ⟨he, hed⟩, rfl⟩ := hline
    have := (matchRecord_sent e.2 (hc e he) name hash hn).1 hm
    exact ⟨d, hd, e.2, by rw [← hed]; exact he, this⟩
  · rintro ⟨d, hd, r, hr, hm⟩
    refine ⟨d, hd, fmtSent r, ?_, (matchRecord_sent r (hc _ hr) name hash hn).2 hm⟩
    rw [fileLines_sentStore hist hc d]
    simp only [List.mem_map, List.mem_filter, beq_iff_eq]
    exact ⟨(d, r), ⟨hr, rfl⟩, rfl⟩

/-- completeness in the property's words: a record of exactly that name (and hash) written
    on a day the window `[start, stop]` touches (either order, `start ≠ stop`) is found. -/
theorem C18_lookup_complete_received (hist : List (Int × Rec)) (hc : ∀ e ∈ hist, e.2.Clean)
    (name hash : Str) (hn : ':' ∉ name) (start stop : Int) (hne : start ≠ stop)
    (d : Int) (r : Rec) (hr : (d, r) ∈ hist) (hname : r.name = name) (hhash : hash = [] ∨ r.hash = hash)
    (hlo : dayOf (min start stop) ≤ d) (hhi : d ≤ dayOf (max start stop)) :
    wasReceived (recvStore hist) name hash start stop = true :=
  (C18_lookup_exact_received hist hc name hash hn start stop).2
    ⟨d, days_cover_window start stop d hne hlo hhi, r, hr, hname, hhash⟩

/-- soundness in the property's words: a yes is never due to records of other names or of
    the same name with another hash, and the record lies at most one day outside the window. -/
theorem C18_lookup_sound_received (hist : List (Int × Rec)) (hc : ∀ e ∈ hist, e.2.Clean)
    (name hash : Str) (hn : ':' ∉ name) (start stop : Int)
    (h : wasReceived (recvStore hist) name hash start stop = true) :
    ∃ d r, (d, r) ∈ hist ∧ r.name = name ∧ (hash = [] ∨ r.hash = hash) ∧
      dayOf (min start stop) - 1 ≤ d ∧ d ≤ dayOf (max start stop) + 1 := by
  obtain ⟨d, hd, r, hr, hname, hhash⟩ := (C18_lookup_exact_received hist hc name hash hn start stop).1 h
  refine ⟨d, r, hr, hname, hhash, ?_⟩
  have := visitedDays_within start stop d hd
  simp only [dayOf] at this ⊢
  omega

theorem C18_lookup_complete_sent (hist : List (Int × SentRec)) (hc : ∀ e ∈ hist, e.2.Clean)
    (name hash : Str) (hn : ':' ∉ name) (start stop : Int) (hne : start ≠ stop)
    (d : Int) (r : SentRec) (hr : (d, r) ∈ hist) (hname : r.name = name) (hhash : hash = [] ∨ r.hash = hash)
    (hlo : dayOf (min start stop) ≤ d) (hhi : d ≤ dayOf (max start stop)) :
    wasSent (sentStore hist) name hash start stop = true :=
  (C18_lookup_exact_sent hist hc name hash hn start stop).2
    ⟨d, days_cover_window start stop d hne hlo hhi, r, hr, hname, hhash⟩

theorem C18_lookup_sound_sent (hist : List (Int × SentRec)) (hc : ∀ e ∈ hist, e.2.Clean)
    (name hash : Str) (hn : ':' ∉ name) (start stop : Int)
    (h : wasSent (sentStore hist) name hash start stop = true) :
    ∃ d r, (d, r) ∈ hist ∧ r.name = name ∧ (hash = [] ∨ r.hash = hash) ∧
      dayOf (min start stop) - 1 ≤ d ∧ d ≤ dayOf (max start stop) + 1 := by
  obtain ⟨d, hd, r, hr, hname, hhash⟩ := (C18_lookup_exact_sent hist hc name hash hn start stop).1 h
  refine ⟨d, r, hr, hname, hhash, ?_⟩
  have := visitedDays_within start stop d hd
  simp only [dayOf] at this ⊢
  omega

/-- the look-up does not depend on the order in which the records reached the files
    (any interleaving of concurrent writers whose appends are atomic; the atomicity itself
    is a runtime property: `writer_serialises`, tested by the harness, not proved). -/
theorem C18_lookup_order_insensitive (h1 h2 : List (Int × Rec)) (hp : h1.Perm h2)
    (hc : ∀ e ∈ h1, e.2.Clean) (name hash : Str) (hn : ':' ∉ name) (start stop : Int) :
    wasReceived (recvStore h1) name hash start stop = wasReceived (recvStore h2) name hash start stop := by
  have hc2 : ∀ e ∈ h2, e.2.Clean := fun e he => hc e (hp.mem_iff.2 he)
  rw [Bool.eq_iff_iff, C18_lookup_exact_received h1 hc name hash hn,
    C18_lookup_exact_received h2 hc2 name hash hn]
  constructor
  · rintro ⟨d, hd, r, hr, h⟩; exact ⟨d, hd, r, hp.mem_iff.1 hr, h⟩
  · rintro ⟨d, hd, r, hr, h⟩; exact ⟨d, hd, r, hp.mem_iff.2 hr, h⟩

/-! ### non-vacuity and witnesses for the look-up -/

section witnesses

/-- `d/f10.nc` (hash aa11) and twice `d/f1` (hashes bb22, then cc33) on day 0; `a` renamed
    to `bb22` with hash aa11 on day 1 -/
def hist1 : List (Int × Rec) :=
  [(0, ⟨"d/f10.nc".toList, [], "aa11".toList, 5, 100⟩),
   (0, ⟨"d/f1".toList, [], "bb22".toList, 6, 200⟩),
   (0, ⟨"d/f1".toList, "r".toList, "cc33".toList, 7, 300⟩),
   (1, ⟨"a".toList, "bb22".toList, "aa11".toList, 77, 86500⟩)]

def hist2 : List (Int × Rec) := [(0, ⟨"d/f10.nc".toList, [], "aa11".toList, 5, 100⟩)]

/-- the hypotheses of `C18_lookup_exact_received` are satisfiable and both answers occur -/
example : (∀ e ∈ hist1, e.2.Clean) := by
  intro e he
  simp only [hist1, List.mem_cons, List.not_mem_nil, or_false] at he
  rcases he with rfl | rfl | rfl | rfl <;> constructor <;> decide
example : wasReceived (recvStore hist1) "d/f1".toList "cc33".toList 0 10 = true := by decide
example : wasReceived (recvStore hist1) "d/f1".toList "aa11".toList 0 10 = false := by decide
example : wasReceived (recvStore hist1) "d/f1".toList [] 10 0 = true := by decide
example : wasReceived (recvStore hist1) "a".toList "aa11".toList 0 10 = true := by decide
example : wasReceived (recvStore hist1) "a".toList "aa11".toList 0 0 = false := by decide
/-- a reversed window inside day 2 also opens day 1 (the further day), not day 0 -/
example : wasReceived (recvStore hist1) "a".toList "aa11".toList 172900 172801 = true := by decide
example : wasReceived (recvStore hist1) "a".toList "aa11".toList 259300 259201 = false := by decide

/-- **F2, substring** (behaviour before the repair, `rollingFile.search` + `FindLine`):
    `d/f1` is "found" although only `d/f10.nc` was ever logged. -/
theorem orig_lookup_unsound_substring :
    wasWrittenOrig (recvStore hist2) "d/f1".toList [] 0 10 = true ∧
    ¬ ∃ d r, (d, r) ∈ hist2 ∧ r.name = "d/f1".toList := by
  refine ⟨by decide, ?_⟩
  rintro ⟨d, r, hr, hn⟩
  simp only [hist2, List.mem_singleton, Prod.mk.injEq] at hr
  obtain ⟨_, rfl⟩ := hr
  revert hn; decide

/-- **F2**: a hash is "found" as a name. -/
theorem orig_lookup_unsound_hash_as_name :
    wasWrittenOrig (recvStore hist2) "aa11".toList [] 0 10 = true := by decide

/-- **F2, first line only**: the second record of `d/f1` on that day (hash cc33) is not found. -/
theorem orig_lookup_incomplete_second_record :
    wasWrittenOrig (recvStore hist1) "d/f1".toList "cc33".toList 0 10 = false ∧
    ((0 : Int), (⟨"d/f1".toList, "r".toList, "cc33".toList, 7, 300⟩ : Rec)) ∈ hist1 ∧
    (0 : Int) ∈ visitedDays 0 10 := by
  refine ⟨by decide, by simp [hist1], by decide⟩

/-- **F2, hash anywhere in the line**: `a` with hash `bb22` is "found" because `bb22` is
    its rename. -/
theorem orig_lookup_unsound_hash_in_rename :
    wasWrittenOrig (recvStore hist1) "a".toList "bb22".toList 86400 86410 = true := by decide

/-- the repaired look-up answers all four correctly -/
example : wasReceived (recvStore hist2) "d/f1".toList [] 0 10 = false := by decide
example : wasReceived (recvStore hist2) "aa11".toList [] 0 10 = false := by decide
example : wasReceived (recvStore hist1) "d/f1".toList "cc33".toList 0 10 = true := by decide
example : wasReceived (recvStore hist1) "a".toList "bb22".toList 86400 86410 = false := by decide

/-- **F2b** (limitation of the record format, still present): without the hypothesis that
    names contain no `:` the look-up is not exact. A record named `we:ird` answers the
    look-up for the name `we` … -/
def hist3 : List (Int × Rec) := [(0, ⟨"we:ird".toList, [], "h1".toList, 3, 100⟩)]

theorem colon_name_lookup_unsound :
    wasReceived (recvStore hist3) "we".toList [] 0 10 = true ∧
    ¬ ∃ d r, (d, r) ∈ hist3 ∧ r.name = "we".toList := by
  refine ⟨by decide, ?_⟩
  rintro ⟨d, r, hr, hn⟩
  simp only [hist3, List.mem_singleton, Prod.mk.injEq] at hr
  obtain ⟨_, rfl⟩ := hr
  revert hn; decide

/-- … and a look-up *name* containing `:` matches the record of `a` renamed to `b`. -/
theorem colon_lookup_name_unsound :
    wasReceived (recvStore [(0, ⟨"a".toList, "b".toList, "h".toList, 1, 1⟩)]) "a:b".toList [] 0 10 = true := by
  decide

/-- its own records are still found -/
example : wasReceived (recvStore hist3) "we:ird".toList "h1".toList 0 10 = true := by decide

end witnesses

/-! ## Parse -/

/-- **parse_roundtrip**: `Parse` recovers name, rename, hash, size and time of a record
    written by `Received`, decimal formatting and parsing included, provided the three text
    fields contain no `:`. -/
theorem parse_roundtrip (r : Rec) (hr : r.Clean) : parseLine (fmtReceived r) = some r := by
  unfold parseLine fmtReceived
  rw [splitOn_append ':' _ _ hr.name_c, splitOn_append ':' _ _ hr.renamed_c,
    splitOn_append ':' _ _ hr.hash_c, splitOn_append ':' _ _ (fmtInt_no_colon _),
    splitOn_append ':' _ _ (fmtInt_no_colon _)]
  simp [atoi_fmtInt]

theorem filterMap_parse_lines (l : List (Int × Rec)) (hc : ∀ e ∈ l, e.2.Clean) :
    (l.map (fun e => fmtReceived e.2)).filterMap parseLine = l.map (fun e => e.2) := by
  induction l with
  | nil => rfl
  | cons e es ih =>
    have h1 := parse_roundtrip e.2 (hc e (by simp))
    have h2 := ih (fun x hx => hc x (by simp [hx]))
    simp [h1, h2]

/-- **parse_replays_history**: replaying the receive log over a window hands the handler,
    for every visited day in order, exactly the records written on that day, in the order
    written, each with the same five fields. -/
theorem parse_replays_history (hist : List (Int × Rec)) (hc : ∀ e ∈ hist, e.2.Clean) (start stop : Int) :
    parseLog (recvStore hist) start stop =
      (visitedDays start stop).flatMap (fun d => (hist.filter (fun e => e.1 == d)).map (fun e => e.2)) := by
  unfold parseLog allLines
  generalize visitedDays start stop = ds
  induction ds with
  | nil => rfl
  | cons d ds ih =>
    simp only [List.flatMap_cons, List.filterMap_append, ih]
    congr 1
    rw [fileLines_recvStore hist hc d]
    exact filterMap_parse_lines _ (fun e he => hc e (List.mem_filter.1 he).1)

/-- every record written on a day the window touches is replayed -/
theorem parse_replays_touched (hist : List (Int × Rec)) (hc : ∀ e ∈ hist, e.2.Clean)
    (start stop : Int) (hne : start ≠ stop) (d : Int) (r : Rec) (hr : (d, r) ∈ hist)
    (hlo : dayOf (min start stop) ≤ d) (hhi : d ≤ dayOf (max start stop)) :
    r ∈ parseLog (recvStore hist) start stop := by
  rw [parse_replays_history hist hc, List.mem_flatMap]
  refine ⟨d, days_cover_window start stop d hne hlo hhi, ?_⟩
  simp only [List.mem_map, List.mem_filter, beq_iff_eq]
  exact ⟨(d, r), ⟨hr, rfl⟩, rfl⟩

section witnesses

example : parseLine (fmtReceived ⟨"d/f1".toList, "r".toList, "cc33".toList, 1048576, 1728000000⟩)
    = some ⟨"d/f1".toList, "r".toList, "cc33".toList, 1048576, 1728000000⟩ := by decide

example : parseLog (recvStore hist1) 86401 0 = [hist1[3].2, hist1[0].2, hist1[1].2, hist1[2].2] := by decide

/-- **F2b**: `Parse` splits a name containing `:` — `we:ird` comes back as name `we`,
    rename `ird`, empty hash, and the numbers move one field to the left. -/
theorem parse_splits_colon_name :
    parseLine (fmtReceived ⟨"we:ird".toList, [], "h1".toList, 3, 100⟩)
      = some ⟨"we".toList, "ird".toList, [], 0, 3⟩ := by decide

/-- the same for `:` in the rename: the hash handed to the handler is the rest of the rename -/
example : parseLine (fmtReceived ⟨"n".toList, "a:b".toList, "h1".toList, 3, 100⟩)
      = some ⟨"n".toList, "a".toList, "b".toList, 0, 3⟩ := by decide

/-- lines of the older four-field shape are read without rename; shorter lines are skipped -/
example : parseLine "a:b:12:34".toList = some ⟨"a".toList, [], "b".toList, 12, 34⟩ := by decide
example : parseLine "short:line".toList = none := by decide

end witnesses

end LogFmt
end Sts
