/-
  C14 — requests cannot touch files outside the configured directories.

  What is proved here (all about the executable model in Model/Path.lean and Model/Auth.lean,
  for all segment lists / strings / requests; `decide` only in the concrete witnesses):

  * Go's lexical Clean over segment lists: what it outputs (`cleanSegs_*`), how a join onto a
    clean root decomposes (`joinUnder_eq`: the complete lexical description of
    `filepath.Join(root, name)`), hence
      `join_confined`            a name accepted by the repaired check stays strictly below the root,
                                 also with an extension appended (`join_confined_ext`);
      `join_under_iff`           exact condition for any name; `join_escapes_witness`: every name
                                 whose relative Clean starts with ".." escapes from some root;
                                 `join_empty_is_root`: a name that cleans to nothing is the root itself,
                                 whose `root + ext` siblings are outside (`root_ext_escapes`);
  * `static_confined`            what http/server.go sanitizeRelativePath accepts stays below serve/<source>;
  * `source_dir_confined`        main/server.go's directory name of a source is one segment and lies strictly
                                 below the configured root iff it is not "", "." or ".."; sources accepted by
                                 the repaired isSafeSourceName always do;
  * `C14_data_routes_confined`   for every request to the repaired receiver, every gatekeeper call it causes
                                 carries a safe source and safe names, so every path stage/local.go builds
                                 from it lies strictly below that source's stage / final / log directory;
                                 `unsafe_names_refused`: a request with an unsafe name causes no call at all;
  * `old_*`                      the unrepaired definitions are unsound: concrete witnesses (F3, S12).
-/
import StsModel.Model.Path
import StsModel.Model.Auth

set_option linter.unusedSimpArgs false

namespace Sts

/-- a segment that names something: not empty, not ".", not ".." -/
def Normal (s : String) : Prop := s ≠ "" ∧ s ≠ "." ∧ s ≠ ".."

instance (s : String) : Decidable (Normal s) := by unfold Normal; exact inferInstance

/-- segments Clean keeps when there is no "..": everything but "" and "." -/
def keepSeg (s : String) : Bool := s != "" && s != "."

/-! ## Clean -/

theorem cleanStep_normal (r : Bool) (acc : List String) (s : String) (h : Normal s) :
    pCleanStep r acc s = s :: acc := by
  obtain ⟨h1, h2, h3⟩ := h
  simp [pCleanStep, h1, h2, h3]

theorem cleanStep_skip (r : Bool) (acc : List String) (s : String) (h : s = "" ∨ s = ".") :
    pCleanStep r acc s = acc := by
  simp [pCleanStep, h]

/-- without ".." segments the loop only filters -/
theorem foldl_cleanStep_noDotDot (r : Bool) (segs : List String) (h : ∀ s ∈ segs, s ≠ "..") :
    ∀ acc, segs.foldl (pCleanStep r) acc = (segs.filter keepSeg).reverse ++ acc := by
  induction segs with
  | nil => intro acc; simp
  | cons s rest ih =>
    intro acc
    have hs : s ≠ ".." := h s (by simp)
    have hrest : ∀ x ∈ rest, x ≠ ".." := fun x hx => h x (by simp [hx])
    simp only [List.foldl_cons]
    by_cases hk : s = "" ∨ s = "."
    · rw [cleanStep_skip r acc s hk, ih hrest]
      have : keepSeg s = false := by
        rcases hk with hk | hk <;> simp [keepSeg, hk]
      simp [List.filter_cons, this]
    · have hn : Normal s := ⟨fun h => hk (Or.inl h), fun h => hk (Or.inr h), hs⟩
      rw [cleanStep_normal r acc s hn, ih hrest]
      have : keepSeg s = true := by
        simp only [not_or] at hk
        simp [keepSeg, hk.1, hk.2]
      simp [List.filter_cons, this]

/-- Clean of `a ++ b` when `b` has no ".." segment: Clean of `a`, then the kept segments of `b` -/
theorem cleanSegs_append_noDotDot (r : Bool) (a b : List String) (h : ∀ s ∈ b, s ≠ "..") :
    cleanSegs r (a ++ b) = cleanSegs r a ++ b.filter keepSeg := by
  simp [cleanSegs, List.foldl_append, foldl_cleanStep_noDotDot r b h]

/-- the shape of the loop's stack: real segments on top of the leading ".." of a relative path -/
def StackOK (rooted : Bool) (acc : List String) : Prop :=
  ∃ (ns : List String) (k : Nat), acc = ns ++ List.replicate k ".." ∧ (∀ s ∈ ns, Normal s) ∧ (rooted = true → k = 0)

theorem cleanStep_stackOK (r : Bool) (acc : List String) (s : String) (h : StackOK r acc) :
    StackOK r (pCleanStep r acc s) := by
  obtain ⟨ns, k, rfl, hns, hk⟩ := h
  by_cases hskip : s = "" ∨ s = "."
  · rw [cleanStep_skip _ _ _ hskip]; exact ⟨ns, k, rfl, hns, hk⟩
  · by_cases hdd : s = ".."
    · subst hdd
      cases ns with
      | nil =>
        cases k with
        | zero =>
          cases r with
          | true => exact ⟨[], 0, by simp [pCleanStep], by simp, by simp⟩
          | false => exact ⟨[], 1, by simp [pCleanStep], by simp, by simp⟩
        | succ k =>
          cases r with
          | true => exact absurd (hk rfl) (by simp)
          | false =>
            refine ⟨[], k + 2, ?_, by simp, by simp⟩
            simp [pCleanStep, List.replicate_succ]
      | cons n ns =>
        have hn : Normal n := hns n (by simp)
        refine ⟨ns, k, ?_, fun x hx => hns x (by simp [hx]), hk⟩
        simp [pCleanStep, hn.2.2]
    · have hn : Normal s := ⟨fun h => hskip (Or.inl h), fun h => hskip (Or.inr h), hdd⟩
      rw [cleanStep_normal _ _ _ hn]
      refine ⟨s :: ns, k, by simp, ?_, hk⟩
      intro x hx
      simp only [List.mem_cons] at hx
      rcases hx with rfl | hx
      · exact hn
      · exact hns x hx

theorem foldl_cleanStep_stackOK (r : Bool) (segs : List String) :
    ∀ acc, StackOK r acc → StackOK r (segs.foldl (pCleanStep r) acc) := by
  induction segs with
  | nil => intro acc h; simpa using h
  | cons s rest ih => intro acc h; simp only [List.foldl_cons]; exact ih _ (cleanStep_stackOK r acc s h)

/-- Clean outputs some ".." (none when rooted) followed by real segments only. -/
theorem cleanSegs_shape (r : Bool) (segs : List String) :
    ∃ (k : Nat) (ns : List String), cleanSegs r segs = List.replicate k ".." ++ ns ∧
      (∀ s ∈ ns, Normal s) ∧ (r = true → k = 0) := by
  obtain ⟨ns, k, h, hns, hk⟩ := foldl_cleanStep_stackOK r segs [] ⟨[], 0, by simp, by simp, by simp⟩
  refine ⟨k, ns.reverse, ?_, ?_, hk⟩
  · simp [cleanSegs, h]
  · intro s hs; exact hns s (by simpa using hs)

/-- Clean never outputs an empty or a "." segment. -/
theorem cleanSegs_no_empty_dot (r : Bool) (segs : List String) :
    ∀ s ∈ cleanSegs r segs, s ≠ "" ∧ s ≠ "." := by
  obtain ⟨k, ns, h, hns, _⟩ := cleanSegs_shape r segs
  intro s hs
  rw [h] at hs
  simp only [List.mem_append, List.mem_replicate] at hs
  rcases hs with ⟨_, rfl⟩ | hs
  · decide
  · exact ⟨(hns s hs).1, (hns s hs).2.1⟩

/-- A rooted Clean has no ".." left: "/.." is "/". -/
theorem cleanSegs_rooted_normal (segs : List String) : ∀ s ∈ cleanSegs true segs, Normal s := by
  obtain ⟨k, ns, h, hns, hk⟩ := cleanSegs_shape true segs
  have : k = 0 := hk rfl
  subst this
  intro s hs
  rw [h] at hs
  exact hns s (by simpa using hs)

/-- Clean of real segments is the identity. -/
theorem cleanSegs_of_normal (r : Bool) (l : List String) (h : ∀ s ∈ l, Normal s) : cleanSegs r l = l := by
  have h1 : ∀ s ∈ l, s ≠ ".." := fun s hs => (h s hs).2.2
  have h2 : l.filter keepSeg = l := by
    apply List.filter_eq_self.mpr
    intro s hs
    simp [keepSeg, (h s hs).1, (h s hs).2.1]
  have := cleanSegs_append_noDotDot r [] l h1
  simpa [cleanSegs, h2] using this

/-- Clean is idempotent on rooted paths. -/
theorem cleanSegs_rooted_idem (segs : List String) :
    cleanSegs true (cleanSegs true segs) = cleanSegs true segs :=
  cleanSegs_of_normal true _ (cleanSegs_rooted_normal segs)

/-! ## Join onto a clean root: the complete lexical description -/

/-- Simulation of the relative Clean of `name` by the rooted Clean of `root ++ name`: where the
    relative loop holds `k` leading "..", the rooted loop has popped `k` segments of the root
    (as far as there were any). Stacks are last-segment-first; `A` is the reversed root. -/
theorem foldl_cleanStep_sim (A : List String) (hA : ∀ s ∈ A, Normal s) (name : List String) :
    ∀ (ns : List String) (k : Nat), (∀ s ∈ ns, Normal s) →
      ∃ (ns' : List String) (k' : Nat), (∀ s ∈ ns', Normal s) ∧
        name.foldl (pCleanStep false) (ns ++ List.replicate k "..") = ns' ++ List.replicate k' ".." ∧
        name.foldl (pCleanStep true) (ns ++ A.drop k) = ns' ++ A.drop k' := by
  induction name with
  | nil => intro ns k hns; exact ⟨ns, k, hns, rfl, rfl⟩
  | cons s rest ih =>
    intro ns k hns
    simp only [List.foldl_cons]
    by_cases hskip : s = "" ∨ s = "."
    · rw [cleanStep_skip _ _ _ hskip, cleanStep_skip _ _ _ hskip]; exact ih ns k hns
    · by_cases hdd : s = ".."
      · subst hdd
        cases ns with
        | nil =>
          -- the relative loop adds a "..", the rooted loop pops the root (or stays at "/")
          have hrel : pCleanStep false ([] ++ List.replicate k "..") ".." = [] ++ List.replicate (k + 1) ".." := by
            cases k with
            | zero => simp [pCleanStep]
            | succ k => simp [pCleanStep, List.replicate_succ]
          have habs : pCleanStep true ([] ++ A.drop k) ".." = [] ++ A.drop (k + 1) := by
            simp only [List.nil_append]
            cases hd : A.drop k with
            | nil =>
              have : A.drop (k + 1) = [] := by
                rw [← List.drop_drop, hd]; rfl
              simp [pCleanStep, this]
            | cons a rest' =>
              have ha : a ∈ A := List.mem_of_mem_drop (by rw [hd]; simp)
              have hn := hA a ha
              have : A.drop (k + 1) = rest' := by
                rw [← List.drop_drop, hd]; rfl
              simp [pCleanStep, hn.2.2, this]
          rw [hrel, habs]
          exact ih [] (k + 1) (by simp)
        | cons n ns =>
          have hn : Normal n := hns n (by simp)
          have hrel : pCleanStep false ((n :: ns) ++ List.replicate k "..") ".." = ns ++ List.replicate k ".." := by
            simp [pCleanStep, hn.2.2]
          have habs : pCleanStep true ((n :: ns) ++ A.drop k) ".." = ns ++ A.drop k := by
            simp [pCleanStep, hn.2.2]
          rw [hrel, habs]
          exact ih ns k (fun x hx => hns x (by simp [hx]))
      · have hn : Normal s := ⟨fun h => hskip (Or.inl h), fun h => hskip (Or.inr h), hdd⟩
        rw [cleanStep_normal _ _ _ hn, cleanStep_normal _ _ _ hn]
        have := ih (s :: ns) k (by
          intro x hx
          simp only [List.mem_cons] at hx
          rcases hx with rfl | hx
          · exact hn
          · exact hns x hx)
        simpa using this

/-- `filepath.Join(root, name)` for a clean rooted `root`, for every `name`: if the relative
    Clean of `name` is `k` times ".." followed by the real segments `ns`, the join is `root`
    without its last `k` segments, followed by `ns`. -/
theorem joinUnder_eq (root name : List String) (hroot : ∀ s ∈ root, Normal s) :
    ∃ (k : Nat) (ns : List String), cleanSegs false name = List.replicate k ".." ++ ns ∧
      (∀ s ∈ ns, Normal s) ∧ joinUnder root name = root.take (root.length - k) ++ ns := by
  have hA : ∀ s ∈ root.reverse, Normal s := fun s hs => hroot s (by simpa using hs)
  obtain ⟨ns', k', hns', hrel, habs⟩ := foldl_cleanStep_sim root.reverse hA name [] 0 (by simp)
  refine ⟨k', ns'.reverse, ?_, fun s hs => hns' s (by simpa using hs), ?_⟩
  · simp only [List.replicate_zero, List.append_nil] at hrel
    simp [cleanSegs, hrel]
  · have hr : root.foldl (pCleanStep true) [] = root.reverse := by
      have := foldl_cleanStep_noDotDot true root (fun s hs => (hroot s hs).2.2) []
      have h2 : root.filter keepSeg = root := by
        apply List.filter_eq_self.mpr
        intro s hs
        simp [keepSeg, (hroot s hs).1, (hroot s hs).2.1]
      simpa [h2] using this
    simp only [List.drop_zero, List.nil_append] at habs
    simp only [joinUnder, cleanSegs, List.foldl_append, hr, habs, List.reverse_append, List.reverse_reverse]
    congr 1
    rw [List.drop_reverse]
    simp

/-- the name check of the repaired data routes, on segments: no "..", something real -/
theorem safeSegs_iff (l : List String) :
    safeSegs l = true ↔ (∀ s ∈ l, s ≠ "..") ∧ ∃ s ∈ l, s ≠ "" ∧ s ≠ "." := by
  simp [safeSegs, List.all_eq_true, List.any_eq_true]

/-- Join of a safe name: the clean root followed by the name's real segments (at least one). -/
theorem joinUnder_safe (root name : List String) (h : safeSegs name = true) :
    joinUnder root name = cleanSegs true root ++ name.filter keepSeg ∧ name.filter keepSeg ≠ [] := by
  obtain ⟨h1, s, hs, hs1, hs2⟩ := (safeSegs_iff name).mp h
  refine ⟨cleanSegs_append_noDotDot true root name h1, ?_⟩
  intro hnil
  have : s ∈ name.filter keepSeg := by
    simp [List.mem_filter, hs, keepSeg, hs1, hs2]
  rw [hnil] at this
  cases this

/-- **join_confined**: a name accepted by the repaired check (no ".." segment, at least one real
    segment), joined onto any root as stage/local.go does, lies below the (clean) root and is
    not the root itself. Whether the name starts with a slash does not matter to Join. -/
theorem join_confined (root name : List String) (h : safeSegs name = true) :
    under (cleanSegs true root) (joinUnder root name) ∧ joinUnder root name ≠ cleanSegs true root := by
  obtain ⟨heq, hne⟩ := joinUnder_safe root name h
  rw [heq]
  refine ⟨List.prefix_append _ _, ?_⟩
  intro hcontra
  have := List.append_cancel_left (as := cleanSegs true root) (bs := name.filter keepSeg) (cs := []) (by simpa using hcontra)
  exact hne this

theorem addExt_append (a b : List String) (ext : String) (hb : b ≠ []) :
    addExt (a ++ b) ext = a ++ addExt b ext := by
  cases hrev : b.reverse with
  | nil => exact absurd (by simpa using hrev) hb
  | cons last rest =>
    have hb' : b = rest.reverse ++ [last] := by
      have := congrArg List.reverse hrev
      simpa using this
    subst hb'
    simp [addExt]

/-- **join_confined_ext**: the same with an extension appended to the path (`path + ".part"`,
    `".cmp"`, `".full"`, `".wait"`, `".lck"`): the file is still below the root. -/
theorem join_confined_ext (root name : List String) (ext : String) (h : safeSegs name = true) :
    under (cleanSegs true root) (addExt (joinUnder root name) ext) := by
  obtain ⟨heq, hne⟩ := joinUnder_safe root name h
  rw [heq, addExt_append _ _ _ hne]
  exact List.prefix_append _ _

/-- **join_under_iff**: for a clean root and any name, the join is below the root exactly when the
    root segments popped by the name's leading ".." are re-entered by what follows. -/
theorem join_under_iff (root name : List String) (hroot : ∀ s ∈ root, Normal s) :
    ∃ (k : Nat) (ns : List String), cleanSegs false name = List.replicate k ".." ++ ns ∧
      (under root (joinUnder root name) ↔ root.drop (root.length - k) <+: ns) := by
  obtain ⟨k, ns, hrel, _, hj⟩ := joinUnder_eq root name hroot
  refine ⟨k, ns, hrel, ?_⟩
  rw [hj]
  unfold under
  conv => lhs; lhs; rw [← List.take_append_drop (root.length - k) root]
  exact List.prefix_append_right_inj _

/-- the decomposition "some '..', then real segments" is unique -/
theorem replicate_dotdot_append_unique :
    ∀ (k k' : Nat) (ns ns' : List String), (∀ s ∈ ns, Normal s) → (∀ s ∈ ns', Normal s) →
      List.replicate k ".." ++ ns = List.replicate k' ".." ++ ns' → k = k' ∧ ns = ns' := by
  intro k
  induction k with
  | zero =>
    intro k' ns ns' hns hns' h
    cases k' with
    | zero => exact ⟨rfl, by simpa using h⟩
    | succ k' =>
      exfalso
      simp only [List.replicate_zero, List.nil_append, List.replicate_succ, List.cons_append] at h
      have : ".." ∈ ns := by rw [h]; simp
      exact (hns ".." this).2.2 rfl
  | succ k ih =>
    intro k' ns ns' hns hns' h
    cases k' with
    | zero =>
      exfalso
      simp only [List.replicate_zero, List.nil_append, List.replicate_succ, List.cons_append] at h
      have : ".." ∈ ns' := by rw [← h]; simp
      exact (hns' ".." this).2.2 rfl
    | succ k' =>
      simp only [List.replicate_succ, List.cons_append, List.cons.injEq, true_and] at h
      obtain ⟨h1, h2⟩ := ih k' ns ns' hns hns' h
      exact ⟨by omega, h2⟩

theorem append_x_normal (y : String) : Normal (y ++ "x") := by
  have hl : (y ++ "x").toList.getLast? = some 'x' := by
    rw [String.toList_append]
    have : ("x" : String).toList = ['x'] := by decide
    rw [this]; simp
  refine ⟨?_, ?_, ?_⟩ <;> intro hc <;> rw [hc] at hl <;> revert hl <;> decide

theorem append_x_ne (y : String) : y ++ "x" ≠ y := by
  intro hc
  have := congrArg (fun s => s.toList.length) hc
  simp only [String.toList_append, List.length_append] at this
  have hx : ("x" : String).toList.length = 1 := by decide
  omega

/-- **join_escapes_witness** (converse of `join_confined`): if the relative Clean of a name
    starts with "..", there is a root (one real segment) from which the join escapes. -/
theorem join_escapes_witness (name : List String)
    (h : (cleanSegs false name).head? = some "..") :
    ∃ root : List String, (∀ s ∈ root, Normal s) ∧ root ≠ [] ∧ ¬ under root (joinUnder root name) := by
  obtain ⟨k0, ns0, hrel0, hns0, _⟩ := cleanSegs_shape false name
  -- the name really starts with "..": k0 ≥ 1
  have hk0 : k0 ≥ 1 := by
    cases k0 with
    | zero =>
      exfalso
      rw [hrel0] at h
      simp only [List.replicate_zero, List.nil_append] at h
      exact (hns0 ".." (List.mem_of_mem_head? h)).2.2 rfl
    | succ k0 => omega
  -- a root segment different from the first real segment that follows
  let seg : String := (ns0.head?.getD "") ++ "x"
  have hsegN : ∀ s ∈ [seg], Normal s := by
    intro s hs; simp only [List.mem_singleton] at hs; subst hs; exact append_x_normal _
  refine ⟨[seg], hsegN, by simp, ?_⟩
  obtain ⟨k, ns, hrel, hns, hj⟩ := joinUnder_eq [seg] name hsegN
  obtain ⟨hk, hnseq⟩ := replicate_dotdot_append_unique k k0 ns ns0 hns hns0 (by rw [← hrel, hrel0])
  subst hk; subst hnseq
  have htake : [seg].take ([seg].length - k) = [] := by
    have : [seg].length - k = 0 := by simp; omega
    rw [this]; rfl
  rw [hj, htake]
  unfold under
  intro hp
  obtain ⟨t, ht⟩ := hp
  simp only [List.nil_append, List.cons_append] at ht
  have hh : ns.head? = some seg := by rw [← ht]; rfl
  have : seg = (ns.head?.getD "") ++ "x" := rfl
  rw [hh] at this
  exact append_x_ne seg this.symm

/-- **join_empty_is_root**: a name whose relative Clean is empty ("", ".", "a/..") joins to the
    root itself. -/
theorem join_empty_is_root (root name : List String) (hroot : ∀ s ∈ root, Normal s)
    (h : cleanSegs false name = []) : joinUnder root name = root := by
  obtain ⟨k, ns, hrel, hns, hj⟩ := joinUnder_eq root name hroot
  rw [h] at hrel
  obtain ⟨hk, hn⟩ := replicate_dotdot_append_unique 0 k [] ns (by simp) hns (by simpa using hrel)
  subst hk; subst hn
  simpa using hj

/-- **root_ext_escapes**: `root + ext` (what stage/local.go opens for such a name: `<root>.part`,
    `<root>.cmp`) is a sibling of the root, not a file below it. -/
theorem root_ext_escapes (root : List String) (ext : String) (hroot : root ≠ []) (hext : ext ≠ "") :
    ¬ under root (addExt root ext) := by
  cases hrev : root.reverse with
  | nil => exact absurd (by simpa using hrev) hroot
  | cons last rest =>
    have hr : root = rest.reverse ++ [last] := by
      have := congrArg List.reverse hrev
      simpa using this
    subst hr
    unfold under
    intro hp
    have hadd : addExt (rest.reverse ++ [last]) ext = rest.reverse ++ [last ++ ext] := by
      simp [addExt]
    rw [hadd] at hp
    have hp' := (List.prefix_append_right_inj rest.reverse).mp hp
    obtain ⟨t, ht⟩ := hp'
    simp only [List.cons_append, List.nil_append, List.cons.injEq] at ht
    have := congrArg (fun s => s.toList.length) ht.1
    simp only [String.toList_append, List.length_append] at this
    have hlen : ext.toList.length ≠ 0 := by
      intro h0
      have : ext.toList = [] := List.length_eq_zero_iff.mp h0
      exact hext (String.toList_eq_nil_iff.mp this)
    omega

/-! ## the static route -/

theorem segCharOk_ne_slash (c : Char) (h : segCharOk c = true) : c ≠ '/' := by
  intro hc; subst hc; revert h; decide

/-- what the loop of sanitizeRelativePath accepts: no "..", every kept segment whitelisted; the
    kept segments are exactly what Clean keeps -/
theorem sanitizeRelSegs_spec : ∀ (l k : List String), sanitizeRelSegs l = some k →
    k = l.filter keepSeg ∧ (∀ s ∈ l, s ≠ "..") ∧ ∀ s ∈ k, sanitizeSeg s = true ∧ Normal s := by
  intro l
  induction l with
  | nil => intro k h; simp [sanitizeRelSegs] at h; subst h; simp
  | cons s rest ih =>
    intro k h
    unfold sanitizeRelSegs at h
    by_cases hskip : s = "" ∨ s = "."
    · simp only [hskip, if_true] at h
      obtain ⟨h1, h2, h3⟩ := ih k h
      have hk : keepSeg s = false := by rcases hskip with hs | hs <;> simp [keepSeg, hs]
      refine ⟨by simp [List.filter_cons, hk, h1], ?_, h3⟩
      intro x hx
      simp only [List.mem_cons] at hx
      rcases hx with rfl | hx
      · rcases hskip with hs | hs <;> rw [hs] <;> decide
      · exact h2 x hx
    · simp only [hskip, if_false] at h
      by_cases hdd : s = ".."
      · simp [hdd] at h
      · simp only [hdd, if_false] at h
        by_cases hsan : sanitizeSeg s = true
        · simp only [hsan, Bool.not_true, Bool.false_eq_true, if_false] at h
          cases hrest : sanitizeRelSegs rest with
          | none => simp [hrest] at h
          | some k' =>
            simp only [hrest, Option.map_some, Option.some.injEq] at h
            subst h
            obtain ⟨h1, h2, h3⟩ := ih k' hrest
            simp only [not_or] at hskip
            have hk : keepSeg s = true := by simp [keepSeg, hskip.1, hskip.2]
            refine ⟨by simp [List.filter_cons, hk, h1], ?_, ?_⟩
            · intro x hx
              simp only [List.mem_cons] at hx
              rcases hx with rfl | hx
              · exact hdd
              · exact h2 x hx
            · intro x hx
              simp only [List.mem_cons] at hx
              rcases hx with rfl | hx
              · exact ⟨hsan, hskip.1, hskip.2, hdd⟩
              · exact h3 x hx
        · simp [hsan] at h

/-- **static_confined**: for a source that is one real segment and a request path accepted by
    sanitizeRelativePath (segments `l` of the trimmed path, kept segments `k`):
    the path the code computes by `Clean("/" + raw)` is `k`; every segment of `k` is made of
    whitelisted characters only (so contains no separator) and is neither "." nor "..";
    joined below `serveRoot/source` it stays below `serveRoot/source`. -/
theorem static_confined (serveRoot l k : List String) (source : String)
    (hsrc : Normal source) (h : sanitizeRelSegs l = some k) :
    cleanSegs true ("" :: l) = k ∧
    (∀ s ∈ k, Normal s ∧ ∀ c ∈ s.toList, segCharOk c = true ∧ c ≠ '/') ∧
    joinUnder (serveRoot ++ [source]) k = cleanSegs true serveRoot ++ [source] ++ k ∧
    under (cleanSegs true serveRoot ++ [source]) (joinUnder (serveRoot ++ [source]) l) := by
  obtain ⟨hk, hnd, hsan⟩ := sanitizeRelSegs_spec l k h
  have hkn : ∀ s ∈ k, Normal s := fun s hs => (hsan s hs).2
  have hroot : cleanSegs true (serveRoot ++ [source]) = cleanSegs true serveRoot ++ [source] := by
    have := cleanSegs_append_noDotDot true serveRoot [source] (by
      intro s hs; simp only [List.mem_singleton] at hs; subst hs; exact hsrc.2.2)
    simpa [List.filter_cons, keepSeg, hsrc.1, hsrc.2.1] using this
  refine ⟨?_, ?_, ?_, ?_⟩
  · have := cleanSegs_append_noDotDot true [""] l hnd
    have h0 : cleanSegs true [""] = [] := by decide
    simpa [h0, hk] using this
  · intro s hs
    refine ⟨hkn s hs, ?_⟩
    intro c hc
    have := (hsan s hs).1
    simp only [sanitizeSeg, Bool.and_eq_true, List.all_eq_true] at this
    exact ⟨this.2 c hc, segCharOk_ne_slash c (this.2 c hc)⟩
  · have := cleanSegs_append_noDotDot true (serveRoot ++ [source]) k (fun s hs => (hkn s hs).2.2)
    have hf : k.filter keepSeg = k := by
      apply List.filter_eq_self.mpr
      intro s hs
      simp [keepSeg, (hkn s hs).1, (hkn s hs).2.1]
    simp only [joinUnder]
    rw [this, hroot, hf]
  · have := cleanSegs_append_noDotDot true (serveRoot ++ [source]) l hnd
    simp only [joinUnder]
    rw [this, hroot]
    exact List.prefix_append _ _

/-! ## the directory of a source -/

theorem splitSlashAux_noSlash : ∀ (l cur : List Char), '/' ∉ l → splitSlashAux l cur = [cur.reverse ++ l] := by
  intro l
  induction l with
  | nil => intro cur _; simp [splitSlashAux]
  | cons c cs ih =>
    intro cur h
    have hc : c ≠ '/' := fun hc => h (by simp [hc])
    have hcs : '/' ∉ cs := fun hcs => h (by simp [hcs])
    simp [splitSlashAux, hc, ih (c :: cur) hcs]

/-- a string without '/' is one segment -/
theorem segsOf_noSlash (s : String) (h : '/' ∉ s.toList) : segsOf s = [s] := by
  simp [segsOf, splitSlashAux_noSlash s.toList [] h, String.ofList_toList]

theorem replSlash_noSlash : ∀ l : List Char, '/' ∉ replSlash l := by
  intro l
  induction l with
  | nil => simp [replSlash]
  | cons c cs ih =>
    unfold replSlash
    by_cases hc : c = '/'
    · simp only [hc, if_true, List.mem_cons, not_or]
      exact ⟨by decide, by decide, ih⟩
    · simp only [hc, if_false, List.mem_cons, not_or]
      exact ⟨fun h => hc h.symm, ih⟩

theorem replSlash_eq_nil (l : List Char) (h : replSlash l = []) : l = [] := by
  cases l with
  | nil => rfl
  | cons c cs => unfold replSlash at h; split at h <;> simp at h

theorem replSlash_eq_dots (l : List Char) (d : List Char) (hd : d = ['.'] ∨ d = ['.', '.'])
    (h : replSlash l = d) : l = d := by
  rcases hd with rfl | rfl
  · cases l with
    | nil => simp [replSlash] at h
    | cons c cs =>
      unfold replSlash at h
      split at h
      · simp at h
      · simp only [List.cons.injEq] at h
        rw [h.1, replSlash_eq_nil cs h.2]
  · cases l with
    | nil => simp [replSlash] at h
    | cons c cs =>
      unfold replSlash at h
      split at h
      · simp at h
      · simp only [List.cons.injEq] at h
        cases cs with
        | nil => simp [replSlash] at h
        | cons c2 cs2 =>
          have h2 := h.2
          unfold replSlash at h2
          split at h2
          · simp at h2
          · simp only [List.cons.injEq] at h2
            rw [h.1, h2.1, replSlash_eq_nil cs2 h2.2]

/-- the directory name main/server.go derives from a source contains no separator, hence is
    one path segment -/
theorem sourceDir_one_segment (source : String) : segsOf (sourceDir source) = [sourceDir source] := by
  apply segsOf_noSlash
  simp only [sourceDir, String.toList_ofList]
  exact replSlash_noSlash _

/-- a non-empty source accepted by the repaired isSafeSourceName gets a real directory name -/
theorem safe_source_dir_normal (source : String) (hne : source ≠ "") (h : isSafeSource source = true) :
    Normal (sourceDir source) := by
  simp only [isSafeSource, Bool.and_eq_true, bne_iff_ne, ne_eq, List.all_eq_true] at h
  obtain ⟨hdot, hsegs⟩ := h
  refine ⟨?_, ?_, ?_⟩
  · intro hc
    have := congrArg String.toList hc
    simp only [sourceDir, String.toList_ofList] at this
    have h0 : ("" : String).toList = [] := by decide
    rw [h0] at this
    exact hne (String.toList_eq_nil_iff.mp (replSlash_eq_nil _ this))
  · intro hc
    have := congrArg String.toList hc
    simp only [sourceDir, String.toList_ofList] at this
    have h0 : ("." : String).toList = ['.'] := by decide
    rw [h0] at this
    have hl := replSlash_eq_dots _ _ (Or.inl rfl) this
    exact hdot (String.toList_injective (by rw [hl, h0]))
  · intro hc
    have := congrArg String.toList hc
    simp only [sourceDir, String.toList_ofList] at this
    have h0 : (".." : String).toList = ['.', '.'] := by decide
    rw [h0] at this
    have hl := replSlash_eq_dots _ _ (Or.inr rfl) this
    have hs : source = ".." := String.toList_injective (by rw [hl, h0])
    subst hs
    exact hsegs ".." (by decide) rfl

theorem foldl_cleanStep_root (root : List String) (hroot : ∀ s ∈ root, Normal s) :
    root.foldl (pCleanStep true) [] = root.reverse := by
  have := foldl_cleanStep_noDotDot true root (fun s hs => (hroot s hs).2.2) []
  have h2 : root.filter keepSeg = root := by
    apply List.filter_eq_self.mpr
    intro s hs
    simp [keepSeg, (hroot s hs).1, (hroot s hs).2.1]
  simpa [h2] using this

/-- **source_dir_confined**: joining one directory name `d` onto a clean root gives a
    directory strictly below the root exactly when `d` is a real segment; "" and "." give the
    root itself, ".." its parent. -/
theorem source_dir_confined (root : List String) (d : String) (hroot : ∀ s ∈ root, Normal s) :
    (under root (joinUnder root [d]) ∧ joinUnder root [d] ≠ root) ↔ Normal d := by
  constructor
  · intro ⟨hu, hne⟩
    refine ⟨?_, ?_, ?_⟩ <;> intro hd <;> subst hd
    · exact hne (by simp [joinUnder, cleanSegs, List.foldl_append, foldl_cleanStep_root root hroot, pCleanStep])
    · exact hne (by simp [joinUnder, cleanSegs, List.foldl_append, foldl_cleanStep_root root hroot, pCleanStep])
    · -- ".." pops the last segment of the root
      have hj : joinUnder root [".."] = root.dropLast := by
        simp only [joinUnder, cleanSegs, List.foldl_append, foldl_cleanStep_root root hroot, List.foldl_cons, List.foldl_nil]
        cases hrev : root.reverse with
        | nil =>
          have : root = [] := by simpa using hrev
          subst this; simp [pCleanStep]
        | cons a t =>
          have ha : Normal a := hroot a (by
            have : a ∈ root.reverse := by rw [hrev]; simp
            simpa using this)
          have hr : root = t.reverse ++ [a] := by
            have := congrArg List.reverse hrev
            simpa using this
          simp [pCleanStep, ha.2.2, hr]
      rw [hj] at hu hne
      unfold under at hu
      have hlen := hu.length_le
      simp only [List.length_dropLast] at hlen
      cases root with
      | nil => exact hne rfl
      | cons a t => simp only [List.length_cons] at hlen; omega
  · intro hd
    have hj : joinUnder root [d] = root ++ [d] := by
      have := cleanSegs_append_noDotDot true root [d] (by
        intro s hs; simp only [List.mem_singleton] at hs; subst hs; exact hd.2.2)
      simpa [joinUnder, cleanSegs_of_normal true root hroot, List.filter_cons, keepSeg, hd.1, hd.2.1] using this
    rw [hj]
    exact ⟨List.prefix_append _ _, by simp⟩

/-- the per-source directories of a safe source lie strictly below the configured stage,
    final and log directories (clean, rooted) and are clean themselves -/
theorem source_roots_confined (conf : Roots) (source : String)
    (hs : ∀ s ∈ conf.stage, Normal s) (hf : ∀ s ∈ conf.final, Normal s) (hl : ∀ s ∈ conf.logs, Normal s)
    (hne : source ≠ "") (h : isSafeSource source = true) :
    (sourceRoots conf source).stage = conf.stage ++ [sourceDir source] ∧
    (sourceRoots conf source).final = conf.final ++ [sourceDir source] ∧
    (sourceRoots conf source).logs = conf.logs ++ [sourceDir source] := by
  have hd := safe_source_dir_normal source hne h
  have key : ∀ root : List String, (∀ s ∈ root, Normal s) → joinUnder root [sourceDir source] = root ++ [sourceDir source] := by
    intro root hroot
    have := cleanSegs_append_noDotDot true root [sourceDir source] (by
      intro s hs; simp only [List.mem_singleton] at hs; subst hs; exact hd.2.2)
    simpa [joinUnder, cleanSegs_of_normal true root hroot, List.filter_cons, keepSeg, hd.1, hd.2.1] using this
  exact ⟨key _ hs, key _ hf, key _ hl⟩

/-! ## the data routes of the repaired receiver -/

/-- a source name the gate lets through -/
def SrcOK (s : String) : Prop := s ≠ "" ∧ isSafeSource s = true

/-- what a gatekeeper call may carry: a safe source and safe names only -/
def CallSafe : Call → Prop
  | .newGK s => SrcOK s
  | .prepare s ps => SrcOK s ∧ ∀ p ∈ ps, partUnsafe p = false
  | .receive s p => SrcOK s ∧ partUnsafe p = false
  | .received s ps => SrcOK s ∧ ∀ p ∈ ps, partUnsafe p = false
  | .status s n => SrcOK s ∧ isSafeRel n = true
  | .scan s _ => SrcOK s

theorem getGateKeeper_spec (s : Srv) (src : String) :
    (∀ s' cs, getGateKeeper s src = (s', none, cs) → cs = []) ∧
    (∀ s' g cs, getGateKeeper s src = (s', some g, cs) →
      SrcOK src ∧ g.source = src ∧ (cs = [] ∨ cs = [Call.newGK src])) := by
  unfold getGateKeeper
  by_cases hc : (src == "" || !isSafeSource src) = true
  · simp only [hc, if_true]
    refine ⟨?_, ?_⟩
    · intro s' cs h; simp only [Prod.mk.injEq] at h; exact h.2.2.symm
    · intro s' g cs h; simp at h
  · simp only [hc, if_false]
    have hok : SrcOK src := by
      simp only [Bool.or_eq_true, beq_iff_eq, Bool.not_eq_true', not_or, Bool.not_eq_false] at hc
      exact ⟨hc.1, hc.2⟩
    cases hl : lookupGK s.gks src with
    | some g0 =>
      refine ⟨?_, ?_⟩
      · intro s' cs h; simp at h
      · intro s' g cs h
        simp only [Prod.mk.injEq, Option.some.injEq] at h
        obtain ⟨_, rfl, rfl⟩ := h
        have := List.find?_some hl
        simp only [beq_iff_eq] at this
        exact ⟨hok, this, Or.inl rfl⟩
    | none =>
      refine ⟨?_, ?_⟩
      · intro s' cs h; simp at h
      · intro s' g cs h
        simp only [Prod.mk.injEq, Option.some.injEq] at h
        obtain ⟨_, rfl, rfl⟩ := h
        exact ⟨hok, rfl, Or.inr rfl⟩

/-- the gate: every call it causes is the creation of a gatekeeper for a safe source; a request
    that passes has a safe source, which is the gatekeeper's -/
theorem handleValidate_calls (valid : String → String → Bool) (s : Srv) (r : Req) :
    (∀ c ∈ (handleValidate valid s r).2.2, CallSafe c) ∧
    (∀ g, (handleValidate valid s r).2.1 = Gate.pass g → SrcOK g.source ∧ g.source = getSourceName r) := by
  obtain ⟨hnone, hsome⟩ := getGateKeeper_spec s (getSourceName r)
  unfold handleValidate
  rcases hgk : getGateKeeper s (getSourceName r) with ⟨s', gk, cs⟩
  cases gk with
  | none =>
    have := hnone s' cs hgk
    subst this
    simp
  | some g =>
    obtain ⟨hok, hsrc, hcs⟩ := hsome s' g cs hgk
    have hcalls : ∀ c ∈ cs, CallSafe c := by
      intro c hc
      rcases hcs with rfl | rfl
      · cases hc
      · simp only [List.mem_singleton] at hc; subst hc; exact hok
    simp only
    split
    · exact ⟨hcalls, by intro g' h; cases h⟩
    · split
      · exact ⟨hcalls, by intro g' h; cases h⟩
      · refine ⟨hcalls, ?_⟩
        intro g' h
        simp only [Gate.pass.injEq] at h
        subst h
        exact ⟨hsrc ▸ hok, hsrc⟩

theorem receiveLoop_calls (g : GK) : ∀ (ps : List PartD) (c : Call), c ∈ (receiveLoop g ps).1 →
    ∃ p ∈ ps, c = Call.receive g.source p := by
  intro ps
  induction ps with
  | nil => intro c hc; simp [receiveLoop] at hc
  | cons p rest ih =>
    intro c hc
    unfold receiveLoop at hc
    split at hc
    · simp only [List.mem_singleton] at hc; exact ⟨p, by simp, hc⟩
    · simp only [List.mem_cons] at hc
      rcases hc with hc | hc
      · exact ⟨p, by simp, hc⟩
      · obtain ⟨q, hq, hcq⟩ := ih c hc
        exact ⟨q, by simp [hq], hcq⟩

theorem routeData_calls (g : GK) (r : Req) (hg : SrcOK g.source) :
    ∀ c ∈ (routeData true g r).calls, CallSafe c := by
  intro c hc
  unfold routeData at hc
  split at hc; · cases hc
  split at hc; · cases hc
  split at hc; · cases hc
  split at hc; · cases hc
  split at hc
  · cases hc
  · cases hc
  · rename_i raw _
    simp only [Bool.true_and] at hc
    split at hc
    · cases hc
    · rename_i hsafe
      have hall : ∀ p ∈ raw.map (convertPart r.sep), partUnsafe p = false := by
        intro p hp
        cases hpu : partUnsafe p with
        | false => rfl
        | true => exact absurd (List.any_eq_true.mpr ⟨p, hp, hpu⟩) hsafe
      simp only [List.mem_cons] at hc
      rcases hc with rfl | hc
      · exact ⟨hg, hall⟩
      · obtain ⟨p, hp, rfl⟩ := receiveLoop_calls g _ c hc
        exact ⟨hg, hall p hp⟩

theorem routeDataRecovery_calls (g : GK) (r : Req) (hg : SrcOK g.source) :
    ∀ c ∈ (routeDataRecovery true g r).calls, CallSafe c := by
  intro c hc
  unfold routeDataRecovery at hc
  split at hc; · cases hc
  split at hc; · cases hc
  split at hc; · cases hc
  split at hc
  · cases hc
  · cases hc
  · rename_i raw _
    simp only [Bool.true_and] at hc
    split at hc
    · cases hc
    · rename_i hsafe
      simp only [List.mem_singleton] at hc
      subst hc
      refine ⟨hg, ?_⟩
      intro p hp
      cases hpu : partUnsafe p with
      | false => rfl
      | true => exact absurd (List.any_eq_true.mpr ⟨p, hp, hpu⟩) hsafe

theorem routeValidate_calls (g : GK) (r : Req) (hg : SrcOK g.source) :
    ∀ c ∈ (routeValidate true g r).calls, CallSafe c := by
  intro c hc
  unfold routeValidate at hc
  split at hc; · cases hc
  split at hc; · cases hc
  split at hc; · cases hc
  split at hc
  · cases hc
  · cases hc
  · rename_i raw _
    simp only [Bool.true_and] at hc
    split at hc
    · cases hc
    · rename_i hsafe
      obtain ⟨n, hn, rfl⟩ := List.mem_map.mp hc
      refine ⟨hg, ?_⟩
      cases hs : isSafeRel n with
      | true => rfl
      | false =>
        exfalso
        apply hsafe
        simp only [List.any_eq_true]
        exact ⟨n, hn, by simp [hs]⟩

theorem routePartials_calls (g : GK) (r : Req) (hg : SrcOK g.source) :
    ∀ c ∈ (routePartials g r).calls, CallSafe c := by
  intro c hc
  unfold routePartials at hc
  split at hc
  · cases hc
  · simp only [List.mem_singleton] at hc; subst hc; exact hg

theorem routeFile_calls (root : String) (files : List pSFile) (r : Req) (path : String) :
    (routeFile root files r path).2.calls = [] := rfl

theorem runHandler_calls (serveRoot : String) (s : Srv) (gk : GK) (r : Req) (path : String) (h : Handler)
    (hok : SrcOK gk.source) : ∀ c ∈ (runHandler true serveRoot s gk r path h).2.calls, CallSafe c := by
  intro c hc
  cases h <;> simp only [runHandler] at hc
  · cases hc
  · cases hc
  · exact routeData_calls gk r hok c hc
  · exact routeDataRecovery_calls gk r hok c hc
  · exact routeValidate_calls gk r hok c hc
  · exact routePartials_calls gk r hok c hc
  · rw [routeFile_calls] at hc; cases hc
  · cases hc

theorem dispatch_calls_safe (serveRoot : String) (s : Srv) (r : Req) (path : String) (rt : Route)
    (valid : String → String → Bool) :
    ∀ c ∈ (dispatch true (handleValidate valid) serveRoot s r path rt).2.calls, CallSafe c := by
  intro c hc
  unfold dispatch at hc
  split at hc
  · split at hc
    · simp only [routeHealth] at hc
      split at hc <;> cases hc
    · cases hc
  · obtain ⟨hgc, hgp⟩ := handleValidate_calls valid s r
    simp only at hc
    split at hc
    · exact hgc c hc
    · rename_i gk hgk
      obtain ⟨hok, _⟩ := hgp gk hgk
      simp only [List.mem_append] at hc
      rcases hc with hc | hc
      · exact hgc c hc
      · exact runHandler_calls serveRoot _ gk r path rt.handler hok c hc

/-- **every call the repaired receiver makes on a gatekeeper carries a safe source and safe
    names** (for every state and every request) -/
theorem serve_calls_safe (serveRoot : String) (s : Srv) (r : Req) :
    ∀ c ∈ (serve serveRoot s r).2.calls, CallSafe c := by
  intro c hc
  unfold serve serveWith at hc
  split at hc
  · cases hc
  · simp only at hc
    split at hc
    · cases hc
    · exact dispatch_calls_safe serveRoot s r _ _ _ c hc

/-! ## from safe calls to confined paths -/

/-- the configured stage / final / log directories are clean rooted paths -/
def RootsClean (R : Roots) : Prop :=
  (∀ s ∈ R.stage, Normal s) ∧ (∀ s ∈ R.final, Normal s) ∧ (∀ s ∈ R.logs, Normal s)

/-- the directories of `src` lie strictly below the configured ones (and are clean) -/
def SourceConfined (conf : Roots) (src : String) : Prop :=
  let R := sourceRoots conf src
  (under conf.stage R.stage ∧ R.stage ≠ conf.stage) ∧ (under conf.final R.final ∧ R.final ≠ conf.final) ∧
  (under conf.logs R.logs ∧ R.logs ≠ conf.logs) ∧ RootsClean R

/-- every path stage/local.go and log/local.go build from one part (stage files with their
    extensions, final file and its lock file, the day file of the receive log, the predecessor's
    stage path used as cache key) lies below the directories `R` of the source -/
def PartConfined (R : Roots) (p : PartD) (yyyymm dd : String) : Prop :=
  (∀ f ∈ stageFiles R.stage p.name, under R.stage f) ∧
  (∀ f ∈ finalFiles R.final p.name p.renamed, under R.final f) ∧
  under R.logs (logFile R.logs yyyymm dd) ∧
  (p.prev ≠ "" → under R.stage (joinUnder R.stage (segsOf p.prev)))

theorem isSafeRel_safeSegs (n : String) (h : isSafeRel n = true) : safeSegs (segsOf n) = true := by
  simp only [isSafeRel, Bool.and_eq_true] at h
  exact h.2

theorem part_confined (R : Roots) (hR : RootsClean R) (p : PartD) (yyyymm dd : String)
    (h : partUnsafe p = false) : PartConfined R p yyyymm dd := by
  obtain ⟨hs, hf, _⟩ := hR
  simp only [partUnsafe, Bool.or_eq_false_iff, Bool.not_eq_false', Bool.and_eq_false_iff,
    bne_eq_false_iff_eq] at h
  obtain ⟨⟨hname, hren⟩, hprev⟩ := h
  have hname' := isSafeRel_safeSegs _ hname
  have cs : cleanSegs true R.stage = R.stage := cleanSegs_of_normal true _ hs
  have cf : cleanSegs true R.final = R.final := cleanSegs_of_normal true _ hf
  refine ⟨?_, ?_, List.prefix_append _ _, ?_⟩
  · intro f hfm
    simp only [stageFiles, List.mem_map] at hfm
    obtain ⟨ext, _, rfl⟩ := hfm
    have := join_confined_ext R.stage (segsOf p.name) ext hname'
    rwa [cs] at this
  · intro f hfm
    have htarget : safeSegs (segsOf (if (p.renamed != "") = true then p.renamed else p.name)) = true := by
      rcases hren with hr | hr
      · simp [hr, hname']
      · by_cases he : p.renamed = ""
        · simp [he, hname']
        · simp [he, isSafeRel_safeSegs _ hr]
    simp only [finalFiles, List.mem_cons, List.mem_nil_iff, or_false] at hfm
    rcases hfm with rfl | rfl
    · have := (join_confined R.final _ htarget).1
      rwa [cf] at this
    · have := join_confined_ext R.final _ ".lck" htarget
      rwa [cf] at this
  · intro hne
    rcases hprev with hp | hp
    · exact absurd hp hne
    · have := (join_confined R.stage _ (isSafeRel_safeSegs _ hp)).1
      rwa [cs] at this

theorem source_confined (conf : Roots) (hconf : RootsClean conf) (src : String) (h : SrcOK src) :
    SourceConfined conf src := by
  obtain ⟨hs, hf, hl⟩ := hconf
  obtain ⟨e1, e2, e3⟩ := source_roots_confined conf src hs hf hl h.1 h.2
  have hd := safe_source_dir_normal src h.1 h.2
  have ext : ∀ root : List String, (∀ s ∈ root, Normal s) → ∀ s ∈ root ++ [sourceDir src], Normal s := by
    intro root hroot s hsm
    simp only [List.mem_append, List.mem_singleton] at hsm
    rcases hsm with hsm | rfl
    · exact hroot s hsm
    · exact hd
  simp only [SourceConfined, RootsClean]
  rw [e1, e2, e3]
  exact ⟨⟨List.prefix_append _ _, by simp⟩, ⟨List.prefix_append _ _, by simp⟩, ⟨List.prefix_append _ _, by simp⟩,
    ext _ hs, ext _ hf, ext _ hl⟩

/-- what `C14_data_routes_confined` says about one gatekeeper call -/
def CallConfined (conf : Roots) (yyyymm dd : String) : Call → Prop
  | .newGK src => SourceConfined conf src
  | .scan src _ => SourceConfined conf src
  | .prepare src ps => SourceConfined conf src ∧ ∀ p ∈ ps, PartConfined (sourceRoots conf src) p yyyymm dd
  | .received src ps => SourceConfined conf src ∧ ∀ p ∈ ps, PartConfined (sourceRoots conf src) p yyyymm dd
  | .receive src p => SourceConfined conf src ∧ PartConfined (sourceRoots conf src) p yyyymm dd
  | .status src n => SourceConfined conf src ∧
      under (sourceRoots conf src).stage (joinUnder (sourceRoots conf src).stage (segsOf n))

theorem callSafe_confined (conf : Roots) (hconf : RootsClean conf) (yyyymm dd : String) (c : Call)
    (h : CallSafe c) : CallConfined conf yyyymm dd c := by
  cases c with
  | newGK src => exact source_confined conf hconf src h
  | scan src v => exact source_confined conf hconf src h
  | prepare src ps =>
    have hsc := source_confined conf hconf src h.1
    exact ⟨hsc, fun p hp => part_confined _ hsc.2.2.2 p yyyymm dd (h.2 p hp)⟩
  | received src ps =>
    have hsc := source_confined conf hconf src h.1
    exact ⟨hsc, fun p hp => part_confined _ hsc.2.2.2 p yyyymm dd (h.2 p hp)⟩
  | receive src p =>
    have hsc := source_confined conf hconf src h.1
    exact ⟨hsc, part_confined _ hsc.2.2.2 p yyyymm dd h.2⟩
  | status src n =>
    have hsc := source_confined conf hconf src h.1
    refine ⟨hsc, ?_⟩
    have := (join_confined (sourceRoots conf src).stage _ (isSafeRel_safeSegs _ h.2)).1
    rwa [cleanSegs_of_normal true _ hsc.2.2.2.1] at this

/-- **C14_data_routes_confined**: for every configuration of clean roots, every state of the
    receiver and every request (any method, path, source and key in header or query, separator,
    names, rename targets, predecessors, body shape), every call the repaired receiver makes on
    a gatekeeper is for a source whose stage / final / log directories lie strictly below the
    configured ones, and every path that stage/local.go builds from the names in the call lies
    below those per-source directories. -/
theorem C14_data_routes_confined (conf : Roots) (hconf : RootsClean conf) (serveRoot : String)
    (s : Srv) (r : Req) (yyyymm dd : String) :
    ∀ c ∈ (serve serveRoot s r).2.calls, CallConfined conf yyyymm dd c :=
  fun c hc => callSafe_confined conf hconf yyyymm dd c (serve_calls_safe serveRoot s r c hc)

/-- **unsafe_names_refused**: a data, data-recovery or validate request that carries an unsafe
    name (after the separator conversion) makes no gatekeeper call at all and is not answered
    200 or 206. -/
theorem unsafe_names_refused (g : GK) (r : Req) (raw : List PartD) (hb : r.body = Body.parts raw)
    (hu : (raw.map (convertPart r.sep)).any partUnsafe = true) :
    ((routeData true g r).calls = [] ∧ (routeData true g r).status ≠ 200 ∧ (routeData true g r).status ≠ 206) ∧
    ((routeDataRecovery true g r).calls = [] ∧ (routeDataRecovery true g r).status ≠ 200) := by
  refine ⟨?_, ?_⟩
  · unfold routeData
    split; · simp
    split; · simp
    split; · simp
    split; · simp
    rw [hb]
    simp [hu]
  · unfold routeDataRecovery
    split; · simp
    split; · simp
    split; · simp
    rw [hb]
    simp [hu]

theorem unsafe_names_refused_validate (g : GK) (r : Req) (raw : List PartD) (hb : r.body = Body.parts raw)
    (hu : (raw.map (fun p => sepConvert r.sep p.name)).any (fun n => !isSafeRel n) = true) :
    (routeValidate true g r).calls = [] ∧ (routeValidate true g r).status ≠ 200 := by
  unfold routeValidate
  split; · simp
  split; · simp
  split; · simp
  rw [hb]
  simp only [Bool.true_and]
  rw [if_pos hu]
  simp

/-- the static route changes the serve directory of the request's own source only: every entry
    afterwards is an entry from before, or one of that source marked removed -/
theorem static_effect_own_source (serveRoot : String) (files : List pSFile) (r : Req) (path : String) :
    ∀ f ∈ (routeFile serveRoot files r path).1, f ∈ files ∨
      ∃ f0 ∈ files, f0.source = getSourceName r ∧ f = { f0 with gone := true } := by
  intro f hf
  simp only [routeFile, routeFileCore] at hf
  repeat' split at hf
  all_goals first
    | exact Or.inl hf
    | (simp only [List.mem_map] at hf
       obtain ⟨f0, hf0, rfl⟩ := hf
       split
       · rename_i hc
         simp only [Bool.and_eq_true, beq_iff_eq] at hc
         exact Or.inr ⟨f0, hf0, hc.1, rfl⟩
       · exact Or.inl hf0)

/-! ## the unrepaired receiver: witnesses (F3, S12) -/

def witnessConf : Roots := ⟨["srv", "stage"], ["srv", "final"], ["srv", "logs"]⟩

def dataReq (source : String) (parts : List PartD) : Req :=
  { method := "PUT", url := "/data", srcH := source, srcQ := "", keyH := "", keyQ := "", sep := "/",
    metaLen := .ok, gzip := .off, body := .parts parts, version := "" }

/-- F3: before the repair a part named `../../../escape.txt` reaches Prepare and Receive (status
    200) and the paths built from it leave the stage and final directories of the source. -/
theorem old_data_route_escapes :
    let resp := (serveOld "/srv/serve" Srv.init (dataReq "src1" [⟨"../../../escape.txt", "", ""⟩])).2
    resp.status = 200 ∧ Call.receive "src1" ⟨"../../../escape.txt", "", ""⟩ ∈ resp.calls ∧
    ¬ under (sourceRoots witnessConf "src1").stage
        (joinUnder (sourceRoots witnessConf "src1").stage (segsOf "../../../escape.txt")) ∧
    joinUnder (sourceRoots witnessConf "src1").stage (segsOf "../../../escape.txt") = ["escape.txt"] := by
  decide

/-- F3, rename target: the name is fine, the target of the delivery is not. -/
theorem old_renamed_escapes :
    let resp := (serveOld "/srv/serve" Srv.init (dataReq "src1" [⟨"ok.dat", "../../../renamed.txt", ""⟩])).2
    resp.status = 200 ∧
    ∃ f ∈ finalFiles (sourceRoots witnessConf "src1").final "ok.dat" "../../../renamed.txt",
      ¬ under (sourceRoots witnessConf "src1").final f := by
  refine ⟨by decide, ["renamed.txt"], by decide, by decide⟩

/-- an empty name: the stage path is the source's directory itself and its `.part` sibling lies
    beside it (observed on the real code: `final/<source>` became a regular file). -/
theorem old_empty_name_hits_root :
    let resp := (serveOld "/srv/serve" Srv.init (dataReq "src1" [⟨"", "", ""⟩])).2
    resp.status = 200 ∧
    joinUnder (sourceRoots witnessConf "src1").stage (segsOf "") = (sourceRoots witnessConf "src1").stage ∧
    ¬ under (sourceRoots witnessConf "src1").stage (addExt (sourceRoots witnessConf "src1").stage ".part") := by
  decide

/-- S12: before the repair the source name ".." gets a gatekeeper whose directories are the
    parents of the configured ones; "." gets the configured directories themselves (all sources). -/
theorem old_source_dotdot_escapes :
    let resp := (serveOld "/srv/serve" Srv.init (dataReq ".." [⟨"dd.dat", "", ""⟩])).2
    resp.status = 200 ∧ Call.newGK ".." ∈ resp.calls ∧
    (sourceRoots witnessConf "..").stage = ["srv"] ∧ ¬ under witnessConf.stage (sourceRoots witnessConf "..").stage ∧
    (sourceRoots witnessConf ".").stage = witnessConf.stage := by
  decide

/-- the repaired receiver refuses all of these with 400 and without any gatekeeper call beyond
    creating the gatekeeper of a legitimate source name -/
theorem repaired_refuses_witnesses :
    (serve "/srv/serve" Srv.init (dataReq "src1" [⟨"../../../escape.txt", "", ""⟩])).2 = ⟨400, [Call.newGK "src1"], ""⟩ ∧
    (serve "/srv/serve" Srv.init (dataReq "src1" [⟨"ok.dat", "../../../renamed.txt", ""⟩])).2 = ⟨400, [Call.newGK "src1"], ""⟩ ∧
    (serve "/srv/serve" Srv.init (dataReq "src1" [⟨"", "", ""⟩])).2 = ⟨400, [Call.newGK "src1"], ""⟩ ∧
    (serve "/srv/serve" Srv.init (dataReq ".." [⟨"dd.dat", "", ""⟩])).2 = ⟨400, [], ""⟩ ∧
    (serve "/srv/serve" Srv.init (dataReq "." [⟨"dd.dat", "", ""⟩])).2 = ⟨400, [], ""⟩ := by
  decide

/-! ## non-vacuity -/

/-- `join_confined` applies to ordinary names, also with harmless "." and empty segments -/
example : safeSegs (segsOf "./2024//x_y/f.dat") = true ∧
    joinUnder ["srv", "stage", "src1"] (segsOf "./2024//x_y/f.dat") = ["srv", "stage", "src1", "2024", "x_y", "f.dat"] := by
  decide

/-- the check is an over-approximation: `a/../b` would stay inside but is refused -/
example : safeSegs (segsOf "a/../b") = false ∧
    under ["srv", "stage", "src1"] (joinUnder ["srv", "stage", "src1"] (segsOf "a/../b")) := by
  decide

/-- `join_escapes_witness` has instances: the relative Clean of the F3 name starts with ".." -/
example : (cleanSegs false (segsOf "../../../escape.txt")).head? = some ".." := by decide

/-- accepted requests exist: `C14_data_routes_confined` is about a non-empty set of calls -/
example : (serve "/srv/serve" Srv.init (dataReq "a/b" [⟨"dir/f.dat", "renamed/g.dat", "dir/e.dat"⟩])).2 =
    ⟨200, [Call.newGK "a/b", Call.prepare "a/b" [⟨"dir/f.dat", "renamed/g.dat", "dir/e.dat"⟩],
           Call.receive "a/b" ⟨"dir/f.dat", "renamed/g.dat", "dir/e.dat"⟩], ""⟩ ∧
    (sourceRoots witnessConf "a/b").stage = ["srv", "stage", "a--b"] := by
  decide

example : RootsClean witnessConf := by
  refine ⟨?_, ?_, ?_⟩ <;> decide

/-- `static_confined` applies: an accepted static path -/
example : sanitizeRelSegs (segsOf "a//b/./c.txt") = some ["a", "b", "c.txt"] ∧ sanitizeRel "/a//b/./c.txt" = some "a/b/c.txt" := by
  decide

end Sts
