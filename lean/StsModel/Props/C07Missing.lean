/-
  C07 (L0 part) — `missing_is_complement`: the gap computation of client/client.go recover()
  (Model/Ranges.lean: sortByBeg, gapsAux, lastEnd, missingSorted, missing).

  For a record of non-empty, pairwise non-overlapping ranges inside [0, size] the computed
  "missing" ranges are exactly the complement of the record in [0, size): non-empty,
  ascending, and every point of [0, size) lies in exactly one range, recorded or missing.
  For an overlapping record the computation emits a range with End < Beg (S5).
-/
import StsModel.Model.Ranges
import StsModel.Lemmas.Tiles

namespace Sts

/-- `RecordOK lo ps size`: the record `ps` is sorted by `beg`, its ranges are non-empty,
    do not overlap (each begins at or after the end of the one before) and lie inside
    [lo, size]. -/
def RecordOK (lo : Int) : List Rng → Int → Prop
  | [], size => lo ≤ size
  | p :: ps, size => lo ≤ p.beg ∧ p.beg < p.fin ∧ RecordOK p.fin ps size

instance RecordOK.decidable : ∀ (lo : Int) (ps : List Rng) (size : Int), Decidable (RecordOK lo ps size)
  | lo, [], size => inferInstanceAs (Decidable (lo ≤ size))
  | lo, p :: ps, size =>
    have := RecordOK.decidable p.fin ps size
    inferInstanceAs (Decidable (lo ≤ p.beg ∧ p.beg < p.fin ∧ RecordOK p.fin ps size))

theorem RecordOK.le {lo size : Int} {ps : List Rng} (h : RecordOK lo ps size) : lo ≤ size := by
  induction ps generalizing lo with
  | nil => exact h
  | cons p ps ih =>
    obtain ⟨h1, h2, h3⟩ := h
    have := ih h3
    omega

/-- the natural form of the hypothesis: sorted by `beg`, every range non-empty and inside
    [0, size], any two ranges disjoint. -/
theorem RecordOK.of_sorted_disjoint {size : Int} {ps : List Rng}
    (hin : ∀ p ∈ ps, 0 ≤ p.beg ∧ p.beg < p.fin ∧ p.fin ≤ size)
    (hsorted : ps.Pairwise (fun p q => p.beg ≤ q.beg))
    (hdis : ps.Pairwise (fun p q => p.fin ≤ q.beg ∨ q.fin ≤ p.beg)) (h0 : 0 ≤ size) :
    RecordOK 0 ps size := by
  suffices h : ∀ lo, lo ≤ size → (∀ p ∈ ps, lo ≤ p.beg ∧ p.beg < p.fin ∧ p.fin ≤ size) →
      RecordOK lo ps size from h 0 h0 hin
  induction ps with
  | nil => intro lo hlo _; exact hlo
  | cons p ps ih =>
    intro lo hlo hin'
    rw [List.pairwise_cons] at hsorted hdis
    have hp := hin' p (by simp)
    refine ⟨hp.1, hp.2.1, ih (fun q hq => hin q (by simp [hq])) hsorted.2 hdis.2 p.fin hp.2.2 ?_⟩
    intro q hq
    have hq' := hin' q (by simp [hq])
    have h1 := hsorted.1 q hq
    have h2 := hdis.1 q hq
    refine ⟨?_, hq'.2.1, hq'.2.2⟩
    rcases h2 with h2 | h2 <;> omega

/-- the result of recover()'s loop and its final `if beg < size`, from a running `beg` -/
def gapsFrom (b : Int) (ps : List Rng) (size : Int) : List Rng :=
  gapsAux ps b ++ (if lastEnd ps b < size then [⟨lastEnd ps b, size⟩] else [])

theorem missingSorted_eq (ps : List Rng) (size : Int) : missingSorted ps size = gapsFrom 0 ps size := by
  simp only [missingSorted, gapsFrom]
  split <;> simp

theorem gapsFrom_cons (b : Int) (p : Rng) (ps : List Rng) (size : Int) :
    gapsFrom b (p :: ps) size =
      (if b = p.beg then [] else [⟨b, p.beg⟩]) ++ gapsFrom p.fin ps size := by
  simp only [gapsFrom, gapsAux, lastEnd, beq_iff_eq]
  split <;> first | rfl | simp

theorem gapsFrom_spec (ps : List Rng) (size : Int) :
    ∀ lo, RecordOK lo ps size →
      (∀ m ∈ gapsFrom lo ps size, lo ≤ m.beg ∧ m.beg < m.fin ∧ m.fin ≤ size) ∧
      (gapsFrom lo ps size).Pairwise (fun m n => m.fin ≤ n.beg) ∧
      (∀ m ∈ gapsFrom lo ps size, ∀ p ∈ ps, m.fin ≤ p.beg ∨ p.fin ≤ m.beg) ∧
      ∀ x, coverCount ps x + coverCount (gapsFrom lo ps size) x = if lo ≤ x ∧ x < size then 1 else 0 := by
  induction ps with
  | nil =>
    intro lo h
    have hle : lo ≤ size := h
    simp only [gapsFrom, gapsAux, lastEnd, List.nil_append]
    by_cases hlt : lo < size
    · simp only [hlt, if_true]
      refine ⟨by intro m hm; simp at hm; subst hm; simp; omega, by simp, by simp, ?_⟩
      intro x; simp only [coverCount]; (repeat' split) <;> omega
    · simp only [hlt, if_false]
      refine ⟨by simp, by simp, by simp, ?_⟩
      intro x; simp only [coverCount]; (repeat' split) <;> omega
  | cons p ps ih =>
    intro lo h
    obtain ⟨h1, h2, h3⟩ := h
    have hle := h3.le
    obtain ⟨i1, i2, i3, i4⟩ := ih p.fin h3
    rw [gapsFrom_cons]
    by_cases hb : lo = p.beg
    · simp only [hb, if_true, List.nil_append]
      refine ⟨?_, i2, ?_, ?_⟩
      · intro m hm; have := i1 m hm; omega
      · intro m hm q hq
        rcases List.mem_cons.mp hq with rfl | hq
        · have := i1 m hm; omega
        · exact i3 m hm q hq
      · intro x
        have := i4 x
        simp only [coverCount] at this ⊢
        split at this <;> (repeat' split) <;> omega
    · simp only [hb, if_false, List.cons_append, List.nil_append]
      refine ⟨?_, ?_, ?_, ?_⟩
      · intro m hm
        rcases List.mem_cons.mp hm with rfl | hm
        · simp; omega
        · have := i1 m hm; omega
      · refine List.Pairwise.cons ?_ i2
        intro n hn
        have := i1 n hn
        simp; omega
      · intro m hm q hq
        rcases List.mem_cons.mp hm with rfl | hm
        · rcases List.mem_cons.mp hq with rfl | hq
          · simp
          · -- q comes after p in a sorted, non-overlapping record
            have : ∀ (lo' : Int) (qs : List Rng), RecordOK lo' qs size → ∀ q ∈ qs, lo' ≤ q.beg := by
              intro lo' qs
              induction qs generalizing lo' with
              | nil => intro _ q hq; cases hq
              | cons r rs ihr =>
                intro hr q hq
                obtain ⟨r1, r2, r3⟩ := hr
                rcases List.mem_cons.mp hq with rfl | hq
                · exact r1
                · have := ihr r.fin r3 q hq; omega
            have := this p.fin ps h3 q hq
            simp; omega
        · rcases List.mem_cons.mp hq with rfl | hq
          · have := i1 m hm; omega
          · exact i3 m hm q hq
      · intro x
        have := i4 x
        simp only [coverCount] at this ⊢
        split at this <;> (repeat' split) <;> omega

/-- C07 `missing_is_complement` (L0; full under the stated hypothesis `RecordOK`: sorted by
    beg, non-empty, non-overlapping, inside [0, size] — see `RecordOK.of_sorted_disjoint`).
    The ranges computed by recover() are non-empty and inside [0, size], ascending and
    disjoint from each other, disjoint from every recorded range, and every point of
    [0, size) lies in exactly one range — recorded or missing —, every other point in none. -/
theorem missing_is_complement (ps : List Rng) (size : Int) (h : RecordOK 0 ps size) :
    (∀ m ∈ missingSorted ps size, 0 ≤ m.beg ∧ m.beg < m.fin ∧ m.fin ≤ size) ∧
    (missingSorted ps size).Pairwise (fun m n => m.fin ≤ n.beg) ∧
    (∀ m ∈ missingSorted ps size, ∀ p ∈ ps, m.fin ≤ p.beg ∨ p.fin ≤ m.beg) ∧
    ∀ x, coverCount ps x + coverCount (missingSorted ps size) x = if 0 ≤ x ∧ x < size then 1 else 0 := by
  rw [missingSorted_eq]
  exact gapsFrom_spec ps size 0 h

/-! ### the sort in front of the loop -/

theorem insertByBeg_sorted (r : Rng) (ps : List Rng)
    (h : ps.Pairwise (fun p q => p.beg < q.beg)) (hr : ∀ p ∈ ps, r.beg < p.beg) :
    insertByBeg r ps = r :: ps := by
  cases ps with
  | nil => rfl
  | cons p ps => simp [insertByBeg, hr p (by simp)]

/-- a record that is already strictly sorted by `beg` is left as it is by the sort, so
    `missing` (with the sort) and `missingSorted` agree on it -/
theorem sortByBeg_of_sorted (ps : List Rng) (h : ps.Pairwise (fun p q => p.beg < q.beg)) :
    sortByBeg ps = ps := by
  induction ps with
  | nil => rfl
  | cons p ps ih =>
    rw [List.pairwise_cons] at h
    simp only [sortByBeg, ih h.2]
    exact insertByBeg_sorted p ps h.2 h.1

theorem RecordOK.strict {lo size : Int} {ps : List Rng} (h : RecordOK lo ps size) :
    ps.Pairwise (fun p q => p.beg < q.beg) ∧ ∀ p ∈ ps, lo ≤ p.beg := by
  induction ps generalizing lo with
  | nil => exact ⟨List.Pairwise.nil, by intro p hp; cases hp⟩
  | cons p ps ih =>
    obtain ⟨h1, h2, h3⟩ := h
    obtain ⟨i1, i2⟩ := ih h3
    refine ⟨List.Pairwise.cons (fun q hq => by have := i2 q hq; omega) i1, ?_⟩
    intro q hq
    rcases List.mem_cons.mp hq with rfl | hq
    · exact h1
    · have := i2 q hq; omega

/-- `missing_is_complement` for `missing` itself (sort included). -/
theorem missing_is_complement' (ps : List Rng) (size : Int) (h : RecordOK 0 ps size) :
    missing ps size = missingSorted ps size := by
  simp only [missing, sortByBeg_of_sorted ps h.strict.1]

/-! ### S5: an overlapping record -/

/-- S5 (general witness): whenever two neighbours of the sorted record overlap (the second
    begins before the first ends) recover() emits the "missing" range [p.End, q.Beg) whose
    end lies before its beginning. -/
theorem missing_negative_of_overlap (pre post : List Rng) (p q : Rng) (size b : Int)
    (hov : q.beg < p.fin) :
    (⟨p.fin, q.beg⟩ : Rng) ∈ gapsFrom b (pre ++ p :: q :: post) size ∧ q.beg < p.fin := by
  refine ⟨?_, hov⟩
  induction pre generalizing b with
  | nil =>
    have hne : ¬ (p.fin = q.beg) := by omega
    simp only [List.nil_append, gapsFrom_cons, hne, if_false]
    simp
  | cons r rs ih =>
    simp only [List.cons_append, gapsFrom_cons]
    exact List.mem_append_right _ (ih r.fin)

/-- S5 (concrete): the receiver's record `[2,8) [6,10)` (reachable: Props/C09
    `partExistsSum_unsound`) of a 12-byte file gives the missing ranges `[0,2) [8,6) [10,12)`. -/
theorem missing_overlap_witness :
    missing [⟨2, 8⟩, ⟨6, 10⟩] 12 = [⟨0, 2⟩, ⟨8, 6⟩, ⟨10, 12⟩] := by decide

/-! ### non-vacuity -/

example : RecordOK 0 [⟨0, 4⟩, ⟨6, 10⟩, ⟨10, 12⟩] 15 := by decide
example : missing [⟨6, 10⟩, ⟨0, 4⟩, ⟨10, 12⟩] 15 = [⟨4, 6⟩, ⟨12, 15⟩] := by decide
example : missingSorted [⟨0, 4⟩, ⟨6, 10⟩, ⟨10, 12⟩] 12 = [⟨4, 6⟩] := by decide

end Sts
