/-
  C04 in the split semantics of the finalize handler: the order of the receive log respects the
  announced predecessors also when arbitrary events (a newer version of the name, new versions
  of the predecessor, cleaners, crashes, restarts) happen between the handler's decision
  (`isFileReady`, evaluated WITHOUT the file lock) and `finalize`: the decision was taken on an
  earlier state, but what it established (the predecessor has a receive-log record) cannot be
  undone, because nothing removes a record.
-/
import StsModel.Lemmas.StageWindow
import StsModel.Props.C01Window

namespace Sts.Stage

/-- `finalize` for the held item meets the order guard: the only record it appends is the held
    item's, whose predecessor has a record (`held_prev_logged`) -/
theorem finalize_OrderG (s : State) (n : Name) (e : Entry) (now : Int)
    (hprev : e.prev ≠ "" → e.prev ≠ n → ∃ q ∈ s.disk.log, q.name = e.prev) :
    ∀ p ∈ finalizeEffects s n e now, OrderG s p := by
  intro p hp
  cases hfin : p.isFin with
  | false => exact OrderG_of_notFin s p hfin
  | true =>
    obtain ⟨_, hp' | hp'⟩ := finalize_fin_spec s n e now p hp hfin
    · subst hp'
      intro h1 h2
      exact hprev h1 h2
    · subst hp'; trivial

/-- **log_order_respects_prev in the split semantics.** In every state reachable with arbitrary
    events between the finalize handler's decision and its locked phase, every record of the
    receive log whose file announced a real predecessor is preceded by a record of that
    predecessor. -/
theorem log_order_respects_prev_W {H : Body → String} {w : WState} (hr : ReachableW H w) :
    ∀ (pre : List LogRec) (r : LogRec) (post : List LogRec), w.st.disk.log = pre ++ r :: post →
      r.prev ≠ "" → r.prev ≠ r.name → ∃ q ∈ pre, q.name = r.prev := by
  refine inv_reachableW (H := H) (P := OrderInv) (G := OrderG) ?_ OrderInv_step ?_ ?_ ?_ ?_ hr
  · intro pre r post h; simp [init] at h
  · intro s h; exact h
  · intro w o hr _; exact effects_OrderG H w.st (finalized_implies_logged_W hr) o
  · intro w n now _ _
    apply Guards.of_forall_mono OrderG_mono
    intro p hp
    exact OrderG_of_notFin _ p (all_mild_notFin _ (finhDecide_mild w.st n now) p hp)
  · intro w n e now hr hh _
    apply Guards.of_forall_mono OrderG_mono
    exact finalize_OrderG w.st n e now (held_prev_logged hr n e hh)

/-- the atomic theorem is the special case in which the handler never holds anything -/
example {H : Body → String} {s : State} (hr : Reachable H s) :
    ∀ (pre : List LogRec) (r : LogRec) (post : List LogRec), s.disk.log = pre ++ r :: post →
      r.prev ≠ "" → r.prev ≠ r.name → ∃ q ∈ pre, q.name = r.prev :=
  log_order_respects_prev_W (w := ⟨s, none⟩) (ReachableW_of_reachable hr)

/-- a whole file `n` with body `b` announcing predecessor `prev` arrives in one part and is
    validated (hash function `Hs`) -/
def wRecv (n prev : String) (b : Body) : List WEv := [
  .ev (.op (.prepare n 2 0)), .ev (.op (.recvOpen 1 n)), .ev (.op (.recvWrite 1 0 b 0)),
  .ev (.op (.record n ⟨"", prev, 2, Hs b⟩ 0 2 0)), .ev (.op (.process n 0))]

/-- non-vacuity: `b` (predecessor `a`, delivered before) is held by the handler while a NEW
    version of the predecessor `a` arrives and is validated (the cache state of `a` goes back to
    validated: `isFileReady` would now park `b`); the held `b` is finalized on release, and its
    record is preceded by the record of `a`'s first version. -/
def exWindowAB : List WEv :=
  wRecv "a" "" [1, 2] ++ [.ev (.op (.finh "a" 0))] ++ wRecv "b" "a" [3, 4] ++
  [.finhDecide "b" 0] ++ wRecv "a" "" [5, 6] ++ [.finhDo 1]

example :
    let w := runW Hs {} exWindowAB
    ReachableW Hs w ∧ stateOf w.st.mem "a" = some .validated ∧
      w.st.disk.log.map (fun r => (r.name, r.prev)) = [("a", ""), ("b", "a")] ∧
      (runW Hs {} (exWindowAB.take 17)).held.map (·.1) = some "b" ∧
      (isFileReady (runW Hs {} (exWindowAB.take 17)).st "b"
        ⟨"", "a", "[3, 4]", 2, .validated, none, 0, false, 0, none⟩ 1).isYes = false :=
  ⟨⟨exWindowAB, rfl⟩, by decide, by decide, by decide, by decide⟩

end Sts.Stage
