/-
  C08 — the sender never counts a part as sent unless the receiver recorded it.

  Theorems about Model/Send (client.go startSend / handleSendError / startTrack,
  payload/bin.go Split / Remove, stage/local.go Received), for every payload, every
  Transmitter script, every TxRecoverer script and every "gone" predicate.

  A finite script stands for the infinite script that goes on with `ok` (Transmitter) or
  `ok 0` (TxRecoverer): the quantification over all finite scripts is the quantification
  over all scripts that eventually answer ok, which is the hypothesis of `no_part_abandoned`.
-/
import StsModel.Model.Send
import StsModel.Props.C09

namespace Sts

/-! ## payload/bin.go: Split and Remove -/

theorem sumLen_append (a b : List SPart) : sumLen (a ++ b) = sumLen a + sumLen b := by
  induction a with
  | nil => simp [sumLen]
  | cons p ps ih => simp [sumLen, ih]; omega

/-- `Split(n)` answers nil exactly when n < 1 or n ≥ len, and then leaves the bin alone. -/
theorem split_none (b : SBin) (n : Int) :
    (b.split n).2 = none ↔ (n < 1 ∨ n ≥ b.parts.length) := by
  unfold SBin.split
  by_cases h : n < 1 ∨ n ≥ b.parts.length <;> simp [h]

theorem split_none_unchanged (b : SBin) (n : Int) (h : (b.split n).2 = none) :
    (b.split n).1 = b := by
  have := (split_none b n).1 h
  unfold SBin.split
  simp [this]

/-- C08 `split_conserves`: head and tail of a split partition the parts (in order, the
    head has exactly n parts) and the byte count; the tail's byte count is the sum of its
    parts, and so is the head's when the bin's was. -/
theorem split_conserves (b : SBin) (n : Int) (t : SBin) (h : (b.split n).2 = some t) :
    (b.split n).1.parts ++ t.parts = b.parts ∧
    (b.split n).1.parts = b.parts.take n.toNat ∧ t.parts = b.parts.drop n.toNat ∧
    (b.split n).1.parts.length = n.toNat ∧ t.parts ≠ [] ∧
    (b.split n).1.bytes + t.bytes = b.bytes ∧
    t.bytes = sumLen t.parts ∧
    (b.bytes = sumLen b.parts → (b.split n).1.bytes = sumLen (b.split n).1.parts) := by
  unfold SBin.split at h ⊢
  by_cases hc : n < 1 ∨ n ≥ b.parts.length
  · simp [hc] at h
  · simp only [hc, if_false] at h ⊢
    simp only [Option.some.injEq] at h
    subst h
    have hlt : n.toNat < b.parts.length := by omega
    have hsum := sumLen_append (b.parts.take n.toNat) (b.parts.drop n.toNat)
    rw [List.take_append_drop] at hsum
    refine ⟨by simp, trivial, rfl, by simp; omega, ?_, by simp, rfl, ?_⟩
    · simp only [ne_eq, List.drop_eq_nil_iff]; omega
    · intro hb; omega

theorem swapRemove_perm_erase (x : SPart) (l : List SPart) :
    (swapRemove x l).Perm (l.erase x) := by
  induction l with
  | nil => simp [swapRemove]
  | cons p ps ih =>
    unfold swapRemove
    by_cases hp : p = x
    · subst hp
      simp only [if_true, List.erase_cons_head]
      cases hl : ps.getLast? with
      | none =>
        have := List.getLast?_eq_none_iff.1 hl
        simp [this]
      | some l =>
        obtain ⟨ys, hys⟩ := List.getLast?_eq_some_iff.1 hl
        subst hys
        simp only [List.dropLast_concat]
        exact (List.perm_append_singleton l ys).symm
    · simp only [hp, if_false]
      rw [List.erase_cons_tail (by simpa using hp)]
      exact List.Perm.cons p ih

/-- `Remove` takes out exactly the part it is given (and nothing else), whatever the order
    it leaves the others in; the byte count follows. -/
theorem remove_conserves (b : SBin) (x : SPart) (hx : x ∈ b.parts) :
    (x :: (b.remove x).parts).Perm b.parts ∧ (b.remove x).bytes = b.bytes - x.len := by
  unfold SBin.remove
  simp only [hx, if_true]
  exact ⟨(List.Perm.cons x (swapRemove_perm_erase x b.parts)).trans (List.perm_cons_erase hx).symm, trivial⟩

theorem remove_absent (b : SBin) (x : SPart) (hx : x ∉ b.parts) : b.remove x = b := by
  unfold SBin.remove; simp [hx]

/-- `Remove` really reorders: the last part takes the place of the removed one. -/
example : swapRemove ⟨0, "a", "h", 0, 1, 1, 1⟩
    [⟨0, "a", "h", 0, 1, 1, 1⟩, ⟨1, "b", "h", 0, 1, 1, 1⟩, ⟨2, "c", "h", 0, 1, 1, 1⟩] =
    [⟨2, "c", "h", 0, 1, 1, 1⟩, ⟨1, "b", "h", 0, 1, 1, 1⟩] := by decide

/-! ## the gone check of startSend -/

theorem dropGoneAux_spec (gone : SPart → Bool) :
    ∀ (ps : List SPart) (b : SBin) (rest : List SPart), b.parts.Perm (ps ++ rest) →
      (dropGoneAux gone ps b).1.parts.Perm (ps.filter (fun p => !gone p) ++ rest) ∧
      (dropGoneAux gone ps b).2 = ps.filter gone := by
  intro ps
  induction ps with
  | nil => intro b rest h; simp [dropGoneAux]; exact h
  | cons p ps ih =>
    intro b rest h
    unfold dropGoneAux
    by_cases hg : gone p = true
    · simp only [hg, if_true, List.filter_cons_of_pos, Bool.not_true, Bool.false_eq_true,
        not_false_eq_true, List.filter_cons_of_neg]
      have hp : p ∈ b.parts := (h.mem_iff).2 (by simp)
      have h1 : (b.remove p).parts.Perm (ps ++ rest) := by
        have hr := (remove_conserves b p hp).1
        have : (p :: (b.remove p).parts).Perm (p :: (ps ++ rest)) := hr.trans (by simpa using h)
        exact (List.perm_cons p).1 this
      have := ih (b.remove p) rest h1
      exact ⟨this.1, by rw [this.2]⟩
    · have hg' : gone p = false := by simpa using hg
      simp only [hg', Bool.false_eq_true, if_false, Bool.not_false, List.filter_cons_of_pos,
        not_false_eq_true, List.filter_cons_of_neg]
      have h1 : b.parts.Perm (ps ++ (p :: rest)) := by
        refine h.trans ?_
        simpa using (List.perm_middle (a := p) (l₁ := ps) (l₂ := rest)).symm
      have := ih b (p :: rest) h1
      refine ⟨this.1.trans ?_, this.2⟩
      exact List.perm_middle

/-- the gone check removes exactly the parts for which the test says "gone" and keeps
    all others (in some order). -/
theorem dropGone_spec (gone : SPart → Bool) (b : SBin) :
    (dropGone gone b).1.parts.Perm (b.parts.filter (fun p => !gone p)) ∧
    (dropGone gone b).2 = b.parts.filter gone := by
  have := dropGoneAux_spec gone b.parts b [] (by simp)
  simpa [dropGone] using this

/-! ## one failed transmission -/

/-- What `handleSendError` + the gone check do with the count `k`, in one statement:
    the forwarded payload (if any) holds exactly the first k parts; the parts removed as
    gone are exactly the gone ones among the others; the loop goes on iff a non-gone part
    is left, and then with exactly those. -/
theorem failStep_spec (g : SPart → Bool) (b : SBin) (k : Int) :
    match failStep g b k with
    | .done fw dr =>
      ((0 < k ∧ ∃ hd, fw = [hd] ∧ hd.parts = b.parts.take k.toNat) ∨ (k ≤ 0 ∧ fw = [])) ∧
      dr = (b.parts.drop k.toNat).filter g ∧
      (b.parts.drop k.toNat).filter (fun p => !g p) = []
    | .more fw dr nb =>
      ((0 < k ∧ ∃ hd, fw = [hd] ∧ hd.parts = b.parts.take k.toNat) ∨ (k ≤ 0 ∧ fw = [])) ∧
      dr = (b.parts.drop k.toNat).filter g ∧
      nb.parts.Perm ((b.parts.drop k.toNat).filter (fun p => !g p)) ∧ nb.parts ≠ [] := by
  by_cases hk : k > 0
  · have e1 : handleSendError b k = ([(b.split k).1], (b.split k).2) := by
      unfold handleSendError; simp [hk]
    unfold failStep
    rw [e1]
    have hfw : (0 < k ∧ ∃ hd, [(b.split k).1] = [hd] ∧ hd.parts = b.parts.take k.toNat) := by
      refine ⟨hk, _, rfl, ?_⟩
      cases hs : (b.split k).2 with
      | none =>
        rw [split_none_unchanged b k hs]
        have := (split_none b k).1 hs
        rw [List.take_of_length_le (by omega)]
      | some t => exact (split_conserves b k t hs).2.1
    cases hs : (b.split k).2 with
    | none =>
      have := (split_none b k).1 hs
      have hd : b.parts.drop k.toNat = [] := by
        rw [List.drop_eq_nil_iff]; omega
      rw [hd]
      exact ⟨Or.inl hfw, by simp, by simp⟩
    | some t =>
      have hc := split_conserves b k t hs
      have htp : t.parts = b.parts.drop k.toNat := hc.2.2.1
      have hne : t.parts ≠ [] := hc.2.2.2.2.1
      have hne' : t.parts.isEmpty = false := by simpa using hne
      simp only [hne', Bool.false_eq_true, if_false]
      have hd := dropGone_spec g t
      rw [htp] at hd
      by_cases he : (dropGone g t).1.parts.isEmpty = true
      · rw [if_pos he]
        have : (dropGone g t).1.parts = [] := by simpa using he
        rw [this] at hd
        exact ⟨Or.inl hfw, hd.2, (hd.1.nil_eq).symm⟩
      · rw [if_neg he]
        exact ⟨Or.inl hfw, hd.2, hd.1, by simpa using he⟩
  · have e1 : handleSendError b k = ([], some b) := by
      unfold handleSendError; simp [hk]
    unfold failStep
    rw [e1]
    have hk0 : k.toNat = 0 := by omega
    have hk1 : k ≤ 0 := by omega
    simp only [hk0, List.drop_zero]
    have hd := dropGone_spec g b
    by_cases hbe : b.parts.isEmpty = true
    · have : b.parts = [] := by simpa using hbe
      rw [if_pos hbe]
      rw [this]
      exact ⟨Or.inr ⟨hk1, rfl⟩, by simp, by simp⟩
    · rw [if_neg hbe]
      by_cases he : (dropGone g b).1.parts.isEmpty = true
      · rw [if_pos he]
        have : (dropGone g b).1.parts = [] := by simpa using he
        rw [this] at hd
        exact ⟨Or.inr ⟨hk1, rfl⟩, hd.2, (hd.1.nil_eq).symm⟩
      · rw [if_neg he]
        exact ⟨Or.inr ⟨hk1, rfl⟩, hd.2, hd.1, by simpa using he⟩

/-! ## the retry loop -/

/-- all parts of a list of payloads -/
def partsOf (bs : List SBin) : List SPart := bs.flatMap (·.parts)

theorem sendLoopWith_nil (count) (gone : Nat → SPart → Bool) (b : SBin) (r : Nat) (rc : List RcAns) :
    sendLoopWith count gone b r [] rc = ⟨[⟨b.parts, .ok, [], b.parts.length, r⟩], [b], []⟩ := by
  simp [sendLoopWith]

theorem sendLoopWith_ok (count) (gone : Nat → SPart → Bool) (b : SBin) (r : Nat) (tx : List TxAns)
    (rc : List RcAns) :
    sendLoopWith count gone b r (.ok :: tx) rc = ⟨[⟨b.parts, .ok, [], b.parts.length, r⟩], [b], []⟩ := by
  simp [sendLoopWith]

theorem sendLoopWith_fail (count) (gone : Nat → SPart → Bool) (b : SBin) (r : Nat) (n : Int)
    (tx : List TxAns) (rc : List RcAns) :
    sendLoopWith count gone b r (.fail n :: tx) rc =
      (match failStep (gone r) b (count n rc).1 with
       | .done fw dr => ⟨[⟨b.parts, .fail n, (count n rc).2.1, (count n rc).1, r⟩], fw, dr⟩
       | .more fw dr nb =>
         ⟨⟨b.parts, .fail n, (count n rc).2.1, (count n rc).1, r⟩ ::
            (sendLoopWith count gone nb (r + 1) tx (count n rc).2.2).attempts,
          fw ++ (sendLoopWith count gone nb (r + 1) tx (count n rc).2.2).forwarded,
          dr ++ (sendLoopWith count gone nb (r + 1) tx (count n rc).2.2).dropped⟩) := by
  simp only [sendLoopWith]
  cases failStep (gone r) b (count n rc).1 <;> rfl

theorem fw_parts_of_spec {b : SBin} {k : Int} {fw : List SBin}
    (h : (0 < k ∧ ∃ hd, fw = [hd] ∧ hd.parts = b.parts.take k.toNat) ∨ (k ≤ 0 ∧ fw = [])) :
    partsOf fw = b.parts.take k.toNat := by
  rcases h with ⟨_, hd, rfl, h2⟩ | ⟨h1, rfl⟩
  · simp [partsOf, h2]
  · have : k.toNat = 0 := by omega
    simp [partsOf, this]

/-- C08 `no_part_abandoned`: when the loop has ended (every finite script ends in `ok`),
    every part of the payload was either forwarded to the tracker or removed because its
    file is gone — each exactly once: forwarded parts plus dropped parts are a permutation
    of the payload's parts. Holds for whatever count the error handler works with. -/
theorem no_part_abandoned_with (count) (gone : Nat → SPart → Bool) (tx : List TxAns) :
    ∀ (b : SBin) (r : Nat) (rc : List RcAns),
      (partsOf (sendLoopWith count gone b r tx rc).forwarded ++
        (sendLoopWith count gone b r tx rc).dropped).Perm b.parts := by
  induction tx with
  | nil => intro b r rc; simp [sendLoopWith_nil, partsOf]
  | cons a tx ih =>
    intro b r rc
    cases a with
    | ok => simp [sendLoopWith_ok, partsOf]
    | fail n =>
      rw [sendLoopWith_fail]
      have hs := failStep_spec (gone r) b (count n rc).1
      have hsplit := List.take_append_drop (count n rc).1.toNat b.parts
      have hfilt := List.filter_append_perm (gone r) (b.parts.drop (count n rc).1.toNat)
      cases hfs : failStep (gone r) b (count n rc).1 with
      | done fw dr =>
        rw [hfs] at hs
        obtain ⟨h1, h2, h3⟩ := hs
        simp only
        rw [fw_parts_of_spec h1, h2]
        rw [h3, List.append_nil] at hfilt
        rw [List.perm_iff_count]
        intro x
        have c1 := hfilt.count_eq x
        have c2 := congrArg (List.count x) hsplit
        simp only [List.count_append] at c2 ⊢
        omega
      | more fw dr nb =>
        rw [hfs] at hs
        obtain ⟨h1, h2, h3, _⟩ := hs
        simp only
        have hi := ih nb (r + 1) (count n rc).2.2
        rw [List.perm_iff_count]
        intro x
        have c1 := hfilt.count_eq x
        have c2 := congrArg (List.count x) hsplit
        have c3 := hi.count_eq x
        have c4 := h3.count_eq x
        have c5 : partsOf (fw ++ (sendLoopWith count gone nb (r + 1) tx (count n rc).2.2).forwarded) =
            b.parts.take (count n rc).1.toNat ++
              partsOf (sendLoopWith count gone nb (r + 1) tx (count n rc).2.2).forwarded := by
          rw [← fw_parts_of_spec h1]; simp [partsOf]
        rw [c5, h2]
        simp only [List.count_append] at c1 c2 c3 ⊢
        omega

/-- the parts the sender still owes the receiver after the failed transmission `a`:
    everything after the reported count, minus the parts of files that are gone. -/
def remainder (gone : Nat → SPart → Bool) (a : Attempt) : List SPart :=
  (a.parts.drop a.reported.toNat).filter (fun p => !gone a.round p)

/-- consecutive transmissions of one payload: a transmission that is followed by another
    one failed, and the next one carries exactly the remainder (as a multiset: `Remove`
    reorders), which is not empty; the last transmission has an empty remainder. -/
def Chain (gone : Nat → SPart → Bool) : List Attempt → Prop
  | [] => True
  | [a] => remainder gone a = []
  | a :: a' :: rest =>
    (∃ n, a.ans = .fail n) ∧ a'.parts.Perm (remainder gone a) ∧ a'.parts ≠ [] ∧
    a'.round = a.round + 1 ∧ Chain gone (a' :: rest)

theorem attempts_head (count) (gone : Nat → SPart → Bool) (tx : List TxAns) (b : SBin) (r : Nat)
    (rc : List RcAns) :
    ∃ a rest, (sendLoopWith count gone b r tx rc).attempts = a :: rest ∧ a.parts = b.parts ∧
      a.round = r := by
  cases tx with
  | nil => exact ⟨_, [], by rw [sendLoopWith_nil], rfl, rfl⟩
  | cons a tx =>
    cases a with
    | ok => exact ⟨_, [], by rw [sendLoopWith_ok], rfl, rfl⟩
    | fail n =>
      rw [sendLoopWith_fail]
      cases failStep (gone r) b (count n rc).1 with
      | done fw dr => exact ⟨_, [], rfl, rfl, rfl⟩
      | more fw dr nb => exact ⟨_, _, rfl, rfl, rfl⟩

theorem chain_with (count) (gone : Nat → SPart → Bool) (tx : List TxAns) :
    ∀ (b : SBin) (r : Nat) (rc : List RcAns),
      Chain gone (sendLoopWith count gone b r tx rc).attempts := by
  induction tx with
  | nil => intro b r rc; simp [sendLoopWith_nil, Chain, remainder]
  | cons a tx ih =>
    intro b r rc
    cases a with
    | ok => simp [sendLoopWith_ok, Chain, remainder]
    | fail n =>
      rw [sendLoopWith_fail]
      have hs := failStep_spec (gone r) b (count n rc).1
      cases hfs : failStep (gone r) b (count n rc).1 with
      | done fw dr =>
        rw [hfs] at hs
        simp only [Chain, remainder]
        exact hs.2.2
      | more fw dr nb =>
        rw [hfs] at hs
        obtain ⟨_, _, h3, h4⟩ := hs
        obtain ⟨a', rest, he, hp, hr⟩ := attempts_head count gone tx nb (r + 1) (count n rc).2.2
        have hi := ih nb (r + 1) (count n rc).2.2
        simp only
        rw [he] at hi ⊢
        simp only [Chain, remainder]
        exact ⟨⟨n, rfl⟩, by rw [hp]; exact h3, by rw [hp]; exact h4, hr, hi⟩

theorem chain_index (gone : Nat → SPart → Bool) :
    ∀ (l : List Attempt), Chain gone l → ∀ (i : Nat) (a a' : Attempt),
      l[i]? = some a → l[i + 1]? = some a' →
      (∃ n, a.ans = .fail n) ∧ a'.parts.Perm (remainder gone a) ∧ a'.parts ≠ [] ∧
        a'.round = a.round + 1
  | [], _, i, a, a', h1, _ => by simp at h1
  | [x], _, i, a, a', _, h2 => by simp at h2
  | x :: y :: rest, hc, 0, a, a', h1, h2 => by
    simp only [List.getElem?_cons_zero, Option.some.injEq, Nat.zero_add,
      List.getElem?_cons_succ] at h1 h2
    subst h1; subst h2
    exact ⟨hc.1, hc.2.1, hc.2.2.1, hc.2.2.2.1⟩
  | x :: y :: rest, hc, i + 1, a, a', h1, h2 => by
    simp only [List.getElem?_cons_succ] at h1 h2
    exact chain_index gone (y :: rest) hc.2.2.2.2 i a a' h1 h2

theorem chain_last (gone : Nat → SPart → Bool) :
    ∀ (l : List Attempt), Chain gone l → ∀ a, l.getLast? = some a → remainder gone a = []
  | [], _, a, h => by simp at h
  | [x], hc, a, h => by
    simp only [List.getLast?_singleton, Option.some.injEq] at h
    subst h; exact hc
  | x :: y :: rest, hc, a, h => by
    rw [List.getLast?_cons_cons] at h
    exact chain_last gone (y :: rest) hc.2.2.2.2 a h

theorem chain_next_exists (gone : Nat → SPart → Bool) :
    ∀ (l : List Attempt), Chain gone l → ∀ (i : Nat) (a : Attempt),
      l[i]? = some a → remainder gone a ≠ [] → ∃ a', l[i + 1]? = some a'
  | [], _, i, a, h1, _ => by simp at h1
  | [x], hc, 0, a, h1, hne => by
    simp only [List.getElem?_cons_zero, Option.some.injEq] at h1
    subst h1; exact absurd hc hne
  | [x], _, i + 1, a, h1, _ => by simp at h1
  | x :: y :: rest, _, 0, a, _, _ => ⟨y, by simp⟩
  | x :: y :: rest, hc, i + 1, a, h1, hne => by
    simp only [List.getElem?_cons_succ] at h1 ⊢
    exact chain_next_exists gone (y :: rest) hc.2.2.2.2 i a h1 hne

/-- an attempt whose parts the receiver acknowledged, in full (`ok`) or up to a positive
    reported count -/
def Attempt.acked (a : Attempt) : Prop := a.ans = .ok ∨ 0 < a.reported

theorem forwarded_only_acknowledged_with (count) (gone : Nat → SPart → Bool) (tx : List TxAns) :
    ∀ (b : SBin) (r : Nat) (rc : List RcAns),
      ∀ fb ∈ (sendLoopWith count gone b r tx rc).forwarded,
        ∃ a ∈ (sendLoopWith count gone b r tx rc).attempts,
          a.acked ∧ fb.parts = a.parts.take a.reported.toNat := by
  induction tx with
  | nil =>
    intro b r rc fb hfb
    simp only [sendLoopWith_nil, List.mem_singleton] at hfb ⊢
    subst hfb
    exact ⟨_, rfl, Or.inl rfl, by simp⟩
  | cons a tx ih =>
    intro b r rc fb hfb
    cases a with
    | ok =>
      simp only [sendLoopWith_ok, List.mem_singleton] at hfb ⊢
      subst hfb
      exact ⟨_, rfl, Or.inl rfl, by simp⟩
    | fail n =>
      rw [sendLoopWith_fail] at hfb ⊢
      have hs := failStep_spec (gone r) b (count n rc).1
      cases hfs : failStep (gone r) b (count n rc).1 with
      | done fw dr =>
        rw [hfs] at hs hfb
        simp only at hfb ⊢
        rcases hs.1 with ⟨hk, hd, rfl, h2⟩ | ⟨_, rfl⟩
        · simp only [List.mem_singleton] at hfb
          subst hfb
          exact ⟨_, List.mem_singleton.2 rfl, Or.inr hk, h2⟩
        · simp at hfb
      | more fw dr nb =>
        rw [hfs] at hs hfb
        simp only [List.mem_append] at hfb ⊢
        rcases hfb with hfb | hfb
        · rcases hs.1 with ⟨hk, hd, rfl, h2⟩ | ⟨_, rfl⟩
          · simp only [List.mem_singleton] at hfb
            subst hfb
            exact ⟨_, List.mem_cons_self, Or.inr hk, h2⟩
          · simp at hfb
        · obtain ⟨a, ha, h1, h2⟩ := ih nb (r + 1) (count n rc).2.2 fb hfb
          exact ⟨a, List.mem_cons_of_mem _ ha, h1, h2⟩

theorem acknowledged_forwarded_with (count) (gone : Nat → SPart → Bool) (tx : List TxAns) :
    ∀ (b : SBin) (r : Nat) (rc : List RcAns),
      ∀ a ∈ (sendLoopWith count gone b r tx rc).attempts, a.acked →
        ∃ fb ∈ (sendLoopWith count gone b r tx rc).forwarded,
          fb.parts = a.parts.take a.reported.toNat := by
  induction tx with
  | nil =>
    intro b r rc a ha _
    simp only [sendLoopWith_nil, List.mem_singleton] at ha ⊢
    subst ha
    exact ⟨b, rfl, by simp⟩
  | cons t tx ih =>
    intro b r rc a ha hack
    cases t with
    | ok =>
      simp only [sendLoopWith_ok, List.mem_singleton] at ha ⊢
      subst ha
      exact ⟨b, rfl, by simp⟩
    | fail n =>
      rw [sendLoopWith_fail] at ha ⊢
      have hs := failStep_spec (gone r) b (count n rc).1
      cases hfs : failStep (gone r) b (count n rc).1 with
      | done fw dr =>
        rw [hfs] at hs ha
        simp only [List.mem_singleton] at ha ⊢
        subst ha
        rcases hack with h | h
        · simp at h
        · rcases hs.1 with ⟨_, hd, rfl, h2⟩ | ⟨hk, _⟩
          · exact ⟨hd, List.mem_singleton.2 rfl, h2⟩
          · simp only at h; omega
      | more fw dr nb =>
        rw [hfs] at hs ha
        simp only [List.mem_cons, List.mem_append] at ha ⊢
        rcases ha with ha | ha
        · subst ha
          rcases hack with h | h
          · simp at h
          · rcases hs.1 with ⟨_, hd, rfl, h2⟩ | ⟨hk, _⟩
            · exact ⟨hd, Or.inl (List.mem_singleton.2 rfl), h2⟩
            · simp only at h; omega
        · obtain ⟨fb, hfb, h2⟩ := ih nb (r + 1) (count n rc).2.2 a ha hack
          exact ⟨fb, Or.inr hfb, h2⟩

/-! ## where the count comes from (the repaired handleSendError) -/

theorem recoverCount_shape (rc : List RcAns) :
    ∃ j, (recoverCount rc).2.1 = List.replicate j RcAns.err ++ [RcAns.ok (recoverCount rc).1] := by
  induction rc with
  | nil => exact ⟨0, by simp [recoverCount]⟩
  | cons a rc ih =>
    cases a with
    | ok n => exact ⟨0, by simp [recoverCount]⟩
    | err =>
      obtain ⟨j, hj⟩ := ih
      exact ⟨j + 1, by simp [recoverCount, hj, List.replicate_succ]⟩

/-- the recovery loop consumes a prefix of its script: failures, then the first answer
    (or, when the script is exhausted, the implicit `ok 0`) -/
theorem recoverCount_consumes_prefix (rc : List RcAns) :
    (recoverCount rc).2.1 ++ (recoverCount rc).2.2 = rc ∨
    ((recoverCount rc).2.1 = rc ++ [RcAns.ok 0] ∧ (recoverCount rc).2.2 = [] ∧
      (recoverCount rc).1 = 0 ∧ ∀ a ∈ rc, a = RcAns.err) := by
  induction rc with
  | nil => right; simp [recoverCount]
  | cons a rc ih =>
    cases a with
    | ok n => left; simp [recoverCount]
    | err =>
      rcases ih with h | ⟨h1, h2, h3, h4⟩
      · left; simp [recoverCount, h]
      · right
        refine ⟨by simp [recoverCount, h1], by simp [recoverCount, h2], by simp [recoverCount, h3], ?_⟩
        intro a ha
        rcases List.mem_cons.1 ha with h | h
        · exact h
        · exact h4 a h

/-- statement about one attempt: an `ok` answer acknowledges every part; after a failure
    the count the sender works with is the count in the answer when there is one, else
    the answer of the recovery request (asked again after every failure of the request
    itself) and nothing else. This is the statement the F4 defect violated. -/
def Attempt.countFromReceiver (a : Attempt) : Prop :=
  match a.ans with
  | .ok => a.recov = [] ∧ a.reported = a.parts.length
  | .fail n =>
    (n ≠ 0 → a.recov = [] ∧ a.reported = n) ∧
    (n = 0 → ∃ j, a.recov = List.replicate j RcAns.err ++ [RcAns.ok a.reported])

theorem reported_count_from_receiver (gone : Nat → SPart → Bool) (tx : List TxAns) :
    ∀ (b : SBin) (r : Nat) (rc : List RcAns),
      ∀ a ∈ (sendLoop gone b r tx rc).attempts, a.countFromReceiver := by
  unfold sendLoop
  induction tx with
  | nil =>
    intro b r rc a ha
    simp only [sendLoopWith_nil, List.mem_singleton] at ha
    subst ha; exact ⟨rfl, rfl⟩
  | cons t tx ih =>
    intro b r rc a ha
    cases t with
    | ok =>
      simp only [sendLoopWith_ok, List.mem_singleton] at ha
      subst ha; exact ⟨rfl, rfl⟩
    | fail n =>
      rw [sendLoopWith_fail] at ha
      have key : (⟨b.parts, .fail n, (reportedCount n rc).2.1, (reportedCount n rc).1, r⟩ :
          Attempt).countFromReceiver := by
        simp only [Attempt.countFromReceiver]
        constructor
        · intro hn; simp [reportedCount, hn]
        · intro hn; subst hn
          simpa [reportedCount] using recoverCount_shape rc
      cases hfs : failStep (gone r) b (reportedCount n rc).1 with
      | done fw dr =>
        rw [hfs] at ha
        simp only [List.mem_singleton] at ha
        subst ha; exact key
      | more fw dr nb =>
        rw [hfs] at ha
        simp only [List.mem_cons] at ha
        rcases ha with ha | ha
        · subst ha; exact key
        · exact ih nb (r + 1) _ a ha

/-! ## byte counts of the forwarded payloads (GetSize) -/

theorem sumLen_perm {a b : List SPart} (h : a.Perm b) : sumLen a = sumLen b := by
  induction h with
  | nil => rfl
  | cons x _ ih => simp [sumLen, ih]
  | swap x y l => simp only [sumLen]; omega
  | trans _ _ ih1 ih2 => omega

/-- the bin's byte count is the sum of its parts' lengths (invariant of Add/Remove/Split) -/
def SBin.consistent (b : SBin) : Prop := b.bytes = sumLen b.parts

theorem remove_consistent (b : SBin) (x : SPart) (h : b.consistent) : (b.remove x).consistent := by
  by_cases hx : x ∈ b.parts
  · have hr := remove_conserves b x hx
    have := sumLen_perm hr.1
    unfold SBin.consistent at h ⊢
    simp only [sumLen] at this
    omega
  · rw [remove_absent b x hx]; exact h

theorem dropGoneAux_consistent (g : SPart → Bool) :
    ∀ (ps : List SPart) (b : SBin), b.consistent → (dropGoneAux g ps b).1.consistent := by
  intro ps
  induction ps with
  | nil => intro b h; simpa [dropGoneAux] using h
  | cons p ps ih =>
    intro b h
    unfold dropGoneAux
    split
    · exact ih _ (remove_consistent b p h)
    · exact ih b h

theorem failStep_consistent (g : SPart → Bool) (b : SBin) (k : Int) (hb : b.consistent) :
    match failStep g b k with
    | .done fw _ => ∀ fb ∈ fw, fb.consistent
    | .more fw _ nb => (∀ fb ∈ fw, fb.consistent) ∧ nb.consistent := by
  have hsplit : (b.split k).1.consistent ∧ ∀ t, (b.split k).2 = some t → t.consistent := by
    cases hs : (b.split k).2 with
    | none => rw [split_none_unchanged b k hs]; exact ⟨hb, by simp⟩
    | some t =>
      have hc := split_conserves b k t hs
      refine ⟨hc.2.2.2.2.2.2.2 hb, ?_⟩
      intro t' ht'
      simp only [Option.some.injEq] at ht'
      subst ht'; exact hc.2.2.2.2.2.2.1
  have hfw : ∀ fb ∈ (handleSendError b k).1, fb.consistent := by
    unfold handleSendError
    split
    · intro fb hfb
      simp only [List.mem_singleton] at hfb
      subst hfb; exact hsplit.1
    · simp
  have hnx : ∀ nb, (handleSendError b k).2 = some nb → nb.consistent := by
    unfold handleSendError
    split
    · exact hsplit.2
    · intro nb h
      simp only [Option.some.injEq] at h
      subst h; exact hb
  unfold failStep
  generalize handleSendError b k = e at hfw hnx
  obtain ⟨fw0, nx⟩ := e
  cases nx with
  | none => simpa using hfw
  | some nb =>
    simp only at hfw hnx ⊢
    by_cases h1 : nb.parts.isEmpty = true
    · rw [if_pos h1]; exact hfw
    · rw [if_neg h1]
      by_cases h2 : (dropGone g nb).1.parts.isEmpty = true
      · rw [if_pos h2]; exact hfw
      · rw [if_neg h2]; exact ⟨hfw, dropGoneAux_consistent g _ nb (hnx nb rfl)⟩

/-- every payload that reaches the tracker (and the statistics) reports as its size the sum
    of the lengths of exactly the parts it holds. -/
theorem forwarded_bytes_consistent (count) (gone : Nat → SPart → Bool) (tx : List TxAns) :
    ∀ (b : SBin) (r : Nat) (rc : List RcAns), b.consistent →
      ∀ fb ∈ (sendLoopWith count gone b r tx rc).forwarded, fb.consistent := by
  induction tx with
  | nil =>
    intro b r rc hb fb hfb
    simp only [sendLoopWith_nil, List.mem_singleton] at hfb
    subst hfb; exact hb
  | cons a tx ih =>
    intro b r rc hb fb hfb
    cases a with
    | ok =>
      simp only [sendLoopWith_ok, List.mem_singleton] at hfb
      subst hfb; exact hb
    | fail n =>
      rw [sendLoopWith_fail] at hfb
      have hs := failStep_consistent (gone r) b (count n rc).1 hb
      cases hfs : failStep (gone r) b (count n rc).1 with
      | done fw dr =>
        rw [hfs] at hs hfb
        exact hs fb hfb
      | more fw dr nb =>
        rw [hfs] at hs hfb
        simp only [List.mem_append] at hfb
        rcases hfb with h | h
        · exact hs.1 fb h
        · exact ih nb (r + 1) _ hs.2 fb h

/-! ## C08, sender side: the statements for the code as it is -/

/-- C08 `forwarded_only_acknowledged`: every payload that reaches the tracker consists of
    exactly the parts of one transmission that was answered `ok`, or of exactly the first
    `n` parts of one transmission that failed with reported count `n > 0`; and that count
    is the one in the answer or, when the answer had none, the answer of the recovery
    request (`Attempt.countFromReceiver`). -/
theorem forwarded_only_acknowledged (gone : Nat → SPart → Bool) (b : SBin) (r : Nat)
    (tx : List TxAns) (rc : List RcAns) :
    ∀ fb ∈ (sendLoop gone b r tx rc).forwarded,
      ∃ a ∈ (sendLoop gone b r tx rc).attempts,
        a.acked ∧ a.countFromReceiver ∧ fb.parts = a.parts.take a.reported.toNat := by
  intro fb hfb
  obtain ⟨a, ha, h1, h2⟩ := forwarded_only_acknowledged_with reportedCount gone tx b r rc fb hfb
  exact ⟨a, ha, h1, reported_count_from_receiver gone tx b r rc a ha, h2⟩

/-- and conversely every acknowledgement is honoured: the acknowledged head is forwarded. -/
theorem acknowledged_is_forwarded (gone : Nat → SPart → Bool) (b : SBin) (r : Nat)
    (tx : List TxAns) (rc : List RcAns) :
    ∀ a ∈ (sendLoop gone b r tx rc).attempts, a.acked →
      ∃ fb ∈ (sendLoop gone b r tx rc).forwarded, fb.parts = a.parts.take a.reported.toNat :=
  acknowledged_forwarded_with reportedCount gone tx b r rc

/-- C08 `remainder_and_only_remainder`: the first transmission carries the payload's
    parts; if transmission i is followed by another one, then i failed and transmission
    i+1 carries exactly the parts after the reported count minus the parts of gone files
    (as a multiset — `Remove` reorders), a non-empty list; with a count ≤ 0 that is all parts
    minus the gone ones. -/
theorem remainder_and_only_remainder (gone : Nat → SPart → Bool) (b : SBin) (r : Nat)
    (tx : List TxAns) (rc : List RcAns) (i : Nat) (a a' : Attempt)
    (h1 : (sendLoop gone b r tx rc).attempts[i]? = some a)
    (h2 : (sendLoop gone b r tx rc).attempts[i + 1]? = some a') :
    (∃ n, a.ans = .fail n) ∧ a.countFromReceiver ∧
    a'.parts.Perm ((a.parts.drop a.reported.toNat).filter (fun p => !gone a.round p)) ∧
    a'.parts ≠ [] ∧ a'.round = a.round + 1 := by
  have := chain_index gone _ (chain_with reportedCount gone tx b r rc) i a a' h1 h2
  exact ⟨this.1, reported_count_from_receiver gone tx b r rc a (List.mem_of_getElem? h1),
    this.2.1, this.2.2.1, this.2.2.2⟩

theorem first_transmission_is_payload (gone : Nat → SPart → Bool) (b : SBin) (r : Nat)
    (tx : List TxAns) (rc : List RcAns) :
    ∃ a, (sendLoop gone b r tx rc).attempts[0]? = some a ∧ a.parts = b.parts ∧ a.round = r := by
  obtain ⟨a, rest, h, h1, h2⟩ := attempts_head reportedCount gone tx b r rc
  exact ⟨a, by unfold sendLoop; rw [h]; rfl, h1, h2⟩

/-- the remainder is sent again whenever it is not empty ... -/
theorem remainder_is_resent (gone : Nat → SPart → Bool) (b : SBin) (r : Nat)
    (tx : List TxAns) (rc : List RcAns) (i : Nat) (a : Attempt)
    (h1 : (sendLoop gone b r tx rc).attempts[i]? = some a)
    (hne : (a.parts.drop a.reported.toNat).filter (fun p => !gone a.round p) ≠ []) :
    ∃ a', (sendLoop gone b r tx rc).attempts[i + 1]? = some a' :=
  chain_next_exists gone _ (chain_with reportedCount gone tx b r rc) i a h1 hne

/-- ... and the loop ends only when nothing is owed any more. -/
theorem last_transmission_owes_nothing (gone : Nat → SPart → Bool) (b : SBin) (r : Nat)
    (tx : List TxAns) (rc : List RcAns) (a : Attempt)
    (h : (sendLoop gone b r tx rc).attempts.getLast? = some a) :
    (a.parts.drop a.reported.toNat).filter (fun p => !gone a.round p) = [] :=
  chain_last gone _ (chain_with reportedCount gone tx b r rc) a h

/-- with a reported count ≥ len nothing is sent again and the whole payload is forwarded. -/
theorem all_acknowledged_nothing_resent (gone : Nat → SPart → Bool) (b : SBin) (r : Nat)
    (tx : List TxAns) (rc : List RcAns) (i : Nat) (a : Attempt)
    (h1 : (sendLoop gone b r tx rc).attempts[i]? = some a)
    (hall : (a.parts.length : Int) ≤ a.reported) (hne : a.parts ≠ []) :
    (sendLoop gone b r tx rc).attempts[i + 1]? = none ∧
    ∃ fb ∈ (sendLoop gone b r tx rc).forwarded, fb.parts = a.parts := by
  constructor
  · cases h2 : (sendLoop gone b r tx rc).attempts[i + 1]? with
    | none => rfl
    | some a' =>
      have := remainder_and_only_remainder gone b r tx rc i a a' h1 h2
      have hd : a.parts.drop a.reported.toNat = [] := by
        rw [List.drop_eq_nil_iff]; omega
      rw [hd] at this
      exact absurd (this.2.2.1.eq_nil) this.2.2.2.1
  · have hpos : 0 < a.reported := by
      have : 0 < a.parts.length := List.length_pos_iff.2 hne
      omega
    obtain ⟨fb, hfb, h⟩ := acknowledged_is_forwarded gone b r tx rc a (List.mem_of_getElem? h1) (Or.inr hpos)
    exact ⟨fb, hfb, by rw [h, List.take_of_length_le (by omega)]⟩

/-- C08 `no_part_abandoned`: every finite script ends in `ok`; then the parts forwarded to
    the tracker plus the parts dropped because their file is gone are a permutation of
    the payload's parts: nothing skipped, nothing abandoned, nothing counted twice. -/
theorem no_part_abandoned (gone : Nat → SPart → Bool) (b : SBin) (r : Nat)
    (tx : List TxAns) (rc : List RcAns) :
    (partsOf (sendLoop gone b r tx rc).forwarded ++ (sendLoop gone b r tx rc).dropped).Perm b.parts :=
  no_part_abandoned_with reportedCount gone tx b r rc

/-- The F4 defect (repaired by `fix: the part count of a partial-content answer was ignored
    and the whole payload sent again`): with the old handleSendError a 206 answer that
    reports one part received is followed by a transmission of ALL three parts, nothing is
    forwarded for the acknowledged part at that point, and the count the handler worked
    with (0) is not the receiver's (1). The repaired loop sends parts 1 and 2 only. -/
theorem ignoredCount_resends_acknowledged :
    let p0 : SPart := ⟨0, "a", "h", 0, 5, 15, 15⟩
    let p1 : SPart := ⟨1, "a", "h", 5, 5, 15, 15⟩
    let p2 : SPart := ⟨2, "a", "h", 10, 5, 15, 15⟩
    let b : SBin := ⟨[p0, p1, p2], 100, 10, 15⟩
    ((sendLoopOld (fun _ _ => false) b 0 [.fail 1, .ok] []).attempts.map (·.parts) =
        [[p0, p1, p2], [p0, p1, p2]]) ∧
    ((sendLoopOld (fun _ _ => false) b 0 [.fail 1, .ok] []).attempts.map (·.reported) = [0, 3]) ∧
    ¬ (∀ a ∈ (sendLoopOld (fun _ _ => false) b 0 [.fail 1, .ok] []).attempts, a.countFromReceiver) ∧
    ((sendLoop (fun _ _ => false) b 0 [.fail 1, .ok] []).attempts.map (·.parts) =
        [[p0, p1, p2], [p1, p2]]) ∧
    ((sendLoop (fun _ _ => false) b 0 [.fail 1, .ok] []).forwarded.map (·.parts) =
        [[p0], [p1, p2]]) := by
  refine ⟨by decide, by decide, ?_, by decide, by decide⟩
  intro h
  have := h ⟨[⟨0, "a", "h", 0, 5, 15, 15⟩, ⟨1, "a", "h", 5, 5, 15, 15⟩, ⟨2, "a", "h", 10, 5, 15, 15⟩],
    .fail 1, [], 0, 0⟩ (by decide)
  simp [Attempt.countFromReceiver] at this

/-! ## receiver side: stage/local.go Received -/

/-- C08 `received_counts_leading`: `Received` answers the length of the longest prefix of
    the parts all of which are on record: all of the first n are, and the (n+1)-th (if
    any) is not. -/
theorem received_counts_leading (rcvd : SPart → Bool) (ps : List SPart) :
    receivedCount rcvd ps ≤ ps.length ∧
    (∀ p ∈ ps.take (receivedCount rcvd ps), rcvd p = true) ∧
    (∀ p, ps[receivedCount rcvd ps]? = some p → rcvd p = false) := by
  induction ps with
  | nil => simp [receivedCount]
  | cons q qs ih =>
    unfold receivedCount
    by_cases hq : rcvd q = true
    · rw [if_pos hq]
      simp only [List.length_cons, List.take_succ_cons, List.mem_cons,
        List.getElem?_cons_succ]
      refine ⟨by omega, ?_, ih.2.2⟩
      intro p hp
      rcases hp with rfl | hp
      · exact hq
      · exact ih.2.1 p hp
    · rw [if_neg hq]
      simp only [List.take_zero, List.getElem?_cons_zero, Option.some.injEq]
      refine ⟨by omega, by simp, ?_⟩
      intro p hp; subst hp; simpa using hq

theorem received_count_longest (rcvd : SPart → Bool) (ps : List SPart) (m : Nat)
    (hm : m ≤ ps.length) (hall : ∀ p ∈ ps.take m, rcvd p = true) :
    m ≤ receivedCount rcvd ps := by
  induction ps generalizing m with
  | nil => simp at hm; omega
  | cons q qs ih =>
    cases m with
    | zero => omega
    | succ m =>
      have hq : rcvd q = true := hall q (by simp)
      unfold receivedCount
      rw [if_pos hq]
      have := ih m (by simpa using hm) (fun p hp => hall p (by simp [hp]))
      omega

/-- ... and with the companion record as the test, every byte of every counted part is
    on record (uses C09 `partExists_sound`). -/
theorem received_leading_bytes_on_record (rec : List Rng) (ps : List SPart) :
    ∀ p ∈ ps.take (receivedCount (onRecord rec) ps),
      ∀ x, p.beg ≤ x → x < p.beg + p.len → covered rec x := by
  intro p hp x h1 h2
  have := (received_counts_leading (onRecord rec) ps).2.1 p hp
  exact partExists_sound rec p.beg (p.beg + p.len) this x h1 h2

/-- the same with the receiver's companion files as the test (`recvTest`: the companion of
    that name exists, carries the same hash, and companionPartExists holds): every counted
    part lies, byte for byte, inside the record the receiver holds for that file version. -/
theorem received_leading_recorded (recs : List RecvRec) (ps : List SPart) :
    ∀ p ∈ ps.take (receivedCount (recvTest recs) ps),
      ∃ r ∈ recs, r.name = p.name ∧ r.hash = p.hash ∧
        ∀ x, p.beg ≤ x → x < p.beg + p.len → covered r.parts x := by
  intro p hp
  have h := (received_counts_leading (recvTest recs) ps).2.1 p hp
  unfold recvTest at h
  cases hf : recs.find? (fun r => r.name = p.name) with
  | none => simp [hf] at h
  | some r =>
    simp only [hf, Bool.and_eq_true, decide_eq_true_eq] at h
    refine ⟨r, List.mem_of_find?_eq_some hf, by simpa using List.find?_some hf, h.1, ?_⟩
    intro x h1 h2
    exact partExists_sound r.parts p.beg (p.beg + p.len) h.2 x h1 h2

/-- C08, sender and receiver together: if every `ok` answer is given only when all parts of
    the transmission are on record and every reported count (from the answer or from the
    recovery request) is at most the receiver's count of leading parts on record, then
    every part that reaches the tracker is on the receiver's record. `rcvd` is the
    receiver's record test at the time of the answer (the record only grows while a file is
    being received). -/
theorem forwarded_parts_recorded (gone : Nat → SPart → Bool) (b : SBin) (r : Nat)
    (tx : List TxAns) (rc : List RcAns) (rcvd : SPart → Bool)
    (hok : ∀ a ∈ (sendLoop gone b r tx rc).attempts, a.ans = .ok → ∀ p ∈ a.parts, rcvd p = true)
    (hfail : ∀ a ∈ (sendLoop gone b r tx rc).attempts, a.ans ≠ .ok →
      a.reported.toNat ≤ receivedCount rcvd a.parts) :
    ∀ p ∈ partsOf (sendLoop gone b r tx rc).forwarded, rcvd p = true := by
  intro p hp
  obtain ⟨fb, hfb, hpf⟩ := List.mem_flatMap.1 hp
  obtain ⟨a, ha, _, _, hparts⟩ := forwarded_only_acknowledged gone b r tx rc fb hfb
  rw [hparts] at hpf
  by_cases hans : a.ans = .ok
  · exact hok a ha hans p (List.mem_of_mem_take hpf)
  · have hle := hfail a ha hans
    exact (received_counts_leading rcvd a.parts).2.1 p (List.take_subset_take_left _ hle hpf)

/-! ## the tracker: when is a file logged as sent and handed to the validator -/

/-- what the ghost field `counted` of a tracker entry means -/
structure ProgOK (seen : List SPart) (e : Prog) : Prop where
  sum : e.sent = sumLen e.counted
  same : ∀ p ∈ e.counted, p.name = e.name ∧ p.hash = e.hash
  size : ∀ p ∈ e.counted.head?, e.size = p.sendSize
  ne : e.counted ≠ []
  sub : e.counted.Sublist seen

theorem ProgOK.mono {seen : List SPart} {e : Prog} (h : ProgOK seen e) (more : List SPart) :
    ProgOK (seen ++ more) e :=
  ⟨h.sum, h.same, h.size, h.ne, List.sublist_append_of_sublist_left h.sub⟩

structure TrackInv (st : TrackSt) : Prop where
  prog : ∀ e ∈ st.progress, ProgOK st.seen e
  logged : ∀ e ∈ st.logged, ProgOK st.seen e ∧ e.size ≤ e.sent
  complete_logged : ∀ e ∈ st.progress, e.size ≤ e.sent → e ∈ st.logged
  handed : ∀ e ∈ st.handed, e ∈ st.logged

theorem mem_upsert (e x : Prog) (l : List Prog) (h : x ∈ upsert e l) : x = e ∨ x ∈ l := by
  induction l with
  | nil => simp [upsert] at h; exact Or.inl h
  | cons y ys ih =>
    unfold upsert at h
    split at h
    · rcases List.mem_cons.1 h with h | h
      · exact Or.inl h
      · exact Or.inr (List.mem_cons_of_mem _ h)
    · rcases List.mem_cons.1 h with h | h
      · exact Or.inr (by simp [h])
      · rcases ih h with h | h
        · exact Or.inl h
        · exact Or.inr (List.mem_cons_of_mem _ h)

theorem trackPart_inv (st : TrackSt) (p : SPart) (h : TrackInv st) : TrackInv (trackPart st p) := by
  -- the entry after this part
  have hentry : ∃ e : Prog, trackPart st p =
      { progress := upsert e st.progress,
        logged := if e.sent ≥ e.size then st.logged ++ [e] else st.logged,
        handed := st.handed, seen := st.seen ++ [p] } ∧ ProgOK (st.seen ++ [p]) e := by
    cases hf : st.progress.find? (fun e => e.name = p.name) with
    | none =>
      refine ⟨⟨p.name, p.hash, 0 + p.len, p.sendSize, [] ++ [p]⟩, by simp [trackPart, hf], ?_⟩
      exact ⟨by simp [sumLen], by simp, by simp, by simp, by simp⟩
    | some x =>
      have hx : x ∈ st.progress := List.mem_of_find?_eq_some hf
      have hn : x.name = p.name := by simpa using List.find?_some hf
      by_cases hh : x.hash ≠ p.hash
      · refine ⟨⟨x.name, p.hash, 0 + p.len, p.sendSize, [] ++ [p]⟩, by simp [trackPart, hf, hh], ?_⟩
        exact ⟨by simp [sumLen], by simp [hn], by simp, by simp, by simp⟩
      · have hh' : x.hash = p.hash := by simpa using hh
        refine ⟨{ x with sent := x.sent + p.len, counted := x.counted ++ [p] },
          by simp [trackPart, hf, hh'], ?_⟩
        have ox := h.prog x hx
        refine ⟨?_, ?_, ?_, by simp, ?_⟩
        · simp only [sumLen_append, sumLen, ox.sum]; omega
        · intro q hq
          rcases List.mem_append.1 hq with hq | hq
          · exact ox.same q hq
          · simp only [List.mem_singleton] at hq
            subst hq; exact ⟨hn.symm, hh'.symm⟩
        · intro q hq
          cases hc : x.counted with
          | nil => exact absurd hc ox.ne
          | cons c cs =>
            simp only [hc, List.cons_append, List.head?_cons, Option.mem_def, Option.some.injEq] at hq
            exact ox.size q (by simp [hc, hq])
        · exact List.Sublist.append ox.sub (List.Sublist.refl _)
  obtain ⟨e, he, hok⟩ := hentry
  rw [he]
  refine ⟨?_, ?_, ?_, ?_⟩
  · intro x hx
    rcases mem_upsert e x _ hx with rfl | hx
    · exact hok
    · exact (h.prog x hx).mono [p]
  · intro x hx
    simp only at hx ⊢
    by_cases hc : e.sent ≥ e.size
    · rw [if_pos hc] at hx
      rcases List.mem_append.1 hx with hx | hx
      · exact ⟨(h.logged x hx).1.mono [p], (h.logged x hx).2⟩
      · simp only [List.mem_singleton] at hx
        subst hx; exact ⟨hok, hc⟩
    · rw [if_neg hc] at hx
      exact ⟨(h.logged x hx).1.mono [p], (h.logged x hx).2⟩
  · intro x hx hcx
    simp only at hx ⊢
    rcases mem_upsert e x _ hx with rfl | hx
    · rw [if_pos (by omega)]; simp
    · have := h.complete_logged x hx hcx
      split
      · exact List.mem_append_left _ this
      · exact this
  · intro x hx
    simp only at hx ⊢
    have := h.handed x hx
    split
    · exact List.mem_append_left _ this
    · exact this

theorem handOff_inv (st : TrackSt) (h : TrackInv st) : TrackInv (handOff st) := by
  unfold handOff
  refine ⟨?_, h.logged, ?_, ?_⟩
  · intro e he; exact h.prog e (List.mem_filter.1 he).1
  · intro e he hc; exact h.complete_logged e (List.mem_filter.1 he).1 hc
  · intro e he
    simp only at he
    rcases List.mem_append.1 he with he | he
    · exact h.handed e he
    · have := List.mem_filter.1 he
      exact h.complete_logged e this.1 (by have := this.2; simp at this; omega)

theorem foldl_trackPart_inv (parts : List SPart) :
    ∀ st, TrackInv st → TrackInv (parts.foldl trackPart st) ∧
      (parts.foldl trackPart st).seen = st.seen ++ parts := by
  induction parts with
  | nil => intro st h; simp [h]
  | cons p ps ih =>
    intro st h
    have := ih (trackPart st p) (trackPart_inv st p h)
    simp only [List.foldl_cons]
    refine ⟨this.1, ?_⟩
    rw [this.2]; simp [trackPart]

theorem trackAll_inv (payloads : List (List SPart)) :
    ∀ st, TrackInv st → TrackInv (trackAll st payloads) ∧
      (trackAll st payloads).seen = st.seen ++ payloads.flatten := by
  induction payloads with
  | nil => intro st h; simp [trackAll, h]
  | cons ps rest ih =>
    intro st h
    have h1 := foldl_trackPart_inv ps st h
    have h2 := handOff_inv _ h1.1
    have := ih (trackPayload st ps) h2
    simp only [trackAll, List.foldl_cons] at this ⊢
    refine ⟨this.1, ?_⟩
    rw [this.2]
    simp [trackPayload, handOff, h1.2]

theorem trackInv_init : TrackInv {} :=
  ⟨by simp, by simp, by simp, by simp⟩

/-- C08 `sent_only_when_all_bytes`, the counting part: a file version (name, hash) is given to
    `Logger.Sent` only when the lengths of parts of that name and that hash which reached
    the tracker (a subsequence `counted` of everything forwarded, namely those since the
    entry was created or reset) add up to at least the send size announced by the first of
    them. -/
theorem sent_only_when_acknowledged_sum (payloads : List (List SPart)) :
    ∀ e ∈ (trackAll {} payloads).logged,
      e.size ≤ sumLen e.counted ∧ e.counted ≠ [] ∧
      (∀ p ∈ e.counted, p.name = e.name ∧ p.hash = e.hash) ∧
      (∀ p ∈ e.counted.head?, e.size = p.sendSize) ∧
      e.counted.Sublist payloads.flatten := by
  intro e he
  have hi := trackAll_inv payloads {} trackInv_init
  have := hi.1.logged e he
  have hs : (trackAll {} payloads).seen = payloads.flatten := by rw [hi.2]; simp
  exact ⟨by rw [← this.1.sum]; exact this.2, this.1.ne, this.1.same, this.1.size, hs ▸ this.1.sub⟩

/-- a file version is handed to the validator (first poll) only after it was logged as sent -/
theorem validated_only_when_logged (payloads : List (List SPart)) :
    ∀ e ∈ (trackAll {} payloads).handed, e ∈ (trackAll {} payloads).logged :=
  (trackAll_inv payloads {} trackInv_init).1.handed

/-! ### from "the lengths add up" to "every byte" -/

/-- two parts do not overlap -/
def disjointParts (p q : SPart) : Prop := p.beg + p.len ≤ q.beg ∨ q.beg + q.len ≤ p.beg

/-- total size of a list of byte ranges -/
def sumRng : List Rng → Int
  | [] => 0
  | r :: rs => (r.fin - r.beg) + sumRng rs

theorem sumLen_filter_partition (f : SPart → Bool) (l : List SPart) :
    sumLen l = sumLen (l.filter f) + sumLen (l.filter (fun p => !f p)) := by
  induction l with
  | nil => simp [sumLen]
  | cons p ps ih =>
    by_cases hf : f p = true
    · simp [hf, sumLen, ih]; omega
    · have hf' : f p = false := by simpa using hf
      simp [hf', sumLen, ih]; omega

/-- pairwise disjoint non-empty pieces inside [lo, hi) are at most hi - lo bytes -/
theorem sumLen_le_of_disjoint_inside (n : Nat) :
    ∀ (ps : List SPart), ps.length ≤ n → ∀ (lo hi : Int), lo ≤ hi →
      (∀ p ∈ ps, 0 < p.len ∧ lo ≤ p.beg ∧ p.beg + p.len ≤ hi) →
      ps.Pairwise disjointParts → sumLen ps ≤ hi - lo := by
  induction n with
  | zero =>
    intro ps hl lo hi hle _ _
    have : ps = [] := List.length_eq_zero_iff.1 (by omega)
    subst this; simp [sumLen]; omega
  | succ n ih =>
    intro ps hl lo hi hle hin hdis
    cases ps with
    | nil => simp [sumLen]; omega
    | cons p rest =>
      have hp := hin p (by simp)
      have hpw := List.pairwise_cons.1 hdis
      let f : SPart → Bool := fun q => decide (q.beg + q.len ≤ p.beg)
      have hpart := sumLen_filter_partition f rest
      have hlen : rest.length ≤ n := by simpa using hl
      have hL := ih (rest.filter f) (Nat.le_trans (List.length_filter_le _ _) hlen) lo p.beg hp.2.1
        (by
          intro q hq
          have hq' := List.mem_filter.1 hq
          have := hin q (List.mem_cons_of_mem _ hq'.1)
          have h2 : q.beg + q.len ≤ p.beg := by simpa [f] using hq'.2
          exact ⟨this.1, this.2.1, h2⟩)
        (hpw.2.filter _)
      have hR := ih (rest.filter (fun q => !f q)) (Nat.le_trans (List.length_filter_le _ _) hlen)
        (p.beg + p.len) hi hp.2.2
        (by
          intro q hq
          have hq' := List.mem_filter.1 hq
          have := hin q (List.mem_cons_of_mem _ hq'.1)
          have h2 : ¬ (q.beg + q.len ≤ p.beg) := by simpa [f] using hq'.2
          have hd := hpw.1 q hq'.1
          unfold disjointParts at hd
          exact ⟨this.1, by omega, this.2.2⟩)
        (hpw.2.filter _)
      simp only [sumLen]
      omega

/-- ... and strictly fewer when some byte x of [lo, hi) is in none of them -/
theorem sumLen_lt_of_uncovered (ps : List SPart) (lo hi x : Int) (hx1 : lo ≤ x) (hx2 : x < hi)
    (hin : ∀ p ∈ ps, 0 < p.len ∧ lo ≤ p.beg ∧ p.beg + p.len ≤ hi)
    (hdis : ps.Pairwise disjointParts)
    (hunc : ∀ p ∈ ps, ¬ (p.beg ≤ x ∧ x < p.beg + p.len)) :
    sumLen ps ≤ hi - lo - 1 := by
  let f : SPart → Bool := fun q => decide (q.beg + q.len ≤ x)
  have hpart := sumLen_filter_partition f ps
  have hL := sumLen_le_of_disjoint_inside _ (ps.filter f) (Nat.le_refl _) lo x hx1
    (by
      intro q hq
      have hq' := List.mem_filter.1 hq
      have := hin q hq'.1
      have h2 : q.beg + q.len ≤ x := by simpa [f] using hq'.2
      exact ⟨this.1, this.2.1, h2⟩)
    (hdis.filter _)
  have hR := sumLen_le_of_disjoint_inside _ (ps.filter (fun q => !f q)) (Nat.le_refl _) (x + 1) hi
    (by omega)
    (by
      intro q hq
      have hq' := List.mem_filter.1 hq
      have := hin q hq'.1
      have h2 : ¬ (q.beg + q.len ≤ x) := by simpa [f] using hq'.2
      have h3 := hunc q hq'.1
      exact ⟨this.1, by omega, this.2.2⟩)
    (hdis.filter _)
  omega

/-- a part lies inside one of the ranges -/
def insideOne (R : List Rng) (p : SPart) : Prop := ∃ r ∈ R, r.beg ≤ p.beg ∧ p.beg + p.len ≤ r.fin

theorem sumLen_le_sumRng (R : List Rng) :
    ∀ (ps : List SPart), (∀ r ∈ R, r.beg ≤ r.fin) → (∀ p ∈ ps, 0 < p.len ∧ insideOne R p) →
      ps.Pairwise disjointParts → sumLen ps ≤ sumRng R := by
  induction R with
  | nil =>
    intro ps _ hin _
    cases ps with
    | nil => simp [sumLen, sumRng]
    | cons p rest =>
      obtain ⟨_, r, hr, _⟩ := hin p (by simp)
      simp at hr
  | cons r0 R ih =>
    intro ps hR hin hdis
    let f : SPart → Bool := fun p => decide (r0.beg ≤ p.beg ∧ p.beg + p.len ≤ r0.fin)
    have hpart := sumLen_filter_partition f ps
    have h0 := sumLen_le_of_disjoint_inside _ (ps.filter f) (Nat.le_refl _) r0.beg r0.fin
      (hR r0 (by simp))
      (by
        intro q hq
        have hq' := List.mem_filter.1 hq
        have h2 : r0.beg ≤ q.beg ∧ q.beg + q.len ≤ r0.fin := by simpa [f] using hq'.2
        exact ⟨(hin q hq'.1).1, h2.1, h2.2⟩)
      (hdis.filter _)
    have h1 := ih (ps.filter (fun p => !f p)) (fun r hr => hR r (List.mem_cons_of_mem _ hr))
      (by
        intro q hq
        have hq' := List.mem_filter.1 hq
        have h2 : ¬ (r0.beg ≤ q.beg ∧ q.beg + q.len ≤ r0.fin) := by
          intro hc; have h3 := hq'.2; simp [f, hc] at h3
        obtain ⟨hpos, r, hr, hin'⟩ := hin q hq'.1
        rcases List.mem_cons.1 hr with rfl | hr
        · exact absurd hin' h2
        · exact ⟨hpos, r, hr, hin'⟩)
      (hdis.filter _)
    simp only [sumRng]
    omega

theorem sumLen_lt_sumRng_of_uncovered (R : List Rng) :
    ∀ (ps : List SPart), (∀ r ∈ R, r.beg ≤ r.fin) → (∀ p ∈ ps, 0 < p.len ∧ insideOne R p) →
      ps.Pairwise disjointParts →
      ∀ r ∈ R, ∀ x, r.beg ≤ x → x < r.fin → (∀ p ∈ ps, ¬ (p.beg ≤ x ∧ x < p.beg + p.len)) →
      sumLen ps ≤ sumRng R - 1 := by
  induction R with
  | nil => intro ps _ _ _ r hr; simp at hr
  | cons r0 R ih =>
    intro ps hR hin hdis r hr x hx1 hx2 hunc
    let f : SPart → Bool := fun p => decide (r0.beg ≤ p.beg ∧ p.beg + p.len ≤ r0.fin)
    have hpart := sumLen_filter_partition f ps
    have hin0 : ∀ q ∈ ps.filter f, 0 < q.len ∧ r0.beg ≤ q.beg ∧ q.beg + q.len ≤ r0.fin := by
      intro q hq
      have hq' := List.mem_filter.1 hq
      have h2 : r0.beg ≤ q.beg ∧ q.beg + q.len ≤ r0.fin := by simpa [f] using hq'.2
      exact ⟨(hin q hq'.1).1, h2.1, h2.2⟩
    have hin1 : ∀ q ∈ ps.filter (fun p => !f p), 0 < q.len ∧ insideOne R q := by
      intro q hq
      have hq' := List.mem_filter.1 hq
      have h2 : ¬ (r0.beg ≤ q.beg ∧ q.beg + q.len ≤ r0.fin) := by
          intro hc; have h3 := hq'.2; simp [f, hc] at h3
      obtain ⟨hpos, r, hr, hin'⟩ := hin q hq'.1
      rcases List.mem_cons.1 hr with rfl | hr
      · exact absurd hin' h2
      · exact ⟨hpos, r, hr, hin'⟩
    have hR' : ∀ r ∈ R, r.beg ≤ r.fin := fun r hr => hR r (List.mem_cons_of_mem _ hr)
    rcases List.mem_cons.1 hr with rfl | hr
    · have h0 := sumLen_lt_of_uncovered (ps.filter f) r.beg r.fin x hx1 hx2 hin0 (hdis.filter _)
        (fun q hq => hunc q (List.mem_filter.1 hq).1)
      have h1 := sumLen_le_sumRng R (ps.filter (fun p => !f p)) hR' hin1 (hdis.filter _)
      simp only [sumRng]; omega
    · have h0 := sumLen_le_of_disjoint_inside _ (ps.filter f) (Nat.le_refl _) r0.beg r0.fin
        (hR r0 (by simp)) hin0 (hdis.filter _)
      have h1 := ih (ps.filter (fun p => !f p)) hR' hin1 (hdis.filter _) r hr x hx1 hx2
        (fun q hq => hunc q (List.mem_filter.1 hq).1)
      simp only [sumRng]; omega

/-- pairwise disjoint non-empty parts, each inside one of the ranges `R`, whose lengths add
    up to at least the total size of `R`, contain every byte of every range of `R`. -/
theorem all_bytes_of_sum (R : List Rng) (ps : List SPart) (hR : ∀ r ∈ R, r.beg ≤ r.fin)
    (hin : ∀ p ∈ ps, 0 < p.len ∧ insideOne R p) (hdis : ps.Pairwise disjointParts)
    (hsum : sumRng R ≤ sumLen ps) :
    ∀ r ∈ R, ∀ x, r.beg ≤ x → x < r.fin → ∃ p ∈ ps, p.beg ≤ x ∧ x < p.beg + p.len := by
  intro r hr x hx1 hx2
  apply Classical.byContradiction
  intro hno
  have hunc : ∀ p ∈ ps, ¬ (p.beg ≤ x ∧ x < p.beg + p.len) := fun p hp hc => hno ⟨p, hp, hc⟩
  have := sumLen_lt_sumRng_of_uncovered R ps hR hin hdis r hr x hx1 hx2 hunc
  omega

/-- C08 `sent_only_when_all_bytes`. Hypotheses about what is queued (guaranteed by the queue
    and the chunking, C10/C11/C05 — `QueuedOnce`): the parts of this file version that reach
    the tracker are non-empty, pairwise disjoint, each inside one of the ranges `R` that are
    to be sent (the whole file `[0, size)`, or the missing ranges of a resumed file), and
    announce `sumRng R` as send size. Then the version is logged as sent / handed to the
    validator only when every byte of `R` is in a part that reached the tracker — and by
    `forwarded_only_acknowledged` every such part was acknowledged by the receiver. -/
theorem sent_only_when_all_bytes (payloads : List (List SPart)) (e : Prog)
    (he : e ∈ (trackAll {} payloads).logged ∨ e ∈ (trackAll {} payloads).handed)
    (R : List Rng) (hR : ∀ r ∈ R, r.beg ≤ r.fin)
    (hq : ∀ p ∈ payloads.flatten, p.name = e.name → p.hash = e.hash →
      0 < p.len ∧ insideOne R p ∧ p.sendSize = sumRng R)
    (hdis : payloads.flatten.Pairwise
      (fun p q => p.name = e.name → p.hash = e.hash → q.name = e.name → q.hash = e.hash →
        disjointParts p q)) :
    ∀ r ∈ R, ∀ x, r.beg ≤ x → x < r.fin →
      ∃ p ∈ payloads.flatten, p.name = e.name ∧ p.hash = e.hash ∧ p.beg ≤ x ∧ x < p.beg + p.len := by
  have he' : e ∈ (trackAll {} payloads).logged := by
    rcases he with h | h
    · exact h
    · exact validated_only_when_logged payloads e h
  obtain ⟨h1, h2, h3, h4, h5⟩ := sent_only_when_acknowledged_sum payloads e he'
  have hsub : ∀ p ∈ e.counted, p ∈ payloads.flatten := fun p hp => h5.subset hp
  have hin : ∀ p ∈ e.counted, 0 < p.len ∧ insideOne R p := by
    intro p hp
    have := hq p (hsub p hp) (h3 p hp).1 (h3 p hp).2
    exact ⟨this.1, this.2.1⟩
  have hd : e.counted.Pairwise disjointParts := by
    have := List.Pairwise.sublist h5 hdis
    refine List.Pairwise.imp_of_mem ?_ this
    intro p q hp hq' hpq
    exact hpq (h3 p hp).1 (h3 p hp).2 (h3 q hq').1 (h3 q hq').2
  have hsz : sumRng R ≤ sumLen e.counted := by
    cases hc : e.counted with
    | nil => exact absurd hc h2
    | cons p rest =>
      have hps := h4 p (by simp [hc])
      have := hq p (hsub p (by simp [hc])) (h3 p (by simp [hc])).1 (h3 p (by simp [hc])).2
      rw [hc] at h1
      omega
  intro r hr x hx1 hx2
  obtain ⟨p, hp, hc⟩ := all_bytes_of_sum R e.counted hR hin hd hsz r hr x hx1 hx2
  exact ⟨p, hsub p hp, (h3 p hp).1, (h3 p hp).2, hc⟩

/-- The `QueuedOnce` caveat: without the disjointness hypothesis the statement is false for
    the code as it is. The same part of `a` (bytes 0..4 of 10) reaching the tracker twice — the
    file was queued again with the same hash while the first emission was in flight, or
    after its other parts were dropped as "changed" — completes the entry: `a` is logged as
    sent and handed to the validator although bytes 5..9 were never part of any payload. -/
theorem sent_without_all_bytes_when_queued_twice :
    let p : SPart := ⟨0, "a", "h", 0, 5, 10, 10⟩
    let st := trackAll {} [[p], [p]]
    st.logged.map (fun e => (e.name, e.hash, e.size, e.sent)) = [("a", "h", 10, 10)] ∧
    st.handed.map (fun e => (e.name, e.hash)) = [("a", "h")] ∧
    ¬ ∃ q ∈ [[p], [p]].flatten, q.beg ≤ 5 ∧ 5 < q.beg + q.len := by
  refine ⟨by decide, by decide, by decide⟩

/-- the same caveat as it can arise from the retry loop itself: part 0 of `a` is acknowledged
    (206 with count 1), parts 1 and 2 are dropped because the file "changed" (touched, same
    content), the next scan queues the same version again; after parts 0 and 1 of the second
    emission the tracker has counted 15 of 15 bytes and logs `a` as sent, bytes 10..14 were in
    no forwarded part. -/
theorem sent_early_after_drop_and_requeue :
    let a0 : SPart := ⟨0, "a", "h", 0, 5, 15, 15⟩
    let a1 : SPart := ⟨1, "a", "h", 5, 5, 15, 15⟩
    let a2 : SPart := ⟨2, "a", "h", 10, 5, 15, 15⟩
    let out := sendLoop (fun _ p => decide (p.name = "a")) ⟨[a0, a1, a2], 100, 10, 15⟩ 0 [.fail 1] []
    out.forwarded.map (·.parts) = [[a0]] ∧ out.dropped = [a1, a2] ∧
    (trackAll {} [[a0], [a0], [a1]]).logged.map (fun e => (e.name, e.sent, e.size)) = [("a", 15, 15)] ∧
    ¬ ∃ q ∈ [[a0], [a0], [a1]].flatten, q.beg ≤ 10 ∧ 10 < q.beg + q.len := by
  refine ⟨by decide, by decide, by decide, by decide⟩

/-! ## payload/bin.go Add: what the binner puts into a payload -/

/-- `Add` only ever adds a non-empty piece that starts where the chunk starts and lies
    inside the chunk, and keeps the byte count consistent. -/
theorem add_spec (b : SBin) (c : SPart) :
    ((b.add c).2 = false ∧ (b.add c).1 = b) ∨
    (∃ q : SPart, (b.add c).1.parts = b.parts ++ [q] ∧ 0 < q.len ∧ q.len ≤ c.len ∧ q.beg = c.beg ∧
      q.name = c.name ∧ q.hash = c.hash ∧ q.sendSize = c.sendSize ∧ q.id = c.id ∧
      (b.add c).1.bytes = b.bytes + q.len) := by
  unfold SBin.add
  simp only
  split
  · right
    refine ⟨_, rfl, by assumption, ?_, rfl, rfl, rfl, rfl, rfl, rfl⟩
    simp only
    omega
  · left; exact ⟨rfl, rfl⟩

theorem add_consistent (b : SBin) (c : SPart) (h : b.consistent) : (b.add c).1.consistent := by
  rcases add_spec b c with ⟨_, h2⟩ | ⟨q, h1, _, _, _, _, _, _, _, h3⟩
  · rw [h2]; exact h
  · unfold SBin.consistent at h ⊢
    rw [h1, h3, sumLen_append]; simp [sumLen]; omega

/-! ## non-vacuity: the hypotheses are met by ordinary runs -/

section Examples

private def q0 : SPart := ⟨0, "a", "h", 0, 5, 10, 10⟩
private def q1 : SPart := ⟨1, "a", "h", 5, 5, 10, 10⟩
private def q2 : SPart := ⟨2, "b", "g", 0, 7, 7, 7⟩
private def q3 : SPart := ⟨3, "c", "i", 0, 4, 4, 4⟩
private def bin4 : SBin := ⟨[q0, q1, q2, q3], 100, 10, 21⟩

/-- a run with a counted failure, a failure without count, two failing recovery requests,
    and a file that is gone from the second failure on: head [q0] forwarded, then [q1]; q2
    is dropped, `Remove` moves q3 forward; the rest [q3] is forwarded after the `ok`. -/
example :
    let out := sendLoop (fun r p => decide (p.name = "b" ∧ 1 ≤ r)) bin4 0
      [.fail 1, .fail 0, .ok] [.err, .err, .ok 1]
    out.attempts.map (·.parts) = [[q0, q1, q2, q3], [q1, q2, q3], [q3]] ∧
    out.attempts.map (·.reported) = [1, 1, 1] ∧
    out.forwarded.map (·.parts) = [[q0], [q1], [q3]] ∧
    out.forwarded.map (·.bytes) = [5, 5, 4] ∧
    out.dropped = [q2] := by decide

/-- count = number of parts: nothing is transmitted again, the whole payload is forwarded -/
example :
    let out := sendLoop (fun _ _ => false) bin4 0 [.fail 0, .ok] [.ok 4]
    out.attempts.length = 1 ∧ out.forwarded.map (·.parts) = [[q0, q1, q2, q3]] := by decide

/-- hypotheses of `forwarded_parts_recorded` hold for a receiver that has q0 and q1 on
    record when it reports 2 (and everything at the final `ok`) -/
example : receivedCount (fun p => decide (p.id < 2)) [q0, q1, q2, q3] = 2 := by decide

/-- hypotheses of `sent_only_when_all_bytes`: file `a` of 10 bytes, sent whole in two parts
    over two payloads, is logged and handed to the validator after the second. -/
example :
    let st := trackAll {} [[q0, q2], [q1, q3]]
    st.logged.map (fun e => (e.name, e.sent, e.size)) = [("b", 7, 7), ("a", 10, 10), ("c", 4, 4)] ∧
    st.handed.map (·.name) = ["b", "a", "c"] ∧ st.progress = [] ∧
    (∀ p ∈ [[q0, q2], [q1, q3]].flatten, p.name = "a" → p.hash = "h" →
      0 < p.len ∧ insideOne [⟨0, 10⟩] p ∧ p.sendSize = sumRng [⟨0, 10⟩]) := by
  refine ⟨by decide, by decide, by decide, ?_⟩
  intro p hp hn _
  have : p = q0 ∨ p = q1 := by
    simp only [List.flatten_cons, List.flatten_nil, List.append_nil, List.cons_append,
      List.nil_append, List.mem_cons, List.not_mem_nil, or_false] at hp
    rcases hp with rfl | rfl | rfl | rfl
    · exact Or.inl rfl
    · exact absurd hn (by decide)
    · exact Or.inr rfl
    · exact absurd hn (by decide)
  rcases this with rfl | rfl
  · exact ⟨by decide, ⟨⟨0, 10⟩, by simp, by decide⟩, by decide⟩
  · exact ⟨by decide, ⟨⟨0, 10⟩, by simp, by decide⟩, by decide⟩

/-- a changed file (new hash) resets the entry: the 5 bytes counted for `h` do not count for `h2` -/
example :
    let st := trackAll {} [[q0], [⟨0, "a", "h2", 0, 6, 8, 8⟩], [⟨1, "a", "h2", 6, 2, 8, 8⟩]]
    st.logged.map (fun e => (e.name, e.hash, e.sent, e.size)) = [("a", "h2", 8, 8)] := by decide

/-- records as Receive builds them, counted by Received: the third part is on record but
    not counted (the second is missing); a part of another version of the file is not counted -/
example :
    let recs := recvRecord (recvRecord [] "a" "h" 0 5) "a" "h" 10 15
    receivedCount (recvTest recs)
      [⟨0, "a", "h", 0, 5, 15, 15⟩, ⟨1, "a", "h", 5, 5, 15, 15⟩, ⟨2, "a", "h", 10, 5, 15, 15⟩] = 1 ∧
    receivedCount (recvTest recs) [⟨0, "a", "h2", 0, 5, 15, 15⟩] = 0 ∧
    receivedCount (recvTest (recvRecord recs "a" "h" 5 10))
      [⟨0, "a", "h", 0, 5, 15, 15⟩, ⟨1, "a", "h", 5, 5, 15, 15⟩, ⟨2, "a", "h", 10, 5, 15, 15⟩] = 3 := by
  decide

/-- Received counts only the leading parts: a recorded part behind a missing one is not counted -/
example : receivedCount (onRecord [⟨0, 5⟩, ⟨10, 15⟩])
    [⟨0, "a", "h", 0, 5, 15, 15⟩, ⟨1, "a", "h", 5, 5, 15, 15⟩, ⟨2, "a", "h", 10, 5, 15, 15⟩] = 1 := by
  decide

end Examples

end Sts
