/-
  C09 — the receiver's record of partly received files is sound (L0 part: the three
  helpers of stage/companion.go; the state-machine part `record_sound` lives in
  Props/C09Stage once the Stage model is imported).
-/
import StsModel.Model.Ranges

namespace Sts

/-! ## addCompanionPart -/

/-- Every range on record after an insertion was on record before or is the new one. -/
theorem addPart_mem (ps : List Rng) (b e : Int) :
    ∀ r ∈ (addPart ps b e).1, r ∈ ps ∨ r = ⟨b, e⟩ := by
  induction ps with
  | nil => intro r hr; simp [addPart] at hr; exact Or.inr hr
  | cons p ps ih =>
    intro r hr
    unfold addPart at hr
    split at hr
    · simp only [List.mem_cons] at hr
      rcases hr with h | h
      · exact Or.inl (by simp [h])
      · rcases ih r h with h' | h'
        · exact Or.inl (by simp [h'])
        · exact Or.inr h'
    · split at hr
      · simp only [List.mem_cons] at hr
        rcases hr with h | h | h
        · exact Or.inr h
        · exact Or.inl (by simp [h])
        · exact Or.inl (by simp [h])
      · simp only [List.mem_cons] at hr
        rcases hr with h | h
        · exact Or.inr h
        · exact Or.inl (by simp [h])

/-- The new range is always on record afterwards. -/
theorem addPart_new_mem (ps : List Rng) (b e : Int) : (⟨b, e⟩ : Rng) ∈ (addPart ps b e).1 := by
  induction ps with
  | nil => simp [addPart]
  | cons p ps ih =>
    unfold addPart
    split
    · simp [ih]
    · split <;> simp

/-- At most one old range is dropped, it is the one reported as replaced, and it really
    conflicts with (overlaps) the new range when the new range is non-empty. -/
theorem addPart_drops_only_replaced (ps : List Rng) (b e : Int) :
    ∀ r ∈ ps, r ∈ (addPart ps b e).1 ∨ (addPart ps b e).2 = some r := by
  induction ps with
  | nil => intro r hr; cases hr
  | cons p ps ih =>
    intro r hr
    unfold addPart
    split
    · simp only [List.mem_cons] at hr ⊢
      rcases hr with h | h
      · exact Or.inl (Or.inl h)
      · rcases ih r h with h' | h'
        · exact Or.inl (Or.inr h')
        · exact Or.inr h'
    · split
      · exact Or.inl (by simp only [List.mem_cons] at hr ⊢; exact Or.inr hr)
      · simp only [List.mem_cons] at hr ⊢
        rcases hr with h | h
        · exact Or.inr (by simp [h])
        · exact Or.inl (Or.inr h)

theorem addPart_replaced_overlaps (ps : List Rng) (b e : Int) (r : Rng)
    (h : (addPart ps b e).2 = some r) : r ∈ ps ∧ b < r.fin ∧ r.beg < e := by
  induction ps with
  | nil => simp [addPart] at h
  | cons p ps ih =>
    unfold addPart at h
    split at h
    · have := ih h
      exact ⟨by simp [this.1], this.2⟩
    · split at h
      · simp at h
      · simp at h
        subst h
        exact ⟨by simp, by omega, by omega⟩

/-- A part that conflicts with nothing on record (disjoint from every recorded range)
    replaces nothing: every byte covered before stays covered. -/
theorem addPart_retains (ps : List Rng) (b e : Int)
    (hdis : ∀ p ∈ ps, p.fin ≤ b ∨ e ≤ p.beg) :
    (addPart ps b e).2 = none ∧ ∀ x, covered ps x → covered (addPart ps b e).1 x := by
  constructor
  · cases hr : (addPart ps b e).2 with
    | none => rfl
    | some r =>
      have := addPart_replaced_overlaps ps b e r hr
      rcases hdis r this.1 with h | h <;> omega
  · intro x ⟨p, hp, hx⟩
    rcases addPart_drops_only_replaced ps b e p hp with h | h
    · exact ⟨p, h, hx⟩
    · have := addPart_replaced_overlaps ps b e p h
      rcases hdis p this.1 with h' | h' <;> omega

/-- An identical part (retransmission) keeps every covered byte covered, too. -/
theorem addPart_retains_identical (ps : List Rng) (b e : Int) (x : Int)
    (hx : covered ps x) (hsame : ∀ p ∈ ps, (p.fin ≤ b ∨ e ≤ p.beg) ∨ p = ⟨b, e⟩) :
    covered (addPart ps b e).1 x := by
  obtain ⟨p, hp, hx⟩ := hx
  rcases addPart_drops_only_replaced ps b e p hp with h | h
  · exact ⟨p, h, hx⟩
  · have hov := addPart_replaced_overlaps ps b e p h
    rcases hsame p hp with h' | h'
    · rcases h' with h' | h' <;> omega
    · exact ⟨⟨b, e⟩, addPart_new_mem ps b e, by subst h'; exact hx⟩

/-! ## isCompanionComplete -/

theorem chain_cover (q : Rng) (ps : List Rng) (h : chainOk q ps = true) (x : Int)
    (hx1 : q.beg ≤ x) (hx2 : x < lastFin q ps) : covered (q :: ps) x := by
  induction ps generalizing q with
  | nil => exact ⟨q, by simp, hx1, by simpa [lastFin] using hx2⟩
  | cons p ps ih =>
    simp only [chainOk, Bool.and_eq_true, decide_eq_true_eq] at h
    by_cases hq : x < q.fin
    · exact ⟨q, by simp, hx1, hq⟩
    · have : covered (p :: ps) x := ih p h.2 (by omega) (by simpa [lastFin] using hx2)
      rcases this with ⟨r, hr, h1, h2⟩
      exact ⟨r, by simp only [List.mem_cons] at hr ⊢; exact Or.inr hr, h1, h2⟩

/-- A file is treated as complete only when the recorded ranges cover it from the first
    to the last byte — for *arbitrary* records (overlapping, unsorted, inverted). -/
theorem isComplete_sound (ps : List Rng) (size : Int) (h : isComplete ps size = true)
    (x : Int) (h0 : 0 ≤ x) (h1 : x < size) : covered ps x := by
  match ps, h with
  | [p], h =>
    simp [isComplete] at h
    exact ⟨p, by simp, by omega, by omega⟩
  | p :: q :: rest, h =>
    simp [isComplete] at h
    obtain ⟨⟨hb, hl⟩, hc⟩ := h
    exact chain_cover p (q :: rest) hc x (by omega) (by simp [lastFin]; omega)

/-! ## companionPartExists (repaired) -/

theorem advance_inv (ps qs : List Rng) (hsub : ∀ q ∈ qs, q ∈ ps) (b pos : Int)
    (hcov : ∀ x, b ≤ x → x < pos → covered ps x) :
    pos ≤ advance qs pos ∧ ∀ x, b ≤ x → x < advance qs pos → covered ps x := by
  induction qs generalizing pos with
  | nil => exact ⟨by simp [advance], by simpa [advance] using hcov⟩
  | cons q qs ih =>
    have hq : q ∈ ps := hsub q (by simp)
    have hsub' : ∀ r ∈ qs, r ∈ ps := fun r hr => hsub r (by simp [hr])
    simp only [advance, List.foldl_cons]
    by_cases hc : q.beg ≤ pos ∧ pos < q.fin
    · simp only [hc, and_self, if_true]
      have := ih hsub' q.fin (by
        intro x hx1 hx2
        by_cases hlt : x < pos
        · exact hcov x hx1 hlt
        · exact ⟨q, hq, by omega, hx2⟩)
      exact ⟨by have := this.1; simp only [advance] at this; omega, this.2⟩
    · simp only [hc, if_false]
      exact ih hsub' pos hcov

theorem coverLoop_sound (ps : List Rng) (b e : Int) (n : Nat) (pos : Int)
    (hcov : ∀ x, b ≤ x → x < pos → covered ps x) (h : coverLoop ps e n pos = true) :
    ∀ x, b ≤ x → x < e → covered ps x := by
  induction n generalizing pos with
  | zero =>
    simp [coverLoop] at h
    intro x hx1 hx2; exact hcov x hx1 (by omega)
  | succ n ih =>
    unfold coverLoop at h
    split at h
    · intro x hx1 hx2; exact hcov x hx1 (by omega)
    · simp only at h
      split at h
      · simp at h
      · exact ih (advance ps pos) (advance_inv ps ps (fun _ h => h) b pos hcov).2 h

/-- C09 (query clause, full statement): "how many of these parts did you receive" counts
    a part only if every byte of its range is on record. -/
theorem partExists_sound (ps : List Rng) (b e : Int) (h : partExists ps b e = true) :
    ∀ x, b ≤ x → x < e → covered ps x := by
  unfold partExists at h
  split at h
  · simp at h
  · exact coverLoop_sound ps b e _ b (by intro x h1 h2; omega) h

/-- The defect repaired by `fix: companionPartExists counted overlapping recorded ranges
    twice` (F1): the original sum-of-overlaps test claims `[4,12)` for a record that was
    produced by `addPart` itself and never held bytes 10 and 11. -/
theorem partExistsSum_unsound :
    (addPart (addPart (addPart [] 0 4).1 6 10).1 2 8).1 = [⟨2, 8⟩, ⟨6, 10⟩] ∧
    partExistsSum [⟨2, 8⟩, ⟨6, 10⟩] 4 12 = true ∧ ¬ covered [⟨2, 8⟩, ⟨6, 10⟩] 10 ∧
    partExists [⟨2, 8⟩, ⟨6, 10⟩] 4 12 = false := by
  refine ⟨by decide, by decide, by decide, by decide⟩

/-! ## non-vacuity -/

example : partExists [⟨0, 10⟩, ⟨40, 50⟩, ⟨25, 35⟩, ⟨10, 25⟩] 7 13 = true := by decide
example : isComplete [⟨0, 5⟩, ⟨1, 2⟩, ⟨2, 8⟩] 8 = true := by decide
example : (addPart [⟨0, 4⟩, ⟨6, 10⟩] 4 6) = ([⟨0, 4⟩, ⟨4, 6⟩, ⟨6, 10⟩], none) := by decide

end Sts
